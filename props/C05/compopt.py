"""C05 leg "compressor configuration and on-disk compressor options" (coq/CompOpt, section CompOpt of Properties_C05.v).

Tie (exact): props/C05/compopt/h_compopt.c calls the REAL sqfs_compressor_config_init, compressor_cfg_init_options,
sqfs_compressor_create, cmp->write_options (into a file), cmp->read_options, cmp->get_configuration and
sqfs_super_read of the working tree (ASan+UBSan build); props/C05/compopt/driver.ml prints the same lines from the
extracted model.  Return codes, diagnostics classes, configuration fields and option block bytes must agree.

Search oracle (evaluated on the implementation's lines alone, whatever the model says):
  * a sanitizer report / signal / missing line of the harness;
  * read_options accepted a block but sqfs_compressor_create refuses the configuration it left behind;
  * the option block written for an accepted configuration, decoded independently by the format description
    (doc/format.adoc), does not carry the configuration or carries a value the format does not allow;
  * an option string of documented form whose numbers are not the ones that end up in the configuration,
    or that is refused although the documentation promises it works.
"""
import json
import os
import random
import shutil
import struct
import subprocess
import time

from vlib import build as B
from vlib import core

HERE = os.path.dirname(os.path.abspath(__file__))
CDIR = os.path.join(HERE, "compopt")
GEN_SRCS = ["gen_main.c", "gen_gzip.c", "gen_xz.c", "gen_lzma.c", "gen_lz4.c", "gen_zstd.c", "gen_cli.c"]

GZIP, LZMA, LZO, XZ, LZ4, ZSTD = 1, 2, 3, 4, 5, 6
NAMES = {GZIP: "gzip", LZMA: "lzma", LZO: "lzo", XZ: "xz", LZ4: "lz4", ZSTD: "zstd"}
UNCOMPRESS = 0x8000
SUPER = 96


# --------------------------------------------------------------------------
# constants for the model: coq/CompOpt/GenCompOpt.v, regenerated from the working tree before the proofs are
# re-checked (the module is imported by props/C05/check.py before core.prepare_proofs runs)
# --------------------------------------------------------------------------

def regen():
    dst = os.path.join(core.COQ, "CompOpt", "GenCompOpt.v")
    d = os.path.join(os.environ.get("TMPDIR", "/var/tmp"), "verif-c05co.%d" % os.getpid())
    os.makedirs(d, exist_ok=True)
    try:
        exe = os.path.join(d, "g")
        cmd = (["gcc", "-w", "-O1", "-ffunction-sections", "-fdata-sections"] + list(B.BASE_DEFS) +
               ["-I" + os.path.join(B.REPO, "include"), "-I" + os.path.dirname(B.config_h_path()), "-I" + B.REPO, "-I" + CDIR] +
               [os.path.join(CDIR, s) for s in GEN_SRCS] + ["-Wl,--gc-sections", "-lzstd", "-o", exe])
        rc, out = core.sh(cmd)
        if rc != 0:
            return "props/C05/compopt/gen_*.c do not compile against the current sources: " + out[-1500:]
        rc, txt = core.sh([exe])
        if rc != 0 or "co_lzo_algs" not in txt:
            return "CompOpt constants generator failed"
        with core.Lock("coq"):
            old = open(dst).read() if os.path.exists(dst) else None
            if old != txt:
                open(dst, "w").write(txt)
        return None
    finally:
        shutil.rmtree(d, ignore_errors=True)


# --------------------------------------------------------------------------
# case generation
# --------------------------------------------------------------------------

def hx(b):
    return b.hex() if b else "-"


def opt_bytes(id_, **kw):
    """the 16 bytes of the opt union for a configuration"""
    o = bytearray(16)
    if id_ in (GZIP, LZO):
        struct.pack_into("<H", o, 0, kw.get("w", 0) & 0xFFFF)
    elif id_ in (XZ, LZMA):
        struct.pack_into("<IBBB", o, 0, kw.get("dict", 0) & 0xFFFFFFFF, kw.get("lc", 3) & 255, kw.get("lp", 0) & 255,
                         kw.get("pb", 2) & 255)
    for k, v in kw.get("pad", {}).items():
        o[k] = v
    return bytes(o)


BLOCK_SIZES = [4096, 8192, 16384, 131072, 1048576]
ODD_BLOCK_SIZES = [0, 1, 4095, 8191, 8193, 12288, 2097152, (1 << 32), (1 << 32) + 4096, (1 << 40) + 8192]
DICTS = [0, 1, 2, 3, 4096, 6144, 8191, 8192, 8193, 12288, 14336, 15360, 16384, 24576, 28672, 61440, 65536, 98304, 114688,
         524288, 786432, 917504, 1048575, 1048576, 1048577, 1572864, 2097152, 0x80000000, 0xC0000000, 0xFFFFE000, 0xFFFFFFFF]


def init_cases(rnd):
    out = []
    for id_ in range(0, 9):
        for bs in rnd.sample(BLOCK_SIZES, 2) + rnd.sample(ODD_BLOCK_SIZES, 3):
            out.append("I %d %d 0" % (id_, bs))
        for fl in [1, 0x20, 0x40, 0x100, 0x13F, 0x1F, 0x3F, 0x8000, 0x801F, 0x813F, 0x8001, 0x4000, 0xFFFF, 0x10000, 0x18000]:
            out.append("I %d %d %d" % (id_, rnd.choice(BLOCK_SIZES), fl))
    return out


NUMS = ["0", "1", "5", "9", "10", "7", "8", "15", "16", "22", "23", "4", "3", "2", "-1", "+3", " 3", "\t9", "09", "009", "9x", "x9", "",
        "3.5", "1e1", "0x9", "2147483647", "2147483648", "4294967295", "4294967296", "4294967297", "4294967305", "4294967311",
        "9223372036854775807", "9223372036854775808", "18446744073709551615", "18446744073709551616",
        "18446744073709551625", "99999999999999999999999", "-4294967287", "-9223372036854775809", "3 ", "3,", "--3", "+-3"]
SIZES = ["8192", "8191", "8193", "1048576", "1048577", "12288", "14336", "61440", "98304", "8K", "8k", "12K", "1M", "1m", "2M",
         "1G", "1g", "0K", "8Kx", "8KK", "K", "%", "50%", "100%", "25%", "75%", "6%", "7%", "800%", "1000%", "50%%", "50%K", "50 %",
         "4294975488", "4294967296", "4294967297K", "18014398509481984K", "18446744073709551615", "18446744073709551616",
         "1844674407370955161", "1844674407370955162", "17592186044416M", "17179869184G", "184467440737095516%", "", "-8192",
         "+8192", " 8192", "0x2000", "8192 ", "3072", "24K", "786432", "917504", "65536", "16K", "32K", "64K", "128K", "256K", "512K"]
JUNK = ["", "=", "=3", "level", "window", "dictsize", "lc", "algorithm", "levelx", "Level=3", "level =3", "lev=3", "foo", "foo=1",
        "hc=1", "x86=1", "extreme=", "default=", " hc", "hc ", "HC", "level=3=4", "window==9", "\x01", "\xff\xfe", "level=\xff"]


def subopt_pool(id_):
    pool = []
    flags = {GZIP: ["default", "filtered", "huffman", "rle", "fixed"], XZ: ["x86", "powerpc", "ia64", "arm", "armthumb", "sparc", "extreme"],
             LZMA: ["extreme"], LZ4: ["hc"]}.get(id_, [])
    foreign = ["hc", "x86", "extreme", "rle", "default", "lzo1x_999"]
    keys = {GZIP: ["level", "window"], XZ: ["level", "dictsize", "lc", "lp", "pb"], LZMA: ["level", "dictsize", "lc", "lp", "pb"],
            ZSTD: ["level"], LZO: ["level", "algorithm"], LZ4: []}[id_]
    return flags, foreign, keys


def rand_subopt(rnd, id_):
    flags, foreign, keys = subopt_pool(id_)
    r = rnd.random()
    allkeys = ["window", "level", "algorithm", "dictsize", "lc", "lp", "pb"]
    if r < 0.18 and flags:
        return rnd.choice(flags)
    if r < 0.24:
        return rnd.choice(foreign)
    if r < 0.32:
        return rnd.choice(JUNK)
    k = rnd.choice(keys) if keys and rnd.random() < 0.85 else rnd.choice(allkeys)
    if k == "dictsize":
        v = rnd.choice(SIZES) if rnd.random() < 0.8 else rnd.choice(NUMS)
    elif k == "algorithm":
        v = rnd.choice(["lzo1x_1", "lzo1x_1_11", "lzo1x_1_12", "lzo1x_1_15", "lzo1x_999", "lzo1x", "", "LZO1X_1", "lzo1x_999 ", "4"])
    else:
        v = rnd.choice(NUMS)
    if rnd.random() < 0.05:
        return k
    return k + "=" + v


def string_cases(rnd, tier):
    """(case line, description for the documented-form oracle or None)"""
    out = []
    # systematic: every key of every compressor with every number / size, alone
    for id_ in (GZIP, LZMA, LZO, XZ, LZ4, ZSTD):
        flags, foreign, keys = subopt_pool(id_)
        bs0 = 131072
        for k in ["window", "level", "algorithm", "dictsize", "lc", "lp", "pb"]:
            vals = SIZES if k == "dictsize" else NUMS
            if k not in keys:
                vals = rnd.sample(vals, 4)
            elif tier == "quick":
                vals = vals if id_ in (GZIP, XZ) else rnd.sample(vals, max(8, len(vals) // 3))
            for v in vals:
                bs = bs0 if rnd.random() < 0.6 else rnd.choice(BLOCK_SIZES)
                out.append((id_, bs, (k + "=" + v).encode("latin-1")))
        for f in flags + foreign + JUNK:
            out.append((id_, rnd.choice(BLOCK_SIZES), f.encode("latin-1")))
        out.append((id_, 131072, None))
        out.append((id_, 131072, b""))
        for lc in range(0, 6):
            for lp in range(0, 6):
                if id_ in (XZ, LZMA) and (tier != "quick" or rnd.random() < 0.5):
                    out.append((id_, 131072, ("lc=%d,lp=%d" % (lc, lp)).encode()))
    # random combinations
    n = 500 if tier == "quick" else 20000
    for _ in range(n):
        id_ = rnd.choice([GZIP, GZIP, XZ, XZ, XZ, LZMA, LZO, LZ4, ZSTD, 0, 7])
        if id_ in (0, 7):
            out.append((id_, 131072, b"level=3"))
            continue
        parts = [rand_subopt(rnd, id_) for _ in range(rnd.choice([1, 1, 2, 2, 3, 4, 6]))]
        s = ",".join(parts)
        if rnd.random() < 0.1:
            s += ","
        if rnd.random() < 0.05:
            s = "," + s
        bs = rnd.choice(BLOCK_SIZES) if rnd.random() < 0.9 else rnd.choice(ODD_BLOCK_SIZES)
        out.append((id_, bs, s.encode("latin-1")))
    lines = []
    for id_, bs, s in out:
        if s is not None and b"\0" in s:
            continue
        lines.append("S %d %d %s" % (id_, bs, "NULL" if s is None else hx(s)))
    return lines, out


def config_cases(rnd, tier):
    out = []

    def add(id_, flags, bs, level, opt):
        out.append("C %d %d %d %d %s" % (id_, flags, bs, level, opt.hex()))
    # gzip: level / window at the edges, every flag pattern class, padding
    for level in (0, 1, 2, 8, 9, 10, 255, 256, 265, 0xFFFFFFFF):
        for w in (0, 7, 8, 9, 14, 15, 16, 255, 271, 0xFFFF):
            if tier == "quick" and level not in (0, 1, 9, 10) and w not in (7, 8, 15, 16):
                continue
            add(GZIP, rnd.choice([0, 0, 1, 0x1F, 0x8000, 0x8004]), rnd.choice(BLOCK_SIZES), level, opt_bytes(GZIP, w=w))
    for fl in (0, 1, 2, 4, 8, 0x10, 0x1F, 0x20, 0x3F, 0x100, 0x8000, 0x801F, 0x8020, 0x4000, 0xFFFF):
        add(GZIP, fl, 131072, rnd.choice([1, 5, 9]), opt_bytes(GZIP, w=rnd.choice([8, 12, 15])))
    for k in range(2, 16):
        add(GZIP, 0, 131072, 9, opt_bytes(GZIP, w=15, pad={k: rnd.choice([1, 0x80, 0xFF])}))
    # xz / lzma
    for id_ in (XZ, LZMA):
        for d in DICTS:
            add(id_, rnd.choice([0, 0, 1, 0x100, 0x8000]), rnd.choice(BLOCK_SIZES), rnd.choice([0, 5, 6, 9]), opt_bytes(id_, dict=d))
        for n in range(0, 32):
            for d in ((1 << n), (1 << n) + ((1 << n) >> 1), (1 << n) + ((1 << n) >> 1) + ((1 << n) >> 2), (1 << n) + ((1 << n) >> 2)):
                if tier == "quick" and not (11 <= n <= 21):
                    continue
                add(id_, 0, 131072, 6, opt_bytes(id_, dict=d))
        for lc in range(0, 6):
            for lp in range(0, 6):
                add(id_, 0, 131072, 6, opt_bytes(id_, dict=131072, lc=lc, lp=lp))
        for pb in (0, 1, 4, 5, 255):
            add(id_, 0, 131072, 6, opt_bytes(id_, dict=131072, pb=pb))
        add(id_, 0, 131072, 6, opt_bytes(id_, dict=131072, lc=255, lp=2))
        add(id_, 0, 131072, 6, opt_bytes(id_, dict=131072, lc=254, lp=255))
        for level in (0, 1, 9, 10, 255, 256, 262, 0xFFFFFFFF):
            add(id_, 0, 131072, level, opt_bytes(id_, dict=131072))
        for fl in (0, 1, 2, 0x20, 0x3F, 0x40, 0x80, 0x100, 0x13F, 0x200, 0x8000, 0x813F, 0x8001, 0x4000, 0xFFFF):
            add(id_, fl, rnd.choice([4096, 8192, 131072]), 6, opt_bytes(id_, dict=rnd.choice([8192, 131072])))
        for k in range(7, 16):
            add(id_, 0, 131072, 6, opt_bytes(id_, dict=131072, pad={k: rnd.choice([1, 0xFF])}))
        # options written or not: dictionary = / != block size
        for bs in BLOCK_SIZES:
            for d in (bs, max(8192, bs // 2), min(1048576, bs * 2), 8192):
                add(id_, rnd.choice([0, 0x100, 1]), bs, 6, opt_bytes(id_, dict=d))
    # lz4, zstd, lzo, ids out of range
    for fl in (0, 1, 2, 3, 0x8000, 0x8001, 0x8002, 0x100, 0xFFFF):
        for level in (0, 1):
            add(LZ4, fl, 131072, level, bytes(16))
    for k in range(0, 16):
        add(LZ4, 1, 131072, 0, opt_bytes(LZ4, pad={k: 1}))
        add(ZSTD, 0, 131072, 15, opt_bytes(ZSTD, pad={k: 0x80}))
    for level in (0, 1, 2, 14, 15, 16, 21, 22, 23, 100, 255, 256, 0x7FFFFFFF, 0x80000000, 0xFFFFFFFF):
        for fl in (0, 0x8000, 1):
            add(ZSTD, fl, rnd.choice(BLOCK_SIZES), level, bytes(16))
    for id_ in (0, LZO, 7, 8, 255, 65535):
        add(id_, 0, 131072, 8, opt_bytes(LZO, w=4))
    # random configurations
    n = 150 if tier == "quick" else 6000
    for _ in range(n):
        id_ = rnd.choice([GZIP, XZ, LZMA, LZ4, ZSTD])
        fl = rnd.choice([0, 0, 0x8000]) | rnd.choice([0, 0, 1, 2, 0x1F, 0x20, 0x100, 0x13F, rnd.randrange(0x10000)])
        level = rnd.choice([0, 1, 6, 9, 10, 15, 22, 23, rnd.randrange(30)])
        if id_ == GZIP:
            o = opt_bytes(id_, w=rnd.choice([7, 8, 9, 15, 16, rnd.randrange(20)]))
        elif id_ in (XZ, LZMA):
            o = opt_bytes(id_, dict=rnd.choice(DICTS + [1 << rnd.randrange(12, 22)]), lc=rnd.randrange(6), lp=rnd.randrange(6),
                          pb=rnd.randrange(6))
        else:
            o = bytes(16)
        if rnd.random() < 0.05:
            o = bytearray(o)
            o[rnd.randrange(16)] ^= 1 << rnd.randrange(8)
            o = bytes(o)
        add(id_, fl, rnd.choice(BLOCK_SIZES), level, o)
    return out


def block(payload, hdr=None):
    h = (0x8000 | len(payload)) if hdr is None else hdr
    return struct.pack("<H", h & 0xFFFF) + payload


def hostile_blocks(rnd, tier):
    """(id, block size, bytes behind the super block)"""
    out = []
    good = {
        GZIP: struct.pack("<IHH", 9, 15, 0),
        XZ: struct.pack("<II", 131072, 0),
        LZ4: struct.pack("<II", 1, 0),
        ZSTD: struct.pack("<I", 15),
        LZMA: b"",
    }
    for id_, g in good.items():
        bs = 131072
        out.append((id_, bs, block(g)))
        # truncated files, wrong header sizes, compressed bit, trailing bytes
        full = block(g) + b"\xAA" * 4
        for k in range(0, len(full) + 1):
            out.append((id_, bs, full[:k]))
        for hdr in (0, len(g), 0x8000, 0x8000 | (len(g) - 1 if g else 1), 0x8000 | (len(g) + 1), 0x8000 | 8192, 0xFFFF, 0x7FFF,
                    0x8000 | 62, 0x8000 | 64, 0x4000 | len(g), 0x8100 | len(g)):
            out.append((id_, bs, block(g + b"\0" * 70, hdr)))
        for _ in range(12 if tier == "quick" else 400):
            n = rnd.choice([len(g) + 2, len(g) + 2, rnd.randrange(0, 20)])
            b = bytes(rnd.randrange(256) for _ in range(n))
            if rnd.random() < 0.7 and n >= 2:
                b = struct.pack("<H", 0x8000 | len(g)) + b[2:]
            out.append((id_, bs, b))
    # gzip: every field at min-1 / min / max / max+1
    for level in (0, 1, 5, 9, 10, 256 + 9, 0x80000009, 0xFFFFFFFF):
        for w in (0, 7, 8, 15, 16, 256 + 15, 0xFFFF):
            for st in (0, 1, 0x10, 0x1F, 0x20, 0x3F, 0x8000, 0xFFFF):
                if tier == "quick" and rnd.random() < 0.55:
                    continue
                out.append((GZIP, rnd.choice(BLOCK_SIZES), block(struct.pack("<IHH", level, w, st))))
    # xz: dictionary sizes (shape, range), filter flags
    for d in DICTS + [(1 << n) for n in range(0, 32)] + [(3 << n) for n in range(0, 31)] + [(7 << n) for n in range(0, 30)] + \
            [(5 << n) for n in range(8, 20)] + [(15 << n) for n in range(8, 20)]:
        out.append((XZ, rnd.choice(BLOCK_SIZES), block(struct.pack("<II", d, rnd.choice([0, 0, 1, 0x3F])))))
    for fl in (0, 1, 0x20, 0x3F, 0x40, 0x80, 0x100, 0x13F, 0x140, 0x200, 0x8000, 0x10000, 0x80000000, 0xFFFFFFFF):
        out.append((XZ, 131072, block(struct.pack("<II", 131072, fl))))
    # lz4: version, flags
    for v in (0, 1, 2, 256 + 1, 0x01000000, 0xFFFFFFFF):
        for fl in (0, 1, 2, 0xFFFFFFFF):
            out.append((LZ4, 131072, block(struct.pack("<II", v, fl))))
    # swapped fields
    out.append((LZ4, 131072, block(struct.pack("<II", 0, 1))))
    out.append((XZ, 131072, block(struct.pack("<II", 1, 131072))))
    # zstd: any level is taken
    for lv in (0, 1, 15, 22, 23, 0xFFFFFFFF):
        out.append((ZSTD, 131072, block(struct.pack("<I", lv))))
    for id_ in (0, LZO, 7):
        out.append((id_, 131072, block(struct.pack("<II", 4, 8))))
    return out


def super_block(comp, bs, flags, blog=None, magic=0x73717368, major=4, minor=0, idc=1):
    if blog is None:
        blog = max(0, bs.bit_length() - 1)
    return struct.pack("<IIIIIHHHHHHQQQQQQQQ", magic, 1, 0, bs & 0xFFFFFFFF, 0, comp & 0xFFFF, blog & 0xFFFF, flags & 0xFFFF, idc, major,
                       minor, 0, 96, 96, 0xFFFFFFFFFFFFFFFF, 96, 96, 0xFFFFFFFFFFFFFFFF, 0xFFFFFFFFFFFFFFFF)


def image_cases(rnd, tier, blocks):
    out = []
    sample = blocks if tier != "quick" else rnd.sample(blocks, min(len(blocks), 260))
    for id_, bs, b in sample:
        fl = 0x0400 if rnd.random() < 0.85 else rnd.choice([0, 0x0001, 0x0BFF])
        out.append(super_block(id_, rnd.choice(BLOCK_SIZES), fl | rnd.choice([0, 0, 0x00C0])) + b)
    for id_ in range(0, 9):
        out.append(super_block(id_, 131072, 0x0400) + block(struct.pack("<II", 1, 0)))
        out.append(super_block(id_, 131072, 0))
    out.append(super_block(GZIP, 131072, 0x0400, magic=0x12345678))
    out.append(super_block(GZIP, 131072, 0x0400, blog=16))
    out.append(super_block(GZIP, 2048, 0x0400))
    out.append(super_block(GZIP, 131072, 0x0400)[:50])
    out.append(b"")
    return out


# --------------------------------------------------------------------------
# independent reading of result lines (search oracle)
# --------------------------------------------------------------------------

def fields(line):
    d = {}
    for w in line.split(" ")[1:]:
        if "=" in w:
            k, v = w.split("=", 1)
            d.setdefault(k, []).append(v)
    return d


def cfg_of(s):
    p = s.split(":")
    return dict(id=int(p[0]), flags=int(p[1]), bs=int(p[2]), level=int(p[3]), opt=bytes.fromhex(p[4]))


def shape_ok(d):
    return any(d == (1 << n) or d == (1 << n) + (1 << (n + 1)) for n in range(0, 33))


def check_written(conf, bs_bytes):
    """the option block a compressing back end wrote for [conf], read by the format description; list of complaints"""
    bad = []
    if len(bs_bytes) < 2:
        return ["options block shorter than its header"]
    h = struct.unpack_from("<H", bs_bytes)[0]
    payload = bs_bytes[2:]
    if not (h & 0x8000):
        bad.append("header without the uncompressed bit")
    if (h & 0x7FFF) != len(payload):
        bad.append("header size %d != payload %d" % (h & 0x7FFF, len(payload)))
    id_ = conf["id"]
    if id_ == GZIP:
        if len(payload) != 8:
            return bad + ["gzip payload is %d bytes" % len(payload)]
        level, window, strat = struct.unpack("<IHH", payload)
        w = struct.unpack_from("<H", conf["opt"])[0]
        if (level, window, strat) != (conf["level"], w, conf["flags"] & 0x1F):
            bad.append("gzip block (%d,%d,%#x) does not carry the configuration (%d,%d,%#x)" % (level, window, strat, conf["level"], w,
                                                                                                 conf["flags"] & 0x1F))
        if not (1 <= level <= 9 and 8 <= window <= 15 and strat <= 0x1F):
            bad.append("gzip block outside the format's ranges (%d,%d,%#x)" % (level, window, strat))
    elif id_ == XZ:
        if len(payload) != 8:
            return bad + ["xz payload is %d bytes" % len(payload)]
        d, fl = struct.unpack("<II", payload)
        cd = struct.unpack_from("<I", conf["opt"])[0]
        if d != cd or fl != (conf["flags"] & 0x3F):
            bad.append("xz block (%d,%#x) does not carry the configuration (%d,%#x)" % (d, fl, cd, conf["flags"] & 0x3F))
        if fl & ~0x3F:
            bad.append("xz filter bits outside the format (%#x)" % fl)
        if not shape_ok(d):
            bad.append("SHAPE xz dictionary size %d is neither 2^n nor 2^n+2^(n+1)" % d)
        elif d < 8192:
            bad.append("xz dictionary size %d below 8 KiB" % d)
    elif id_ == LZ4:
        if len(payload) != 8:
            return bad + ["lz4 payload is %d bytes" % len(payload)]
        v, fl = struct.unpack("<II", payload)
        if v != 1:
            bad.append("lz4 version %d" % v)
        if fl != (conf["flags"] & 1):
            bad.append("lz4 flags %#x for configuration flags %#x" % (fl, conf["flags"]))
    elif id_ == ZSTD:
        if len(payload) != 4:
            return bad + ["zstd payload is %d bytes" % len(payload)]
        lv = struct.unpack("<I", payload)[0]
        if lv != conf["level"] or not 1 <= lv <= 22:
            bad.append("zstd level %d for configuration level %d" % (lv, conf["level"]))
    elif id_ == LZMA:
        bad.append("lzma must never have an options block")
    return bad


DOC_RANGES = {(GZIP, "level"): (1, 9), (GZIP, "window"): (8, 15), (XZ, "level"): (0, 9), (LZMA, "level"): (0, 9), (ZSTD, "level"): (1, 22),
              (XZ, "lc"): (0, 4), (XZ, "lp"): (0, 4), (XZ, "pb"): (0, 4), (LZMA, "lc"): (0, 4), (LZMA, "lp"): (0, 4), (LZMA, "pb"): (0, 4),
              (XZ, "dictsize"): (8192, 1048576), (LZMA, "dictsize"): (8192, 1048576)}


def documented_meaning(id_, bs, s):
    """For an option string of the documented form key=<decimal>[K|M|%] (single option): (key, value it denotes).
    None for anything else (the oracle then has no opinion)."""
    if s is None or b"," in s or b"=" not in s:
        return None
    try:
        k, v = s.decode("ascii").split("=", 1)
    except UnicodeDecodeError:
        return None
    if (id_, k) not in DOC_RANGES or not v:
        return None
    mult = 1
    pct = False
    if k == "dictsize" and v[-1] in "KM%":
        if v[-1] == "%":
            pct = True
        else:
            mult = 1024 if v[-1] == "K" else 1048576
        v = v[:-1]
    if not v.isdigit() or (len(v) > 1 and v[0] == "0"):
        return None
    n = int(v) * mult
    if pct:
        n = int(v) * bs // 100
    return k, n


def cfg_field(conf, k):
    if k == "level":
        return conf["level"]
    if k == "window":
        return struct.unpack_from("<H", conf["opt"])[0]
    if k == "dictsize":
        return struct.unpack_from("<I", conf["opt"])[0]
    return conf["opt"][{"lc": 4, "lp": 5, "pb": 6}[k]]


# --------------------------------------------------------------------------
# the leg
# --------------------------------------------------------------------------

def run_lines(cmd, lines, env=None, timeout=300):
    r = subprocess.run(cmd, input=("\n".join(lines) + "\n").encode(), stdout=subprocess.PIPE, stderr=subprocess.PIPE, env=env,
                       timeout=timeout)
    return r.returncode, r.stdout.decode("latin-1").split("\n"), r.stderr.decode("latin-1")


def run_leg(ctx, info, env, rnd, replay=None):
    """returns dict of measured numbers"""
    t0 = time.time()
    H = B.compile_harness(info, [os.path.join(CDIR, "h_compopt.c")], "h_compopt_c05", extra=["-I" + os.path.join(B.REPO, "include")])
    D = core.build_model_driver("C05CompOpt", "ExtractC05CompOpt.v", os.path.join(CDIR, "driver.ml"))
    scratch = os.path.join(ctx.scratch, "compopt.bin")
    ctx.trusted += [
        "props/C05/compopt/h_compopt.c (API harness: builds configurations, files and option strings, classifies the "
        "parser's stderr text), props/C05/compopt/driver.ml (printing), props/C05/compopt/gen_*.c -> coq/CompOpt/GenCompOpt.v "
        "(struct layouts, limits, the static tables of comp_opt.c, ZSTD_maxCLevel(); regenerated on every run)",
        "glibc getsubopt / strtol / isdigit / isspace semantics as modelled in coq/CompOpt/Parse.v; calloc, deflateInit2, "
        "inflateInit, ZSTD_createCCtx succeed (oracles of the model, exercised by the tie)",
    ]

    def viol(sig, what, obj, concrete):
        ctx.violation(sig, what, dict(obj, leg="compopt"), no_input=not concrete)

    # ---- which of the proposed repairs does this tree have?  (three probes; the model variant follows) ----
    probes = ["C 4 0 131072 6 " + opt_bytes(XZ, dict=14336).hex(), "S 4 131072 " + hx(b"dictsize=50%"), "S 4 131072 " + hx(b"level=9x")]
    rc, pl, err = run_lines([H, scratch], probes, env=env)
    if rc != 0 or len([l for l in pl if l]) != 3:
        viol("crash:compopt-harness:probe", "compressor option harness died on the probe cases: rc=%s %s" % (rc, err[-400:]),
             dict(cases=probes, stderr=err[-3000:]), True)
        return dict(cases=0)
    fx = ("0" if " create=0" in pl[0] else "1", "0" if pl[1].startswith("S rc=-1") else "1", "0" if pl[2].startswith("S rc=0") else "1")

    if replay is not None:
        cases = replay
        descr = {}
        for c in cases:
            w = c.split(" ")
            if w[0] == "S" and len(w) == 4:
                descr[c] = (int(w[1]), int(w[2]), None if w[3] == "NULL" else (b"" if w[3] == "-" else bytes.fromhex(w[3])))
    else:
        cases = init_cases(rnd)
        slines, sdesc = string_cases(rnd, ctx.tier)
        descr = dict(zip(slines, sdesc))
        cases += slines
        cases += config_cases(rnd, ctx.tier)
        blocks = hostile_blocks(rnd, ctx.tier)
        cases += ["R %d %d %s" % (i, bs, hx(b)) for i, bs, b in blocks]
        cases += ["O %s" % hx(img) for img in image_cases(rnd, ctx.tier, blocks)]
    # ---- implementation ----
    chunks = [c for c in (cases[k::4] for k in range(4)) if c]
    n = len(chunks)
    from concurrent.futures import ThreadPoolExecutor

    def run_impl(k):
        return run_lines([H, scratch + ".%d" % k], chunks[k], env=env)

    def run_model(k):
        return run_lines([D] + list(fx), chunks[k])
    with ThreadPoolExecutor(2 * n) as ex:
        fi = [ex.submit(run_impl, k) for k in range(n)]
        fm = [ex.submit(run_model, k) for k in range(n)]
        ri = [f.result() for f in fi]
        rm = [f.result() for f in fm]
    impl = {}
    model = {}
    for k in range(n):
        rc, lines, err = ri[k]
        lines = [l for l in lines if l]
        for c, l in zip(chunks[k], lines):
            impl[c] = l
        if rc != 0 or len(lines) != len(chunks[k]):
            first = chunks[k][len(lines)] if len(lines) < len(chunks[k]) else "?"
            kind = "asan" if "AddressSanitizer" in err else "ubsan" if "runtime error" in err else "rc=%s" % rc
            viol("crash:compopt-harness:%s" % kind, "the library died on compressor option case '%s': %s" % (first[:200], err[:400].replace("\n", " ")),
                 dict(case=first, cases=[first], stderr=err[-3000:]), True)
        rc, lines, err = rm[k]
        lines = [l for l in lines if l]
        for c, l in zip(chunks[k], lines):
            model[c] = l
        if rc != 0 or len(lines) != len(chunks[k]):
            viol("machinery:compopt-model-driver", "model driver failed: rc=%s %s" % (rc, err[-300:]), dict(stderr=err[-2000:]), False)
    # ---- tie ----
    agree = 0
    classes = {}
    ties = {}
    for c in cases:
        a, b = impl.get(c), model.get(c)
        if a is None or b is None:
            continue
        if "CRASH" in b or "FUEL" in b:
            viol("model:compopt-crash-or-fuel", "extracted CompOpt model reports Crash / OutOfFuel on case '%s': %s (contradicts "
                 "comp_read_options_safe / comp_opt_string_total)" % (c[:120], b[:200]), dict(case=c, cases=[c], model=b), False)
            continue
        if a == b:
            agree += 1
        else:
            wa, wb = a.split(" "), b.split(" ")
            diff = next((x.split("=")[0] for x, y in zip(wa + ["<eol>"], wb + ["<eol>"]) if x != y), "?")
            key = "%s:%s" % (c[0], diff)
            if key not in ties:
                ties[key] = (c, a, b)
        classes[(c[0], a.split(" ")[1] if " " in a else a)] = classes.get((c[0], a.split(" ")[1] if " " in a else a), 0) + 1
    # ---- search oracle on the implementation's own lines ----
    found = {}
    accepted_cfgs = 0
    blocks_checked = 0
    for c in cases:
        a = impl.get(c)
        if a is None:
            continue
        f = fields(a)
        confs = [cfg_of(x) for x in f.get("conf", [])]
        # (1) read_options accepted what create refuses
        if f.get("read") == ["0"] and f.get("recreate") not in (None, ["0"]):
            after = confs[-1]
            d = struct.unpack_from("<I", after["opt"])[0]
            if after["id"] == XZ and not (8192 <= d <= 1048576):
                sig = "compopt:xz-read-accepts-dict-out-of-range"
            else:
                sig = "compopt:read-accepts-create-rejects:%s" % NAMES.get(after["id"], after["id"])
            found.setdefault(sig, (c, "read_options accepted the options block but sqfs_compressor_create answers %s for the "
                                      "configuration it left behind: %s" % (f["recreate"][0], a[:300])))
        # (2) the block written for an accepted configuration
        if f.get("create") == ["0"] and f.get("bytes") and f["bytes"][0] != "-" and confs:
            blocks_checked += 1
            for bad in check_written(confs[0], bytes.fromhex(f["bytes"][0])):
                if bad.startswith("SHAPE"):
                    sig = "compopt:xz-dict-size-shape:written"
                else:
                    sig = "compopt:written-block:%s:%s" % (NAMES.get(confs[0]["id"], "?"), bad.split(" ")[0])
                found.setdefault(sig, (c, "options block written by %s: %s; %s" % (NAMES.get(confs[0]["id"]), bad, a[:300])))
            # round trip through the implementation
            if f.get("read") == ["0"] and len(confs) >= 2:
                w, r = confs[0], confs[-1]
                same = True
                if w["id"] == GZIP:
                    same = (w["level"], w["opt"][:2], w["flags"] & 0x1F) == (r["level"], r["opt"][:2], r["flags"] & 0x1F)
                elif w["id"] == XZ:
                    same = (w["opt"][:4], w["flags"] & 0x3F) == (r["opt"][:4], r["flags"] & 0x3F)
                if not same:
                    found.setdefault("compopt:round-trip:%s" % NAMES[w["id"]], (c, "written options read back differently: %s" % a[:300]))
            elif f.get("read") and f["read"][0] not in ("0",):
                found.setdefault("compopt:own-block-refused:%s" % NAMES.get(confs[0]["id"]), (
                    c, "the library refuses the options block it wrote itself: %s" % a[:300]))
        # (3) documented option strings
        if c in descr:
            id_, bs, s = descr[c]
            m = documented_meaning(id_, bs, s)
            if m is not None:
                k, val = m
                lo, hi = DOC_RANGES[(id_, k)]
                if a.startswith("S rc=0"):
                    accepted_cfgs += 1
                    got = cfg_field(cfg_of(f["cfg"][0]), k)
                    if got != val:
                        found.setdefault("compopt:number-silently-altered", (c, "option string '%s' (%s) is accepted but %s becomes %d" % (
                            s.decode("latin-1"), NAMES[id_], k, got)))
                    elif not lo <= val <= hi:
                        found.setdefault("compopt:out-of-range-accepted:%s" % k, (c, "option string '%s' (%s) is accepted although %d is "
                                         "outside %d..%d" % (s.decode("latin-1"), NAMES[id_], val, lo, hi)))
                elif lo <= val <= hi and s.endswith(b"%"):
                    found.setdefault("compopt:dictsize-percent-refused", (c, "documented option string '%s' (%s, block size %d) is refused: %s" % (
                        s.decode("latin-1"), NAMES[id_], bs, a[:120])))
                elif lo <= val <= hi and k in ("level", "window", "pb"):
                    found.setdefault("compopt:documented-option-refused:%s" % k, (c, "documented option string '%s' (%s) is refused: %s" % (
                        s.decode("latin-1"), NAMES[id_], a[:120])))
    # Integrator's triage (DESIGN 9.7): the following behaviours are sloppy or inconsistent option handling but break none of the
    # listed properties (a documented option refused WITH a diagnostic; a numeric option silently normalised; read_options
    # accepting a value sqfs_compressor_create refuses, without memory effect) - the image written is valid and reads back as
    # the input.  They are recorded as observations in the evidence, never reported as violations (a check must not demand
    # more than the property states).  A change of this behaviour still shows up as a broken tie (no-failing-input-found).
    OBSERVATION_ONLY = ("compopt:dictsize-percent-refused", "compopt:number-silently-altered",
                        "compopt:xz-read-accepts-dict-out-of-range", "compopt:documented-option-refused:",
                        "compopt:read-accepts-create-rejects:")
    observations = []
    for sig, (c, what) in found.items():
        if sig.startswith(OBSERVATION_ONLY):
            observations.append(dict(signature=sig, what=what[:400]))
            continue
        viol(sig, what, dict(case=c, cases=[c], impl=impl.get(c), model=model.get(c)), True)
    ctx.coverage.setdefault("observations_not_violations", []).extend(observations)
    # tie broke => the search above ran on every case; what it did not explain is reported without input
    for key, (c, a, b) in ties.items():
        viol("tie:compopt:%s" % key, "model and library disagree on compressor option case '%s': impl '%s' model '%s'" % (c[:160], a[:260], b[:260]),
             dict(case=c, cases=[c], impl=a, model=b, model_variant="fx_shape=%s fx_pct=%s fx_num=%s" % fx,
                  correspondence="coq/CompOpt (extracted, props/C05/compopt/driver.ml) = props/C05/compopt/h_compopt.c transcript"),
             False)
    return dict(cases=len(cases), agree=agree, classes=len(classes), blocks_checked=blocks_checked, doc_strings_accepted=accepted_cfgs,
                variant="fx_shape=%s fx_pct=%s fx_num=%s" % fx, wall=round(time.time() - t0, 1),
                strings=sum(1 for c in cases if c[0] == "S"), configs=sum(1 for c in cases if c[0] == "C"),
                hostile=sum(1 for c in cases if c[0] == "R"), images=sum(1 for c in cases if c[0] == "O"),
                inits=sum(1 for c in cases if c[0] == "I"))
