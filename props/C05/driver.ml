(* C05 model driver: runs the extracted reader model on an image file and prints the
   transcript in the format of props/C05/h_reader.c.
     driver <image> [all|xattr|meta ops...]
   Trusted glue: byte <-> N conversion, decimal / hex printing, the checksum, the zlib
   stub (stubs.c).  Compressors other than gzip are not bound: the first use prints
   "UNK" at the end and the check does not compare that transcript. *)
open C05_model

external gunzip : string -> int -> int * string = "c05_gunzip"

let rec pos_of_int i = if i = 1 then XH else if i land 1 = 1 then XI (pos_of_int (i lsr 1)) else XO (pos_of_int (i lsr 1))
let n_of_int i = if i = 0 then N0 else Npos (pos_of_int i)
let rec int_of_pos = function XH -> 1 | XO p -> 2 * int_of_pos p | XI p -> 2 * int_of_pos p + 1
let int_of_n = function N0 -> 0 | Npos p -> int_of_pos p
let z_of_int i = if i = 0 then Z0 else if i > 0 then Zpos (pos_of_int i) else Zneg (pos_of_int (-i))
let int_of_z = function Z0 -> 0 | Zpos p -> int_of_pos p | Zneg p -> - (int_of_pos p)
let rec nat_of_int i = let rec go acc i = if i = 0 then acc else go (S acc) (i - 1) in go O i

(* decimal printing of numbers up to 2^64-1 (OCaml ints are 63 bit) *)
let rec z_of_pos = function XH -> (1, 0) | XO p -> let (lo, hi) = z_of_pos p in dbl lo hi 0 | XI p -> let (lo, hi) = z_of_pos p in dbl lo hi 1
and dbl lo hi c =
  (* value = hi * 10^15 + lo, lo < 10^15 *)
  let lo2 = 2 * lo + c in
  let m = 1_000_000_000_000_000 in
  (lo2 mod m, 2 * hi + lo2 / m)
let dec n = match n with
  | N0 -> "0"
  | Npos p -> let (lo, hi) = z_of_pos p in if hi = 0 then string_of_int lo else Printf.sprintf "%d%015d" hi lo

let byte_tab = Array.init 256 n_of_int
let bytes_of_string s = List.init (String.length s) (fun i -> byte_tab.(Char.code s.[i]))
let string_of_bytes l =
  let b = Buffer.create 256 in
  List.iter (fun c -> Buffer.add_char b (Char.chr (int_of_n c land 255))) l; Buffer.contents b
let hex l =
  match l with
  | [] -> "-"
  | _ -> let b = Buffer.create 64 in List.iter (fun c -> Buffer.add_string b (Printf.sprintf "%02x" (int_of_n c))) l; Buffer.contents b
let ck_add ck l = List.fold_left (fun ck c -> (ck * 31 + int_of_n c + 1) land 0xFFFFFFFF) ck l
let le32 v = [v land 255; (v lsr 8) land 255; (v lsr 16) land 255; (v lsr 24) land 255]

(* back ends compiled into the library under test: C05_AVAIL="1,2,4,5,6" (measured by `h_reader --comps`) *)
let avail_ids =
  match Sys.getenv_opt "C05_AVAIL" with
  | Some s when s <> "" -> List.filter_map int_of_string_opt (String.split_on_char ',' s)
  | _ -> [1; 2; 3; 4; 5; 6]
let avail id = List.mem (int_of_n id) avail_ids

let unk = ref false
let codec id inp cap =
  if int_of_n id = 1 then begin
    let (code, out) = gunzip (string_of_bytes inp) (int_of_n cap) in
    if code < 0 then Err (z_of_int code)
    else Ok (bytes_of_string out)
  end else begin unk := true; Err (z_of_int (-3)) end

let pres name f = function
  | Ok v -> f v
  | Err e -> Printf.printf "%s ERR %d\n" name (int_of_z e)
  | Crash -> Printf.printf "%s CRASH\n" name
  | OutOfFuel -> Printf.printf "%s FUEL\n" name

let oct n = Printf.sprintf "%o" (int_of_n n)

let rec count_nodes (Node (_, _, _, _, ch)) = List.fold_left (fun a c -> a + count_nodes c) 1 ch

let rec print_node depth (Node (nm, i, uid, gid, ch)) =
  let b = i.i_base in
  Printf.printf "n %d %s %s %s %s %s %s %s %s %s" depth (hex nm) (dec b.b_type) (dec b.b_inum) (oct b.b_mode)
    (dec b.b_uid) (dec b.b_gid) (dec uid) (dec gid) (dec b.b_mtime);
  let bc = dec (N.div i.i_used (n_of_int 4)) in
  (match i.i_data with
   | IDir (start, nlink, size, off, parent) ->
     Printf.printf " d %s %s %s %s %s" (dec size) (dec start) (dec off) (dec parent) (dec nlink)
   | IDirExt (nlink, size, start, parent, icount, off, xattr) ->
     Printf.printf " D %s %s %s %s %s %s %s %s" (dec size) (dec start) (dec off) (dec parent) (dec nlink) (dec icount)
       (dec xattr) (dec i.i_used)
   | IFile (start, fi, fo, size) -> Printf.printf " f %s %s %s %s %s" (dec size) (dec start) (dec fi) (dec fo) bc
   | IFileExt (start, size, _, nlink, fi, fo, xattr) ->
     Printf.printf " F %s %s %s %s %s %s %s" (dec size) (dec start) (dec fi) (dec fo) bc (dec nlink) (dec xattr)
   | ISlink (_, tsize) -> Printf.printf " l %s %s" (dec tsize) (hex i.i_bytes)
   | ISlinkExt (_, tsize, xattr) -> Printf.printf " l %s %s %s" (dec tsize) (hex i.i_bytes) (dec xattr)
   | IDev (nlink, devno) -> Printf.printf " v %s %s" (dec devno) (dec nlink)
   | IDevExt (nlink, devno, xattr) -> Printf.printf " V %s %s %s" (dec devno) (dec nlink) (dec xattr)
   | IIpc nlink -> Printf.printf " p %s" (dec nlink)
   | IIpcExt (nlink, xattr) -> Printf.printf " P %s %s" (dec nlink) (dec xattr));
  print_newline ();
  List.iter (print_node (depth + 1)) ch

let print_item = function
  | ISuper r ->
    pres "super" (fun s ->
        Printf.printf "super OK %s %s %s %s %s %s %s %s %s %s %s %s %s %s\n" (dec s.s_block_size) (dec s.s_comp)
          (dec s.s_flags) (dec s.s_id_count) (dec s.s_inode_count) (dec s.s_frag_count) (dec s.s_root)
          (dec s.s_bytes_used) (dec s.s_id_start) (dec s.s_xattr_start) (dec s.s_inode_start) (dec s.s_dir_start)
          (dec s.s_frag_start) (dec s.s_export_start)) r
  | IIdt r ->
    pres "idt" (fun ids ->
        let ck = List.fold_left (fun ck id ->
            (* ids are < 2^32: split through the decimal-free route *)
            let v = int_of_n id in
            List.fold_left (fun ck c -> (ck * 31 + c + 1) land 0xFFFFFFFF) ck (le32 v)) 0 ids in
        Printf.printf "idt OK %d %d\n" (List.length ids) ck) r
  | IFrt r -> pres "frt" (fun _ -> print_string "frt OK\n") r
  | ITree r -> pres "tree" (fun t -> Printf.printf "tree OK %d\n" (count_nodes t); print_node 0 t) r
  | IStream (idx, r, total) ->
    let name = Printf.sprintf "st %s" (dec idx) in
    (match r with
     | Ok (Some chunks) ->
       let ck = List.fold_left ck_add 0 chunks in
       Printf.printf "%s OK %s %d\n" name (dec total) ck
     | Ok None -> Printf.printf "%s CAP\n" name
     | Err e -> Printf.printf "%s ERR %d %s\n" name (int_of_z e) (dec total)
     | Crash -> Printf.printf "%s CRASH\n" name
     | OutOfFuel -> Printf.printf "%s FUEL\n" name)
  | IBlock (idx, blk, r) ->
    let name = Printf.sprintf "gb %s %s" (dec idx) (dec blk) in
    pres name (fun d -> Printf.printf "%s OK %d %d\n" name (List.length d) (ck_add 0 d)) r
  | IFrag (idx, r) ->
    let name = Printf.sprintf "gf %s" (dec idx) in
    pres name (fun d -> Printf.printf "%s OK %d %d\n" name (List.length d) (ck_add 0 d)) r
  | IRead (idx, off, size, r) ->
    let name = Printf.sprintf "rd %s %s %s" (dec idx) (dec off) (dec size) in
    pres name (fun d -> Printf.printf "%s OK %d %d\n" name (List.length d) (ck_add 0 d)) r
  | IXal r -> pres "xal" (fun have -> print_string (if have then "xal OK\n" else "xal NONE\n")) r
  | IXattr (idx, None) -> Printf.printf "xa %s NONE\n" (dec idx)
  | IXattr (idx, Some r) ->
    let name = Printf.sprintf "xa %s" (dec idx) in
    pres name (fun kvs ->
        Printf.printf "%s OK" name;
        List.iter (fun (k, v) -> Printf.printf " %s=%s" (hex (cstr k)) (hex v)) kvs;
        print_newline ()) r
  | IMeta r -> ()
  | IComp r -> pres "comp" (fun () -> ()) r

let depth = nat_of_int 100000 and efuel = nat_of_int 400000 and fuel = nat_of_int 400000

let run_one path mode args =
  let ic = open_in_bin path in
  let len = in_channel_length ic in
  let s = really_input_string ic len in
  close_in ic;
  let img = bytes_of_string s in
  unk := false;
  (match mode with
   | "all" -> List.iter print_item (run_reader_build avail codec depth efuel fuel img QAll)
   | "xattr" -> List.iter print_item (run_reader_build avail codec depth efuel fuel img QXattr)
   | "meta" ->
     let ops = List.map (fun a ->
         let body = String.sub a 1 (String.length a - 1) in
         if a.[0] = 's' then
           (match String.split_on_char ',' body with
            | [b; o] -> MSeek (n_of_int (int_of_string b), n_of_int (int_of_string o))
            | _ -> MSeek (N0, N0))
         else MRead (n_of_int (int_of_string body))) args in
     let items = run_reader_build avail codec depth efuel fuel img (QMeta ops) in
     let rec go items ops =
       match items, ops with
       | (ISuper _ as i) :: r, _ -> print_item i; go r ops
       | IMeta x :: r, MSeek _ :: o ->
         (match x with Ok _ -> print_string "ms 0\n" | Err e -> Printf.printf "ms %d\n" (int_of_z e)
                     | Crash -> print_string "ms CRASH\n" | OutOfFuel -> print_string "ms FUEL\n"); go r o
       | IMeta x :: r, MRead _ :: o ->
         (match x with Ok d -> Printf.printf "mr OK %d\n" (ck_add 0 d) | Err e -> Printf.printf "mr ERR %d\n" (int_of_z e)
                     | Crash -> print_string "mr CRASH\n" | OutOfFuel -> print_string "mr FUEL\n"); go r o
       | _, _ -> () in
     go items ops
   | _ -> ());
  if !unk then print_string "UNK\n";
  print_string "end\n"

let () =
  if Array.length Sys.argv > 1 && Sys.argv.(1) = "-batch" then begin
    (* stdin: one "<mode> <path> [ops...]" per line *)
    try
      while true do
        let line = input_line stdin in
        match String.split_on_char ' ' line with
        | mode :: path :: args ->
          Printf.printf "== %s %s\n" mode path;
          (try run_one path mode args with
           | Stack_overflow -> print_string "MODEL-STACK\nend\n"
           | Out_of_memory -> print_string "MODEL-OOM\nend\n");
          flush stdout
        | _ -> ()
      done
    with End_of_file -> ()
  end else begin
    let path = Sys.argv.(1) in
    let mode = if Array.length Sys.argv > 2 then Sys.argv.(2) else "all" in
    let args = Array.to_list (Array.sub Sys.argv (min 3 (Array.length Sys.argv)) (max 0 (Array.length Sys.argv - 3))) in
    run_one path mode args
  end
