(* C05 lookup leg: the extracted component loop of sqfs_dir_reader_resolve_path (coq/C05/Lookup.v, `resolve`
   with rule LenStrlen or LenSize) on the directory listings the Python side read from an image.

   stdin, one line per item, one answer line per `q`/`w` line on stdout:
     fs <root ref> <ref>=<name hex>:<ref>,<name hex>:<ref>,... <ref>= ...
                       the listing for the following queries: every DIRECTORY inode reference with its entries in
                       on-disk order ("-" = empty name; a reference that is not listed is not a directory)
     q <path hex>      resolve LenStrlen <listing> <path> (length path + 2) <root> 0     ("-" = empty path)
     s <path hex>      the same with LenSize (the code as found, F25: used by selftest only)
     w <path hex>      resolve LenStrlen wit_dirs (the listing of Lookup.v's Examples) from reference 0
   answer: "OK <ref>" | "ERR NO_ENTRY" | "ERR NOT_DIR" | "CRASH" | "FUEL" *)
open C05_lookup_model

let rec pos_of_int i = if i = 1 then XH else if i land 1 = 1 then XI (pos_of_int (i lsr 1)) else XO (pos_of_int (i lsr 1))
let n_of_int i = if i = 0 then N0 else Npos (pos_of_int i)
let rec int_of_pos = function XH -> 1 | XO p -> 2 * int_of_pos p | XI p -> 2 * int_of_pos p + 1
let int_of_n = function N0 -> 0 | Npos p -> int_of_pos p
let rec nat_of_int i acc = if i = 0 then acc else nat_of_int (i - 1) (S acc)

let bytes = Array.init 256 n_of_int
let unhex s =
  if s = "-" then [] else begin
    let n = String.length s / 2 in
    let r = ref [] in
    for i = n - 1 downto 0 do
      r := bytes.(int_of_string ("0x" ^ String.sub s (2 * i) 2)) :: !r
    done;
    !r
  end

let tbl : (int, (n list * n) list) Hashtbl.t = Hashtbl.create 64
let root = ref 0
let dirs r = Hashtbl.find_opt tbl (int_of_n r)

let set_fs words =
  Hashtbl.reset tbl;
  match words with
  | [] -> failwith "fs: no root"
  | r :: ds ->
    root := int_of_string r;
    List.iter (fun d ->
      match String.index_opt d '=' with
      | None -> failwith "fs: no ="
      | Some k ->
        let rf = int_of_string (String.sub d 0 k) in
        let rest = String.sub d (k + 1) (String.length d - k - 1) in
        let ents = if rest = "" then [] else
          List.map (fun e ->
            match String.index_opt e ':' with
            | None -> failwith "fs: no :"
            | Some j -> (unhex (String.sub e 0 j), n_of_int (int_of_string (String.sub e (j + 1) (String.length e - j - 1)))))
            (String.split_on_char ',' rest) in
        Hashtbl.replace tbl rf ents) ds

let show = function
  | LOk r -> Printf.sprintf "OK %d" (int_of_n r)
  | LErr ENoEntry -> "ERR NO_ENTRY"
  | LErr ENotDir -> "ERR NOT_DIR"
  | LCrash -> "CRASH"
  | LFuel -> "FUEL"

let run rule d start hex =
  let p = unhex hex in
  resolve rule d p (nat_of_int (List.length p + 2) O) start O

let () =
  try
    while true do
      let l = input_line stdin in
      match String.split_on_char ' ' (String.trim l) with
      | "fs" :: w -> set_fs (List.filter (fun x -> x <> "") w)
      | ["q"; h] -> print_endline (show (run LenStrlen dirs (n_of_int !root) h))
      | ["s"; h] -> print_endline (show (run LenSize dirs (n_of_int !root) h))
      | ["w"; h] -> print_endline (show (run LenStrlen wit_dirs N0 h))
      | [""] -> ()
      | _ -> print_endline "BAD"
    done
  with End_of_file -> ()
