/* C05 lookup harness: every public path / name lookup entry point of the directory reader on one (hostile) image.
 *
 *   h_lookup <image> <query file>
 *
 * query file: one path per line, hex encoded ("-" = empty path).  For every query the path is copied into a heap
 * buffer of exactly strlen+1 bytes (so that AddressSanitizer sees any read past the terminator; the buffer is
 * allocated anew for every call) and handed to
 *
 *   rp  sqfs_dir_reader_resolve_path(rd, path, NULL, &ref)            reader flags 0
 *   rr  sqfs_dir_reader_resolve_path(rd, path, <root inode>, &ref)    reader flags 0
 *   rd  sqfs_dir_reader_resolve_path(rd, path, NULL, &ref)            reader with SQFS_DIR_READER_DOT_ENTRIES
 *       (+ sqfs_dir_reader_resolve_inum of the inode found)
 *   fh  sqfs_dir_reader_get_full_hierarchy(rd, idtbl, path, 0, &n)    (rdsquashfs <path> / sqfsdiff)
 *   fp  the same with SQFS_TREE_STORE_PARENTS
 *
 * One line per call: "<tag> OK <ref|name ...>" or "<tag> ERR <code>"; "q <hex>" precedes every query (stdout is
 * line buffered: the last q line names the query during which the process died).
 */
#include "config.h"
#include "common.h"
#include "compat.h"
#include "dir_tree.h"
#include "sqfs/super.h"
#include "sqfs/io.h"
#include "sqfs/compressor.h"
#include "sqfs/id_table.h"
#include "sqfs/dir_reader.h"
#include "sqfs/inode.h"
#include "sqfs/dir.h"
#include "sqfs/error.h"

#include <stdio.h>
#include <stdlib.h>
#include <string.h>

static sqfs_file_t *file;
static sqfs_super_t super;
static sqfs_compressor_t *cmp;
static sqfs_id_table_t *idtbl;
static sqfs_dir_reader_t *rd0, *rd1;

static void hexout(const sqfs_u8 *p, size_t n)
{
	size_t i;
	if (n == 0)
		putchar('-');
	for (i = 0; i < n; ++i)
		printf("%02x", p[i]);
}

static char *exact(const sqfs_u8 *p, size_t n)
{
	char *s = malloc(n + 1);
	if (s == NULL)
		exit(3);
	memcpy(s, p, n);
	s[n] = '\0';
	return s;
}

static void inode_info(sqfs_dir_reader_t *rd, sqfs_u64 ref)
{
	sqfs_inode_generic_t *inode = NULL;
	int ret = sqfs_dir_reader_get_inode(rd, ref, &inode);

	if (ret)
		printf(" inode ERR %d", ret);
	else
		printf(" inode %u %u", inode->base.type, inode->base.inode_number);
	sqfs_free(inode);
}

static void do_resolve(const char *tag, sqfs_dir_reader_t *rd, const sqfs_u8 *p, size_t n,
		       const sqfs_inode_generic_t *root, int inum)
{
	sqfs_u64 ref = 0;
	char *path = exact(p, n);
	int ret = sqfs_dir_reader_resolve_path(rd, path, root, &ref);

	free(path);
	if (ret) {
		printf("%s ERR %d\n", tag, ret);
		return;
	}
	printf("%s OK %llu", tag, (unsigned long long)ref);
	inode_info(rd, ref);
	if (inum) {
		sqfs_inode_generic_t *inode = NULL;
		sqfs_u64 back = 0;

		if (sqfs_dir_reader_get_inode(rd, ref, &inode) == 0) {
			ret = sqfs_dir_reader_resolve_inum(rd, inode->base.inode_number, &back);
			if (ret)
				printf(" inum ERR %d", ret);
			else
				printf(" inum %llu", (unsigned long long)back);
		}
		sqfs_free(inode);
	}
	printf("\n");
}

static void do_tree(const char *tag, const sqfs_u8 *p, size_t n, unsigned int flags)
{
	sqfs_tree_node_t *root = NULL;
	const sqfs_tree_node_t *it;
	char *path = exact(p, n);
	int ret = sqfs_dir_reader_get_full_hierarchy(rd0, idtbl, path, flags, &root);
	size_t kids = 0;

	free(path);
	if (ret) {
		printf("%s ERR %d\n", tag, ret);
		return;
	}
	printf("%s OK ", tag);
	hexout(root->name, strlen((const char *)root->name));
	printf(" %u %u", root->inode->base.type, root->inode->base.inode_number);
	for (it = root->children; it != NULL; it = it->next)
		++kids;
	printf(" %zu\n", kids);
	sqfs_dir_tree_destroy(root);
}

int main(int argc, char **argv)
{
	sqfs_compressor_config_t cfg;
	sqfs_inode_generic_t *root = NULL;
	char *line = NULL;
	size_t cap = 0;
	ssize_t len;
	FILE *qf;
	int ret;

	if (argc < 3)
		return 2;
	setvbuf(stdout, NULL, _IOLBF, 0);
	ret = sqfs_file_open(&file, argv[1], SQFS_FILE_OPEN_READ_ONLY);
	if (ret) {
		printf("open ERR %d\nend\n", ret);
		return 0;
	}
	ret = sqfs_super_read(&super, file);
	if (ret) {
		printf("super ERR %d\nend\n", ret);
		return 0;
	}
	sqfs_compressor_config_init(&cfg, super.compression_id, super.block_size, SQFS_COMP_FLAG_UNCOMPRESS);
	ret = sqfs_compressor_create(&cfg, &cmp);
	if (ret) {
		printf("comp ERR %d\nend\n", ret);
		return 0;
	}
	idtbl = sqfs_id_table_create(0);
	if (idtbl == NULL)
		return 3;
	ret = sqfs_id_table_read(idtbl, file, &super, cmp);
	if (ret) {
		printf("idt ERR %d\nend\n", ret);
		return 0;
	}
	rd0 = sqfs_dir_reader_create(&super, cmp, file, 0);
	rd1 = sqfs_dir_reader_create(&super, cmp, file, SQFS_DIR_READER_DOT_ENTRIES);
	if (rd0 == NULL || rd1 == NULL)
		return 3;
	ret = sqfs_dir_reader_get_root_inode(rd0, &root);
	if (ret) {
		printf("root ERR %d\nend\n", ret);
		return 0;
	}
	printf("root OK %llu %u\n", (unsigned long long)super.root_inode_ref, root->base.inode_number);
	qf = fopen(argv[2], "r");
	if (qf == NULL)
		return 2;
	while ((len = getline(&line, &cap, qf)) > 0) {
		sqfs_u8 *p;
		size_t n = 0, i;

		while (len > 0 && (line[len - 1] == '\n' || line[len - 1] == '\r'))
			line[--len] = '\0';
		if (len == 0)
			continue;
		p = malloc((size_t)len / 2 + 1);
		if (p == NULL)
			return 3;
		if (strcmp(line, "-") != 0) {
			for (i = 0; i + 1 < (size_t)len; i += 2) {
				unsigned int b = 0;
				sscanf(line + i, "%2x", &b);
				p[n++] = (sqfs_u8)b;
			}
		}
		printf("q ");
		hexout(p, n);
		printf("\n");
		do_resolve("rp", rd0, p, n, NULL, 0);
		do_resolve("rr", rd0, p, n, root, 0);
		do_resolve("rd", rd1, p, n, NULL, 1);
		do_tree("fh", p, n, 0);
		do_tree("fp", p, n, SQFS_TREE_STORE_PARENTS);
		free(p);
	}
	free(line);
	fclose(qf);
	printf("end\n");
	fflush(stdout);
	sqfs_free(root);
	sqfs_drop(rd0);
	sqfs_drop(rd1);
	sqfs_drop(idtbl);
	sqfs_drop(cmp);
	sqfs_drop(file);
	return 0;
}
