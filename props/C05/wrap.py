"""C05 leg "wrap boundaries of count x element-size products" (strengthening, session 3).

The field-override generator (gen.py) aims every on-disk count at the boundary +-1 of each check the MODEL makes.
The model computes table sizes in unbounded N (faithful to the size_t code), so the values at which such a product
would wrap in a NARROWER register are not boundaries of any model check and were never generated.  This leg
generates, for every array whose byte size the reader derives from an on-disk count,

    count  in  { 2^W/E - 1, 2^W/E, 2^W/E + 1, 2^W/E + real, 2*2^W/E + real, 2^(W-1)/E, 2^(W-1)/E + 1, field max }

for E = element size and W = every register width narrower than size_t that the field can overflow (16, 32),
"real" = the count the image really holds (so that a wrapped size describes a perfectly readable table), together
with references that lie INSIDE the announced count but OUTSIDE what an allocation of the wrapped size would hold
(just past the real entries, first entry of the next metadata block, medium, announced-1) plus one at the announced
count itself, spread over the inodes of the tree; and queries that dereference each of them in a process of its own
(rdsquashfs -x / -c / -s per inode) beside the usual harness modes and tool runs of check.evaluate.

Sites (reader side, lib/sqfs/src):
  xattr/xattr_reader.c load      xattr_ids(u32) x 16 -> / 8192 -> id_block_starts[] x 8; get_desc indexes it
  frag_table.c read              fragment_entry_count(u32) x 16 -> sqfs_read_table (malloc + locations[] x 8); lookup
  id_table.c read                id_count(u16) x 4 -> sqfs_read_table; index_to_id
  read_inode.c file / file_ext   file_size / block_size (+1) x 4 + sizeof(generic) -> extra[]; payload_bytes_used (u32)
  read_inode.c dir_ext           inodex_count(u16) entries of 12 + size(u32) + 1 bytes: sums computed in size_t and in
                                 32 bit, doubling allocation; inode.c unpack_dir_index_entry (rdsquashfs -s)
The export table (inode_count x 8) is never read by the reader stack (only its start is used as a limit).
64 bit wraps: no on-disk field is wide enough (u32 x 16 < 2^36; file_size/block_size <= 2^52 blocks, x 4 < 2^54):
stated and proved in coq/C05/Wrap.v (size_products_fit_size_t)."""
import struct

import gen
from vlib.sqfsimg import (Builder, BNode, T_DIR, T_FILE, T_SLINK, T_FIFO, META, NOTBL, SUPER_FMT, SUPER_FIELDS)

BS = gen.BS
M32 = 0xFFFFFFFF
M64 = 0xFFFFFFFFFFFFFFFF


def wrap_counts(elem, field_bits, real, widths=(16, 32)):
    """announced counts at the wrap boundaries of count*elem in registers of the given widths"""
    out = []
    top = (1 << field_bits) - 1
    for w in widths:
        base = (1 << w) // elem
        half = (1 << (w - 1)) // elem
        for v in (base - 1, base, base + 1, base + real, 2 * base + real, half, half + 1):
            if real < v <= top and v not in out:
                out.append(v)
    if top not in out:
        out.append(top)
    return out


def refs_for(count, real, per_block):
    """references for an announced count: just past the real entries (= outside an allocation of the wrapped size
    when that equals the real one), first entry of the second metadata block (outside a wrapped location array of
    one block), medium, announced-1 -- all inside the announced count -- and the announced count itself (must be
    refused by the index test)"""
    out = []
    for c in (real, per_block, min(0x800000, count // 2), count - 1):
        if 0 <= c < count and c < M32 and c not in out:
            out.append(c)
    out.append(min(count, M32 - 1))
    return out


# --------------------------------------------------------------------------
# xattr id table
# --------------------------------------------------------------------------

XSETS = [[(0, b"mime", b"text/plain"), (2, b"selinux", b"system_u:object_r:etc_t\0")],
         [(1, b"overlay.opaque", b"y")],
         [(0, b"a", b""), (0, b"b", bytes(range(256)) * 3)]]


def xattr_wrap_cases():
    real = len(XSETS)
    names = [b"f", b"l", b"d", b"p", None]           # None = the root
    for cnt in wrap_counts(16, 32, real):
        pick = refs_for(cnt, real, META // 16)
        idx = dict(zip(names, pick + [0] * 5))
        f = BNode(T_FILE, data=gen.pat(50, 1), ext=True, ov={"xattr": idx[b"f"]})
        l = BNode(T_SLINK, mode=0o777, target=b"f", ext=True, ov={"xattr": idx[b"l"]})
        d = BNode(T_DIR, mode=0o755, ext=True, children=[], ov={"xattr": idx[b"d"]})
        p = BNode(T_FIFO, ext=True, ov={"xattr": idx[b"p"]})
        root = BNode(T_DIR, mode=0o755, ext=True, children=[(b"d", d), (b"f", f), (b"l", l), (b"p", p)],
                     ov={"xattr": idx[None]})
        img = gen.add_xattrs(gen.build(root), XSETS, {"ids": cnt})
        tg = [("-x", nm) for nm in names if nm is not None] + [("-x", b"/")]
        yield ("wrap:xattr-ids=%#x:idx=%s" % (cnt, ",".join("%#x" % v for v in pick)), img, tg)


# --------------------------------------------------------------------------
# fragment table
# --------------------------------------------------------------------------

def frag_wrap_cases(rnd):
    root, kw = gen.tree_frag(rnd), dict(frag=True)
    img0, sv, lay, facts = gen.probe(root, kw)
    real = sv["frag_count"]
    files = [c for _, c in root.children]
    for cnt in wrap_counts(16, 32, real):
        pick = refs_for(cnt, real, META // 16)
        olds = [n.ov for n in files]
        for n, v in zip(files, pick):
            n.ov = dict(n.ov, frag_idx=v)
        gen.reset(root)
        img = gen.build(root, super_ov={"frag_count": cnt}, **kw)
        for n, o in zip(files, olds):
            n.ov = o
        tg = [("-c", nm) for nm, _ in root.children[:len(pick)]]
        yield ("wrap:frag-count=%#x:idx=%s" % (cnt, ",".join("%#x" % v for v in pick)), img, tg)
    gen.reset(root)


# --------------------------------------------------------------------------
# id table
# --------------------------------------------------------------------------

def id_wrap_cases(rnd):
    root = gen.tree_small(rnd)
    img0, sv, lay, facts = gen.probe(root, {})
    real = sv["id_count"]
    nodes = [n for _, n in gen.all_nodes(root)[1:]]
    paths = [p[1:] for p, _ in gen.all_nodes(root)[1:]]
    for cnt in wrap_counts(4, 16, real, widths=(16,)):
        pick = [r for r in refs_for(cnt, real, META // 4) if r <= 0xFFFF][:len(nodes)]
        olds = [n.ov for n in nodes]
        for k, (n, v) in enumerate(zip(nodes, pick)):
            n.ov = dict(n.ov, **{("uid_idx" if k % 2 == 0 else "gid_idx"): v})
        gen.reset(root)
        img = gen.build(root, super_ov={"id_count": cnt})
        for n, o in zip(nodes, olds):
            n.ov = o
        tg = [("-s", p) for p in paths[:len(pick)]]
        yield ("wrap:id-count=%#x:idx=%s" % (cnt, ",".join("%#x" % v for v in pick)), img, tg)
    gen.reset(root)


# --------------------------------------------------------------------------
# block size list of a file inode
# --------------------------------------------------------------------------

def file_wrap_cases(rnd):
    for ext in (True, False):
        root = gen.tree_small(rnd, ext)
        gen.probe(root, {})
        f1 = dict(root.children)[b"f1"]
        real = len(f1._sizes)                       # 5000 bytes, no fragment: 2 blocks
        tail = len(f1.data) % BS
        # 32 bit wraps need the 64 bit size field; the 16 bit ones (and the u32 payload_bytes_used) fit both
        counts = wrap_counts(4, 52, real, widths=(32,)) if ext else wrap_counts(4, 20, real, widths=(16,))
        sizes = []
        for k, c in enumerate(counts):
            # count = size / bs, +1 for a tail without fragment: alternate the two ways of announcing c blocks
            fs = (c - 1) * BS + tail if k % 2 == 0 else c * BS
            if fs <= (M64 if ext else M32) and fs not in sizes:
                sizes.append(fs)
        for fs in sizes:
            old = f1.ov
            f1.ov = dict(old, file_size=fs)
            gen.reset(root)
            img = gen.build(root)
            f1.ov = old
            yield ("wrap:file%s-size=%#x:blocks=%#x" % ("-ext" if ext else "", fs, -(-fs // BS)), img,
                   [("-c", b"f1"), ("-s", b"f1")])


# --------------------------------------------------------------------------
# directory index of an extended directory inode (the Builder writes none: appended to the root, which is
# the last inode of the table)
# --------------------------------------------------------------------------

def insert_at(img, lay, at, blob):
    """insert blob at absolute position `at` (a table boundary of a Builder image) and fix up every absolute
    position behind it (super block, id / fragment location lists)"""
    sv = dict(zip(SUPER_FIELDS, struct.unpack_from(SUPER_FMT, img, 0)))
    n = len(blob)
    b = bytearray(img[:at]) + blob + bytearray(img[at:sv["bytes_used"]])
    for i, k in enumerate(["bytes_used", "id_table_start", "xattr_table_start", "inode_table_start", "dir_table_start",
                           "frag_table_start", "export_table_start"]):
        v = sv[k]
        if v != NOTBL and v >= at:
            struct.pack_into("<Q", b, 40 + 8 * i, v + n)
    for key, cnt in (("id_start", -(-sv["id_count"] * 4 // META)),
                     ("frag_start", -(-sv["frag_count"] * 16 // META) if lay["frag_start"] != NOTBL else 0)):
        st = lay[key]
        if st == NOTBL:
            continue
        st += n if st >= at else 0
        for j in range(cnt):
            loc = struct.unpack_from("<Q", b, st + 8 * j)[0]
            if loc >= at:
                struct.pack_into("<Q", b, st + 8 * j, loc + n)
    if len(b) % 4096:
        b += b"\0" * (4096 - len(b) % 4096)
    return bytes(b)


def with_dir_index(rnd, icount, entries, filler=0):
    """tree 'small' with an extended root directory announcing icount index entries, followed by the given
    (index, start_block, size, name bytes) records and `filler` more bytes inside the inode table"""
    root = gen.tree_small(rnd, True)
    root.ov = dict(root.ov, icount=icount)
    b = Builder(root, block_size=BS)
    img = b.build()
    lay = b.layout
    hdr = struct.unpack_from("<H", img, lay["inode_start"])[0]
    used = hdr & 0x7FFF
    assert lay["inode_start"] + 2 + used == lay["dir_start"]
    blob = b"".join(struct.pack("<III", i, s, z & M32) + nm for i, s, z, nm in entries) + bytes(
        (37 * k + 1) & 0xFF for k in range(filler))
    assert used + len(blob) <= META
    out = bytearray(insert_at(img, lay, lay["dir_start"], blob))
    struct.pack_into("<H", out, lay["inode_start"], 0x8000 | (used + len(blob)))
    return bytes(out)


def dirindex_wrap_cases(rnd):
    nm = b"f1"
    tg = [("-s", b"/")]
    yield ("wrap:dirindex:valid-1", with_dir_index(rnd, 1, [(0, 0, len(nm) - 1, nm)]), tg)
    yield ("wrap:dirindex:valid-3", with_dir_index(rnd, 3, [(0, 0, 0, b"d"), (20, 0, 1, b"f1"), (33, 0, 0, b"l")]), tg)
    yield ("wrap:dirindex:count-beyond", with_dir_index(rnd, 3, [(0, 0, 1, nm)]), tg)
    yield ("wrap:dirindex:count-max", with_dir_index(rnd, 0xFFFF, [(0, 0, 1, nm)] * 4), tg)
    # entry sizes at the boundaries of 12 + size + 1 against the 128 byte start allocation and its doublings, and at
    # the 32 / 31 bit wrap of size + 1, 12 + size + 1 and of the running sum; the bytes behind the header exist
    # (filler), so that a copy that should have been refused finds data
    sizes = [115, 116, 243, 244, 8191, 1 << 29, (1 << 31) - 14, (1 << 31) - 13, (1 << 31) - 1, 1 << 31, M32 - 13,
             M32 - 12, M32 - 11, M32 - 1, M32]
    for z in sizes:
        yield ("wrap:dirindex:size=%#x" % z, with_dir_index(rnd, 1, [(0, 0, z, b"")], filler=700), tg)
    # a good entry first, then the boundary one: the running offset index_used is > 0
    for z in (103, 104, M32 - 24, M32 - 12, M32):
        yield ("wrap:dirindex:second-size=%#x" % z,
               with_dir_index(rnd, 2, [(0, 0, 0, b"d"), (20, 0, z, b"")], filler=400), tg)


def wrap_cases(rnd, tier):
    out = []
    out += list(xattr_wrap_cases())
    out += list(frag_wrap_cases(rnd))
    out += list(id_wrap_cases(rnd))
    out += list(file_wrap_cases(rnd))
    out += list(dirindex_wrap_cases(rnd))
    return out
