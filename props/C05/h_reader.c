/* C05 library-API harness: links the working tree's libsquashfs reader stack.
 *
 *   h_reader <image> [mode]
 *
 * Prints one canonical line per query result; the OCaml driver of the extracted
 * Coq model prints the same lines for the same image (props/C05/driver.ml).
 * The order of calls is fixed (it is part of the protocol: the data reader's
 * block / fragment caches are shared across all file queries, exactly as the
 * model threads them).
 *
 * mode: "all" (default) = super, id table, fragment table, tree, data API
 *       "xattr"         = super, xattr reader, tree, xattrs of every node
 *       "iter"          = recursive directory iterator (dir_iterator.c + dir_rec.c)
 *       "meta <ops>"    = raw meta reader op sequence (see run_meta)
 *       "path <p>"      = sqfs_dir_reader_resolve_path(p)
 */
#include "config.h"
#include "common.h"
#include "compat.h"
#include "dir_tree.h"
#include "sqfs/super.h"
#include "sqfs/io.h"
#include "sqfs/compressor.h"
#include "sqfs/id_table.h"
#include "sqfs/frag_table.h"
#include "sqfs/dir_reader.h"
#include "sqfs/data_reader.h"
#include "sqfs/xattr_reader.h"
#include "sqfs/meta_reader.h"
#include "sqfs/inode.h"
#include "sqfs/dir.h"
#include "sqfs/dir_entry.h"
#include "sqfs/xattr.h"
#include "sqfs/error.h"
#include "sqfs/block.h"

#include <stdio.h>
#include <stdlib.h>
#include <string.h>

#define MAX_NODES 20000
#define MAX_STREAM (8u << 20)
#define MAX_GB 40

static sqfs_u32 ck_add(sqfs_u32 ck, const sqfs_u8 *p, size_t n)
{
	size_t i;
	for (i = 0; i < n; ++i)
		ck = ck * 31u + p[i] + 1u;
	return ck;
}

static void hexout(const sqfs_u8 *p, size_t n)
{
	size_t i;
	if (n == 0)
		putchar('-');
	for (i = 0; i < n; ++i)
		printf("%02x", p[i]);
}

static sqfs_file_t *file;
static sqfs_super_t super;
static sqfs_compressor_t *cmp;
static sqfs_id_table_t *idtbl;
static sqfs_dir_reader_t *dirrd;
static sqfs_data_reader_t *data;
static sqfs_xattr_reader_t *xattr;

static size_t node_count;
static const sqfs_tree_node_t *files[MAX_NODES];
static size_t file_count;
static const sqfs_tree_node_t *nodes[MAX_NODES];

static void print_node(const sqfs_tree_node_t *n, unsigned depth)
{
	const sqfs_inode_generic_t *i = n->inode;

	if (node_count < MAX_NODES)
		nodes[node_count] = n;
	node_count++;
	printf("n %u ", depth);
	hexout(n->name, strlen((const char *)n->name));
	printf(" %u %u %o %u %u %u %u %u", i->base.type, i->base.inode_number, i->base.mode,
	       i->base.uid_idx, i->base.gid_idx, n->uid, n->gid, i->base.mod_time);
	switch (i->base.type) {
	case SQFS_INODE_DIR:
		printf(" d %u %u %u %u %u", i->data.dir.size, i->data.dir.start_block, i->data.dir.offset,
		       i->data.dir.parent_inode, i->data.dir.nlink);
		break;
	case SQFS_INODE_EXT_DIR:
		printf(" D %u %u %u %u %u %u %u %u", i->data.dir_ext.size, i->data.dir_ext.start_block,
		       i->data.dir_ext.offset, i->data.dir_ext.parent_inode, i->data.dir_ext.nlink,
		       i->data.dir_ext.inodex_count, i->data.dir_ext.xattr_idx, i->payload_bytes_used);
		break;
	case SQFS_INODE_FILE:
		printf(" f %u %u %u %u %u", i->data.file.file_size, i->data.file.blocks_start,
		       i->data.file.fragment_index, i->data.file.fragment_offset,
		       (unsigned)sqfs_inode_get_file_block_count(i));
		break;
	case SQFS_INODE_EXT_FILE:
		printf(" F %llu %llu %u %u %u %u %u", (unsigned long long)i->data.file_ext.file_size,
		       (unsigned long long)i->data.file_ext.blocks_start, i->data.file_ext.fragment_idx,
		       i->data.file_ext.fragment_offset, (unsigned)sqfs_inode_get_file_block_count(i),
		       i->data.file_ext.nlink, i->data.file_ext.xattr_idx);
		break;
	case SQFS_INODE_SLINK:
	case SQFS_INODE_EXT_SLINK:
		printf(" l %u ", i->data.slink.target_size);
		hexout((const sqfs_u8 *)i->extra, i->data.slink.target_size);
		if (i->base.type == SQFS_INODE_EXT_SLINK)
			printf(" %u", i->data.slink_ext.xattr_idx);
		break;
	case SQFS_INODE_BDEV:
	case SQFS_INODE_CDEV:
		printf(" v %u %u", i->data.dev.devno, i->data.dev.nlink);
		break;
	case SQFS_INODE_EXT_BDEV:
	case SQFS_INODE_EXT_CDEV:
		printf(" V %u %u %u", i->data.dev_ext.devno, i->data.dev_ext.nlink, i->data.dev_ext.xattr_idx);
		break;
	case SQFS_INODE_FIFO:
	case SQFS_INODE_SOCKET:
		printf(" p %u", i->data.ipc.nlink);
		break;
	case SQFS_INODE_EXT_FIFO:
	case SQFS_INODE_EXT_SOCKET:
		printf(" P %u %u", i->data.ipc_ext.nlink, i->data.ipc_ext.xattr_idx);
		break;
	default:
		break;
	}
	putchar('\n');
	if ((i->base.type == SQFS_INODE_FILE || i->base.type == SQFS_INODE_EXT_FILE) && file_count < MAX_NODES)
		files[file_count++] = n;
	for (n = n->children; n != NULL; n = n->next)
		print_node(n, depth + 1);
}

static void count_nodes(const sqfs_tree_node_t *n, size_t *c)
{
	*c += 1;
	for (n = n->children; n != NULL; n = n->next)
		count_nodes(n, c);
}

static void q_stream(size_t idx, const sqfs_inode_generic_t *inode)
{
	sqfs_istream_t *in = NULL;
	sqfs_u64 total = 0;
	sqfs_u32 ck = 0;
	int ret;

	ret = sqfs_data_reader_create_stream(data, inode, "x", &in);
	if (ret) {
		printf("st %zu ERR %d 0\n", idx, ret);
		return;
	}
	for (;;) {
		const sqfs_u8 *ptr;
		size_t sz;

		ret = in->get_buffered_data(in, &ptr, &sz, super.block_size);
		if (ret != 0)
			break;
		ck = ck_add(ck, ptr, sz);
		total += sz;
		in->advance_buffer(in, sz);
		if (total > MAX_STREAM) {
			ret = 2;
			break;
		}
	}
	if (ret < 0)
		printf("st %zu ERR %d %llu\n", idx, ret, (unsigned long long)total);
	else if (ret == 2)
		printf("st %zu CAP\n", idx);
	else
		printf("st %zu OK %llu %u\n", idx, (unsigned long long)total, ck);
	sqfs_drop(in);
}

static void q_blocks(size_t idx, const sqfs_inode_generic_t *inode)
{
	size_t i, n = sqfs_inode_get_file_block_count(inode), size;
	sqfs_u8 *out;
	int ret;

	for (i = 0; i <= n && i < MAX_GB; ++i) {
		out = NULL;
		size = 0;
		ret = sqfs_data_reader_get_block(data, inode, i, &size, &out);
		if (ret)
			printf("gb %zu %zu ERR %d\n", idx, i, ret);
		else
			printf("gb %zu %zu OK %zu %u\n", idx, i, size, ck_add(0, out, size));
		free(out);
	}
	out = NULL;
	size = 0;
	ret = sqfs_data_reader_get_fragment(data, inode, &size, &out);
	if (ret)
		printf("gf %zu ERR %d\n", idx, ret);
	else
		printf("gf %zu OK %zu %u\n", idx, size, out == NULL ? 0 : ck_add(0, out, size));
	free(out);
}

static void q_read(size_t idx, const sqfs_inode_generic_t *inode, sqfs_u64 off, sqfs_u32 size)
{
	sqfs_u8 *buf = malloc(size ? size : 1);
	sqfs_s32 ret;

	if (buf == NULL)
		return;
	ret = sqfs_data_reader_read(data, inode, off, buf, size);
	if (ret < 0)
		printf("rd %zu %llu %u ERR %d\n", idx, (unsigned long long)off, size, ret);
	else
		printf("rd %zu %llu %u OK %d %u\n", idx, (unsigned long long)off, size, ret, ck_add(0, buf, ret));
	free(buf);
}

static int open_image(const char *path)
{
	sqfs_compressor_config_t cfg;
	int ret;

	ret = sqfs_file_open(&file, path, SQFS_FILE_OPEN_READ_ONLY);
	if (ret) {
		printf("open ERR %d\n", ret);
		return -1;
	}
	ret = sqfs_super_read(&super, file);
	if (ret) {
		printf("super ERR %d\n", ret);
		return -1;
	}
	printf("super OK %u %u %u %u %u %u %llu %llu %llu %llu %llu %llu %llu %llu\n", super.block_size,
	       super.compression_id, super.flags, super.id_count, super.inode_count, super.fragment_entry_count,
	       (unsigned long long)super.root_inode_ref, (unsigned long long)super.bytes_used,
	       (unsigned long long)super.id_table_start, (unsigned long long)super.xattr_id_table_start,
	       (unsigned long long)super.inode_table_start, (unsigned long long)super.directory_table_start,
	       (unsigned long long)super.fragment_table_start, (unsigned long long)super.export_table_start);
	sqfs_compressor_config_init(&cfg, super.compression_id, super.block_size, SQFS_COMP_FLAG_UNCOMPRESS);
	ret = sqfs_compressor_create(&cfg, &cmp);
	if (ret) {
		printf("comp ERR %d\n", ret);
		return -1;
	}
	return 0;
}

static int load_idt(void)
{
	int ret;
	sqfs_u32 ck = 0, id;
	size_t i;

	idtbl = sqfs_id_table_create(0);
	if (idtbl == NULL)
		return -1;
	ret = sqfs_id_table_read(idtbl, file, &super, cmp);
	if (ret) {
		printf("idt ERR %d\n", ret);
		return -1;
	}
	for (i = 0; i < super.id_count; ++i) {
		sqfs_u8 b[4];
		if (sqfs_id_table_index_to_id(idtbl, i, &id))
			break;
		b[0] = id & 0xFF; b[1] = (id >> 8) & 0xFF; b[2] = (id >> 16) & 0xFF; b[3] = (id >> 24) & 0xFF;
		ck = ck_add(ck, b, 4);
	}
	printf("idt OK %zu %u\n", i, ck);
	return 0;
}

static int run_all(void)
{
	sqfs_tree_node_t *root = NULL;
	size_t i, c = 0;
	int ret;

	if (load_idt())
		return 0;
	dirrd = sqfs_dir_reader_create(&super, cmp, file, 0);
	data = sqfs_data_reader_create(file, super.block_size, cmp, 0);
	if (dirrd == NULL || data == NULL)
		return 1;
	ret = sqfs_data_reader_load_fragment_table(data, &super);
	if (ret) {
		printf("frt ERR %d\n", ret);
		return 0;
	}
	printf("frt OK\n");
	ret = sqfs_dir_reader_get_full_hierarchy(dirrd, idtbl, NULL, 0, &root);
	if (ret) {
		printf("tree ERR %d\n", ret);
		return 0;
	}
	count_nodes(root, &c);
	printf("tree OK %zu\n", c);
	print_node(root, 0);
	for (i = 0; i < file_count; ++i) {
		const sqfs_inode_generic_t *ino = files[i]->inode;
		sqfs_u64 fsz = 0;
		sqfs_u32 bs = super.block_size;

		/* a fresh data reader per file: the transcript must not depend on
		   how the block cache is keyed across files (that is C10's subject) */
		sqfs_drop(data);
		data = sqfs_data_reader_create(file, super.block_size, cmp, 0);
		if (data == NULL || sqfs_data_reader_load_fragment_table(data, &super))
			return 1;
		sqfs_inode_get_file_size(ino, &fsz);
		q_stream(i, ino);
		q_blocks(i, ino);
		q_read(i, ino, 0, 16);
		q_read(i, ino, 0, bs + 7);
		q_read(i, ino, bs - 1, 2);
		q_read(i, ino, bs, bs);
		q_read(i, ino, bs + 1, 3 * bs);
		if (fsz > 0)
			q_read(i, ino, fsz - 1, 5);
		q_read(i, ino, fsz / 2, bs / 2);
		q_read(i, ino, fsz, 1);
	}
	sqfs_dir_tree_destroy(root);
	return 0;
}

static int run_xattr(void)
{
	sqfs_tree_node_t *root = NULL;
	size_t i, c = 0;
	int ret;

	if (!(super.flags & SQFS_FLAG_NO_XATTRS)) {
		xattr = sqfs_xattr_reader_create(0);
		if (xattr == NULL)
			return 1;
		ret = sqfs_xattr_reader_load(xattr, &super, file, cmp);
		if (ret) {
			printf("xal ERR %d\n", ret);
			return 0;
		}
		printf("xal OK\n");
	} else {
		printf("xal NONE\n");
	}
	if (load_idt())
		return 0;
	dirrd = sqfs_dir_reader_create(&super, cmp, file, 0);
	if (dirrd == NULL)
		return 1;
	ret = sqfs_dir_reader_get_full_hierarchy(dirrd, idtbl, NULL, 0, &root);
	if (ret) {
		printf("tree ERR %d\n", ret);
		return 0;
	}
	count_nodes(root, &c);
	printf("tree OK %zu\n", c);
	print_node(root, 0);
	for (i = 0; i < node_count && i < MAX_NODES; ++i) {
		sqfs_xattr_t *list = NULL, *e;
		sqfs_u32 idx = 0xFFFFFFFF;

		sqfs_inode_get_xattr_index(nodes[i]->inode, &idx);
		if (xattr == NULL) {
			printf("xa %zu NONE\n", i);
			continue;
		}
		ret = sqfs_xattr_reader_read_all(xattr, idx, &list);
		if (ret) {
			printf("xa %zu ERR %d\n", i, ret);
			continue;
		}
		printf("xa %zu OK", i);
		for (e = list; e != NULL; e = e->next) {
			putchar(' ');
			hexout((const sqfs_u8 *)e->key, strlen(e->key));
			putchar('=');
			hexout(e->value, e->value_len);
		}
		putchar('\n');
		sqfs_xattr_list_free(list);
	}
	sqfs_dir_tree_destroy(root);
	return 0;
}

/* recursive iterator as used by sqfs2tar (dir_iterator.c on top of dir_rec.c) */
static int run_iter(void)
{
	sqfs_dir_iterator_t *base = NULL, *rec = NULL;
	sqfs_inode_generic_t *root = NULL;
	size_t count = 0;
	int ret;

	if (load_idt())
		return 0;
	dirrd = sqfs_dir_reader_create(&super, cmp, file, 0);
	data = sqfs_data_reader_create(file, super.block_size, cmp, 0);
	if (dirrd == NULL || data == NULL)
		return 1;
	ret = sqfs_data_reader_load_fragment_table(data, &super);
	if (ret) {
		printf("frt ERR %d\n", ret);
		return 0;
	}
	ret = sqfs_dir_reader_get_root_inode(dirrd, &root);
	if (ret) {
		printf("root ERR %d\n", ret);
		return 0;
	}
	ret = sqfs_dir_iterator_create(dirrd, idtbl, data, NULL, root, &base);
	if (ret) {
		printf("it ERR %d\n", ret);
		sqfs_free(root);
		return 0;
	}
	ret = sqfs_dir_iterator_create_recursive(&rec, base);
	sqfs_drop(base);
	if (ret) {
		printf("rec ERR %d\n", ret);
		sqfs_free(root);
		return 0;
	}
	for (;;) {
		sqfs_dir_entry_t *ent = NULL;

		ret = rec->next(rec, &ent);
		if (ret != 0)
			break;
		printf("e ");
		hexout((const sqfs_u8 *)ent->name, strlen(ent->name));
		printf(" %o %llu\n", ent->mode, (unsigned long long)ent->size);
		sqfs_free(ent);
		if (++count > 200000) {
			ret = 2;
			break;
		}
	}
	if (ret < 0)
		printf("walk ERR %d %zu\n", ret, count);
	else if (ret == 2)
		printf("walk CAP %zu\n", count);
	else
		printf("walk OK %zu\n", count);
	sqfs_drop(rec);
	sqfs_free(root);
	return 0;
}

/* raw meta reader: ops "s<block>,<off>" seek, "r<n>" read n bytes; window = whole file */
static int run_meta(int argc, char **argv)
{
	sqfs_meta_reader_t *m;
	sqfs_u8 *buf;
	int i, ret;

	m = sqfs_meta_reader_create(file, cmp, 0, file->get_size(file));
	if (m == NULL)
		return 1;
	for (i = 0; i < argc; ++i) {
		if (argv[i][0] == 's') {
			unsigned long long blk = 0;
			unsigned long off = 0;
			sscanf(argv[i] + 1, "%llu,%lu", &blk, &off);
			ret = sqfs_meta_reader_seek(m, blk, off);
			printf("ms %d\n", ret);
		} else if (argv[i][0] == 'r') {
			size_t n = strtoul(argv[i] + 1, NULL, 10);
			buf = malloc(n ? n : 1);
			if (buf == NULL)
				return 1;
			ret = sqfs_meta_reader_read(m, buf, n);
			if (ret)
				printf("mr ERR %d\n", ret);
			else
				printf("mr OK %u\n", ck_add(0, buf, n));
			free(buf);
		}
	}
	sqfs_drop(m);
	return 0;
}

/* sqfs_dir_reader_resolve_path with the path in an exactly sized heap buffer */
static int run_path(const char *arg)
{
	sqfs_inode_generic_t *inode = NULL;
	sqfs_u64 ref = 0;
	size_t len = strlen(arg);
	char *path = malloc(len + 1);
	int ret;

	if (path == NULL)
		return 1;
	memcpy(path, arg, len + 1);
	dirrd = sqfs_dir_reader_create(&super, cmp, file, 0);
	if (dirrd == NULL)
		return 1;
	ret = sqfs_dir_reader_resolve_path(dirrd, path, NULL, &ref);
	if (ret) {
		printf("path ERR %d\n", ret);
	} else {
		ret = sqfs_dir_reader_get_inode(dirrd, ref, &inode);
		if (ret)
			printf("path OK %llu inode ERR %d\n", (unsigned long long)ref, ret);
		else
			printf("path OK %llu type %u\n", (unsigned long long)ref, inode->base.type);
		sqfs_free(inode);
	}
	free(path);
	return 0;
}

int main(int argc, char **argv)
{
	const char *mode = argc > 2 ? argv[2] : "all";
	int ret = 0;

	if (argc < 2)
		return 2;
	setvbuf(stdout, NULL, _IOLBF, 0);
	if (!strcmp(argv[1], "--comps")) {
		/* the compressor back ends this build of the library can create (uncompress mode) */
		int id;
		for (id = SQFS_COMP_MIN; id <= SQFS_COMP_MAX; ++id) {
			sqfs_compressor_config_t cfg;
			sqfs_compressor_t *cmp = NULL;
			if (sqfs_compressor_config_init(&cfg, id, 131072, SQFS_COMP_FLAG_UNCOMPRESS) == 0 &&
			    sqfs_compressor_create(&cfg, &cmp) == 0) {
				printf("%d\n", id);
				sqfs_drop(cmp);
			}
		}
		return 0;
	}
	if (open_image(argv[1]) == 0) {
		if (!strcmp(mode, "all"))
			ret = run_all();
		else if (!strcmp(mode, "xattr"))
			ret = run_xattr();
		else if (!strcmp(mode, "iter"))
			ret = run_iter();
		else if (!strcmp(mode, "meta"))
			ret = run_meta(argc - 3, argv + 3);
		else if (!strcmp(mode, "path") && argc > 3)
			ret = run_path(argv[3]);
	}
	printf("end\n");
	fflush(stdout);
	sqfs_drop(xattr);
	sqfs_drop(data);
	sqfs_drop(dirrd);
	sqfs_drop(idtbl);
	sqfs_drop(cmp);
	sqfs_drop(file);
	return ret;
}
