"""C05 — reading an untrusted image never corrupts memory, hangs or aborts.

Theorems: coq/Properties_C05.v (bounds-accounted model of the reader stack, coq/C05/).
Tie: extracted model (props/C05/driver.ml) vs. library harness (props/C05/h_reader.c, ASan+UBSan build of the
working tree) on generated hostile images: exact transcript (verdicts, error codes, payload).
Search oracle: rdsquashfs -l/-d/-s/-c/-x/-u, sqfs2tar, sqfsdiff and three harness modes on every image under
ASan+UBSan with time-out; a signal, sanitizer report, assertion or time-out is a violation whatever the model says."""
import base64
import hashlib
import json
import os
import random
import re
import resource
import shutil
import struct
import subprocess
import sys
import time
from concurrent.futures import ThreadPoolExecutor

from vlib import build as B
from vlib import core

HERE = os.path.dirname(os.path.abspath(__file__))
sys.path.insert(0, HERE)
import gen  # noqa: E402
import compopt  # noqa: E402  (leg "compressor configuration and options block", coq/CompOpt)
import wrap  # noqa: E402  (leg "wrap boundaries of count x element-size products", coq/C05/Wrap.v)
import compleg  # noqa: E402  (leg "hostile COMPRESSED blocks for every compiled-in compressor": valid streams with forged inner fields)
import lookup  # noqa: E402  (leg "path / name lookup on hostile directory entry names", coq/C05/Lookup.v)
import huge  # noqa: E402  (leg "huge logical sizes in tiny images": files of 2^32 bytes and more made of sparse blocks)

LEVEL = "proof"
TIMEOUT = 10
NEST_TESTED = 2000        # directory nesting depth the quick tier requires the tools to survive (8 MiB stack)
NEST_WITNESS = 60000      # thorough tier: nesting that exhausts the stack (known finding)
SAN_ENV = dict(ASAN_OPTIONS="detect_leaks=0:allocator_may_return_null=1:exitcode=97:max_allocation_size_mb=2048:"
                            "abort_on_error=0:handle_abort=1",
               UBSAN_OPTIONS="print_stacktrace=1:halt_on_error=1:exitcode=97")


# --------------------------------------------------------------------------
# layout constants for the model: regenerated before the proofs are re-checked
# (this module is loaded before core.prepare_proofs runs)
# --------------------------------------------------------------------------

def regen_gen_c05():
    dst = os.path.join(core.COQ, "C05", "GenC05.v")
    d = os.path.join(os.environ.get("TMPDIR", "/var/tmp"), "verif-c05gen.%d" % os.getpid())
    os.makedirs(d, exist_ok=True)
    try:
        exe = os.path.join(d, "g")
        rc, out = core.sh(["gcc", "-w", "-I" + os.path.join(B.REPO, "include"), "-I" + os.path.dirname(B.config_h_path()),
                           os.path.join(HERE, "gen_c05.c"), "-o", exe])
        if rc != 0:
            return "gen_c05.c does not compile against the current headers: " + out[-1500:]
        rc, txt = core.sh([exe])
        if rc != 0:
            return "gen_c05 failed"
        with core.Lock("coq"):
            old = open(dst).read() if os.path.exists(dst) else None
            if old != txt:
                open(dst, "w").write(txt)
        return None
    finally:
        shutil.rmtree(d, ignore_errors=True)


GEN_ERR = regen_gen_c05() or compopt.regen()


# --------------------------------------------------------------------------
# running things
# --------------------------------------------------------------------------

def limits():
    """inherited by every child (no preexec_fn: keeps subprocess on the fast vfork path)"""
    resource.setrlimit(resource.RLIMIT_CORE, (0, 0))
    resource.setrlimit(resource.RLIMIT_FSIZE, (1 << 30, 1 << 30))


def run_proc(cmd, cwd=None, timeout=TIMEOUT, stdout=subprocess.PIPE, env=None):
    t0 = time.time()
    try:
        r = subprocess.run(cmd, cwd=cwd, stdout=stdout, stderr=subprocess.PIPE, env=env, timeout=timeout)
        return dict(rc=r.returncode, out=(r.stdout or b"") if stdout == subprocess.PIPE else b"",
                    err=r.stderr.decode("latin-1"), t=time.time() - t0)
    except subprocess.TimeoutExpired as e:
        return dict(rc="TIMEOUT", out=(e.stdout or b"") if stdout == subprocess.PIPE else b"",
                    err=(e.stderr or b"").decode("latin-1"), t=time.time() - t0)


FRAME_RE = re.compile(r"#\d+ 0x[0-9a-f]+ in (\S+) (\S+)")


def died(r):
    """None if the process ended by itself with an ordinary exit status, else a short description.
    Stable part = kind + innermost frame inside the repository sources."""
    rc, err = r["rc"], r["err"]
    kind = None
    if rc == "TIMEOUT":
        return "timeout"
    if "ERROR: AddressSanitizer" in err or "ERROR: LeakSanitizer" in err:
        m = re.search(r"ERROR: AddressSanitizer: (\S+)", err)
        kind = "asan-" + (m.group(1) if m else "report")
    elif "runtime error:" in err:
        m = re.search(r"runtime error: ([a-z ]+)", err)
        kind = "ubsan-" + (m.group(1).strip().replace(" ", "-")[:40] if m else "report")
    elif isinstance(rc, int) and rc < 0:
        kind = "signal-%d" % (-rc)
    elif rc == 97:
        kind = "sanitizer-exit"
    elif "Assertion" in err and "failed" in err:
        kind = "assertion"
    if kind is None:
        return None
    fn = "?"
    for m in FRAME_RE.finditer(err):
        if "/lib/" in m.group(2) or "/bin/" in m.group(2):
            if not m.group(2).startswith("/verif/props") and "libsanitizer" not in m.group(2) and "sysdeps" not in m.group(2):
                fn = m.group(1)
                break
    return "%s:%s" % (kind, fn)


class Env:
    pass


def setup_env(ctx):
    e = Env()
    e.info = B.build("asan")
    e.H = B.compile_harness(e.info, [os.path.join(HERE, "h_reader.c")], "h_reader_c05",
                            extra=["-I" + os.path.join(B.REPO, "include")])
    e.D = core.build_model_driver("C05", "ExtractC05.v", os.path.join(HERE, "driver.ml"),
                                  stubs_c=os.path.join(HERE, "stubs.c"), cclibs=["-lz"])
    e.T = e.info["tools"]
    e.env = dict(os.environ, **SAN_ENV)
    # the compressor back ends this build can create: the model's run_reader_build is given the same set
    r = subprocess.run([e.H, "--comps"], stdout=subprocess.PIPE, stderr=subprocess.PIPE, env=e.env, timeout=60)
    avail = ",".join(l.strip() for l in r.stdout.decode().split("\n") if l.strip().isdigit())
    if r.returncode != 0 or not avail:
        raise RuntimeError("h_reader --comps failed: rc=%s %s" % (r.returncode, r.stderr.decode()[-300:]))
    os.environ["C05_AVAIL"] = avail        # inherited by every model driver process
    e.avail = avail
    e.dir = os.path.join(ctx.scratch, "img")
    os.makedirs(e.dir, exist_ok=True)
    return e


def model_batch(e, jobs):
    """jobs: list of (mode, path, [ops]) -> dict (mode, path) -> list of lines"""
    def one(chunk):
        inp = "".join("%s %s%s\n" % (m, p, "".join(" " + o for o in ops)) for m, p, ops in chunk)

        try:
            r = subprocess.run(["sh", "-c", "ulimit -s unlimited 2>/dev/null; exec \"$0\" -batch", e.D], input=inp.encode(),
                               stdout=subprocess.PIPE, stderr=subprocess.PIPE, timeout=900)
        except subprocess.TimeoutExpired:
            return {}
        out = {}
        cur = None
        for line in r.stdout.decode("latin-1").split("\n"):
            if line.startswith("== "):
                _, m, p = line.split(" ", 2)
                cur = (m, p)
                out[cur] = []
            elif cur is not None and line:
                out[cur].append(line)
        return out
    n = 16
    chunks = [jobs[k::n] for k in range(n)]
    res = {}
    with ThreadPoolExecutor(n) as ex:
        for o in ex.map(one, [c for c in chunks if c]):
            res.update(o)
        # a batch process that was killed (time-out under load) or died takes the rest of its chunk with it:
        # run the jobs that have no transcript yet one per process before calling anything "missing"
        missing = [j for j in jobs if (j[0], j[1]) not in res]
        if missing:
            for o in ex.map(one, [[j] for j in missing]):
                res.update(o)
    return res


def node_paths(lines):
    """paths of the tree printed in 'n <depth> <namehex> <type> ...' lines -> list of (path bytes, type)"""
    out = []
    stack = []
    for l in lines:
        if not l.startswith("n "):
            continue
        p = l.split(" ")
        depth = int(p[1])
        name = b"" if p[2] == "-" else bytes.fromhex(p[2])
        stack = stack[:depth] + [name]
        out.append((b"/".join(stack[1:]), int(p[3])))
    return out


def node_names(lines):
    return [b"" if l.split(" ")[2] == "-" else bytes.fromhex(l.split(" ")[2]) for l in lines if l.startswith("n ")]


def arg_ok(path):
    return path and b"\0" not in path and all(c not in (b"", b".", b"..") for c in path.split(b"/")) and len(path) < 200


# --------------------------------------------------------------------------
# evaluation of a list of images
# --------------------------------------------------------------------------

def evaluate(ctx, e, cases, pristine=None, tools=True, model=True, targets=None):
    """cases: list of (name, bytes).  targets: optional {case index: [(rdsquashfs flag, path bytes)]} = additional
    queries aimed at particular inodes, each in a process of its own.  Returns (violations, stats)."""
    paths = []
    for i, (name, img) in enumerate(cases):
        p = os.path.join(e.dir, "%06d.sqfs" % i)
        with open(p, "wb") as f:
            f.write(img)
        paths.append(p)
    # 1. library harness, three modes
    hjobs = [(i, m) for i in range(len(cases)) for m in ("all", "xattr", "iter")]

    def runh(j):
        i, m = j
        return j, run_proc([e.H, paths[i], m], env=e.env)
    # 2. model (in the background: it only needs the image files)
    import threading
    mbox = {}

    def run_model():
        t = time.time()
        mbox["res"] = model_batch(e, [(m, paths[i], []) for i in range(len(cases)) for m in ("all", "xattr")]) if model else {}
        mbox["t"] = time.time() - t
    mth = threading.Thread(target=run_model)
    mth.start()
    tt = time.time()
    with ThreadPoolExecutor(12) as ex:
        hres = dict(ex.map(runh, hjobs))
    t_h = time.time() - tt
    mth.join()
    mres = mbox["res"]
    t_m = mbox["t"]
    viol = []
    stats = dict(runs=len(hjobs), compared=0, agree=0, unk=0, nontrivial=set(), tree_ok=0, err_classes={}, tool_runs=0,
                 verdict_checked=0)
    tool_jobs = []
    for i, (name, img) in enumerate(cases):
        key = hashlib.sha256(img).hexdigest()[:16]
        hall = hres[(i, "all")]
        accept = None
        for m in ("all", "xattr", "iter"):
            r = hres[(i, m)]
            d = died(r)
            if d:
                viol.append(dict(sig="crash:harness-%s:%s" % (m, d), what="library harness (%s) on image '%s': %s; %s" % (
                    m, name, d, r["err"][:300].replace("\n", " ")), img=img, name=name, concrete=True,
                    detail=dict(tool="h_reader " + m, stderr=r["err"][:3000])))
        for m in ("all", "xattr"):
            r = hres[(i, m)]
            if died(r):
                continue
            c = [l for l in r["out"].decode("latin-1").split("\n") if l]
            ml = mres.get((m, paths[i]))
            if not model:
                continue
            if ml is None:
                viol.append(dict(sig="machinery:model-missing", what="model driver produced no transcript for '%s'" % name,
                                 img=img, name=name, concrete=False, detail={}))
                continue
            if any(l in ("MODEL-STACK", "MODEL-OOM") for l in ml):
                stats["unk"] += 1
                continue
            if "UNK" in ml:
                stats["unk"] += 1
                continue
            stats["compared"] += 1
            if any("CRASH" in l.split(" ") or "FUEL" in l.split(" ") for l in ml):
                bad = [l for l in ml if "CRASH" in l.split(" ") or "FUEL" in l.split(" ")][0]
                viol.append(dict(sig="model:crash-or-fuel", what="extracted model reports %s on image '%s' (contradicts "
                                 "reader_safe / driver fuel too small)" % (bad, name), img=img, name=name, concrete=False,
                                 detail=dict(model=bad)))
                continue
            if c != ml:
                x = y = "<eof>"
                for a, b in zip(c + ["<eof>"], ml + ["<eof>"]):
                    if a != b:
                        x, y = a, b
                        break
                tag = (x.split(" ")[0] + "/" + y.split(" ")[0])
                viol.append(dict(sig="tie:%s:%s" % (m, tag), what="model and library disagree on image '%s' (%s): impl '%s' "
                                 "model '%s'" % (name, m, x[:160], y[:160]), img=img, name=name, concrete=False,
                                 detail=dict(mode=m, impl=x, model=y,
                                             correspondence="props/C05: run_reader (extracted) = h_reader transcript")))
            else:
                stats["agree"] += 1
            if m == "all":
                if len(ml) > 2:
                    stats["nontrivial"].add(key)
                if any(l.startswith("tree OK") for l in ml):
                    stats["tree_ok"] += 1
                for l in ml:
                    w = l.split(" ")
                    if "ERR" in w:
                        k = w[0] + ":" + w[w.index("ERR") + 1]
                        stats["err_classes"][k] = stats["err_classes"].get(k, 0) + 1
        # model's verdict for "the tools can read the tree": super, xattr load, id table, frag table, tree all OK
        ma = mres.get(("all", paths[i])) or []
        mx = mres.get(("xattr", paths[i])) or []
        if "UNK" not in ma and "UNK" not in mx and ma and mx and not died(hall):
            ok_all = any(l.startswith("tree OK") for l in ma)
            ok_x = any(l.startswith("xal OK") or l.startswith("xal NONE") for l in mx)
            has_super = any(l.startswith("super OK") for l in ma)
            accept = (ok_all and ok_x) if has_super else False
        if tools:
            files = [p for p, t in node_paths(hall["out"].decode("latin-1").split("\n")) if t in (2, 9) and arg_ok(p)]
            links = [p for p, t in node_paths(hall["out"].decode("latin-1").split("\n")) if t in (3, 10) and arg_ok(p)]
            anyp = [p for p, t in node_paths(hall["out"].decode("latin-1").split("\n")) if arg_ok(p)]
            f0 = files[0] if files else b"f1"
            allp = node_paths(hall["out"].decode("latin-1").split("\n"))
            if accept:
                # describe additionally refuses names sqfs_tree_node_get_path rejects
                accept = all(c not in (b"", b".", b"..") for p, t in allp[1:] for c in [p.split(b"/")[-1]]) and \
                    all(b"/" not in nm for nm in node_names(hall["out"].decode("latin-1").split("\n"))[1:])
            tool_jobs.append((i, "rdsquashfs -l", [e.T["rdsquashfs"], "-l", "/", paths[i]], None))
            tool_jobs.append((i, "rdsquashfs -d", [e.T["rdsquashfs"], "-d", paths[i]], accept))
            tool_jobs.append((i, "rdsquashfs -c", [e.T["rdsquashfs"], "-c", f0, paths[i]], None))
            if len(files) > 1:
                tool_jobs.append((i, "rdsquashfs -c", [e.T["rdsquashfs"], "-c", files[-1], paths[i]], None))
            tool_jobs.append((i, "rdsquashfs -s", [e.T["rdsquashfs"], "-s", (links[0] if links else f0), paths[i]], None))
            if anyp:
                tool_jobs.append((i, "rdsquashfs -s", [e.T["rdsquashfs"], "-s", anyp[len(anyp) // 2], paths[i]], None))
            tool_jobs.append((i, "rdsquashfs -x", [e.T["rdsquashfs"], "-x", f0, paths[i]], None))
            tool_jobs.append((i, "rdsquashfs -u", None, None))
            tool_jobs.append((i, "sqfs2tar", [e.T["sqfs2tar"], paths[i]], None))
            tool_jobs.append((i, "sqfsdiff", [e.T["sqfsdiff"], "-a", paths[i], "-b", paths[i]], None))
            if pristine:
                tool_jobs.append((i, "sqfsdiff", [e.T["sqfsdiff"], "-a", pristine, "-b", paths[i]], None))
            for fl, tp in (targets or {}).get(i, []):
                tool_jobs.append((i, "rdsquashfs " + fl, [e.T["rdsquashfs"], fl, tp, paths[i]], None))
    # 3. tools
    if tool_jobs:
        def runt(j, timeout=TIMEOUT):
            i, label, cmd, accept = j
            if label == "rdsquashfs -u":
                d = os.path.join(ctx.scratch, "unp", "%06d" % i)
                os.makedirs(d, exist_ok=True)
                r = run_proc([e.T["rdsquashfs"], "-q", "-u", "/", "-p", d, "-X", paths[i]], env=e.env,
                             stdout=subprocess.DEVNULL, timeout=timeout)
                shutil.rmtree(d, ignore_errors=True)
                return j, r
            return j, run_proc(cmd, env=e.env, stdout=subprocess.DEVNULL, timeout=timeout)
        tt = time.time()
        with ThreadPoolExecutor(16) as ex:
            tres = list(ex.map(runt, tool_jobs))
        # A time-out among 16 parallel sanitizer runs on a loaded machine is not yet a hang (vp check 5: the images with a
        # 2^27-entry fragment table made every tool allocate and clear 2 GiB at once and all of them passed the 10 s
        # limit on the busy copy): a run that timed out is repeated ALONE with a generous limit; it is reported as a hang
        # only if it does not finish then either.  After the first confirmed hang the remaining time-outs stand as they are.
        confirmed = False
        for k, (j, r) in enumerate(tres):
            if r["rc"] != "TIMEOUT" or confirmed:
                continue
            _, r2 = runt(j, timeout=TIMEOUT * 9)
            if r2["rc"] == "TIMEOUT":
                confirmed = True
            else:
                tres[k] = (j, r2)
                stats["timeouts_passed_alone"] = stats.get("timeouts_passed_alone", 0) + 1
        stats["tool_runs"] = len(tres)
        slow = sorted(tres, key=lambda x: -x[1]["t"])[:3]
        ctx.log("  harness %.1fs model %.1fs tools %.1fs; slowest: %s" % (t_h, t_m, time.time() - tt, [
            (cases[j[0]][0][:40], j[1], round(r["t"], 1)) for j, r in slow]))
        for (i, label, cmd, accept), r in tres:
            name, img = cases[i]
            d = died(r)
            if d:
                sig = ("hang:%s" % label) if d == "timeout" else "crash:%s:%s" % (label, d)
                viol.append(dict(sig=sig, what="%s on image '%s': %s; %s" % (label, name, d, r["err"][:300].replace("\n", " ")),
                                 img=img, name=name, concrete=True, detail=dict(tool=label, stderr=r["err"][:3000])))
            elif accept is not None:
                stats["verdict_checked"] += 1
                if (r["rc"] == 0) != accept:
                    viol.append(dict(sig="verdict:%s" % label, what="%s %s image '%s' but the model %s it" % (
                        label, "accepts" if r["rc"] == 0 else "rejects", name, "accepts" if accept else "rejects"),
                        img=img, name=name, concrete=False,
                        detail=dict(tool=label, rc=r["rc"], stderr=r["err"][:500],
                                    correspondence="props/C05: tool verdict = model verdict on the tree query")))
    stats["runs"] += stats["tool_runs"]
    if targets:
        tmap = {cases[i][0]: [[fl, tp.decode("latin-1")] for fl, tp in t] for i, t in targets.items()}
        for v in viol:
            if v.get("name") in tmap:
                v.setdefault("detail", {})["targets"] = tmap[v["name"]]
    for p in paths:
        try:
            os.unlink(p)
        except OSError:
            pass
    return viol, stats


def meta_sequences(ctx, e):
    """raw meta reader op sequences, continuing after errors (library API): the stale-state sequences"""
    from vlib.sqfsimg import Builder, BNode, T_DIR
    viol = []
    n = 0
    root = BNode(T_DIR, mode=0o755, children=[])
    base = bytearray(Builder(root).build())
    X = len(base)
    blk = bytes(range(256)) * 32
    imgs = {
        "meta:empty-next": base + struct.pack("<H", 0x8000 | 8192) + blk + struct.pack("<H", 0x8000) + b"\0" * 64,
        "meta:short-next": base + struct.pack("<H", 0x8000 | 8192) + blk + struct.pack("<H", 0x8000 | 100) + b"\1" * 10,
        "meta:huge-next": base + struct.pack("<H", 0x8000 | 8192) + blk + struct.pack("<H", 0xFFFF) + b"\2" * 64,
        "meta:garbage-compressed": base + struct.pack("<H", 0x8000 | 8192) + blk + struct.pack("<H", 20) + b"\3" * 64,
        "meta:oversize": base + struct.pack("<H", 0xFFFF) + b"\4" * 40000,
        "meta:oversize-8193": base + struct.pack("<H", 0x8000 | 8193) + b"\5" * 40000,
        # a short block (100 valid bytes) followed by a full one: offsets between data_used and 8192 into the
        # block that is already loaded must be refused exactly like on a freshly loaded block
        "meta:short-first": base + struct.pack("<H", 0x8000 | 100) + b"\6" * 100 + struct.pack("<H", 0x8000 | 8192) + blk,
    }
    seqs = [["s%d,0" % X, "r8192", "r1", "r16"], ["s%d,0" % X, "r8192", "r1", "r20000"],
            ["s%d,8191" % X, "r1", "r1", "r1", "s%d,0" % X, "r3"], ["s%d,8192" % X, "r1"], ["r5"],
            ["s%d,0" % X, "r100", "s%d,0" % (X + 8194), "r40000", "r8"], ["s0,0", "r4"], ["s%d,0" % (X + 8194), "r0", "r1"],
            # seek again into the block that is cached, at / beyond its number of valid bytes, then read
            ["s%d,0" % X, "r10", "s%d,100" % X, "r1"], ["s%d,0" % X, "r10", "s%d,5000" % X, "r8", "r200"],
            ["s%d,99" % X, "r1", "s%d,8191" % X, "r4"], ["s%d,0" % X, "s%d,101" % X, "r8192"],
            ["s%d,0" % X, "r10", "s%d,101" % X, "r40000"], ["s%d,0" % X, "r10", "s%d,8191" % X, "r40000", "r1"]]
    jobs = []
    for nm, img in imgs.items():
        p = os.path.join(e.dir, nm.replace(":", "_") + ".sqfs")
        open(p, "wb").write(bytes(img))
        for s in seqs:
            jobs.append((nm, p, s, bytes(img)))
    mres = {}
    for nm, p, s, img in jobs:
        r = subprocess.run([e.D, p, "meta"] + s, stdout=subprocess.PIPE, stderr=subprocess.PIPE)
        mres[(p, tuple(s))] = [l for l in r.stdout.decode().split("\n") if l]
    for nm, p, s, img in jobs:
        r = run_proc([e.H, p, "meta"] + s, env=e.env)
        n += 1
        d = died(r)
        name = "%s %s" % (nm, " ".join(s))
        if d:
            viol.append(dict(sig="crash:harness-meta:%s" % d, what="meta reader op sequence '%s': %s; %s" % (
                name, d, r["err"][:300].replace("\n", " ")), img=img, name=name, concrete=True,
                detail=dict(tool="h_reader meta " + " ".join(s), ops=s, stderr=r["err"][:3000])))
            continue
        c = [l for l in r["out"].decode().split("\n") if l]
        ml = mres[(p, tuple(s))]
        if c != ml:
            x = y = "<eof>"
            for a, b in zip(c + ["<eof>"], ml + ["<eof>"]):
                if a != b:
                    x, y = a, b
                    break
            viol.append(dict(sig="tie:meta:%s" % x.split(" ")[0], what="meta reader sequence '%s': impl '%s' model '%s'" % (
                name, x, y), img=img, name=name, concrete=False,
                detail=dict(ops=s, impl=x, model=y, correspondence="props/C05: mr_ops (extracted) = sqfs_meta_reader_seek/_read")))
    return viol, n


def real_images(ctx, e, rnd):
    """images written by the working tree's gensquashfs with several compressors"""
    src = os.path.join(ctx.scratch, "src")
    os.makedirs(src, exist_ok=True)
    open(os.path.join(src, "a.txt"), "wb").write(b"hello world\n" * 700)
    open(os.path.join(src, "b.bin"), "wb").write(bytes(rnd.randrange(256) for _ in range(9000)))
    open(os.path.join(src, "c.zero"), "wb").write(b"\0" * 20000)
    open(os.path.join(src, "d.small"), "wb").write(b"tiny")
    pack = os.path.join(src, "pack.txt")
    lines = ["dir /d 0755 1000 100", "dir /d/e 0700 0 0", "file /d/a.txt 0644 1000 100 %s/a.txt" % src,
             "file /d/b.bin 0600 0 0 %s/b.bin" % src, "file /c.zero 0644 0 0 %s/c.zero" % src,
             "file /d/e/d.small 0644 0 0 %s/d.small" % src, "slink /lnk 0777 0 0 d/a.txt", "nod /chr 0600 0 0 c 5 1",
             "pipe /fifo 0644 0 0", "sock /sock 0644 0 0", "link /hard 0 0 0 /d/a.txt"]
    for i in range(40):
        lines.append("dir /many%02d 0755 0 0" % i)
    open(pack, "w").write("\n".join(lines) + "\n")
    out = []
    for comp, bs in (("gzip", 4096), ("gzip", 131072), ("xz", 4096), ("lz4", 4096), ("zstd", 4096)):
        p = os.path.join(src, "real-%s-%d.sqfs" % (comp, bs))
        r = run_proc([e.T["gensquashfs"], "-q", "-f", "-F", pack, "-c", comp, "-b", str(bs), p], env=e.env, timeout=60)
        if r["rc"] == 0 and os.path.exists(p):
            out.append(("%s-%d" % (comp, bs), p, open(p, "rb").read()))
        else:
            ctx.notes.append("gensquashfs -c %s failed: %s" % (comp, r["err"][:200]))
    return out


def deep_nest(depth):
    from vlib.sqfsimg import Builder, BNode, T_DIR
    sys.setrecursionlimit(max(sys.getrecursionlimit(), 4 * depth + 1000))
    d = BNode(T_DIR, mode=0o755, children=[])
    for i in range(depth):
        d = BNode(T_DIR, mode=0o755, children=[(b"a", d)])
    return Builder(d).build()


def report(ctx, viol):
    """tie broke => search: a concrete failure found anywhere is reported as such; ties without one as no-input."""
    seen = set()
    for v in viol:
        if v["sig"] in seen:
            continue
        seen.add(v["sig"])
        obj = dict(image_b64=base64.b64encode(v["img"]).decode() if v.get("img") is not None else None,
                   image_name=v.get("name"), **v.get("detail", {}))
        ctx.violation(v["sig"], v["what"], obj, no_input=not v["concrete"])


def run(ctx):
    if GEN_ERR:
        ctx.violation("machinery:gen-c05", GEN_ERR, dict(kind="constants generator"), no_input=True)
        return
    limits()
    e = setup_env(ctx)
    ctx.trusted += [
        "props/C05/h_reader.c (API harness), props/C05/driver.ml + stubs.c (byte/number printing, checksum, system zlib "
        "with gzip.c's return convention)",
        "props/C05/gen_c05.c: struct layout constants -> coq/C05/GenC05.v (regenerated on every run)",
        "vlib/sqfsimg.py Builder + props/C05/gen.py (image generator)",
        "ASan/UBSan (gcc), 10 s time-out, ASAN max_allocation_size_mb=2048 = alloc_limit of the model",
        "decompressor libraries: oracle with contract codec_ok (total, output fits the buffer); gzip bound to system zlib in "
        "the tie, other compressors are not compared (search oracle only)",
        "props/C05/compleg.py (locator of the blocks of a real image, codec-aware field edits, hand-made LZMA-alone streams; "
        "Python zlib / lzma, system liblz4 / libzstd via ctypes) + props/C10/sizeleg.py, errleg.py reused by path",
        "props/C05/h_lookup.c (lookup harness, paths in exactly sized heap buffers) + props/C05/lookup.py + lookup_driver.ml "
        "(glue around the extracted coq/C05/Lookup.v `resolve`, ExtractC05Lookup.v: ExtrOcamlBasic only); the directory "
        "listings given to the model are read from the image by vlib/sqfsimg.py; expect_tree (get_full_hierarchy, a different "
        "loop shape, not in the Coq model) and the answers of queries beyond lookup.MODEL_COST_LIMIT (model_skipped) are a "
        "Python transliteration",
    ]
    ctx.assumptions += [
        "size_t is 64 bit; allocations above 2 GiB fail (model: alloc_limit; implementation run with the same limit)",
        "directory nesting <= %d levels tested in the quick tier (8 MiB stack); deeper nesting exhausts the C stack "
        "(recorded finding)" % NEST_TESTED,
        "dir reader flags = 0 and tree flags = 0 (as every tool uses them); Windows paths, LZO not modelled",
    ]
    rnd = random.Random(ctx.seed)
    if ctx.replay:
        r = json.load(open(ctx.replay))
        if r.get("leg") == "compopt":
            st = compopt.run_leg(ctx, e.info, e.env, random.Random(ctx.seed), replay=r.get("cases") or [r["case"]])
            ctx.coverage["evaluations"] = st.get("cases", 0)
            ctx.coverage["rule"] = "replay of " + ctx.replay
            ctx.coverage["distinct_nontrivial"] = 1
            return
        img = base64.b64decode(r["image_b64"]) if r.get("image_b64") else None
        viol = []
        if img is not None and r.get("leg") == "huge":
            viol = huge.replay(ctx, e, r, run_proc, died, TIMEOUT)
            ctx.coverage["evaluations"] = 1
        elif img is not None and r.get("leg") == "lookup":
            viol = lookup.replay(ctx, e, r, img, run_proc, died, TIMEOUT)
            ctx.coverage["evaluations"] = 1
        elif img is not None:
            if r.get("ops"):
                p = os.path.join(e.dir, "replay.sqfs")
                open(p, "wb").write(img)
                rr = run_proc([e.H, p, "meta"] + r["ops"], env=e.env)
                d = died(rr)
                if d:
                    viol.append(dict(sig="crash:harness-meta:%s" % d, what="replayed meta sequence: %s %s" % (d, rr["err"][:300]),
                                     img=img, name=r.get("image_name"), concrete=True, detail=dict(ops=r["ops"])))
                ctx.coverage["evaluations"] = 1
            else:
                tg = {0: [(fl, tp.encode("latin-1")) for fl, tp in r["targets"]]} if r.get("targets") else None
                viol, st = evaluate(ctx, e, [(r.get("image_name", "replay"), img)], targets=tg)
                ctx.coverage["evaluations"] = st["runs"]
        ctx.coverage["rule"] = "replay of " + ctx.replay
        ctx.coverage["distinct_nontrivial"] = 1
        report(ctx, viol)
        return
    co = compopt.run_leg(ctx, e.info, e.env, random.Random(ctx.seed * 7919 + 5))
    ctx.log("compressor options leg: %s" % co)
    t0 = time.time()
    cases = list(gen.field_cases(rnd, ctx.tier)) + list(gen.loop_cases(rnd)) + list(gen.xattr_cases(rnd, ctx.tier))
    mh = list(gen.meta_header_cases(rnd, ctx.tier))
    cases += mh if ctx.tier == "thorough" else ([x for x in mh if x[0].startswith("methdr-pad")] +
                                                 rnd.sample([x for x in mh if not x[0].startswith("methdr-pad")], 30))
    nfield = len(cases)
    reals = real_images(ctx, e, rnd)
    nmut = 0
    per = 36 if ctx.tier == "quick" else 800
    real_cases = []
    for nm, p, img in reals:
        real_cases.append(("real:%s" % nm, img, p))
        for kind, m in gen.mutate(rnd, img, per):
            real_cases.append(("mut:%s:%s" % (nm, kind), m, p))
            nmut += 1
    ctx.log("generated %d structured + %d real/mutated images in %.1fs" % (nfield, len(real_cases), time.time() - t0))
    viol = []
    stats_all = []
    CH = 400
    for k in range(0, len(cases), CH):
        v, st = evaluate(ctx, e, cases[k:k + CH])
        viol += v
        stats_all.append(st)
        ctx.log("structured %d/%d: %d problems so far (%.0fs)" % (min(k + CH, len(cases)), len(cases), len(viol), time.time() - ctx.t0))
    # wrap boundaries of every count x element-size product the reader computes (props/C05/wrap.py)
    tw = time.time()
    wc = wrap.wrap_cases(random.Random(ctx.seed * 104729 + 11), ctx.tier)
    v, st = evaluate(ctx, e, [(nm, img) for nm, img, _ in wc], targets={k: t for k, (_, _, t) in enumerate(wc)})
    viol += v
    stats_all.append(st)
    nwrap = len(wc)
    ctx.log("wrap-boundary leg: %d images, %d executions, %d problems so far (%.1fs)" % (
        nwrap, st["runs"], len(viol), time.time() - tw))
    # files of 2^32 bytes and more made of sparse blocks, in images of a few KiB: every tool must still make progress
    v, st = huge.run_leg(ctx, e, random.Random(ctx.seed * 15485863 + 17), run_proc, died, model_batch, TIMEOUT)
    viol += v
    stats_all.append(st)
    nhuge = st["images"]
    # valid streams of every compiled-in compressor with forged inner size fields / another expansion than the container
    # expects / an early end, as metadata, fragment and data blocks (props/C05/compleg.py); sanitizer oracle only
    tc = time.time()
    v, st, csum = compleg.run_leg(ctx, e, random.Random(ctx.seed * 32452843 + 23), evaluate, run_proc,
                                  set(int(x) for x in e.avail.split(",")))
    viol += v
    stats_all.append(st)
    ctx.log("compressed-block leg: %s, %d executions, %d problems so far (%.1fs)" % (csum, st["runs"], len(viol), time.time() - tc))
    # every public path / name lookup entry point on hostile directory entry names, paths in exactly sized heap buffers
    tl = time.time()
    v, lkst = lookup.run_leg(ctx, e, random.Random(ctx.seed * 49979687 + 29), run_proc, died, TIMEOUT)
    viol += v
    stats_all.append(lkst)
    ctx.log("lookup leg: %d images, %d paths, %d API calls, %d answers checked (%d paths answered by the extracted model, %d "
            "too long for it), %d tool runs, %d problems so far (%.1fs)" % (
                lkst["images"], lkst["queries"], lkst["calls"], lkst["answers_checked"], lkst["model_answers"],
                lkst["model_skipped"], lkst["tool_runs"], len(viol), time.time() - tl))
    by_p = {}
    for nm, img, p in real_cases:
        by_p.setdefault(p, []).append((nm, img))
    for p, lst in by_p.items():
        for k in range(0, len(lst), CH):
            v, st = evaluate(ctx, e, lst[k:k + CH], pristine=p)
            viol += v
            stats_all.append(st)
    ctx.log("real/mutated done: %d problems so far (%.0fs)" % (len(viol), time.time() - ctx.t0))
    v, nmeta = meta_sequences(ctx, e)
    viol += v
    # nesting depth the tools must survive
    img = deep_nest(NEST_TESTED)
    v, st = evaluate(ctx, e, [("nest:%d" % NEST_TESTED, img)], model=False)
    viol += v
    stats_all.append(st)
    if ctx.tier == "thorough":
        # witnesses of the two recorded findings (resource exhaustion, not memory errors)
        img = deep_nest(NEST_WITNESS)
        p = os.path.join(e.dir, "deep.sqfs")
        open(p, "wb").write(img)
        r = run_proc([e.T["rdsquashfs"], "-d", p], env=e.env, stdout=subprocess.DEVNULL, timeout=120)
        d = died(r)
        if d:
            ctx.violation("stack-overflow:nesting-%d" % NEST_WITNESS, "rdsquashfs -d on %d nested directories: %s (recursion of "
                          "fill_dir / sqfs_dir_tree_destroy has one C stack frame per level)" % (NEST_WITNESS, d),
                          dict(kind="deep nesting", depth=NEST_WITNESS, generator="props/C05/check.py:deep_nest", stderr=r["err"][:1500]))
        from vlib.sqfsimg import Builder, BNode, T_DIR
        dnode = BNode(T_DIR, mode=0o755, children=[])
        for i in range(34):
            dnode = BNode(T_DIR, mode=0o755, children=[(b"a", dnode), (b"b", dnode)])
        bomb = Builder(dnode).build()
        p = os.path.join(e.dir, "bomb.sqfs")
        open(p, "wb").write(bomb)
        r = run_proc([e.T["rdsquashfs"], "-d", p], env=dict(e.env, ASAN_OPTIONS=SAN_ENV["ASAN_OPTIONS"] + ":hard_rss_limit_mb=3000"),
                     stdout=subprocess.DEVNULL, timeout=20)
        d = died(r)
        if d:
            ctx.violation("dag-bomb:fanout-2-depth-34", "rdsquashfs -d on a %d byte image whose 34 directories each list the next one "
                          "twice: %s (the tree is unfolded to 2^34 nodes; only ancestors are checked)" % (len(bomb), d),
                          dict(image_b64=base64.b64encode(bomb).decode(), kind="directory DAG unfolding"))
    # coverage
    tot = dict(runs=0, compared=0, agree=0, unk=0, tree_ok=0, tool_runs=0, verdict_checked=0)
    nontriv = set()
    errc = {}
    for st in stats_all:
        for k in tot:
            tot[k] += st[k]
        nontriv |= st["nontrivial"]
        for k, n in st["err_classes"].items():
            errc[k] = errc.get(k, 0) + n
    ctx.coverage["evaluations"] = tot["runs"] + nmeta + co.get("cases", 0)
    ctx.coverage["traces_validated_against_impl_compopt"] = co.get("agree", 0)
    ctx.coverage["compopt"] = co
    ctx.coverage["distinct_nontrivial"] = len(nontriv)
    ctx.coverage["tool_timeouts_passed_when_run_alone"] = sum(st.get("timeouts_passed_alone", 0) for st in stats_all)
    ctx.coverage["traces_validated_against_impl"] = tot["agree"]
    ctx.coverage["rule"] = (
        "images: %d structured (9 valid Builder templates x single-field overrides at 0/1/max-1/max and the boundary +-1 of "
        "every model check, super block fields, 5 reference loops, 1 DAG, xattr tables) + %d gensquashfs images (gzip/xz/lz4/zstd) "
        "with %d byte/bit/word mutants biased to super block, location lists, metadata headers; seed %d. Each image: 3 harness "
        "modes + up to 11 tool runs under ASan/UBSan, 10 s time-out; transcripts of modes all/xattr compared exactly with the "
        "extracted model when only gzip is needed. distinct_nontrivial = distinct images whose model transcript gets past the "
        "super block (reader stack exercised). Compressor options leg (coq/CompOpt): %d cases (config_init, -X option strings "
        "with every key at min-1/min/max/max+1 and malformed numbers / suffixes, raw configurations incl. dictionary size shapes "
        "and padding, hostile option blocks: truncated, wrong header size, compressed bit, fields at the range ends; whole "
        "opening sequences) through the real config_init / compressor_cfg_init_options / create / write_options / read_options / "
        "get_configuration, compared exactly with the extracted model; plus the format-level reading of every written block. "
        "Wrap-boundary leg: %d images with the announced xattr id / fragment / id counts, file block counts and directory "
        "index entry sizes at the 16 and 32 bit wrap boundaries of count x element size (2^W/E -1/+0/+1/+real, 2*2^W/E+real, "
        "2^(W-1)/E, field maximum), references just past the real entries / in the second metadata block / medium / "
        "announced-1 / announced spread over the inodes, each dereferenced by rdsquashfs -x/-c/-s in a process of its own "
        "beside the harness modes and tool runs (same exact model tie and sanitizer oracle)." % (
            nfield, len(reals), nmut, ctx.seed, co.get("cases", 0), nwrap) +
        "  Huge-size leg (props/C05/huge.py): %d Builder images of 20-140 KiB holding a regular file of 2^32 - 1, 2^32, 2^32 + 1, "
        "2^32 + block size (+ tail), 2^33, k*2^32 + d bytes made of sparse blocks (remainder as stored last block / tail fragment; "
        "stored first / last block; variants differing in the last / first byte; 128 KiB blocks with the exact model tie; giants "
        "2^48, 2^63-1, 2^64-1 with a short block list): sqfsdiff img img and against the variants / a size 2^32 larger, "
        "rdsquashfs -c and sqfs2tar to /dev/null and into a pipe closed after 1 MiB, rdsquashfs -l/-d/-s/-x, -u under a 32 MiB "
        "file size limit, three harness modes; time-out 10 s + 5 s per started 4 GiB = hang." % nhuge +
        "  Compressed-block leg (props/C05/compleg.py): for %s: a gensquashfs image (4 KiB blocks, xattrs, export table) whose "
        "compressed inode / directory / fragment-table / id / export / xattr blocks, data and fragment blocks get same-length "
        "edits of the codec's inner fields (lzma size / dictionary / props, zstd frame content size / window / descriptor / "
        "block header, zlib CINFO / FDICT / block type / Adler-32, xz check id / dictionary / index size with CRCs fixed, lz4 "
        "token / offset), valid replacement streams that expand to 0 .. 1 MiB (lzma: also with the size field forged) and "
        "truncated streams -- %d mutants, %d evaluated (every one whose inner size field exceeds the container, a sample of the "
        "rest); plus %d Builder images with hand-made streams as data / fragment blocks (props/C10/sizeleg.py, errleg.py, "
        "extended to lzma), each scenario file also read by rdsquashfs -c in a process of its own.  Sanitizer / signal / "
        "time-out oracle only: these images are not compared with the model." % (
            "/".join(csum["codecs"]), csum["real_mutants"], csum["real_mutants_run"], csum["builder_images"]) +
        "  Lookup leg (props/C05/lookup.py, h_lookup.c): %d Builder images with one hostile directory entry name (embedded NUL + "
        "tail up to 64 KiB, leading NUL, '/', '.', '..', 255..65536 byte names, names equal to / prefix of / extension of the "
        "looked-up component; before / after / instead of benign entries; as directory or file), %d paths each handed in a heap "
        "buffer of exactly strlen+1 bytes to sqfs_dir_reader_resolve_path (root NULL / root inode / DOT_ENTRIES reader + "
        "resolve_inum) and sqfs_dir_reader_get_full_hierarchy (flags 0 / STORE_PARENTS): %d calls under ASan/UBSan, %d answers "
        "compared: resolve_path with the extracted component-match model (coq/C05/Lookup.v `resolve` LenStrlen through "
        "ExtractC05Lookup.v, %d paths in one driver process; %d paths with a name and a path of tens of KiB are beyond the "
        "list model's run time and compared with its Python transliteration), get_full_hierarchy with expect_tree (Python, "
        "observed: its loop is not in the Coq model); rdsquashfs -l/-s/-c <path> on %d (image, path) pairs." % (
            lkst["images"], lkst["queries"], lkst["calls"], lkst["answers_checked"], lkst["model_answers"],
            lkst["model_skipped"], lkst["tool_runs"]))
    ctx.coverage["distribution"] = dict(images=len(cases) + len(real_cases) + nwrap + nhuge + csum.get("images", 0) + 1, wrap_boundary_images=nwrap,
                                        huge_size_images=nhuge, compressed_block_images=csum.get("images", 0),
                                        transcripts_compared=tot["compared"],
                                        transcripts_equal=tot["agree"], not_comparable_other_codec=tot["unk"],
                                        images_with_full_tree=tot["tree_ok"], tool_runs=tot["tool_runs"],
                                        tool_verdicts_checked=tot["verdict_checked"], meta_sequences=nmeta,
                                        error_classes_reached=len(errc), nest_depth_tested=NEST_TESTED)
    ctx.coverage["compressed_block_leg"] = csum
    ctx.coverage["lookup_leg"] = {k: lkst[k] for k in ("images", "queries", "calls", "answers_checked", "model_answers", "model_skipped", "found",
                                                          "tool_runs", "unk")}
    ctx.coverage["huge_size_leg"] = dict(images=nhuge, exit_codes=[st for st in stats_all if "exit_codes" in st][0]["exit_codes"])
    ctx.coverage["error_classes"] = dict(sorted(errc.items())[:60])
    ctx.add_samples([dict(image=cases[i][0], bytes=len(cases[i][1])) for i in (1, len(cases) // 2, len(cases) - 1)])
    report(ctx, viol)


def setup():
    core.build_model_driver("C05", "ExtractC05.v", os.path.join(HERE, "driver.ml"),
                            stubs_c=os.path.join(HERE, "stubs.c"), cclibs=["-lz"])
    core.build_model_driver("C05CompOpt", "ExtractC05CompOpt.v", os.path.join(HERE, "compopt", "driver.ml"))
    lookup.model_driver()
