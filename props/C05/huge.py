"""C05 leg "huge logical sizes in tiny images" (strengthening, session 3, seed C05-8).

A regular file whose inode announces 2^32 bytes or more costs an image nothing: a sparse block is a 4 byte word
`0` in the block list and occupies no space, so with 1 MiB blocks a consistent 4 GiB file is a 16 KiB inode in a
20 KiB image.  Every loop that walks such a file with a position / remaining-length variable narrower than the
64 bit size (or that truncates one before clamping it to a window) stops making progress or wraps exactly there:
a HANG, no memory error -- invisible to field overrides of valid small files (an edited size alone makes the
inode longer than the inode table, so inode reading fails first) and to mutants of gensquashfs images of a few KiB.

Images (vlib/sqfsimg.py Builder; block size 1 MiB unless noted), one regular file `big` beside a small file:
  size 2^32, 2^32 - 1, 2^32 + 1, 2^32 + block size, 2^32 + block size + tail, 2^33 and seeded k * 2^32 + d,
  all-sparse block lists; the remainder as a stored last block / as a tail in a fragment block, with variants whose
  very last byte differs; a stored (non-sparse) LAST and a stored FIRST block with variants that differ in one byte
  (stored blocks are short uncompressed blocks of 100 bytes, so every image stays below 40 KiB, 140 KiB with 128 KiB
  blocks); two such files in one image (thorough); 128 KiB blocks
  (32768 words; these also go through the exact model tie); inconsistent giants (2^63 - 1, 2^64 - 1, 2^48 with a
  4096 word list: must be refused quickly).
Runs, each under ASan/UBSan with a time-out of 10 s + 5 s per started 4 GiB of logical size (measured: 1 s per 4 GiB) ("a tool that is still
running then, on an image of a few KiB, hangs"):
  sqfsdiff img img; sqfsdiff against the variant that differs in the last / first byte, that has the same content in
  another layout, whose size differs by 2^32 (both directions); rdsquashfs -c big and sqfs2tar to /dev/null (full
  pass: 4 GiB of zeros cost < 1 s) and into a pipe that is closed after 1 MiB; rdsquashfs -l / -d / -s big / -x big;
  rdsquashfs -u under a 32 MiB file size limit (the unpacker writes sparse files out in full); the library harness
  h_reader all / xattr / iter (stream, get_block, positional reads at 0, block size +- 1, size / 2, size - 1, size:
  offsets at and around 2^32).
Once two runs of one tool have hung, the remaining runs of that tool are skipped (they would only add waiting time).
"""
import base64
import math
import os
import shutil
import subprocess
import threading
import time
from concurrent.futures import ThreadPoolExecutor

from vlib.sqfsimg import Builder, BNode, T_DIR, T_FILE, NOID

G4 = 1 << 32
MB = 1 << 20


SHORT = 100      # stored bytes of a stored block (a short uncompressed block: the reader zero-fills the rest)


def _file(size, bs, tail="block", first=None, last=None, tailxor=0):
    """a consistent regular file of `size` bytes: sparse blocks; the remainder size % bs as a stored last block
    ("block": at most SHORT bytes on disk, the rest of it zero-filled by the reader) or left to the Builder as a tail
    fragment ("frag"); first / last: bytes of a stored (short) FIRST / LAST block (size must be a multiple of bs then);
    tailxor: flips bits of the last stored byte of the remainder"""
    n, r = divmod(size, bs)
    if first is not None or last is not None:
        assert r == 0 and n >= 2
        data = (first or b"") + (last or b"")
        words = ([len(first) | (1 << 24)] if first else [0]) + [0] * (n - 2) + ([len(last) | (1 << 24)] if last else [0])
        # kept in a carrier file; no sparse block takes space, so the last block follows the first one directly
        return BNode(T_FILE, data=b"", ext=True, ov=dict(file_size=size, block_sizes=words, frag_idx=NOID, frag_off=0)), data
    if r and tail == "block":
        k = min(r, SHORT)
        taildata = bytearray((7 * i + 1) % 251 + 1 for i in range(k))
        taildata[-1] ^= tailxor
        return BNode(T_FILE, data=bytes(taildata), ext=True, ov=dict(file_size=size, block_sizes=[0] * n + [k | (1 << 24)])), None
    taildata = bytearray((7 * i + 1) % 251 + 1 for i in range(r))
    if r:
        taildata[-1] ^= tailxor
    return BNode(T_FILE, data=bytes(taildata), ext=True, ov=dict(file_size=size, block_sizes=[0] * n)), None


def build(files, bs):
    """files: list of (name, size, kwargs of _file).  A stored first/last block is kept in a carrier file `zz` whose data
    area the big file's blocks_start points at (two passes: the carrier's position is known after the first)."""
    def tree(starts):
        kids, carriers = [], []
        for k, (nm, size, kw) in enumerate(files):
            node, stored = _file(size, bs, **kw)
            if stored is not None:
                c = BNode(T_FILE, data=stored)
                carriers.append((k, c))
                if starts:
                    node.ov["blocks_start"] = starts[k]
                kids.append((b"zz%d" % k, c))
            kids.append((nm, node))
        kids.append((b"small", BNode(T_FILE, data=b"hello world\n")))
        return BNode(T_DIR, mode=0o755, children=sorted(kids)), carriers
    root, carriers = tree(None)
    use_frag = any(kw.get("tail") == "frag" for _, _, kw in files)
    img = Builder(root, block_size=bs, frag=use_frag).build()
    if carriers:
        starts = {k: c._blocks_start for k, c in carriers}
        root, carriers2 = tree(starts)
        img = Builder(root, block_size=bs, frag=use_frag).build()
        if {k: c._blocks_start for k, c in carriers2} != starts:
            raise RuntimeError("carrier moved")
    return img


def cases(rnd, tier):
    """list of dict(name, img, size (largest logical size), bs, model)"""
    out = []

    def add(name, files, bs=MB, model=False):
        out.append(dict(name="huge:" + name, img=build(files, bs), size=max(s for _, s, _ in files), bs=bs, model=model,
                        paths=[nm for nm, _, _ in files]))
    blkA = bytes((i * 13 + 5) % 255 + 1 for i in range(SHORT))
    blkB = blkA[:-1] + bytes([blkA[-1] ^ 0x40])
    blkC = bytes([blkA[0] ^ 1]) + blkA[1:]
    add("2^32-sparse", [(b"big", G4, {})])
    add("2^32-1-tail-block", [(b"big", G4 - 1, dict(tail="block"))])
    add("2^32+1-tail-frag", [(b"big", G4 + 1, dict(tail="frag"))])
    add("2^32+1-tail-block", [(b"big", G4 + 1, dict(tail="block"))])
    add("2^32+1-tail-block-other-last-byte", [(b"big", G4 + 1, dict(tail="block", tailxor=0x20))])
    add("2^32+bs-sparse", [(b"big", G4 + MB, {})])
    add("2^32+bs+77-tail-frag", [(b"big", G4 + MB + 77, dict(tail="frag"))])
    add("2^32+bs+77-tail-frag-other-last-byte", [(b"big", G4 + MB + 77, dict(tail="frag", tailxor=1))])
    add("2^33-sparse", [(b"big", 2 * G4, {})])
    add("2^32-last-stored-A", [(b"big", G4, dict(last=blkA))])
    add("2^32-last-stored-B", [(b"big", G4, dict(last=blkB))])
    add("2^32-first-stored-A", [(b"big", G4, dict(first=blkA))])
    add("2^32-first-stored-C", [(b"big", G4, dict(first=blkC))])
    k = rnd.choice([1, 1, 2])
    tl = rnd.choice(["block", "frag"])
    d = rnd.choice([0, 1, MB - 1, MB, 4 * MB, 4 * MB + 1, rnd.randrange(1, 8 * MB)]) if tl == "block" else \
        rnd.choice([1, MB + 1, 4 * MB + 1, rnd.randrange(0, 8) * MB + rnd.randrange(1, 4096)])
    add("seeded-%d*2^32+%d-tail-%s" % (k, d, tl), [(b"big", k * G4 + d, dict(tail=tl))])
    # 128 KiB blocks: 32768 words, the inode spans 17 metadata blocks; exact model tie on these
    add("128K:2^32+1-tail-frag", [(b"big", G4 + 1, dict(tail="frag"))], bs=128 * 1024, model=True)
    add("128K:2^32-1-tail-block", [(b"big", G4 - 1, dict(tail="block"))], bs=128 * 1024, model=True)
    # inconsistent giants: the block list is far shorter than the size implies -- must be refused, quickly
    for nm, size in (("2^63-1", (1 << 63) - 1), ("2^64-1", (1 << 64) - 1), ("2^48", 1 << 48)):
        node = BNode(T_FILE, data=b"", ext=True, ov=dict(file_size=size, block_sizes=[0] * 4096, frag_idx=NOID, frag_off=0))
        root = BNode(T_DIR, mode=0o755, children=[(b"big", node), (b"small", BNode(T_FILE, data=b"hello world\n"))])
        out.append(dict(name="huge:giant-" + nm, img=Builder(root, block_size=MB).build(), size=0, bs=MB, model=False, paths=[b"big"]))
    if tier == "thorough":
        add("two-files", [(b"big", G4, {}), (b"big2", G4 + 5, dict(tail="block"))])
        add("3*2^32-sparse", [(b"big", 3 * G4, {})])
        add("2^34-sparse", [(b"big", 4 * G4, {})])
        add("64K:2^32-sparse", [(b"big", G4, {})], bs=64 * 1024)
        add("128K:2^32-sparse", [(b"big", G4, {})], bs=128 * 1024, model=True)
        add("128K:2^33+7-tail-frag", [(b"big", 2 * G4 + 7, dict(tail="frag"))], bs=128 * 1024, model=True)
    return out


PAIRS = [("2^32-last-stored-A", "2^32-last-stored-B"), ("2^32-first-stored-A", "2^32-first-stored-C"),
         ("2^32+1-tail-block", "2^32+1-tail-block-other-last-byte"), ("2^32+bs+77-tail-frag", "2^32+bs+77-tail-frag-other-last-byte"),
         ("2^32-sparse", "2^33-sparse"), ("2^33-sparse", "2^32-sparse"), ("2^32-sparse", "2^32-last-stored-A"),
         ("2^32+1-tail-frag", "2^32+1-tail-block"), ("2^32-sparse", "2^32+bs-sparse"), ("2^32-1-tail-block", "2^32-sparse")]


def run_leg(ctx, e, rnd, run_proc, died, model_batch, TIMEOUT):
    """returns (violations, stats) in the format of check.evaluate"""
    cs = cases(rnd, ctx.tier)
    d = os.path.join(e.dir, "huge")
    os.makedirs(d, exist_ok=True)
    path = {}
    for k, c in enumerate(cs):
        c["path"] = os.path.join(d, "h%02d.sqfs" % k)
        open(c["path"], "wb").write(c["img"])
        path[c["name"][5:]] = c
    T = e.T

    def tmo(size):
        return TIMEOUT + 5 * int(math.ceil(size / G4))
    jobs = []     # (case, label, kind, cmd, timeout, other case or None)
    for c in cs:
        p, t = c["path"], tmo(c["size"])
        jobs.append((c, "sqfsdiff", "run", [T["sqfsdiff"], "-a", p, "-b", p], t, None))
        for big in [x.decode("latin-1") for x in c["paths"]]:
            jobs.append((c, "rdsquashfs -c", "run", [T["rdsquashfs"], "-c", big, p], t, None))
            jobs.append((c, "rdsquashfs -c | head", "head", [T["rdsquashfs"], "-c", big, p], TIMEOUT, None))
            jobs.append((c, "rdsquashfs -s", "run", [T["rdsquashfs"], "-s", big, p], TIMEOUT, None))
            jobs.append((c, "rdsquashfs -x", "run", [T["rdsquashfs"], "-x", big, p], TIMEOUT, None))
        jobs.append((c, "sqfs2tar", "run", [T["sqfs2tar"], p], t, None))
        jobs.append((c, "sqfs2tar | head", "head", [T["sqfs2tar"], p], TIMEOUT, None))
        jobs.append((c, "rdsquashfs -l", "run", [T["rdsquashfs"], "-l", "/", p], TIMEOUT, None))
        jobs.append((c, "rdsquashfs -d", "run", [T["rdsquashfs"], "-d", p], TIMEOUT, None))
        jobs.append((c, "rdsquashfs -u", "unpack", None, TIMEOUT + 10, None))
        for m in ("all", "xattr", "iter"):
            jobs.append((c, "harness-" + m, "harness", [e.H, p, m], TIMEOUT + 10, None))
    for a, b in PAIRS:
        if a in path and b in path:
            ca, cb = path[a], path[b]
            jobs.append((ca, "sqfsdiff", "run", [T["sqfsdiff"], "-a", ca["path"], "-b", cb["path"]],
                         tmo(max(ca["size"], cb["size"])), cb))
    # long runs first, tools interleaved
    jobs.sort(key=lambda j: -j[4])
    hung = {}
    lock = threading.Lock()

    def head(cmd, timeout):
        """start, take 1 MiB from the pipe, close it: the tool must end by itself (EPIPE / SIGPIPE are fine)"""
        t0 = time.time()
        pr = subprocess.Popen(cmd, stdout=subprocess.PIPE, stderr=subprocess.PIPE, env=e.env)
        try:
            got = 0
            while got < MB:
                b = pr.stdout.read(65536)
                if not b:
                    break
                got += len(b)
            pr.stdout.close()
            try:
                pr.wait(timeout=timeout)
                err = pr.stderr.read().decode("latin-1")
                rc = pr.returncode
                if rc == -13:
                    rc = 0
                return dict(rc=rc, out=b"", err=err, t=time.time() - t0)
            except subprocess.TimeoutExpired:
                pr.kill()
                pr.wait()
                return dict(rc="TIMEOUT", out=b"", err="", t=time.time() - t0)
        finally:
            try:
                pr.stderr.close()
            except Exception:
                pass

    def runj(j):
        c, label, kind, cmd, timeout, other = j
        with lock:
            if hung.get(label.split(" |")[0], 0) >= 2:
                return j, None
        if kind == "head":
            r = head(cmd, timeout)
        elif kind == "unpack":
            ud = os.path.join(ctx.scratch, "unp-huge", os.path.basename(c["path"]))
            os.makedirs(ud, exist_ok=True)
            # the unpacker writes holes out as zeros: cap the output at 32 MiB (sh: units of 512 bytes); the tool then sees EFBIG
            r = run_proc(["sh", "-c", "trap '' XFSZ; ulimit -f 65536; exec \"$@\"", "sh", T["rdsquashfs"], "-q", "-u", "/", "-p", ud,
                          "-X", c["path"]], env=e.env, stdout=subprocess.DEVNULL, timeout=timeout)
            shutil.rmtree(ud, ignore_errors=True)
        elif kind == "harness":
            r = run_proc(cmd, env=e.env, timeout=timeout)
        else:
            r = run_proc(cmd, env=e.env, stdout=subprocess.DEVNULL, timeout=timeout)
        if r["rc"] == "TIMEOUT":
            with lock:
                hung[label.split(" |")[0]] = hung.get(label.split(" |")[0], 0) + 1
        return j, r
    mbox = {}

    def run_model():
        mj = [(m, c["path"], []) for c in cs if c["model"] for m in ("all",)]
        mbox["res"] = model_batch(e, mj) if mj else {}
    mth = threading.Thread(target=run_model)
    mth.start()
    t0 = time.time()
    with ThreadPoolExecutor(12) as ex:
        res = list(ex.map(runj, jobs))
    t_tools = time.time() - t0
    mth.join()
    viol = []
    stats = dict(runs=0, compared=0, agree=0, unk=0, nontrivial=set(), tree_ok=0, err_classes={}, tool_runs=0, verdict_checked=0)
    slowest = sorted([(round(r["t"], 1), j[1], j[0]["name"]) for j, r in res if r], reverse=True)[:3]
    hres = {}
    rcs = {}
    for (c, label, kind, cmd, timeout, other), r in res:
        if r is None:
            continue
        stats["runs"] += 1
        rcs.setdefault(label + (" (pair)" if other else ""), []).append(r["rc"])
        if os.environ.get("C05_HUGE_DEBUG"):
            print("   ", c["name"], "|", label, "|", other["name"] if other else "", "| rc", r["rc"], "| %.2fs" % r["t"], r["err"][:100].replace("\n", " "))
        stats["tool_runs"] += kind != "harness"
        if kind == "harness":
            hres[(c["name"], label)] = r
        dd = died(r)
        if not dd:
            continue
        nm = c["name"] + (" vs " + other["name"] if other else "")
        if dd == "timeout":
            sig = "hang:%s" % label
            what = ("%s on image '%s' (%d bytes%s; logical file size %d) is still running after %d s: no progress" %
                    (label, nm, len(c["img"]), (" and %d bytes" % len(other["img"])) if other else "", c["size"], timeout))
        else:
            sig = "crash:%s:%s" % (label, dd)
            what = "%s on image '%s': %s; %s" % (label, nm, dd, r["err"][:300].replace("\n", " "))
        det = dict(tool=label, cmd=" ".join(os.path.basename(x) if x.startswith("/") else x for x in (cmd or ["rdsquashfs", "-u"])),
                   timeout=timeout, stderr=r["err"][:2000], leg="huge")
        if other:
            det["image_b_b64"] = base64.b64encode(other["img"]).decode()
            det["image_b_name"] = other["name"]
        viol.append(dict(sig=sig, what=what, img=c["img"], name=nm, concrete=True, detail=det))
    # exact model tie on the images marked for it
    mres = mbox.get("res", {})
    for c in cs:
        if not c["model"]:
            continue
        r = hres.get((c["name"], "harness-all"))
        if r is None or died(r):
            continue
        ml = mres.get(("all", c["path"]))
        hl = [l for l in r["out"].decode("latin-1").split("\n") if l]
        if ml is None:
            viol.append(dict(sig="machinery:model-missing", what="model driver produced no transcript for '%s'" % c["name"],
                             img=c["img"], name=c["name"], concrete=False, detail=dict(leg="huge")))
            continue
        if "UNK" in ml or any(l in ("MODEL-STACK", "MODEL-OOM") for l in ml):
            stats["unk"] += 1
            continue
        stats["compared"] += 1
        if hl != ml:
            x = y = "<eof>"
            for a, b in zip(hl + ["<eof>"], ml + ["<eof>"]):
                if a != b:
                    x, y = a, b
                    break
            viol.append(dict(sig="tie:all:%s/%s" % (x.split(" ")[0], y.split(" ")[0]),
                             what="model and library disagree on image '%s' (all): impl '%s' model '%s'" % (c["name"], x[:160], y[:160]),
                             img=c["img"], name=c["name"], concrete=False,
                             detail=dict(mode="all", impl=x, model=y, leg="huge",
                                         correspondence="props/C05: run_reader (extracted) = h_reader transcript")))
        else:
            stats["agree"] += 1
            stats["tree_ok"] += 1
    shutil.rmtree(d, ignore_errors=True)
    ctx.log("huge-size leg: %d images, %d runs in %.1fs, skipped after hangs: %s; slowest: %s" % (
        len(cs), stats["runs"], t_tools, dict(hung) or "-", slowest))
    stats["images"] = len(cs)
    stats["exit_codes"] = {k: {str(x): v.count(x) for x in sorted(set(v), key=str)} for k, v in sorted(rcs.items())}
    return viol, stats


def replay(ctx, e, r, run_proc, died, TIMEOUT):
    """re-run the recorded tool on the recorded image(s)"""
    d = os.path.join(e.dir, "huge-replay")
    os.makedirs(d, exist_ok=True)
    img = base64.b64decode(r["image_b64"])
    pa = os.path.join(d, "a.sqfs")
    open(pa, "wb").write(img)
    pb = pa
    if r.get("image_b_b64"):
        pb = os.path.join(d, "b.sqfs")
        open(pb, "wb").write(base64.b64decode(r["image_b_b64"]))
    label = r.get("tool", "sqfsdiff")
    timeout = r.get("timeout", TIMEOUT + 20)
    T = e.T
    if label == "sqfsdiff":
        cmd = [T["sqfsdiff"], "-a", pa, "-b", pb]
    elif label.startswith("harness-"):
        cmd = [e.H, pa, label[8:]]
    elif label.startswith("sqfs2tar"):
        cmd = [T["sqfs2tar"], pa]
    elif label.startswith("rdsquashfs -u"):
        ud = os.path.join(d, "unp")
        os.makedirs(ud, exist_ok=True)
        cmd = ["sh", "-c", "trap '' XFSZ; ulimit -f 65536; exec \"$@\"", "sh", T["rdsquashfs"], "-q", "-u", "/", "-p", ud, "-X", pa]
    else:
        fl = label.split(" ")[1]
        cmd = [T["rdsquashfs"], fl] + ([] if fl == "-d" else ["/" if fl == "-l" else "big"]) + [pa]
    rr = run_proc(cmd, env=e.env, stdout=subprocess.DEVNULL, timeout=timeout)
    shutil.rmtree(d, ignore_errors=True)
    dd = died(rr)
    if not dd:
        return []
    sig = ("hang:%s" % label) if dd == "timeout" else "crash:%s:%s" % (label, dd)
    return [dict(sig=sig, what="replayed %s on image '%s': %s" % (label, r.get("image_name"), dd), img=img, name=r.get("image_name"),
                 concrete=True, detail={k: r[k] for k in ("tool", "cmd", "timeout", "leg", "image_b_b64", "image_b_name") if k in r})]
