"""Independent tar archive builder used by the C04 generators (written from the
format descriptions, shares no code with /repo or with the Coq model)."""
import random

S_IFREG, S_IFDIR, S_IFLNK, S_IFCHR, S_IFBLK, S_IFIFO, S_IFSOCK = (
    0o100000, 0o040000, 0o120000, 0o020000, 0o060000, 0o010000, 0o140000)


def octal(v, width, term=b"\0"):
    """classic octal field: width-1 digits and a terminator; falls back to base-256"""
    if v < 0 or v >= 8 ** (width - 1):
        return base256(v, width)
    return (b"%0*o" % (width - 1, v)) + term


def base256(v, width):
    if v < 0:
        v += 1 << (8 * width)
        b = v.to_bytes(width, "big")
        return bytes([b[0] | 0x80]) + b[1:]
    b = v.to_bytes(width, "big")
    return bytes([b[0] | 0x80]) + b[1:]


def checksum(h):
    return sum(h[:148]) + 8 * 32 + sum(h[156:])


def header(name=b"", mode=0o644, uid=0, gid=0, size=0, mtime=0, typeflag=b"0", linkname=b"",
           magic=b"ustar\0", version=b"00", uname=b"", gname=b"", devmajor=0, devminor=0,
           prefix=b"", tail=None, num=octal, fields=None):
    """one 512-byte header block; `fields` overrides raw numeric fields by name"""
    f = dict(mode=num(mode, 8), uid=num(uid, 8), gid=num(gid, 8), size=num(size, 12),
             mtime=num(mtime, 12), devmajor=num(devmajor, 8), devminor=num(devminor, 8))
    if fields:
        f.update(fields)
    h = bytearray(512)
    h[0:len(name[:100])] = name[:100]
    h[100:108] = f["mode"]
    h[108:116] = f["uid"]
    h[116:124] = f["gid"]
    h[124:136] = f["size"]
    h[136:148] = f["mtime"]
    h[156:157] = typeflag
    h[157:157 + len(linkname[:100])] = linkname[:100]
    h[257:263] = magic
    h[263:265] = version
    h[265:265 + len(uname[:32])] = uname[:32]
    h[297:297 + len(gname[:32])] = gname[:32]
    h[329:337] = f["devmajor"]
    h[337:345] = f["devminor"]
    if tail is not None:
        h[345:345 + len(tail)] = tail
    else:
        h[345:345 + len(prefix[:155])] = prefix[:155]
    return fix_checksum(h)


def fix_checksum(h, style=0):
    h = bytearray(h)
    c = checksum(h)
    if style == 0:
        h[148:156] = b"%06o\0 " % c
    elif style == 1:
        h[148:156] = b"%07o\0" % c
    else:
        h[148:156] = b"%6o\0 " % c          # space padded
    return bytes(h)


def pad512(data):
    r = len(data) % 512
    return data + (b"\0" * (512 - r) if r else b"")


def pax_record(key, value):
    """b"<len> key=value\\n" with the self-referential length (smallest solution)"""
    body = b" " + key + b"=" + value + b"\n"
    total = len(body) + 1
    while len(b"%d" % total) + len(body) != total:
        total += 1
    return (b"%d" % total) + body


def pax_header(records, name=b"pax/hdr", typeflag=b"x", **kw):
    payload = b"".join(pax_record(k, v) for k, v in records)
    return header(name=name, size=len(payload), typeflag=typeflag, **kw) + pad512(payload)


def gnu_long(kind, value, nul=True, **kw):
    payload = value + (b"\0" if nul else b"")
    return header(name=b"././@LongLink", size=len(payload), typeflag=kind, magic=b"ustar ", version=b" \0",
                  **kw) + pad512(payload)


def gnu_sparse_tail(entries, isextended, realsize, num=octal):
    t = bytearray(167)
    pos = 41
    for o, c in entries[:4]:
        t[pos:pos + 12] = num(o, 12)
        t[pos + 12:pos + 24] = num(c, 12)
        pos += 24
    t[137] = 1 if isextended else 0
    t[138:150] = num(realsize, 12)
    return bytes(t)


def gnu_sparse_ext(entries, isextended, num=octal):
    b = bytearray(512)
    pos = 0
    for o, c in entries[:21]:
        b[pos:pos + 12] = num(o, 12)
        b[pos + 12:pos + 24] = num(c, 12)
        pos += 24
    b[504] = 1 if isextended else 0
    return bytes(b)


def old_gnu_sparse(name, smap, realsize, data, num=octal, **kw):
    """typeflag 'S' with extension records as needed"""
    first, rest = smap[:4], smap[4:]
    out = header(name=name, size=len(data), typeflag=b"S", magic=b"ustar ", version=b" \0",
                 tail=gnu_sparse_tail(first, bool(rest), realsize, num), **kw)
    while rest:
        chunk, rest = rest[:21], rest[21:]
        out += gnu_sparse_ext(chunk, bool(rest), num)
    return out + pad512(data)


def sparse_1_0_prefix(smap):
    txt = b"%d\n" % len(smap) + b"".join(b"%d\n%d\n" % (o, c) for o, c in smap)
    return pad512(txt)


def expand(smap, data, realsize):
    out = bytearray(realsize)
    pos = 0
    for o, c in smap:
        out[o:o + c] = data[pos:pos + c]
        pos += c
    return bytes(out[:realsize])


def rand_map(rnd, realsize, nent, zero=None):
    """sorted non-overlapping map inside realsize.  zero (default: 30 %): additional ZERO-LENGTH entries -- a leading
    "0,0" (what libarchive / bsdtar write for a file that starts with a hole), an empty entry exactly at the start of a
    data region (adjacent duplicate offset), exactly at its end (= where the reader stands when it enters the hole),
    strictly inside a hole, at offset == size in front of GNU tar's end marker.  They carry no data and do not change
    the expansion."""
    if realsize == 0:
        return [(0, 0)]
    cuts = sorted(rnd.sample(range(realsize + 1), min(2 * nent, realsize + 1)))
    if len(cuts) % 2:
        cuts.pop()
    m = [(cuts[i], cuts[i + 1] - cuts[i]) for i in range(0, len(cuts), 2)]
    if zero is None:
        zero = rnd.random() < 0.3
    if zero:
        m = add_empty_entries(rnd, m, realsize, rnd.choice([1, 1, 2, 3]))
    if rnd.random() < 0.5:
        m.append((realsize, 0))       # GNU tar's end marker
    return m or [(realsize, 0)]


def add_empty_entries(rnd, m, realsize, k):
    """insert k zero-length entries into the sorted map m (kept sorted by offset; never more than two in front of the
    first data entry: Python tarfile, the reference reader of the oracle, drops old GNU extension-block entries whose
    offset is 0)"""
    m = list(m)
    for _ in range(k):
        kind = rnd.choice(["start", "dup", "after", "inside", "end"])
        lead = 0
        while lead < len(m) and m[lead][1] == 0:
            lead += 1
        if kind == "start" or not any(c for _, c in m):
            if lead < 2:
                m.insert(0, (0, 0))
            continue
        idx = [i for i, (o, c) in enumerate(m) if c]
        i = rnd.choice(idx)
        o, c = m[i]
        if kind == "dup":                   # (o,0) directly in front of (o,c)
            if i > 0 or lead < 2:
                m.insert(i, (o, 0))
        elif kind == "after":               # (o+c,0) directly behind (o,c): the first offset of the hole that follows
            m.insert(i + 1, (o + c, 0))
        elif kind == "inside":              # strictly inside the hole behind (o,c), if there is one
            nxt = next((m[j][0] for j in range(i + 1, len(m)) if m[j][0] > o + c), realsize)
            if nxt - (o + c) >= 2:
                x = rnd.randrange(o + c + 1, nxt)
                j = i + 1
                while j < len(m) and m[j][0] <= x:
                    j += 1
                m.insert(j, (x, 0))
        else:
            m.append((realsize, 0))
    return m
