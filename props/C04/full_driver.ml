(* C04 / ImgTarFull model driver.  One case per line on stdin, one result line per case.
   F nolinks noxs noxt ntp noskip kt nr root duid dgid dperm dmtime <archive hex>
       -> the entries sqfs2tar is predicted to write for the image tar2sqfs builds from the archive, INCLUDING xattr
          lists (stored order) and file contents: drv_conv (ImgTarFull.Driver: t2s_full -> image bytes -> read_all ->
          walk + hard link filter + payload), pushed through write_archive / read_archive (what the tar reader sees
          of it), then  "# hyps=<0|1> tar=<hex of write_archive>"
   V <archive hex>
       -> an archive (the real sqfs2tar's output) read by the extracted tar reader, printed the same way *)
open C04full_model

let rec pos_of_int i = if i = 1 then XH else if i land 1 = 1 then XI (pos_of_int (i lsr 1)) else XO (pos_of_int (i lsr 1))
let n_of_int i = if i = 0 then N0 else Npos (pos_of_int i)
let rec int_of_pos = function XH -> 1 | XO p -> 2 * int_of_pos p | XI p -> 2 * int_of_pos p + 1
let int_of_n = function N0 -> 0 | Npos p -> int_of_pos p
let ten = n_of_int 10
let n_of_string s =
  let r = ref N0 in
  String.iter (fun c -> r := N.add (N.mul !r ten) (n_of_int (Char.code c - 48))) s;
  !r
let string_of_n n =
  if n = N0 then "0" else begin
    let b = Buffer.create 24 in
    let rec go n acc = if n = N0 then acc else go (N.div n ten) (int_of_n (N.modulo n ten) :: acc) in
    List.iter (fun d -> Buffer.add_char b (Char.chr (48 + d))) (go n []);
    Buffer.contents b
  end
let string_of_z = function
  | Z0 -> "0" | Zpos p -> string_of_n (Npos p) | Zneg p -> "-" ^ string_of_n (Npos p)
let hexval c = match c with
  | '0'..'9' -> Char.code c - 48 | 'a'..'f' -> Char.code c - 87 | _ -> Char.code c - 55
let bytes_tbl = Array.init 256 n_of_int
let unhex s =
  if s = "-" || s = "~" then [] else begin
    let n = String.length s / 2 in
    let rec go i acc = if i < 0 then acc
      else go (i - 1) (bytes_tbl.(hexval s.[2*i] * 16 + hexval s.[2*i+1]) :: acc) in
    go (n - 1) []
  end
let hex l =
  match l with [] -> "-" | _ ->
    let b = Buffer.create 64 in
    List.iter (fun c -> Buffer.add_string b (Printf.sprintf "%02x" (int_of_n c))) l;
    Buffer.contents b
let hexopt = function None -> "~" | Some l -> hex l
let bool01 b = if b then "1" else "0"

let opts kt nr root = { o_root = (if root = "~" then None else Some (unhex root)); o_no_retarget = (nr = "1");
                        o_keep_time = (kt = "1") }
let defaults duid dgid dperm dmtime =
  { fd_uid = n_of_string duid; fd_gid = n_of_string dgid; fd_mtime = n_of_string dmtime; fd_perm = n_of_string dperm }

let show_xattrs xs = match xs with
  | [] -> "-"
  | _ -> String.concat ";" (List.map (fun (k, v) -> hex k ^ "=" ^ hex v) xs)

let show_entry t =
  let e = t.te_e in
  Printf.sprintf "%s %s %s %s %s %s %s %s %s X=%s D=%s" (hex e.e_name) (string_of_n e.e_mode) (string_of_n e.e_uid)
    (string_of_n e.e_gid) (string_of_n e.e_size) (string_of_z e.e_mtime) (string_of_n e.e_rdev)
    (bool01 e.e_hardlink) (hexopt t.te_target) (show_xattrs t.te_xattr) (hex t.te_data)

let show_archive = function
  | RA_Ok es -> String.concat " | " (List.map show_entry es @ ["END"])
  | RA_Err -> "READERR"
  | RA_Crash -> "CRASH"
  | RA_Fuel -> "FUEL"

let handle line =
  match String.split_on_char ' ' line with
  | ["F"; nl; noxs; noxt; ntp; noskip; kt; nr; root; duid; dgid; dperm; dmtime; s] ->
    (match read_archive (unhex s) with
     | RA_Ok vs ->
       (match drv_conv (opts kt nr root) (ntp = "1") (noskip = "1") (defaults duid dgid dperm dmtime) (n_of_int 4096)
                (noxt = "1") (nl = "1") (noxs = "1") vs with
        | DOk (es, hyps) ->
          let tar = write_archive es in
          show_archive (read_archive tar) ^ " # hyps=" ^ bool01 hyps ^ " tar=" ^ hex tar
        | DPack -> "T2SFAIL"
        | DRead -> "S2TFAIL")
     | RA_Err -> "READERR" | RA_Crash -> "CRASH" | RA_Fuel -> "FUEL")
  | ["V"; s] -> show_archive (read_archive (unhex s))
  | _ -> "BADCASE"

let () =
  try
    while true do
      let line = input_line stdin in
      print_string (handle line);
      print_char '\n'
    done
  with End_of_file -> ()
