"""Seeded case generators for the C04 component tie (formats: see h_tar.c / driver.ml)."""
import base64
import random

import targen as T

ALPHA = b"abcdefXYZ0189._-+ ="
BOUND = [0, 1, 7, 8, 63, 64, 511, 512, 8 ** 6 - 1, 8 ** 6, 8 ** 7 - 1, 8 ** 7, 8 ** 7 + 1, 8 ** 8 - 1, 8 ** 8,
         8 ** 8 + 1, 2 ** 31 - 1, 2 ** 31, 2 ** 32 - 1, 2 ** 32, 2 ** 33, 8 ** 11 - 1, 8 ** 11, 8 ** 11 + 1,
         8 ** 12 - 1, 8 ** 12, 8 ** 12 + 1, 2 ** 40, 2 ** 56 - 1, 2 ** 56, 127 * 2 ** 56 - 1, 127 * 2 ** 56,
         2 ** 61 - 1, 2 ** 61, 2 ** 63 - 1, 2 ** 63, 2 ** 64 - 2, 2 ** 64 - 1]
SBOUND = [0, 1, -1, -2, -8, -2 ** 31, -2 ** 32, -2 ** 33, -2 ** 56, -2 ** 62, -2 ** 63 + 1, 2 ** 63 - 1,
          8 ** 11 - 1, 8 ** 11, 8 ** 12 - 1, 8 ** 12, 1057296600, 2 ** 32 - 1, 2 ** 32, 2 ** 33 + 5]
LENS = [1, 2, 17, 50, 98, 99, 100, 101, 102, 154, 155, 156, 199, 200, 201, 255, 256, 257, 300]


def hexs(b):
    return bytes(b).hex() if b else "-"


def rname(rnd, n, slash=True):
    out = bytearray()
    while len(out) < n:
        c = rnd.choice(ALPHA)
        if slash and rnd.random() < 0.12 and out and out[-1] != 0x2f and len(out) < n - 1:
            c = 0x2f
        out.append(c)
    if out and out[0] in b" ":
        out[0] = 0x61
    return bytes(out)


def rvalue(rnd, n):
    return bytes(rnd.randrange(256) for _ in range(n))


# ---------------------------------------------------------------- numbers
def num_cases(rnd, nrand):
    cases = []
    for v in BOUND:
        cases.append("W 8 %d" % v)
        cases.append("W 12 %d" % v)
    for v in SBOUND:
        cases.append("S 12 %d" % v)
        cases.append("S 8 %d" % v) if -2 ** 55 < v < 2 ** 55 else None
    for _ in range(nrand):
        v = rnd.getrandbits(rnd.choice([3, 8, 20, 21, 24, 25, 32, 33, 36, 37, 56, 57, 63, 64]))
        cases.append("W %d %d" % (rnd.choice([8, 12]), v))
        s = rnd.getrandbits(rnd.choice([8, 31, 33, 36, 62])) * rnd.choice([1, -1])
        cases.append("S 12 %d" % s)
    # reader: independent encoders + hostile fields
    fields = []
    for v in BOUND + [rnd.getrandbits(rnd.choice([10, 21, 24, 33, 36, 60, 64])) for _ in range(nrand)]:
        for w in (8, 12):
            if v < 8 ** (w - 1):
                fields.append(T.octal(v, w, b"\0"))
                fields.append(T.octal(v, w, b" "))
                s = b"%o" % v
                fields.append((b" " * (w - 1 - len(s)) + s + b" ")[:w])       # space padded
                fields.append((s + b"\0" * w)[:w])                           # left aligned
                fields.append((b"\t \n" + s + b" " * w)[:w])
            if v < 8 ** w:
                fields.append(b"%0*o" % (w, v))
            if v < 2 ** (8 * w - 1):
                fields.append(T.base256(v, w))
            if v < 2 ** 63:
                fields.append(T.base256(-v, w) if v else T.base256(0, w))
    for _ in range(nrand):
        w = rnd.choice([8, 12, 12, 6, 1, 2, 16])
        k = rnd.random()
        if k < 0.3:
            f = bytes(rnd.choice(b"01234567 89\0") for _ in range(w))
        elif k < 0.5:
            f = bytes([rnd.choice([0x80, 0xff, 0x81, 0xfe, 0x7f])]) + rvalue(rnd, w - 1)
        elif k < 0.7:
            f = bytes([rnd.choice([0x80, 0xff])]) + bytes(rnd.choice([0, 0, 0xff, 0xff, 1, 0x7f, 0x80]) for _ in range(w - 1))
        else:
            f = rvalue(rnd, w)
        fields.append(f)
    fields += [b"77777777", b"777777777777", b"7" * 22 + b" ", b"1" + b"7" * 21, b"3" + b"7" * 21, b"        ", b"\0" * 8,
               b"0000008 ", b"00000-1 ", b"+0000001", b"\x80" + b"\0" * 7, b"\xff" * 8, b"\xff" * 12, b"\x80" + b"\xff" * 11,
               b"\x80\x01" + b"\0" * 10, b"\x80\x00\x00\x01" + b"\0" * 8, b"\x80\x00\x00\x00\x80" + b"\0" * 7,
               b"\xff\xff\xff\xff\x7f" + b"\xff" * 7, b"\xff\x00" + b"\0" * 10, b"\xc0" + b"\0" * 7, b"\xbf" + b"\xff" * 7]
    for f in fields:
        cases.append("N " + hexs(f))
        if len(f) == 12:
            cases.append("M " + hexs(f))
    for v in [0, 1, 511, 512, 513, 1023, 1024, 2 ** 32 - 1, 2 ** 32, 2 ** 32 + 1, 2 ** 64 - 1] + [rnd.getrandbits(40) for _ in range(20)]:
        cases.append("P %d" % v)
    for _ in range(20):
        cases.append("C " + hexs(rvalue(rnd, 512)))
    return cases


# ---------------------------------------------------------------- header writer
def rand_entry(rnd, force=None):
    """dict describing one write_tar_header call"""
    force = force or {}
    ftype = force.get("ftype", rnd.choice([T.S_IFREG] * 3 + [T.S_IFDIR] * 2 + [T.S_IFLNK] * 3 +
                                          [T.S_IFCHR, T.S_IFBLK, T.S_IFIFO, T.S_IFSOCK]))
    nlen = force.get("nlen", rnd.choice(LENS) if rnd.random() < 0.7 else rnd.randint(1, 320))
    name = rname(rnd, nlen)
    if ftype == T.S_IFDIR and name[-1:] != b"/":
        name = name[:-1] + b"/" if len(name) > 1 else name
    hl = force.get("hl", 1 if (ftype != T.S_IFDIR and rnd.random() < 0.15) else 0)
    target = None
    size = 0
    if ftype == T.S_IFLNK or hl:
        tlen = force.get("tlen", rnd.choice(LENS) if rnd.random() < 0.7 else rnd.randint(1, 320))
        target = rname(rnd, tlen)
        size = len(target)
        if hl:
            ftype = T.S_IFLNK      # what the hard link filter hands to the writer
    elif ftype == T.S_IFREG:
        size = rnd.choice(BOUND[:30]) if rnd.random() < 0.5 else rnd.getrandbits(rnd.choice([9, 20, 33, 36, 40, 64]))
    perm = rnd.choice([0o644, 0o755, 0o777, 0o4755, 0o7777, 0, rnd.getrandbits(12)])
    if ftype == T.S_IFLNK:
        perm = 0o777
    big = rnd.random() < 0.25
    uid = rnd.choice(BOUND[:21]) if not big else rnd.choice(BOUND[:-8])
    gid = rnd.choice(BOUND[:21]) if not big else rnd.choice(BOUND[:-8])
    mtime = rnd.choice(SBOUND) if rnd.random() < 0.5 else rnd.getrandbits(32)
    rdev = 0
    if ftype in (T.S_IFCHR, T.S_IFBLK) or rnd.random() < 0.05:
        rdev = rnd.choice([0, 0x0101, 0x0501, 0x0800, 0xfffff, 0x12345678, 2 ** 32 - 1, rnd.getrandbits(32),
                           rnd.getrandbits(64) if rnd.random() < 0.3 else rnd.getrandbits(20)])
    xs = []
    if not hl and rnd.random() < force.get("pxattr", 0.3):
        for _ in range(rnd.choice([1, 1, 2, 3])):
            key = rnd.choice([b"user.", b"security.", b"trusted."]) + rname(rnd, rnd.choice([1, 5, 20, 60, 200]), slash=False).replace(b"=", b"e")
            # record lengths around 10 / 100 / 1000 / 10000: 13 + |key| + |value| + 3 + digits
            vlen = rnd.choice([0, 1, 10, 50, 70, 71, 72, 73, 74, 75, 76, 900, 950, 960, 970, 9900])
            vlen = max(0, vlen + rnd.randint(-3, 3) - len(key) % 7)
            xs.append((key, rvalue(rnd, vlen)))
    return dict(counter=force.get("counter", rnd.choice([0, 1, 9, 10, 99, 12345, 2 ** 32 - 1])), hl=hl,
                mode=ftype | perm, uid=uid, gid=gid, size=size, mtime=mtime, rdev=rdev, name=name,
                target=target, xattr=xs)


def entry_line(e):
    parts = ["H", str(e["counter"]), str(e["hl"]), str(e["mode"]), str(e["uid"]), str(e["gid"]), str(e["size"]),
             str(e["mtime"]), str(e["rdev"]), hexs(e["name"]), "~" if e["target"] is None else hexs(e["target"]),
             str(len(e["xattr"]))]
    for k, v in e["xattr"]:
        parts += [hexs(k), hexs(v)]
    return " ".join(parts)


def s2t_line(e):
    """E case (props/C04/h_s2t.c): sqfs2tar's write_entry; xattrs in image order, file data included"""
    parts = ["E", str(e["counter"]), str(e["hl"]), str(e["mode"]), str(e["uid"]), str(e["gid"]), str(e["size"]),
             str(e["mtime"]), str(e["rdev"]), hexs(e["name"]), "~" if e["target"] is None else hexs(e["target"]),
             hexs(e.get("data", b"")), str(len(e["xattr"]))]
    for k, v in e["xattr"]:
        parts += [hexs(k), hexs(v)]
    return " ".join(parts)


def s2t_cases(rnd, n):
    """entries as sqfs2tar's iterator hands them to write_entry; every entry type, 0-3 xattrs (two or more
    on a good share: the order is what the case is about), file data around the 512-byte record size"""
    ents = []
    for i in range(n):
        force = dict(pxattr=0.75)
        if i < 8:
            force.update(ftype=[T.S_IFREG, T.S_IFDIR, T.S_IFLNK, T.S_IFSOCK][i % 4], hl=0, nlen=[10, 100][i // 4], pxattr=1.0)
        e = rand_entry(rnd, force)
        if len(e["xattr"]) == 1 and rnd.random() < 0.6:
            e["xattr"].append((b"user." + rname(rnd, rnd.choice([1, 4, 30]), slash=False).replace(b"=", b"e"), rvalue(rnd, rnd.choice([0, 3, 80]))))
        if len({k for k, _ in e["xattr"]}) != len(e["xattr"]):
            e["xattr"] = e["xattr"][:1]
        e["data"] = b""
        if (e["mode"] & 0o170000) == T.S_IFREG and not e["hl"]:
            e["data"] = rvalue(rnd, rnd.choice([0, 1, 100, 511, 512, 513, 1024, 1500, 5000]))
            e["size"] = len(e["data"])
        ents.append(e)
    return ents


def renumber_s2t(lines):
    """write_entry counts its calls itself: the k-th E line of a run carries counter k"""
    out = []
    k = 0
    for l in lines:
        if l.startswith("E "):
            t = l.split(" ")
            t[1] = str(k)
            k += 1
            l = " ".join(t)
        out.append(l)
    return out


def header_cases(rnd, n):
    ents = []
    # boundary sweep first
    for ftype in (T.S_IFREG, T.S_IFDIR, T.S_IFLNK):
        for nlen in (98, 99, 100, 101):
            ents.append(rand_entry(rnd, dict(ftype=ftype, nlen=nlen, hl=0, tlen=rnd.choice([5, 99, 100, 101]))))
    for tlen in (98, 99, 100, 101, 256):
        ents.append(rand_entry(rnd, dict(ftype=T.S_IFLNK, nlen=10, tlen=tlen, hl=0)))
        ents.append(rand_entry(rnd, dict(ftype=T.S_IFREG, nlen=rnd.choice([10, 100]), tlen=tlen, hl=1)))
    ents.append(rand_entry(rnd, dict(ftype=T.S_IFSOCK, nlen=120, hl=0, pxattr=0.0)))
    ents.append(rand_entry(rnd, dict(ftype=T.S_IFSOCK, nlen=12, hl=0, pxattr=1.0)))
    while len(ents) < n:
        ents.append(rand_entry(rnd))
    return ents


# ---------------------------------------------------------------- reader streams
def b64(v, style):
    s = base64.b64encode(v)
    if style == 1:
        s = s.rstrip(b"=")                 # libarchive's truncated form
    elif style == 2:
        s = s.replace(b"/", b"-").replace(b"=", b"_")
    return s


def urlenc(k, rnd):
    out = bytearray()
    for c in k:
        if c in b"%=" or rnd.random() < 0.2:
            out += b"%%%02X" % c if rnd.random() < 0.5 else b"%%%02x" % c
        else:
            out.append(c)
    return bytes(out)


def rand_pax_records(rnd):
    recs = []
    for _ in range(rnd.randint(1, 5)):
        k = rnd.random()
        if k < 0.15:
            recs.append((b"path", rname(rnd, rnd.choice(LENS))))
        elif k < 0.25:
            recs.append((b"linkpath", rname(rnd, rnd.choice(LENS))))
        elif k < 0.35:
            recs.append((rnd.choice([b"uid", b"gid", b"size"]), b"%d" % rnd.choice(BOUND)))
        elif k < 0.45:
            recs.append((b"mtime", rnd.choice([b"%d" % rnd.choice(SBOUND), b"1234.5678", b"-1.5", b"-0", b"12x", b"",
                                                b"9223372036854775806", b"9223372036854775807", b"18446744073709551615"])))
        elif k < 0.65:
            recs.append((b"SCHILY.xattr." + rnd.choice([b"user.", b"security.", b"x"]) + rname(rnd, rnd.randint(0, 12), False).replace(b"=", b"e"),
                         rvalue(rnd, rnd.choice([0, 1, 5, 80, 990]))))
        elif k < 0.8:
            key = b"user." + rname(rnd, rnd.randint(1, 10), False)
            recs.append((b"LIBARCHIVE.xattr." + urlenc(key, rnd), b64(rvalue(rnd, rnd.randint(0, 20)), rnd.choice([0, 1, 2]))))
        elif k < 0.9:
            recs.append((rnd.choice([b"atime", b"ctime", b"comment", b"uname", b"hdrcharset", b"SCHILY.xattr", b"SCHILY.xattrx.a",
                                     b"GNU.sparse.name", b"GNU.sparse.realsize", b"GNU.sparse.size"]),
                         rnd.choice([b"123", b"root", b"abc/def", b"0"])))
        else:
            recs.append((rnd.choice([b"uid", b"size", b"GNU.sparse.offset", b"GNU.sparse.numbytes", b"GNU.sparse.map", b"GNU.sparse.major",
                                     b"GNU.sparse.minor"]),
                         rnd.choice([b"", b"x", b"18446744073709551616", b"1844674407370955161", b"1844674407370955160", b"1,2", b"1,2,3,4",
                                     b"1,2,3", b"5", b"0,0", b"1,2,,", b"7,8x"])))
    return recs


def rand_sparse_new(rnd, small=False):
    """numbers of a 1.0 map arranged to hit the 512-byte window edges"""
    n = rnd.choice([1, 2, 3, 30, 60, 100])
    smap = []
    pos = 0
    for _ in range(n):
        o = pos + rnd.choice([0, 1, 512, 4096, 10 ** rnd.randint(1, 9)] if not small else [0, 1, 7, 99, 100, 101])
        c = rnd.choice([0, 1, 512, 100, 10 ** rnd.randint(1, 6)] if not small else [0, 1, 9, 10, 11, 100])
        smap.append((o, c))
        pos = o + c
    return smap


def std_kw(rnd):
    return dict(mode=rnd.choice([0o644, 0o755, 0o7777, 0]), uid=rnd.choice(BOUND[:22]), gid=rnd.choice(BOUND[:22]),
                mtime=rnd.choice(SBOUND[:8] + [1057296600, 2 ** 33, -2 ** 63, -2 ** 63 + 1]), num=rnd.choice([T.octal, T.octal, T.base256]))


def rand_stream(rnd, small=False):
    """(bytes, description): one logical entry in some dialect + trailing bytes.
    small: keep expanded file sizes small enough to materialise (archive-level cases)"""
    k = rnd.random()
    tailbytes = rnd.choice([b"", b"\0" * 1024, rvalue(rnd, 100), T.header(name=b"next", size=0)])
    kw = std_kw(rnd)
    if k < 0.12:     # v7
        h = T.header(name=rname(rnd, rnd.choice([1, 50, 99, 100])), magic=b"\0" * 6, version=b"\0\0",
                     typeflag=rnd.choice([b"\0", b"0", b"5", b"2", b"1"]), linkname=rname(rnd, rnd.choice([0, 5, 100])),
                     size=rnd.choice([0, 5, 513]), **kw)
        return h + tailbytes, "v7"
    if k < 0.27:     # ustar with prefix
        h = T.header(name=rname(rnd, rnd.choice([1, 50, 100])), prefix=rname(rnd, rnd.choice([0, 1, 80, 154, 155])),
                     typeflag=rnd.choice([b"0", b"5", b"2", b"1", b"3", b"4", b"6", b"7", b"Z", b"V"]),
                     linkname=rname(rnd, rnd.choice([0, 5, 100])), devmajor=rnd.choice([0, 8, 4095, 4096, 2 ** 32 - 1, 2 ** 32 + 7]),
                     devminor=rnd.choice([0, 1, 255, 256, 2 ** 20, 2 ** 32 - 1, 2 ** 40]), size=rnd.choice([0, 5, 513]),
                     magic=rnd.choice([b"ustar\0", b"ustar\0", b"ustar ", b"ustar\0"]), version=rnd.choice([b"00", b"00", b" \0", b"01"]),
                     **kw)
        return h + tailbytes, "ustar"
    if k < 0.42:     # GNU long name / link
        out = b""
        if rnd.random() < 0.6:
            out += T.gnu_long(b"K", rname(rnd, rnd.choice(LENS)), nul=rnd.random() < 0.7)
        if rnd.random() < 0.8:
            out += T.gnu_long(b"L", rname(rnd, rnd.choice(LENS)), nul=rnd.random() < 0.7)
        out += T.header(name=rname(rnd, 10), typeflag=rnd.choice([b"0", b"2", b"1", b"5"]), linkname=rname(rnd, 7),
                        magic=b"ustar ", version=b" \0", size=rnd.choice([0, 100]), **kw)
        return out + tailbytes, "gnu-long"
    if k < 0.62:     # PAX
        recs = rand_pax_records(rnd)
        out = b""
        if rnd.random() < 0.15:
            out += T.pax_header([(b"comment", b"global")], typeflag=b"g")
        if rnd.random() < 0.15:
            out += T.gnu_long(b"L", rname(rnd, 120))
        payload = b"".join(T.pax_record(a, b) for a, b in recs)
        if rnd.random() < 0.2:     # damage the framing
            i = rnd.randrange(len(payload))
            payload = payload[:i] + bytes([rnd.choice(b" =\n0129\0x")]) + payload[i + 1:]
        out += T.header(name=b"pax/hdr", size=len(payload), typeflag=b"x", **kw) + T.pad512(payload)
        if rnd.random() < 0.15:
            out += T.gnu_long(b"K", rname(rnd, 130))
        out += T.header(name=rname(rnd, 10), typeflag=rnd.choice([b"0", b"2", b"1", b"5"]), linkname=rname(rnd, 7),
                        size=rnd.choice([0, 100, 2048]), **kw)
        return out + tailbytes, "pax"
    if k < 0.74:     # old GNU sparse
        n = rnd.choice([1, 2, 4, 5, 24, 25, 26, 46, 47])
        real = rnd.choice([0, 100, 5000, 2 ** 33]) if not small else rnd.choice([0, 100, 5000, 9000])
        smap = T.rand_map(rnd, min(real, 5000), n)
        if rnd.random() < 0.2:
            smap = [(rnd.getrandbits(36 if not small else 13), rnd.getrandbits(12)) for _ in range(n)]
        data = rvalue(rnd, min(sum(c for _, c in smap), 3000))
        s = T.old_gnu_sparse(rname(rnd, 9), smap, real, data, **kw)
        if rnd.random() < 0.15:
            s = s[:rnd.randrange(512, len(s) + 1)]
        return s + tailbytes, "gnu-sparse-old"
    if k < 0.86:     # PAX sparse 0.0 / 0.1 / 1.0
        smap = rand_sparse_new(rnd, small)
        real = smap[-1][0] + smap[-1][1] + rnd.choice([0, 1, 1000])
        ver = rnd.choice(["0.0", "0.1", "1.0", "0.0", "0.1", "1.0", "mixed"])
        data = rvalue(rnd, min(sum(c for _, c in smap), 1500))
        name = rname(rnd, 9)
        if ver == "mixed":
            # 0.0 records, then a 0.1 map (replaces and frees the list), then 0.0 records again: the list
            # the later records build must start afresh
            i, j = sorted((rnd.randint(0, len(smap)), rnd.randint(0, len(smap))))
            recs = [(b"GNU.sparse.size", b"%d" % real)]
            for o, c in smap[:i]:
                recs += [(b"GNU.sparse.offset", b"%d" % o), (b"GNU.sparse.numbytes", b"%d" % c)]
            recs.append((b"GNU.sparse.map", b",".join(b"%d,%d" % p for p in (smap[i:j] or smap[:1]))))
            for o, c in smap[j:]:
                recs += [(b"GNU.sparse.offset", b"%d" % o), (b"GNU.sparse.numbytes", b"%d" % c)]
            body = data
        elif ver == "0.0":
            recs = [(b"GNU.sparse.size", b"%d" % real), (b"GNU.sparse.numblocks", b"%d" % len(smap))]
            for o, c in smap:
                recs += [(b"GNU.sparse.offset", b"%d" % o), (b"GNU.sparse.numbytes", b"%d" % c)]
            body = data
        elif ver == "0.1":
            recs = [(b"GNU.sparse.size", b"%d" % real), (b"GNU.sparse.numblocks", b"%d" % len(smap)), (b"GNU.sparse.name", name),
                    (b"GNU.sparse.map", b",".join(b"%d,%d" % p for p in smap))]
            body = data
        else:
            recs = [(b"GNU.sparse.major", b"1"), (b"GNU.sparse.minor", b"0"), (b"GNU.sparse.name", name),
                    (b"GNU.sparse.realsize", b"%d" % real)]
            pre = T.sparse_1_0_prefix(smap)
            if rnd.random() < 0.2:
                i = rnd.randrange(len(pre))
                pre = pre[:i] + bytes([rnd.choice(b"0123456789\n x\0")]) + pre[i + 1:]
            body = pre + data
        out = T.pax_header(recs) + T.header(name=b"GNUSparseFile.0/" + name, size=len(body), typeflag=b"0", **kw) + T.pad512(body)
        if rnd.random() < 0.1:
            out = out[:rnd.randrange(1024, len(out) + 1)]
        return out + tailbytes, "pax-sparse-" + ver
    if k < 0.92:     # zero blocks / truncation / garbage
        c = rnd.choice([0, 1, 2, 3])
        if c == 0:
            return b"\0" * 512 + T.header(name=b"after-zero", **kw) + tailbytes, "zero-then-header"
        if c == 1:
            return b"\0" * 1024 + T.header(name=b"x"), "two-zero"
        if c == 2:
            return T.header(name=b"cut", **kw)[:rnd.randrange(0, 512)], "truncated"
        return rvalue(rnd, rnd.choice([511, 512, 1024])), "garbage"
    # mutated valid header
    h = bytearray(T.header(name=rname(rnd, 20), typeflag=rnd.choice([b"0", b"2", b"5", b"L", b"K", b"x", b"g", b"S"]),
                           size=rnd.choice([0, 1, 5, 512, 65536, 65537]), linkname=rname(rnd, 9), **kw))
    for _ in range(rnd.randint(1, 4)):
        i = rnd.choice([rnd.randrange(512), rnd.randrange(100, 157), rnd.randrange(257, 265), rnd.randrange(345, 512)])
        h[i] = rnd.choice([0, 0x20, 0x30, 0x37, 0x38, 0x80, 0xff, rnd.randrange(256)])
    h = bytes(h)
    if rnd.random() < 0.8:
        h = T.fix_checksum(h, rnd.choice([0, 0, 1, 2]))
    return h + rvalue(rnd, rnd.choice([0, 5, 512, 600])) + tailbytes, "mutated"


# ---------------------------------------------------------------- sparse stream schedules
def stream_cases(rnd, n):
    cases = []
    for i in range(n):
        wf = rnd.random() < 0.7
        if wf:
            fsize = rnd.choice([0, 1, 10, 100, 5000, 9000, 20000])
            smap = T.rand_map(rnd, fsize, rnd.choice([1, 2, 3, 8])) if rnd.random() < 0.9 else []
            dlen = sum(c for _, c in smap) if smap else fsize
        else:
            fsize = rnd.choice([0, 5, 100, 1000, 5000])
            smap = [(rnd.choice([0, 1, 50, 99, 100, 101, 1000, 6000, 2 ** 64 - 1]), rnd.choice([0, 1, 10, 100, 5000, 2 ** 64 - 1]))
                    for _ in range(rnd.randint(0, 4))]
            dlen = rnd.choice([0, 10, 100, 1000, 6000])
        extra = rnd.choice([0, 0, 7, 600])
        if not wf and rnd.random() < 0.3:
            extra = 0
        data = rvalue(rnd, dlen + extra)
        if wf and rnd.random() < 0.1 and dlen > 0:
            data = data[:rnd.randrange(dlen)]            # truncated record
        sched = []
        style = rnd.choice(["big", "small", "mixed", "one"])
        for _ in range(rnd.choice([3, 40, 400, 3000])):
            if style == "big":
                sched.append((2 ** 31 - 1, 2 ** 20, 2 ** 31 - 1))
            elif style == "one":
                sched.append((1, 1, 1))
            elif style == "small":
                sched.append((rnd.randint(1, 9), rnd.randint(1, 9), rnd.randint(1, 9)))
            else:
                sched.append((rnd.choice([1, 3, 100, 4095, 4096, 4097, 10 ** 6]), rnd.choice([1, 2, 512, 10 ** 6]),
                              rnd.choice([1, 5, 4096, 10 ** 6])))
        cases.append("T %d %s %s %s" % (fsize, ";".join("%d:%d" % p for p in smap) or "-", hexs(data),
                                       ";".join("%d:%d:%d" % s for s in sched)))
    return cases
