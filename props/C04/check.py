"""C04 — tar <-> SquashFS conversion preserves the archive; byte-exact fixpoint.

Theorems: coq/Properties_C04.v (number codecs, header round trip incl. GNU long name/link and
PAX xattr records — the reader returns the xattr list reversed, sqfs2tar's write_entry reverses it
first —, sparse stream = expansion of the map for every schedule, record accounting, archive
read-back, conversion fixpoint from the second round on, --root-becomes retargeting).
Tie: props/C04/h_tar.c (lib/tar of the working tree on memory streams) and props/C04/h_s2t.c
(write_entry of bin/sqfs2tar on a fake iterator) vs. the extracted model (props/C04/driver.ml):
exact for the writers, verdict+payload for the readers.
Search: the property evaluated on the implementation — component level (header / number / sparse
round trips computed from the C outputs alone) and tool level (props/C04/oracle.py: generated, GNU tar
and Python tarfile archives through tar2sqfs and sqfs2tar, read back with Python tarfile and GNU tar,
second conversion equal to the first up to xattr record order, third byte-identical to the second, option
matrix; images with sockets through sqfs2tar).
ImgTar leg (session 3, props/C04/imgtar.py): the models of process_tarball and of sqfs2tar's walk + hard link filter, composed
with coq/C11's fstree / post_process, against the real process_tarball (recorded fstree_add_generic calls, exact) and the real
tar2sqfs | sqfs2tar entry sequence (exact, metadata); archives on which it breaks go through the tool-level oracle.
Hard link leg at scale (session 3 strengthening, props/C04/hlimg.py): images whose inode table spans > 64 KiB (hand-built with
uncompressed metadata, walk order independent of table order; and tar2sqfs images of archives with incompressible inodes) through
the real sqfs2tar and back through tar2sqfs: partition of the names into inodes, link counts, types, contents; and the real
sqfs_hard_link_filter_create (props/C04/h_hlfilter.c) over a fake iterator with adversarial (dev, inode) keys - inode references of
uncompressed / compressed tables, references that agree in their low 32 bits, st_ino-like 64 bit values, several devices.
ImgTarFull leg (session 3, builder E2, props/C04/imgtarfull.py): the COMPOSED models of tar2sqfs and sqfs2tar of coq/ImgTarFull
(archive entries -> process_tarball + copy_xattr + write_file -> fstree -> block processor -> xattr writer / flush -> write_image ->
image BYTES -> reader models -> walk + hard link filter + xattr lists + contents) against the real tar2sqfs | sqfs2tar on archives
with sparse files, PAX xattr records (shared / repeated / foreign-prefix keys, on hard link records), files around the block size:
entries incl. contents and xattr record ORDER exact, and the archive bytes equal to write_archive of the prediction; PAX rule
"the last record of a keyword wins" evaluated on the implementation (finding F26).
sqfs2tar option leg (session 3 strengthening, props/C04/s2topt.py): gensquashfs images whose names are string extensions / prefixes of
the selected paths through the real sqfs2tar under --subdir (one / several / nested / a file / missing) x --keep-as-dir x --root-becomes x
--no-skip x --no-xattr x --no-hard-links against an independent, component-wise statement of what the manual promises; the selection
rule itself is a theorem over path strings (coq/C04/Subdir*.v)."""
import base64
import collections
import json
import os
import random
import re
import resource
import subprocess
import sys
import tempfile
from concurrent.futures import ThreadPoolExecutor

from vlib import build as B
from vlib import core

HERE = os.path.dirname(os.path.abspath(__file__))
sys.path.insert(0, HERE)
import gen  # noqa: E402
import oracle as O  # noqa: E402
import targen as T  # noqa: E402
import imgtar as IT  # noqa: E402
import imgtarfull as ITF  # noqa: E402
import hlimg as HL  # noqa: E402
import s2topt as SO  # noqa: E402

LEVEL = "proof"
GEN_V = os.path.join(core.COQ, "C04", "GenC04.v")
ASAN_ENV = dict(os.environ, ASAN_OPTIONS="detect_leaks=0")


def _unlimit_stack():
    resource.setrlimit(resource.RLIMIT_STACK, (resource.RLIM_INFINITY, resource.RLIM_INFINITY))


def run_lines(exe, lines, env=None, model=False, timeout=900):
    data = ("\n".join(lines) + "\n").encode()
    try:
        r = subprocess.run([exe], input=data, stdout=subprocess.PIPE, stderr=subprocess.PIPE, env=env,
                           preexec_fn=_unlimit_stack if model else None, timeout=timeout)
    except subprocess.TimeoutExpired as e:
        out = (e.stdout or b"").decode("utf-8", "replace").split("\n")
        return 124, out, "[timeout]"
    return r.returncode, r.stdout.decode("utf-8", "replace").split("\n"), r.stderr.decode("utf-8", "replace")


# ---------------------------------------------------------------- constants
def regen_constants(h):
    """coq/C04/GenC04.v from what the harness (= the working tree's headers) says. True if changed."""
    rc, out, err = run_lines(h, ["K"], env=ASAN_ENV)
    if rc != 0 or not out or "=" not in out[0]:
        raise RuntimeError("harness cannot print constants: %s" % err[-500:])
    kv = [p.split("=") for p in out[0].split(" ") if "=" in p]
    txt = "(* GENERATED by props/C04/check.py from the working tree (props/C04/h_tar.c, case K). *)\n" \
          "From Coq Require Import NArith.\nLocal Open Scope N_scope.\n" + \
          "".join("Definition c04_%s : N := %s.\n" % (k, v) for k, v in kv)
    old = open(GEN_V).read() if os.path.exists(GEN_V) else None
    if old != txt:
        open(GEN_V, "w").write(txt)
        return True
    return False


# ---------------------------------------------------------------- component level
def parse_kv(line):
    d = {}
    for p in line.split(" "):
        if "=" in p:
            k, v = p.split("=", 1)
            d[k] = v
    return d


def unhex(s):
    return b"" if s in ("-", "~") else bytes.fromhex(s)


def xattr_str(xs):
    return ";".join(gen.hexs(k) + ":" + gen.hexs(v) for k, v in xs) or "-"


def check_header_rt(e, out_line, rd_line, via_s2t=False):
    """header_rt / entry_rt evaluated on the implementation alone: entry -> write_tar_header (H) or
    sqfs2tar's write_entry (E, via_s2t) -> read_header.  read_header returns the xattr list in the
    REVERSE of the record order; write_tar_header writes in list order, write_entry reverses first:
    H reads back reversed, E reads back in the image's order."""
    if not out_line.startswith("OK "):
        return None
    if not rd_line.startswith("OK "):
        return "read_header refuses what %s wrote: %s" % ("write_entry" if via_s2t else "write_tar_header", rd_line[:80])
    d = parse_kv(rd_line)
    written = len(unhex(out_line[3:]))
    mode = e["mode"]
    ftype = mode & 0o170000
    if via_s2t and ftype == T.S_IFREG and not e["hl"]:
        written -= len(e["data"]) + (-len(e["data"])) % 512       # read_header stops in front of the file data
    exp = dict(name=gen.hexs(e["name"]), uid=str(e["uid"]), gid=str(e["gid"]), mtime=str(e["mtime"]), unk="0",
               hl=str(e["hl"]), sparse="-", consumed=str(written))
    if e["hl"]:
        exp.update(link=gen.hexs(e["target"]), mode=str(mode & 0o7777), rsize="0", asize="0", dev="0", xattr="-")
    else:
        exp["xattr"] = xattr_str(e["xattr"] if via_s2t else list(reversed(e["xattr"])))
        if ftype == T.S_IFLNK:
            exp.update(link=gen.hexs(e["target"]), mode=str(T.S_IFLNK | 0o777), rsize="0", asize="0", dev="0")
        else:
            size = e["size"] if ftype == T.S_IFREG else 0
            exp.update(link="~", mode=str(mode), rsize=str(size), asize=str(size),
                       dev=str(e["rdev"] if ftype in (T.S_IFCHR, T.S_IFBLK) else 0))
    for k, v in exp.items():
        if d.get(k) != v:
            return "field %s: wrote %s, read back %s" % (k, v[:60], str(d.get(k))[:60])
    return None


def entry_from_line(line):
    t = line.split(" ")
    o = 1 if t[0] == "E" else 0            # E lines carry the file data in front of the xattr count
    xs = [(unhex(t[12 + o + 2 * i]), unhex(t[13 + o + 2 * i])) for i in range(int(t[11 + o]))]
    return dict(counter=int(t[1]), hl=int(t[2]), mode=int(t[3]), uid=int(t[4]), gid=int(t[5]), size=int(t[6]),
                mtime=int(t[7]), rdev=int(t[8]), name=unhex(t[9]), target=None if t[10] == "~" else unhex(t[10]),
                xattr=xs, data=unhex(t[11]) if o else b"")


def s2t_rt_findings(h, elines, eouts):
    """entry_rt on the implementation: what write_entry wrote, read back with read_header, has the
    entry's metadata and the xattrs in the image's order"""
    prop = []
    idx = [k for k, o in enumerate(eouts) if o.startswith("OK ")]
    if idx:
        _, rd_out, _ = run_lines(h, ["R " + eouts[k][3:] for k in idx], env=ASAN_ENV)
        for k, r in zip(idx, rd_out):
            e = entry_from_line(elines[k])
            if len(unhex(eouts[k][3:])) % 512:
                prop.append(("entry-len", "sqfs2tar write_entry wrote %d bytes, not a multiple of 512" % len(unhex(eouts[k][3:])),
                             [elines[k]]))
            if not entry_in_domain(e):
                continue
            why = check_header_rt(e, eouts[k], r, via_s2t=True)
            if why:
                rev = xattr_str(list(reversed(e["xattr"])))
                swapped = why.startswith("field xattr") and len(e["xattr"]) > 1 and parse_kv(r).get("xattr") == rev
                prop.append(("F23:sqfs2tar-xattr-order" if swapped else "entry-rt",
                             "sqfs2tar write_entry -> read_header does not give the entry back (%s)%s" % (
                                 why, "; the xattrs come back in reverse order, so every tar -> sqfs -> tar round swaps them "
                                 "and the conversion oscillates with period 2" if swapped else ""),
                             [elines[k], "R " + eouts[k][3:]]))
    for k, o in enumerate(eouts):
        if o.startswith("UNSUP ") and o != "UNSUP -":
            prop.append(("F22:skipped-entry-leaks-records",
                         "sqfs2tar write_entry refuses the entry (socket) after %d bytes of extension records were appended" % len(unhex(o[6:])),
                         [elines[k]]))
    return prop


def entry_in_domain(e):
    """the hypotheses of header_rt (wf_entry)"""
    if e["uid"] >= 127 * 2 ** 56 or e["gid"] >= 127 * 2 ** 56 or e["rdev"] >= 2 ** 32:
        return False
    if not -2 ** 63 < e["mtime"] < 2 ** 63:
        return False
    if any(b"=" in k or b"\0" in k for k, _ in e["xattr"]):
        return False
    pay = sum(len(T.pax_record(b"SCHILY.xattr." + k, v)) for k, v in e["xattr"])
    return pay <= 65536 and len(e["name"]) <= 65536 and len(e["target"] or b"") <= 65536


def component(ctx, h, drv, cases_override=None, hs=None):
    """tie + component-level property oracles.  Returns list of (kind, case line, impl, model)."""
    rnd = random.Random(ctx.seed)
    quick = ctx.tier == "quick"
    if cases_override is not None:
        lines = list(cases_override)
        ents = []
    else:
        nnum, nhdr, nrd, narch, nstream, ns2t = (150, 250, 1200, 500, 200, 150) if quick else (3000, 4000, 20000, 8000, 3000, 3000)
        lines = gen.num_cases(rnd, nnum)
        ents = gen.header_cases(rnd, nhdr)
        hdr_at = len(lines)
        lines += [gen.entry_line(e) for e in ents]
        lines += [gen.s2t_line(e) for e in gen.s2t_cases(rnd, ns2t)]
        streams = [gen.rand_stream(rnd) for _ in range(nrd)]
        rd_at = len(lines)
        lines += ["R " + gen.hexs(s) for s, _ in streams]
        lines += ["A %d %s" % (rnd.choice([600, 700, 4096, 100000]), gen.hexs(gen.rand_stream(rnd, True)[0])) for _ in range(narch)]
        lines += gen.stream_cases(rnd, nstream)
    lines = gen.renumber_s2t(lines)
    e_at = [i for i, l in enumerate(lines) if l.startswith("E ")]
    rc_c, out_c, err_c = run_lines(h, [l if not l.startswith("E ") else "X" for l in lines], env=ASAN_ENV)
    died_at = len([l for l in out_c if l]) if rc_c != 0 and len([l for l in out_c if l]) < len(lines) else None
    rc_e, out_e, err_e = (0, [], "")
    if e_at:
        if hs is None:
            raise RuntimeError("E cases need the sqfs2tar harness")
        rc_e, out_e, err_e = run_lines(hs, [lines[i] for i in e_at], env=ASAN_ENV)
        out_c = list(out_c) + [""] * (len(lines) - len(out_c))
        for k, i in enumerate(e_at):
            out_c[i] = out_e[k] if k < len(out_e) and out_e[k] else "<sqfs2tar harness died>"
    rc_m, out_m, err_m = run_lines(drv, lines, model=True)
    if rc_m != 0:
        raise RuntimeError("model driver failed rc=%d: %s" % (rc_m, err_m[-500:]))
    diffs = []
    prop = []
    stats = collections.Counter()
    nontrivial = 0
    for i, cs in enumerate(lines):
        a = out_c[i] if i < len(out_c) else "<harness died>"
        b = out_m[i] if i < len(out_m) else "<no model output>"
        kind = cs[0]
        stats[kind] += 1
        verdict = a.split(" ")[0]
        stats[kind + ":" + verdict[:7]] += 1
        if kind in "RA" and (a.startswith("OK") or a.startswith("name=")):
            nontrivial += 1
        elif kind in "HEWSNMT" and not a.startswith("ERR"):
            nontrivial += 1
        if a == b:
            continue
        if kind == "A" and b == "ERR" and a.endswith("ERR"):
            continue            # verdict only: the implementation reports the entries before the error
        if kind == "A" and b == "FUEL":
            continue            # hole larger than the model materialises
        diffs.append((kind, cs, a, b))
    if died_at is not None:
        idx = died_at
        prop.append(("harness-crash:" + lines[idx][0], "lib/tar harness died (rc=%d) on case %r: %s" % (
            rc_c, lines[idx][:120], err_c[-800:]), [lines[idx]]))
    if rc_e != 0 and len([l for l in out_e if l]) < len(e_at):
        k = len([l for l in out_e if l])
        prop.append(("harness-crash:E", "sqfs2tar write_entry harness died (rc=%d) on case %r: %s" % (
            rc_e, lines[e_at[k]][:120], err_e[-800:]), [lines[e_at[k]]]))
    # ---- the property on the implementation's own outputs
    # sqfs2tar's write_entry, then read_header
    if e_at:
        prop += s2t_rt_findings(h, [lines[i] for i in e_at], [out_c[i] for i in e_at])
    # numbers: write then read
    wr = [(cs, out_c[i]) for i, cs in enumerate(lines) if cs[0] in "WS" and i < len(out_c)]
    rd_lines = [("M " if cs[0] == "S" else "N ") + o for cs, o in wr]
    if rd_lines:
        _, rd_out, _ = run_lines(h, rd_lines, env=ASAN_ENV)
        for (cs, o), r in zip(wr, rd_out):
            _, digits, v = cs.split(" ")
            v = int(v)
            if cs[0] == "W" and ((digits == "8" and v >= 127 * 2 ** 56) or v >= 2 ** 64):
                continue
            if cs[0] == "S" and (digits != "12" or not -2 ** 63 < v < 2 ** 63):
                continue
            if r != "OK %d" % v:
                prop.append(("number-rt:%s" % digits, "write_number%s(%d, %s) = %s reads back as %r" % (
                    "_signed" if cs[0] == "S" else "", v, digits, o, r), [cs, ("M " if cs[0] == "S" else "N ") + o]))
    # headers: write then read
    if ents:
        outs = out_c[hdr_at:hdr_at + len(ents)]
        idx = [k for k, o in enumerate(outs) if o.startswith("OK ")]
        tails = [b"", b"\x01\x02\x03", b"\0" * 1024]
        rl = ["R " + o[3:] for o in (outs[k] for k in idx)]
        _, rd_out, _ = run_lines(h, rl, env=ASAN_ENV)
        for k, r in zip(idx, rd_out):
            e = ents[k]
            if not entry_in_domain(e):
                continue
            why = check_header_rt(e, outs[k], r)
            if why:
                prop.append(("header-rt", "write_tar_header -> read_header loses the entry (%s)" % why,
                             [gen.entry_line(e), "R " + outs[k][3:]]))
            if len(unhex(outs[k][3:])) % 512:
                prop.append(("header-len", "write_tar_header wrote %d bytes, not a multiple of 512" % len(unhex(outs[k][3:])),
                             [gen.entry_line(e)]))
        for k, o in enumerate(outs):
            if o.startswith("UNSUP ") and o != "UNSUP -":
                prop.append(("F22:skipped-entry-leaks-records",
                             "write_tar_header refuses the entry (socket) after it has already appended %d bytes of extension "
                             "records; they attach to the next entry of the archive" % len(unhex(o[6:])), [gen.entry_line(ents[k])]))
    # sparse stream: never more than the file size; sorted maps expand
    for i, cs in enumerate(lines):
        if cs[0] != "T" or i >= len(out_c):
            continue
        _, fsize, smap, data, sched = cs.split(" ")
        fsize = int(fsize)
        m = [tuple(int(x) for x in p.split(":")) for p in smap.split(";")] if smap != "-" else []
        o = out_c[i].split(" ")
        if o[0] == "DONE":
            got = unhex(o[1])
            if len(got) > fsize:
                prop.append(("F24:sparse-beyond-file-size", "the tar file stream delivered %d bytes for a file of %d bytes (map %s)" % (
                    len(got), fsize, smap[:80]), [cs]))
                continue
            d = unhex(data)
            pos = 0
            ok = True
            for oo, cc in m:
                if oo < pos or oo + cc > fsize:
                    ok = False
                pos = oo + cc
            if ok and m and sum(c for _, c in m) <= len(d) and got != T.expand(m, d, fsize):
                prop.append(("sparse-expand", "the tar file stream does not deliver the expansion of the map %s" % smap[:80], [cs]))
            if not m and len(d) >= fsize and got != d[:fsize]:
                prop.append(("sparse-expand", "the tar file stream of a plain file differs from the record", [cs]))
        elif o[0] == "MORE":
            steps = len(sched.split(";")) if sched != "-" else 0
            if steps >= fsize:
                prop.append(("sparse-progress", "the tar file stream is not finished after %d steps for %d bytes" % (steps, fsize), [cs]))
    return lines, diffs, prop, stats, nontrivial, (out_c, out_m)


# ---------------------------------------------------------------- images with sockets (sqfs -> tar)
def image_expect(pack, with_sockets=False):
    """name -> type of what sqfs2tar must emit for a gensquashfs pack file: everything but the sockets AND the further
    names ('link' lines) of sockets; a further name of anything else has the type of the inode it names"""
    typ = {}
    links = []
    for l in pack.split("\n"):
        t = l.split(" ")
        if len(t) < 2:
            continue
        if t[0] == "link":
            links.append((t[1], t[5]))
        else:
            typ[t[1]] = {"sock": "sock", "file": "file", "dir": "dir", "slink": "slink", "pipe": "fifo"}.get(t[0], t[0])
    for name, tgt in links:
        typ[name] = typ.get(tgt, "?")
    if with_sockets:
        return typ
    return {n: k for n, k in typ.items() if k != "sock"}


def check_image_output(out, pack):
    """(sig, msg) or None for sqfs2tar's output on the image of `pack`"""
    lines = [l for l in pack.split("\n") if l]
    long_sock = any(len(l.split(" ")[1]) >= 100 and l.startswith("sock") for l in lines)
    exp = image_expect(pack)
    try:
        nodes, order, _ = O.read_tree(out, "sqfs2tar output")
    except Exception as e:
        return ("F22:socket-renames-next-entry" if long_sock else "output-unreadable",
                "Python tarfile cannot read sqfs2tar output of an image with sockets: %r" % (e,))
    try:
        O.resolve_hard_links(nodes)
    except ValueError as e:
        socks = set(n for n, k in image_expect(pack, True).items() if k == "sock")      # every name of a socket inode
        dangling = [n for n, v in nodes.items() if v["type"] == "hard" and O.canon(v["link"]) in socks]
        return ("F25:socket-second-name-dangling-link" if dangling else "image-dangling-link",
                "sqfs2tar: the archive of an image holds a hard link record whose target it does not contain (%s)%s" % (
                    e, "; the target is a socket: its first name was skipped (tar cannot express it), its second name was "
                    "turned into a hard link record by the hard link filter; GNU tar -x and tar2sqfs refuse the archive" if dangling else ""))
    got = {k: v["type"] for k, v in nodes.items()}
    if got != exp:
        bad = sorted(set(got.items()) ^ set(exp.items()))[:3]
        return ("F22:socket-renames-next-entry" if long_sock else "image-tree-differs",
                "sqfs2tar: the archive of an image with sockets does not hold exactly the other entries: %r" % (
                    [(n[:24] + ".." if len(n) > 26 else n, t) for n, t in bad],))
    gnames, err = O.gnu_tar_names(out)
    if gnames is None or set(n.rstrip("/") for n in gnames) != set(exp):
        return ("gnu-tar-names", "GNU tar lists other names than the image holds")
    return None


def socket_image_case(rnd, tools, workdir, idx):
    """pack file with sockets (long names, some with a second name) among other entries; sqfs2tar must emit exactly
    the others"""
    d = os.path.join(workdir, "img%d" % idx)
    os.makedirs(d)
    open(os.path.join(d, "data.bin"), "wb").write(b"payload %d\n" % idx)
    names = set()
    lines = []
    linkable = []

    def fresh():
        for _ in range(20):
            n = rnd.choice([3, 20, 99, 100, 101, 180])
            name = "".join(rnd.choice("abcdefghijk0123456789_") for _ in range(n))
            if name not in names:
                names.add(name)
                return name
        return None

    for k in range(rnd.randint(3, 12)):
        name = fresh()
        if name is None:
            continue
        kind = rnd.choice(["sock", "sock", "file", "file", "dir", "slink", "pipe"])
        mode = rnd.choice([0o644, 0o600, 0o755])
        uid, gid = rnd.choice([0, 1000, 2 ** 31]), rnd.choice([0, 50])
        if kind == "sock":
            lines.append("sock %s 0%o %d %d" % (name, mode, uid, gid))
        elif kind == "file":
            lines.append("file %s 0%o %d %d data.bin" % (name, mode, uid, gid))
        elif kind == "dir":
            lines.append("dir %s 0%o %d %d" % (name, mode, uid, gid))
        elif kind == "slink":
            lines.append("slink %s 0777 %d %d %s" % (name, uid, gid, "t" * rnd.choice([3, 99, 100, 150])))
        else:
            lines.append("pipe %s 0%o %d %d" % (name, mode, uid, gid))
        if kind != "dir":
            linkable.append(name)
    # further names of some inodes (sockets included): gensquashfs 'link <name> <ignored mode uid gid> <target>'
    for tgt in list(linkable):
        if rnd.random() < 0.3:
            name = fresh()
            if name is not None:
                lines.append("link %s 0 0 0 %s" % (name, tgt))
    pack = "\n".join(lines) + "\n"
    open(os.path.join(d, "pack.txt"), "w").write(pack)
    img = os.path.join(d, "i.sqfs")
    rc, _, err = O.run([tools["gensquashfs"], "-q", "-f", "-c", "gzip", "-j", "1", "-D", d, "-F", os.path.join(d, "pack.txt"), img])
    if rc != 0:
        return None, pack, None
    rc, out, err = O.run([tools["sqfs2tar"], img])
    if rc != 0:
        return ("image-convert-fails", "sqfs2tar fails on an image with sockets: " + err[-300:]), pack, None
    return check_image_output(out, pack), pack, out


# ---------------------------------------------------------------- tool level
def tool_search(ctx, info, ncases, seed_offset=0, only=None):
    tools = info["tools"]
    wd = tempfile.mkdtemp(dir=ctx.scratch)
    rnd = random.Random(ctx.seed * 1000003 + seed_offset)
    cases = []
    if only is not None:
        cases = only
    else:
        for i in range(ncases):
            r = random.Random(rnd.getrandbits(64))
            try:
                cases.append((i,) + O.gen_case(r, wd, i, ctx.tier))
            except Exception as e:           # generator trouble is not a finding
                ctx.notes.append("generator: %r" % (e,))
        # sparse members whose maps contain zero-length entries below the real size, all four sparse dialects
        try:
            for data, opts, desc in O.sparse_zero_cases(random.Random(rnd.getrandbits(64))):
                cases.append((len(cases), data, opts, desc))
        except Exception as e:
            ctx.notes.append("generator (sparse maps with empty entries): %r" % (e,))

    def one(c):
        i, data, opts, desc = c
        try:
            v, st = O.check_archive(tools, data, opts, wd, "c%d" % i)
        except Exception as e:
            return i, ("oracle-error", "oracle failed: %r" % (e,)), {}, c
        return i, v, st, c

    with ThreadPoolExecutor(16) as ex:
        res = list(ex.map(one, cases))
    stats = collections.Counter()
    viols = []
    for i, v, st, c in res:
        if st.get("skipped"):
            stats["skipped"] += 1
        stats["roundtrip"] += st.get("roundtrip", 0)
        stats["fixpoint"] += st.get("fixpoint", 0)
        stats["xattr_order_settled_in_round_2"] += st.get("xattr_order_settled", 0)
        stats["entries"] += st.get("entries", 0)
        stats["src:" + c[3].split(",")[0].split(" format")[0].split(" --")[0]] += 1
        for k, val in c[2].items():
            if val:
                stats["opt:" + k] += 1
        if v:
            viols.append((v, c))
    return viols, stats, len(cases)


def classify(v, c):
    """stable signature for a tool-level violation"""
    sig, msg = v
    if sig == "fixpoint-xattr-order" or (sig == "fixpoint-tar" and "SCHILY.xattr" in msg):
        return "F23:fixpoint-xattr-order", msg
    if sig in ("tree-differs", "fixpoint-tar") and ": link expected" in msg and c[2].get("t2s_root"):
        return "F21:root-becomes-retarget", msg
    return sig, msg


def replay_obj_tool(c, msg):
    i, data, opts, desc = c
    return dict(kind="tool", archive_b64=base64.b64encode(data).decode(), opts=opts, source=desc,
                how="tar2sqfs %s < archive; sqfs2tar %s; compare with Python tarfile's reading of the archive" % (
                    " ".join(O.t2s_args(opts)), " ".join(O.s2t_args(opts))), detail=msg)


# ---------------------------------------------------------------- main
def build_s2t_harness(info):
    """write_entry of bin/sqfs2tar/src/sqfs2tar.c (#included by h_s2t.c), linked with the tool's own
    options.c / iterator.c for the globals it refers to"""
    src = os.path.join(B.REPO, "bin", "sqfs2tar", "src")
    return B.compile_harness(info, [os.path.join(HERE, "h_s2t.c"), os.path.join(src, "options.c"), os.path.join(src, "iterator.c")],
                             "h_s2t", includes=["-I" + src])


def build_pt_harness(info):
    """process_tarball of bin/tar2sqfs/src/process_tarball.c (#included by h_pt.c with fstree_add_generic renamed to a
    recording wrapper), linked with the tool's own options.c for the globals"""
    src = os.path.join(B.REPO, "bin", "tar2sqfs", "src")
    return B.compile_harness(info, [os.path.join(HERE, "h_pt.c"), os.path.join(src, "options.c")], "h_pt", includes=["-I" + src])


def subdir_model():
    """extracted s2t_names (coq/C04/SubdirModel.v) behind props/C04/subdir_driver.ml"""
    return core.build_model_driver("C04subdir", "ExtractC04Subdir.v", os.path.join(HERE, "subdir_driver.ml"))


def imgtar_stage(ctx, info, cases=None):
    """ImgTar leg: process_tarball / sqfs2tar walk models composed with coq/C11 against the real code"""
    hp = build_pt_harness(info)
    drv = core.build_model_driver("C04imgtar", "ExtractC04ImgTar.v", os.path.join(HERE, "imgtar_driver.ml"))
    wd = tempfile.mkdtemp(dir=ctx.scratch)
    n = 400 if ctx.tier == "quick" else 8000
    return IT.stage(ctx, info, hp, drv, wd, n, cases=cases)


def full_model():
    """extracted drv_conv (coq/ImgTarFull: t2s_full -> image bytes -> sqfs2tar_full) behind props/C04/full_driver.ml"""
    return core.build_model_driver("C04full", "ExtractC04Full.v", os.path.join(HERE, "full_driver.ml"))


def imgtarfull_stage(ctx, info, cases=None):
    """ImgTarFull leg: the composed models of tar2sqfs and sqfs2tar incl. contents and xattr lists against the real tools"""
    wd = tempfile.mkdtemp(dir=ctx.scratch)
    n = 100 if ctx.tier == "quick" else 2000
    return ITF.stage(ctx, info, full_model(), wd, n, cases=cases)


def run(ctx):
    info = B.build("asan")
    h = B.compile_harness(info, [os.path.join(HERE, "h_tar.c")], "h_tar")
    hs = build_s2t_harness(info)
    if regen_constants(h):
        ctx.log("coq/C04/GenC04.v changed -> re-checking the theorems")
        ctx.proof_broken[:] = [b for b in ctx.proof_broken if "Properties_C04" not in b and "theorem" not in b]
        core.prepare_proofs(ctx)
    drv = core.build_model_driver("C04", "ExtractC04.v", os.path.join(HERE, "driver.ml"))
    ctx.trusted += ["props/C04/h_tar.c, props/C04/h_s2t.c (fake one-entry directory iterator around sqfs2tar's write_entry), "
                    "props/C04/driver.ml (hex / decimal I/O glue, schedule-driven input stream)",
                    "props/C04/targen.py, gen.py (independent tar writer used by the generators), oracle.py (tree comparison)",
                    "props/C04/h_pt.c (process_tarball #included with fstree_add_generic renamed to a recorder that calls the real one; real "
                    "tar iterator, real sqfs_writer), props/C04/imgtar_driver.ml, imgtar.py (archive generator, canonical text of add calls and "
                    "entry sequences); coq/C11 + coq/ImgPost models of lib/fstree (tied by C11 / C01)",
                    "props/C04/full_driver.ml, imgtarfull.py (generator of archives with old-GNU sparse members and SCHILY.xattr PAX records, a "
                    "small PAX record reader of its own for the 'last record wins' oracle); coq/ImgE2E + its layers (C08 block processor, C01 "
                    "xattr writer, ImgXattr flush, Image.write_image, C05 / C10 reader models, the xattr reader SPECIFICATION) as tied by C01 / C03 / "
                    "C05 / C08 / C10; the driver's oracle instantiation (no data compression, store-mode metadata compressor, polynomial checksum)",
                    "Python 3.11 tarfile and GNU tar 1.34 as independent readers/writers; ASan/UBSan verdicts",
                    "props/C04/hlimg.py + vlib/sqfsimg.py Builder/Image (hand-built images with hard link groups over a > 64 KiB inode "
                    "table; every built image is re-parsed and validated by the independent reader before it is used), props/C04/h_hlfilter.c "
                    "(fake flat iterator under the real hard link filter; reference = first name per (dev, inode) of the non-directories)",
                    "props/C04/s2topt.py (gensquashfs pack / xattr files as image generator, component-wise statement of the manual's promise, "
                    "raw tar header name parser), props/C04/subdir_driver.ml (hex glue around the extracted s2t_names)",
                    "glibc major()/minor()/makedev(), printf %o/%lu, strtol, isspace/isdigit in the C locale (modelled in TarHdr.v, exercised by the tie)"]
    ctx.assumptions += [
        "header_rt: entries as sqfs2tar produces them (wf_entry): NUL-free names/targets, xattr keys without '=' or NUL, "
        "ids < 127*2^56, device numbers < 2^32, mtime > -2^63, names/targets/PAX payload <= 65536 bytes (TAR_MAX_*_LEN)",
        "sparse_expand_ok: maps sorted, non-overlapping, inside the file size, enough record data; the bound and "
        "schedule-independence theorems hold for every map",
        "archive_rt: entry names canonicalise (no '..' component); file data length equals the size in the header",
        "conv_fixpoint / conv_second_round (sessions 1-2): [reimage] is a stated per-entry model over a plain list of entries; "
        "conv_fixpoint_composed / conv_second_round_composed / reimage_is_theorem (session 3, coq/ImgTar) replace it by the composed "
        "models of process_tarball, lib/fstree (coq/C11), the serializer and reader (coq/ImgPost, coq/Img) and sqfs2tar's walk with "
        "its hard link filter, at the metadata level (paths, order, types, modes, ids, clamped mtimes, targets, device numbers, "
        "hard-link structure) for archives in sqfs2tar's shape (tree_shapeb, decidable); still assumed there: the xattr list and the "
        "file contents of every entry of the new image (taken from reimage_all: xattr writer order, data as read), files_attached "
        "(file sizes as announced), one inode reference per inode number; hypotheses of ImgPost.pack_paths_roundtrip (input_okb, "
        "attached_okb, trace_fits) and success of tar2sqfs_tree / post_process / serialize_fstree; names shorter than TAR_MAX_PATH_LEN",
        "tar2sqfs_image_reads_back / conv_roundtrip_full / conv_fixpoint_full / conv_second_round_full / conv_round_fixpoint (coq/ImgTarFull): "
        "contents and xattr lists are NO LONGER assumed - they are read from the image bytes by the reader models; hypotheses: archive in "
        "sqfs2tar's shape (tree_shapeb), every regular entry's stream as long as its header says (data_ok), for the exact xattr order and the "
        "fixpoints every entry's keys supported / bounded / pairwise different (xattrs_ok), the composed run succeeds (t2s_full = PDone) inside "
        "ImgE2E's decidable bounds (e2e_okb), oracle contracts of the data / metadata compressor pairs, loop bounds of the reader models; "
        "tar2sqfs without --root-becomes / -k / --no-skip in the theorems (modelled and tied); the xattr reader is the specification from "
        "format.adoc, not a model of xattr_reader.c; one inode reference per inode number",
        "image_view_of_adds / adds_denote: add lists with paths below the root, no path twice (ops_okb), hard links resolving through "
        "hard link adds (links_resolveb); a root entry of the archive is modelled and tied but outside these theorems",
        "subdir_* (coq/C04/Subdir*.v): names as lists of '/'-free (for the collision theorems: non-empty) components, --subdir / "
        "--root-becomes arguments as options.c's canonicalize_name leaves them; sockets and the hard link filter outside the selection model",
        "not modelled (search oracle only): option parsing of sqfs2tar (canonicalisation of the --subdir / --root-becomes arguments), tar2sqfs --exclude, uid/gid "
        "truncation to 32 bit in tree_node_t, option parsing, stream compression (copy_xattr / write_file ARE modelled since coq/ImgTarFull)",
    ]

    if ctx.replay:
        return replay(ctx, info, h, drv, hs)

    # ---- component tie + component-level oracles
    lines, diffs, prop, stats, nontrivial, outs = component(ctx, h, drv, hs=hs)
    ctx.coverage["evaluations"] = len(lines)
    ctx.coverage["distinct_nontrivial"] = nontrivial
    ctx.coverage["traces_validated_against_impl"] = len(lines)
    ctx.coverage["distribution"] = dict(sorted(stats.items()))
    ctx.coverage["rule"] = (
        "component cases from seed %d: number fields at 0/8^7/8^8/2^32/8^11/8^12/2^56/127*2^56/2^63/2^64 +-1 and random, "
        "read_number on independent encodings and hostile fields; write_tar_header on entries with name/target lengths "
        "1..320 around 99/100/101/155/256, every type incl. sockets and hard links, ids/sizes/mtimes around the octal and "
        "base-256 limits, negative mtimes, 0-3 xattrs with record lengths around 10^k; sqfs2tar's write_entry on the same "
        "kind of entries with 0-4 xattrs in image order and file data around the record size; read_header / tar iterator on "
        "v7, ustar+prefix, GNU L/K, PAX (path, linkpath, uid, gid, size, mtime, SCHILY/LIBARCHIVE xattrs, GNU.sparse.*), "
        "old GNU sparse with extension records, sparse 0.0/0.1/1.0 with window-edge numbers, zero blocks, truncation, "
        "byte-mutated headers with repaired checksum; sparse stream under (want, buffered, take) schedules for sorted and "
        "arbitrary maps.  non-trivial = the implementation did not refuse the case" % ctx.seed)
    ctx.add_samples([dict(case=lines[i][:160], impl=outs[0][i][:160], model=outs[1][i][:160]) for i in
                     (len(lines) // 5, len(lines) // 2, len(lines) - 3)])
    seen = set()
    for sig, what, cases in prop:
        if sig in seen:
            continue
        seen.add(sig)
        ctx.violation(sig, what, dict(kind="component", cases=cases))

    # ---- ImgTar leg: archive -> process_tarball -> fstree -> image -> sqfs2tar's walk, model vs. code
    it = imgtar_stage(ctx, info)
    ctx.coverage["evaluations"] += 2 * it["ncases"]
    ctx.coverage["traces_validated_against_impl"] += 2 * it["ncases"]
    ctx.coverage["distinct_nontrivial"] += it["stats"].get("A:ok", 0) + it["stats"].get("B:conv", 0)
    ctx.coverage["imgtar"] = dict(archives=it["ncases"], tie_A_differences=len(it["diffs_a"]), tie_B_differences=len(it["diffs_b"]),
                                  **dict(sorted(it["stats"].items())))
    ctx.add_samples(it["samples"])
    for sig, what, rep, no_input in it["viols"]:
        if sig in seen:
            continue
        seen.add(sig)
        ctx.violation(sig, what, rep, no_input=no_input)

    # ---- ImgTarFull leg: the same with file contents (sparse files) and xattr lists, through the image BYTES (coq/ImgTarFull)
    itf = imgtarfull_stage(ctx, info)
    ctx.coverage["evaluations"] += itf["ncases"]
    ctx.coverage["traces_validated_against_impl"] += itf["ncases"] - len(itf["diffs"])
    ctx.coverage["distinct_nontrivial"] += itf["stats"].get("C:conv", 0)
    ctx.coverage["imgtarfull"] = dict(archives=itf["ncases"], tie_C_differences=len(itf["diffs"]), **dict(sorted(itf["stats"].items())))
    ctx.add_samples(itf["samples"])
    for sig, what, rep, no_input in itf["viols"]:
        if sig in seen:
            continue
        seen.add(sig)
        ctx.violation(sig, what, rep, no_input=no_input)

    # ---- hard links where inode references are far apart (inode table > 64 KiB): props/C04/hlimg.py
    hv, hstats = HL.stage(ctx, info)
    ctx.coverage["hard_link_images"] = hstats
    ctx.coverage["evaluations"] += hstats["images"]
    fv, fstats = HL.filter_stage(ctx, info)
    ctx.coverage["hard_link_filter"] = fstats
    ctx.coverage["evaluations"] += fstats["cases"]
    for sig, what, rep in fv + hv:
        if sig in seen:
            continue
        seen.add(sig)
        ctx.violation(sig, ("C04 violated by the tools: " if sig.startswith("hl-image") else "C04, ") + what, rep)

    # ---- sqfs2tar option leg: --subdir / --keep-as-dir / --root-becomes / --no-skip / --no-xattr / --no-hard-links on gensquashfs
    #      images whose names extend / are extended by the selected paths (props/C04/s2topt.py)
    ov, ostats = SO.stage(ctx, info, model=subdir_model())
    ctx.coverage["sqfs2tar_options"] = ostats
    ctx.coverage["evaluations"] += ostats["conversions"]
    ctx.coverage["traces_validated_against_impl"] += ostats.get("tie_cases", 0) - ostats.get("tie_differences", 0)
    for sig, what, rep, no_input in ov:
        if sig in seen:
            continue
        seen.add(sig)
        ctx.violation(sig, ("C04, " if no_input else "C04 violated by the tools: ") + what, rep, no_input=no_input)

    # ---- tool-level search oracle
    n_tool = 120 if ctx.tier == "quick" else 4000
    if diffs or ctx.proof_broken or it["diffs_a"] or it["diffs_b"]:
        n_tool *= 3            # tie broke / proof broke => search harder
    viols, tstats, ntool = tool_search(ctx, info, n_tool)
    wd = tempfile.mkdtemp(dir=ctx.scratch)
    rnd = random.Random(ctx.seed + 77)
    nimg = 25 if ctx.tier == "quick" else 400
    img_ok = 0
    for i in range(nimg):
        v, pack, out = socket_image_case(random.Random(rnd.getrandbits(64)), info["tools"], wd, i)
        if v:
            if v[0] not in seen:
                seen.add(v[0])
                ctx.violation(v[0], v[1], dict(kind="image", pack=pack, how="gensquashfs -F pack.txt img (file data: any small file "
                                               "named data.bin in -D dir); sqfs2tar img | tar tvf -"))
        elif pack is not None:
            img_ok += 1
    ctx.coverage["tool_level"] = dict(archives=ntool, images_with_sockets=nimg, images_ok=img_ok, **dict(sorted(tstats.items())))
    for v, c in viols:
        sig, msg = classify(v, c)
        if sig in seen:
            continue
        seen.add(sig)
        ctx.violation(sig, "C04 violated by the tools (%s): %s" % (c[3], msg), replay_obj_tool(c, msg))

    # ---- tie verdict
    if diffs:
        concrete = [v for v in ctx.violations if not v["no_input"]]
        kinds = collections.Counter(d[0] for d in diffs)
        kind, cs, a, b = diffs[0]
        names = dict(N="read_number", M="read_number/mtime", W="write_number", S="write_number_signed", P="padd_file",
                     C="tar_compute_checksum", H="write_tar_header", E="sqfs2tar write_entry", R="read_header", A="tar iterator",
                     T="tar file stream")
        if not concrete:
            ctx.violation("tie-" + names.get(kind, kind).replace(" ", "-"),
                          "correspondence model vs lib/tar broken (%s) on %s: impl=%s model=%s; the property oracles "
                          "(%d component cases, %d archives, %d images) found no failing input" % (
                              dict(kinds), cs[:100], a[:120], b[:120], len(lines), ntool, nimg),
                          dict(kind="component", cases=[d[1] for d in diffs[:5]], impl=a, model=b,
                               correspondence="props/C04: %s (model) = %s (lib/tar)" % (names.get(kind, kind), names.get(kind, kind))),
                          no_input=True)
        else:
            ctx.notes.append("tie differences: %r (first: %s)" % (dict(kinds), cs[:100]))


def replay(ctx, info, h, drv, hs):
    r = json.load(open(ctx.replay))
    kind = r.get("kind")
    if kind == "component":
        lines, diffs, prop, stats, nontrivial, outs = component(ctx, h, drv, cases_override=r["cases"], hs=hs)
        ctx.coverage["evaluations"] = len(lines)
        # the generic oracles need the generator's bookkeeping; re-evaluate the recorded pair directly
        for i, cs in enumerate(lines):
            ctx.log("case %s\n  impl : %s\n  model: %s" % (cs[:200], outs[0][i][:300], outs[1][i][:300]))
        sig = r.get("signature", "replay")
        bad = [p for p in prop] or diffs
        for p in prop:
            ctx.violation(p[0], p[1], dict(kind="component", cases=p[2]))
        if not prop:
            # header round trip replays carry [H line, R line]
            hl = [c for c in lines if c.startswith("H ")]
            if hl:
                _, o, _ = run_lines(h, hl, env=ASAN_ENV)
                _, ro, _ = run_lines(h, ["R " + oo[3:] if oo.startswith("OK ") else "R -" for oo in o], env=ASAN_ENV)
                for c, oo, rr in zip(hl, o, ro):
                    e = entry_from_line(c)
                    why = check_header_rt(e, oo, rr) if entry_in_domain(e) else None
                    if why:
                        ctx.violation("header-rt",
                                      "write_tar_header -> read_header loses the entry (%s)" % why, dict(kind="component", cases=[c]))
                    if oo.startswith("UNSUP ") and oo != "UNSUP -":
                        ctx.violation("F22:skipped-entry-leaks-records", "write_tar_header appended %d bytes before refusing the entry" % len(unhex(oo[6:])),
                                      dict(kind="component", cases=[c]))
            if diffs and not ctx.violations:
                kind0, cs, a, b = diffs[0]
                ctx.violation(sig, "correspondence still broken on %s: impl=%s model=%s" % (cs[:100], a[:120], b[:120]),
                              dict(kind="component", cases=[d[1] for d in diffs[:5]]), no_input=r.get("no_failing_input_found", True))
    elif kind == "tool":
        data = base64.b64decode(r["archive_b64"])
        c = (0, data, r["opts"], r.get("source", "replay"))
        viols, tstats, n = tool_search(ctx, info, 1, only=[c])
        ctx.coverage["evaluations"] = 1
        for v, cc in viols:
            sig, msg = classify(v, cc)
            ctx.violation(sig, "C04 violated by the tools (%s): %s" % (cc[3], msg), replay_obj_tool(cc, msg))
    elif kind == "imgtar":
        case = (base64.b64decode(r["archive_b64"]), r["opts"], r.get("source", "replay"))
        it = imgtar_stage(ctx, info, cases=[case])
        ctx.coverage["evaluations"] = 2
        for sig, what, rep, no_input in it["viols"]:
            ctx.violation(sig, what, rep, no_input=no_input)
        oo = IT.oracle_opts(case[1])
        if oo is not None and not [v for v in ctx.violations if not v["no_input"]]:
            viols, tstats, n = tool_search(ctx, info, 1, only=[(0, case[0], oo, case[2])])
            for v, cc in viols:
                sig, msg = classify(v, cc)
                ctx.violation(sig, "C04 violated by the tools (%s): %s" % (cc[3], msg), replay_obj_tool(cc, msg))
    elif kind == "imgtarfull":
        o = dict(dict(kt=1, nr=0, root=None, duid=0, dgid=0, dperm=0o755, dmtime=0, nolinks=0, noxs=0, noxt=0, ntp=0, noskip=0, hi=0), **r["opts"])
        case = (base64.b64decode(r["archive_b64"]), o, r.get("source", "replay"))
        itf = imgtarfull_stage(ctx, info, cases=[case])
        ctx.coverage["evaluations"] = 1
        for sig, what, rep, no_input in itf["viols"]:
            ctx.violation(sig, what, rep, no_input=no_input)
    elif kind == "hlimage":
        hv, hstats = HL.stage(ctx, info, cases=[{k: r[k] for k in ("kind", "how", "seed", "order", "nfill", "ngroups")}])
        ctx.coverage["evaluations"] = hstats["images"]
        for sig, what, rep in hv:
            ctx.violation(sig, "C04 violated by the tools: " + what, rep)
    elif kind == "hlfilter":
        fv, fstats = HL.filter_stage(ctx, info, cases=[{k: r[k] for k in ("kind", "seed", "keys", "n", "order")}])
        ctx.coverage["evaluations"] = fstats["cases"]
        for sig, what, rep in fv:
            ctx.violation(sig, "C04, " + what, rep)
    elif kind == "s2topt":
        ov, ostats = SO.stage(ctx, info, replay=r, model=subdir_model())
        ctx.coverage["evaluations"] = ostats["conversions"]
        for sig, what, rep, no_input in ov:
            ctx.violation(sig, ("C04, " if no_input else "C04 violated by the tools: ") + what, rep, no_input=no_input)
    elif kind == "image":
        wd = tempfile.mkdtemp(dir=ctx.scratch)
        d = os.path.join(wd, "img")
        os.makedirs(d)
        open(os.path.join(d, "data.bin"), "wb").write(b"payload\n")
        open(os.path.join(d, "pack.txt"), "w").write(r["pack"])
        img = os.path.join(d, "i.sqfs")
        rc, _, err = O.run([info["tools"]["gensquashfs"], "-q", "-f", "-D", d, "-F", os.path.join(d, "pack.txt"), img])
        rc, out, err = O.run([info["tools"]["sqfs2tar"], img])
        ctx.coverage["evaluations"] = 1
        v = check_image_output(out, r["pack"]) if rc == 0 else ("image-convert-fails", "sqfs2tar fails on the image: " + err[-300:])
        if v:
            ctx.violation(v[0], v[1], dict(kind="image", pack=r["pack"], how="gensquashfs -F pack.txt img (file data: any small file "
                                           "named data.bin in -D dir); sqfs2tar img | tar tvf -"))
    else:
        ctx.violation("replay-unknown", "replay file of unknown kind %r" % kind, dict(kind="replay"), no_input=True)


def setup():
    info = B.build("asan")
    h = B.compile_harness(info, [os.path.join(HERE, "h_tar.c")], "h_tar")
    build_s2t_harness(info)
    build_pt_harness(info)
    HL.build_filter_harness(info)
    regen_constants(h)
    core.build_model_driver("C04", "ExtractC04.v", os.path.join(HERE, "driver.ml"))
    core.build_model_driver("C04imgtar", "ExtractC04ImgTar.v", os.path.join(HERE, "imgtar_driver.ml"))
    full_model()
    subdir_model()
