/* C04 component harness, sqfs2tar level: drives the working tree's
 * write_entry() of bin/sqfs2tar/src/sqfs2tar.c (a static function, reached by
 * #including the file with main renamed) on a fake directory iterator that
 * hands out the link target, the xattr list IN IMAGE ORDER and the file data
 * of one entry, with out_file pointing at a memory stream.
 *
 * One case per line on stdin:
 *   E counter hl mode uid gid size mtime rdev name target data nx (k v)*
 * (same fields as the H case of h_tar.c plus the file data).  write_entry keeps
 * its own static record counter: the generator numbers the E cases 0,1,2,...
 * in the order they are fed to one process.
 * Output: "OK <hex of everything appended>" | "UNSUP <hex>" | "FAIL <n>".
 *
 * bin/sqfs2tar/src/options.c and iterator.c are compiled along (for the
 * globals sqfs2tar.c refers to); nothing of them is called. */
#include "config.h"
#define main sqfs2tar_real_main
#include "bin/sqfs2tar/src/sqfs2tar.c"
#undef main

#include <inttypes.h>

static int hv(int c) { return c <= '9' ? c - '0' : (c >= 'a' ? c - 'a' + 10 : c - 'A' + 10); }

static unsigned char *unhex(const char *s, size_t *len)
{
	size_t n = strlen(s), i;
	unsigned char *b;
	if (!strcmp(s, "-") || !strcmp(s, "~")) { *len = 0; b = calloc(1, 1); return b; }
	b = malloc(n / 2 + 1);
	for (i = 0; i + 1 < n; i += 2)
		b[i / 2] = (unsigned char)(hv(s[i]) * 16 + hv(s[i + 1]));
	b[n / 2] = 0;
	*len = n / 2;
	return b;
}

static void puthex(const unsigned char *p, size_t n)
{
	size_t i;
	if (n == 0) { fputs("-", stdout); return; }
	for (i = 0; i < n; ++i) printf("%02x", p[i]);
}

typedef struct {
	sqfs_ostream_t base;
	unsigned char *buf;
	size_t used, cap;
} mem_out_t;

static int mo_append(sqfs_ostream_t *s, const void *data, size_t size)
{
	mem_out_t *m = (mem_out_t *)s;
	if (m->used + size > m->cap) {
		m->cap = (m->used + size) * 2 + 1024;
		m->buf = realloc(m->buf, m->cap);
	}
	if (data == NULL) memset(m->buf + m->used, 0, size);
	else memcpy(m->buf + m->used, data, size);
	m->used += size;
	return 0;
}
static int mo_flush(sqfs_ostream_t *s) { (void)s; return 0; }
static const char *mo_name(sqfs_ostream_t *s) { (void)s; return "mem"; }
static void mo_destroy(sqfs_object_t *o) { (void)o; }

/* the fake iterator: one entry */
typedef struct {
	sqfs_dir_iterator_t base;
	const char *target;
	const sqfs_xattr_t *xattr;
	const unsigned char *data;
	size_t size;
} fake_it_t;

static int fi_next(sqfs_dir_iterator_t *it, sqfs_dir_entry_t **out) { (void)it; *out = NULL; return 1; }
static int fi_read_link(sqfs_dir_iterator_t *it, char **out)
{
	fake_it_t *f = (fake_it_t *)it;
	*out = NULL;
	if (f->target == NULL) return SQFS_ERROR_NO_ENTRY;
	*out = strdup(f->target);
	return *out == NULL ? SQFS_ERROR_ALLOC : 0;
}
static int fi_open_subdir(sqfs_dir_iterator_t *it, sqfs_dir_iterator_t **out) { (void)it; *out = NULL; return SQFS_ERROR_UNSUPPORTED; }
static void fi_ignore_subdir(sqfs_dir_iterator_t *it) { (void)it; }
static int fi_open_file_ro(sqfs_dir_iterator_t *it, sqfs_istream_t **out)
{
	fake_it_t *f = (fake_it_t *)it;
	*out = istream_memory_create("data", 700, f->data, f->size);
	return *out == NULL ? SQFS_ERROR_ALLOC : 0;
}
static int fi_read_xattr(sqfs_dir_iterator_t *it, sqfs_xattr_t **out)
{
	fake_it_t *f = (fake_it_t *)it;
	*out = NULL;
	if (f->xattr == NULL) return 0;
	*out = sqfs_xattr_list_copy(f->xattr);
	return *out == NULL ? SQFS_ERROR_ALLOC : 0;
}
static void fi_destroy(sqfs_object_t *o) { (void)o; }

static void case_entry(char **t, int n)
{
	/* E counter hl mode uid gid size mtime rdev name target data nx (k v)* */
	size_t nlen, tlen, dlen, i;
	unsigned char *name = unhex(t[9], &nlen);
	unsigned char *target = unhex(t[10], &tlen);
	unsigned char *data = unhex(t[11], &dlen);
	int nx = atoi(t[12]);
	sqfs_dir_entry_t *ent = calloc(1, sizeof(*ent) + nlen + 1);
	sqfs_xattr_t *xs = NULL, **tail = &xs;
	mem_out_t out;
	fake_it_t it;
	int ret;

	memcpy(ent->name, name, nlen);
	ent->flags = atoi(t[2]) ? SQFS_DIR_ENTRY_FLAG_HARD_LINK : 0;
	ent->mode = (sqfs_u16)strtoul(t[3], NULL, 10);
	ent->uid = strtoull(t[4], NULL, 10);
	ent->gid = strtoull(t[5], NULL, 10);
	ent->size = strtoull(t[6], NULL, 10);
	ent->mtime = strtoll(t[7], NULL, 10);
	ent->rdev = strtoull(t[8], NULL, 10);
	for (i = 0; i < (size_t)nx && 13 + 2 * i + 1 < (size_t)n; ++i) {
		size_t kl, vl;
		unsigned char *k = unhex(t[13 + 2 * i], &kl);
		unsigned char *v = unhex(t[14 + 2 * i], &vl);
		*tail = sqfs_xattr_create((const char *)k, v, vl);
		tail = &((*tail)->next);
		free(k); free(v);
	}

	memset(&out, 0, sizeof(out));
	sqfs_object_init(&out, mo_destroy, NULL);
	out.base.append = mo_append;
	out.base.flush = mo_flush;
	out.base.get_filename = mo_name;
	out_file = (sqfs_ostream_t *)&out;

	memset(&it, 0, sizeof(it));
	sqfs_object_init(&it, fi_destroy, NULL);
	it.base.next = fi_next;
	it.base.read_link = fi_read_link;
	it.base.open_subdir = fi_open_subdir;
	it.base.ignore_subdir = fi_ignore_subdir;
	it.base.open_file_ro = fi_open_file_ro;
	it.base.read_xattr = fi_read_xattr;
	it.target = strcmp(t[10], "~") ? (const char *)target : NULL;
	it.xattr = xs;
	it.data = data;
	it.size = dlen;

	ret = write_entry((sqfs_dir_iterator_t *)&it, ent);
	if (ret == 0) { fputs("OK ", stdout); puthex(out.buf, out.used); puts(""); }
	else if (ret == SQFS_ERROR_UNSUPPORTED) { fputs("UNSUP ", stdout); puthex(out.buf, out.used); puts(""); }
	else printf("FAIL %d\n", ret);

	out_file = NULL;
	sqfs_xattr_list_free(xs);
	free(out.buf); free(ent); free(name); free(target); free(data);
}

int main(void)
{
	static char *tok[65536];
	char *line = NULL;
	size_t cap = 0;
	ssize_t len;

	while ((len = getline(&line, &cap, stdin)) > 0) {
		int k = 0;
		char *p;
		while (len > 0 && (line[len - 1] == '\n' || line[len - 1] == '\r')) line[--len] = 0;
		p = strtok(line, " ");
		while (p && k < 65535) { tok[k++] = p; p = strtok(NULL, " "); }
		if (k >= 13 && !strcmp(tok[0], "E")) case_entry(tok, k);
		else puts("BADCASE");
		fflush(stdout);
	}
	free(line);
	return 0;
}
