"""Tool-level search oracle for C04: archives -> tar2sqfs -> sqfs2tar -> independent
reader (Python tarfile, GNU tar) -> compare trees; second round trip byte-identical.

The expected tree is computed from the *input archive as Python's tarfile reads it*
(an implementation that shares nothing with /repo), transformed by the documented
meaning of the options in use."""
import base64
import hashlib
import io
import os
import random
import subprocess
import tarfile
import urllib.parse

import targen as T

XATTR_PREFIXES = ("user.", "trusted.", "security.")
ENV = dict(os.environ, ASAN_OPTIONS="detect_leaks=0:abort_on_error=0", UBSAN_OPTIONS="print_stacktrace=1",
           SOURCE_DATE_EPOCH="0", LC_ALL="C", TZ="UTC")


def run(cmd, inp=None, timeout=120):
    try:
        r = subprocess.run(cmd, input=inp, stdout=subprocess.PIPE, stderr=subprocess.PIPE, env=ENV, timeout=timeout)
        return r.returncode, r.stdout, r.stderr.decode("utf-8", "replace")
    except subprocess.TimeoutExpired:
        return 124, b"", "[timeout]"


# ---------------------------------------------------------------- trees
def canon(name):
    """independent statement of the path rule (see C18): None = refused"""
    comps = [c for c in name.split("/") if c]
    if ".." in comps:
        return None
    return "/".join(c for c in comps if c != ".")


def clamp(t):
    t = int(t // 1)
    return 0 if t < 0 else min(t, 0xFFFFFFFF)


def sname(m):
    return m.name.encode("utf-8", "surrogateescape").decode("latin-1")


def slink(m):
    return m.linkname.encode("utf-8", "surrogateescape").decode("latin-1")


def member_xattrs(m):
    out = {}
    for k, v in m.pax_headers.items():
        kb = k.encode("utf-8", "surrogateescape")
        vb = v.encode("utf-8", "surrogateescape")
        if kb.startswith(b"SCHILY.xattr."):
            out[kb[13:]] = vb
        elif kb.startswith(b"LIBARCHIVE.xattr."):
            key = urllib.parse.unquote_to_bytes(kb[17:])
            try:
                out[key] = base64.b64decode(vb + b"=" * (-len(vb) % 4))
            except Exception:
                pass
    return out


def read_tree(data, what):
    """dict name -> node from an archive, as Python tarfile understands it.
    node: dict(type, mode, uid, gid, mtime, link, dev, data(sha/len), xattr, group)"""
    tf = tarfile.open(fileobj=io.BytesIO(data), mode="r:", errorlevel=0)
    nodes = {}
    order = []
    root = None
    for m in tf:
        name = canon(sname(m))
        if name is None:
            raise ValueError("%s: member name with '..': %r" % (what, m.name))
        typ = {tarfile.REGTYPE: "file", tarfile.AREGTYPE: "file", tarfile.DIRTYPE: "dir", tarfile.SYMTYPE: "slink",
               tarfile.LNKTYPE: "hard", tarfile.CHRTYPE: "chr", tarfile.BLKTYPE: "blk", tarfile.FIFOTYPE: "fifo",
               tarfile.GNUTYPE_SPARSE: "file", tarfile.CONTTYPE: "file"}.get(m.type)
        if typ is None:
            continue
        node = dict(type=typ, mode=m.mode & 0o7777, uid=m.uid, gid=m.gid, mtime=clamp(m.mtime), link=None, dev=None,
                    data=None, xattr=member_xattrs(m), hdr_order=len(order))
        if typ == "file":
            f = tf.extractfile(m)
            content = f.read() if f is not None else b""
            node["data"] = (len(content), hashlib.sha256(content).hexdigest())
        elif typ == "slink":
            node["link"] = slink(m)
            node["mode"] = 0o777
        elif typ == "hard":
            node["link"] = slink(m)
        elif typ in ("chr", "blk"):
            node["dev"] = (m.devmajor, m.devminor)
        if name == "":
            root = node
            continue
        nodes[name] = node
        order.append(name)
    return nodes, order, root


def resolve_hard_links(nodes, link_canon=canon):
    """replace hard link nodes by (a copy of) their target; returns partition of names into link groups"""
    groups = {}
    for name, n in list(nodes.items()):
        if n["type"] == "hard":
            t = link_canon(n["link"])
            seen = set()
            while t in nodes and nodes[t]["type"] == "hard" and t not in seen:
                seen.add(t)
                t = link_canon(nodes[t]["link"])
            if t not in nodes or nodes[t]["type"] == "hard":
                raise ValueError("hard link %r -> %r does not resolve" % (name, n["link"]))
            groups.setdefault(t, {t}).add(name)
    for t, g in groups.items():
        for name in g:
            if name != t:
                c = dict(nodes[t])
                nodes[name] = c
    part = {}
    for t, g in groups.items():
        fs = frozenset(g)
        for name in g:
            part[name] = fs
    return part


def add_implicit_dirs(nodes, mtime=0):
    for name in list(nodes):
        parts = name.split("/")
        for i in range(1, len(parts)):
            p = "/".join(parts[:i])
            if p not in nodes:
                nodes[p] = dict(type="dir", mode=0o755, uid=0, gid=0, mtime=mtime, link=None, dev=None, data=None,
                                xattr={}, implicit=True)


def py_retarget(root, link):
    """documented --root-becomes rule: a link target below the root path is re-rooted"""
    c = canon(link)
    if c is not None and c.startswith(root + "/"):
        return c[len(root):]
    return link


def expected_tree(data, opts):
    """tree the image must hold after tar2sqfs with opts (dict: root, no_retarget, no_xattr, no_time)"""
    nodes, order, root = read_tree(data, "input")
    rb = opts.get("t2s_root")
    if rb:
        new = {}
        for name, n in nodes.items():
            if name == rb:
                root = n
                continue
            if not name.startswith(rb + "/"):
                continue
            n = dict(n)
            if n["type"] == "hard":
                n["link"] = py_retarget(rb, n["link"])
            elif n["type"] == "slink" and not opts.get("no_retarget"):
                n["link"] = py_retarget(rb, n["link"])
            new[name[len(rb) + 1:]] = n
        nodes = new
    part = resolve_hard_links(nodes)
    add_implicit_dirs(nodes)
    for n in nodes.values():
        if opts.get("no_time"):
            n["mtime"] = 0
        n["xattr"] = {} if opts.get("no_xattr") else {k: v for k, v in n["xattr"].items()
                                                       if k.decode("latin-1").startswith(XATTR_PREFIXES)}
    if root is not None:
        root = dict(root)
        if opts.get("no_time"):
            root["mtime"] = 0
        root["xattr"] = {} if opts.get("no_xattr") else {k: v for k, v in root["xattr"].items()
                                                          if k.decode("latin-1").startswith(XATTR_PREFIXES)}
    return nodes, part, root


def apply_s2t_opts(nodes, part, root, opts):
    """what sqfs2tar with opts must emit for an image holding `nodes`"""
    nodes = {k: dict(v) for k, v in nodes.items()}
    subs = opts.get("subdirs") or []
    keep = opts.get("keep_as_dir") or len(subs) > 1
    if subs:
        new = {}
        for name, n in nodes.items():
            for s in subs:
                if name == s or name.startswith(s + "/"):
                    new[name] = n
                elif keep and s.startswith(name + "/"):
                    new[name] = n
        if not keep:
            s = subs[0]
            new = {name[len(s) + 1:]: n for name, n in new.items() if name != s}
        nodes = new
    if opts.get("s2t_no_xattr"):
        for n in nodes.values():
            n["xattr"] = {}
    rb = opts.get("s2t_root")
    if rb:
        r = root or dict(type="dir", mode=0o755, uid=0, gid=0, mtime=0, link=None, dev=None, data=None, xattr={})
        r = dict(r)
        if opts.get("s2t_no_xattr"):
            r["xattr"] = {}
        nodes = {rb + "/" + k: v for k, v in nodes.items()}
        nodes[rb] = r
        add_implicit_dirs(nodes)
    # link groups restricted to what is emitted
    newpart = {}
    if not opts.get("no_hard_links"):
        prefix = (rb + "/") if rb else ""
        for name, g in part.items():
            names = set()
            for x in g:
                y = x
                if subs and not keep:
                    s = subs[0]
                    if not x.startswith(s + "/"):
                        continue
                    y = x[len(s) + 1:]
                y = prefix + y
                if y in nodes:
                    names.add(y)
            for y in names:
                if len(names) > 1:
                    newpart[y] = frozenset(names)
    return nodes, newpart


def observed_tree(data):
    nodes, order, root = read_tree(data, "sqfs2tar output")
    part = resolve_hard_links(nodes)
    return nodes, part, order


FIELDS = ("type", "mode", "uid", "gid", "mtime", "link", "dev", "data", "xattr")


def diff_trees(exp, exp_part, obs, obs_part):
    """first difference as text, or None"""
    en, on = set(exp), set(obs)
    if en != on:
        miss = sorted(en - on)[:3]
        extra = sorted(on - en)[:3]
        return "entry sets differ: missing %r, unexpected %r" % (miss, extra)
    for name in sorted(en):
        a, b = exp[name], obs[name]
        for f in FIELDS:
            if a[f] != b[f]:
                va, vb = a[f], b[f]
                if f == "xattr":
                    va = {k: v[:16] for k, v in va.items()}
                    vb = {k: v[:16] for k, v in vb.items()}
                return "%r: %s expected %r, archive has %r" % (name[:80], f, va, vb)
    if exp_part != obs_part:
        for name in sorted(set(exp_part) | set(obs_part)):
            if exp_part.get(name) != obs_part.get(name):
                return "%r: hard link group expected %r, archive has %r" % (
                    name[:80], sorted(exp_part.get(name, [])), sorted(obs_part.get(name, [])))
    return None


# ---------------------------------------------------------------- conversions
def t2s_args(opts):
    a = ["-q", "-f", "-c", "gzip", "-j", "1"]
    if opts.get("t2s_root"):
        a += ["--root-becomes", opts["t2s_root"]]
    if opts.get("no_retarget"):
        a.append("-S")
    if opts.get("no_xattr"):
        a.append("-x")
    if opts.get("no_time"):
        a.append("-k")
    return a


def s2t_args(opts):
    a = []
    if opts.get("s2t_root"):
        a += ["--root-becomes", opts["s2t_root"]]
    for s in opts.get("subdirs") or []:
        a += ["-d", s]
    if opts.get("keep_as_dir"):
        a.append("-k")
    if opts.get("s2t_no_xattr"):
        a.append("-X")
    if opts.get("no_hard_links"):
        a.append("-L")
    return a


def convert(tools, data, opts, workdir, tag):
    """tar bytes -> (image path, tar bytes out); raises RuntimeError with the tool's message"""
    img = os.path.join(workdir, tag + ".sqfs")
    rc, _, err = run([tools["tar2sqfs"]] + t2s_args(opts) + [img], inp=data)
    if rc != 0:
        raise RuntimeError("tar2sqfs rc=%d: %s" % (rc, err[-600:]))
    rc, out, err = run([tools["sqfs2tar"]] + s2t_args(opts) + [img])
    if rc != 0:
        raise RuntimeError("sqfs2tar rc=%d: %s" % (rc, err[-600:]))
    return img, out, err


def sha(b):
    return hashlib.sha256(b).hexdigest()


def sha_file(p):
    return sha(open(p, "rb").read())


def gnu_tar_names(data):
    rc, out, err = run(["tar", "-tf", "-"], inp=data)
    if rc != 0:
        return None, err
    return [l for l in out.decode("utf-8", "surrogateescape").split("\n") if l], err


FIXPOINT_OK = ("t2s_root", "s2t_root", "no_xattr", "s2t_no_xattr", "no_time", "no_hard_links", "no_retarget")


def check_archive(tools, data, opts, workdir, tag, fixpoint=True):
    """Evaluate C04 on one archive + option set.  Returns (signature, message) of the first
    violation or None; stats dict."""
    stats = {}
    try:
        exp, exp_part, root = expected_tree(data, opts)
    except Exception as e:  # the independent reader refuses the input: not a supported archive
        return None, dict(skipped="independent reader: %r" % (e,))
    stats["entries"] = len(exp)
    try:
        img1, t1, err1 = convert(tools, data, opts, workdir, tag + "-1")
    except RuntimeError as e:
        return ("convert-fails", "conversion of a well-formed archive failed: %s" % e), stats
    if len(t1) % 512:
        return ("archive-not-512", "sqfs2tar output is %d bytes, not a multiple of 512" % len(t1)), stats
    exp2, part2 = apply_s2t_opts(exp, exp_part, root, opts)
    try:
        obs, obs_part, order = observed_tree(t1)
    except Exception as e:
        return ("output-unreadable", "Python tarfile cannot read sqfs2tar output: %r" % (e,)), stats
    d = diff_trees(exp2, part2, obs, obs_part)
    if d:
        return ("tree-differs", "tar -> sqfs -> tar changed the tree: " + d), stats
    names, err = gnu_tar_names(t1)
    if names is None:
        return ("gnu-tar-rejects", "GNU tar cannot list sqfs2tar output: %s" % err[-300:]), stats
    gn = set(canon(n.encode("utf-8", "surrogateescape").decode("latin-1")) for n in names) - {""}
    if gn != set(obs):
        return ("gnu-tar-names", "GNU tar lists other names than Python tarfile: %r" % (sorted(gn ^ set(obs))[:4],)), stats
    stats["roundtrip"] = 1
    if fixpoint and all(k in FIXPOINT_OK for k, v in opts.items() if v) and opts.get("t2s_root") == opts.get("s2t_root"):
        # img1 = tar2sqfs(data), t1 = sqfs2tar(img1); img2 = tar2sqfs(t1), t2 = sqfs2tar(img2); img3, t3 likewise.
        # The property: converting an image to tar and back gives semantically the same image (img2 ~ img1, i.e.
        # t2 ~ t1 member by member), doing it twice reproduces the first result byte for byte (img3 == img2, t3 == t2).
        # t2 == t1 byte for byte is NOT implied: the xattr writer stores the pairs of an inode sorted by the index
        # of the key in the image-wide key table (first appearance while the archive is read), and that table is
        # built in archive order for img1 but in tree order for img2 — entries that share keys may list them in
        # another order in t2 than in t1 (coq: xattr_order_may_settle).  Nothing else may differ.
        try:
            img2, t2, _ = convert(tools, t1, opts, workdir, tag + "-2")
            if t2 != t1:
                d = member_diff(t1, t2)
                if d:
                    return ("fixpoint-tar", "second conversion differs from the first (tar %s vs %s): %s" % (
                        sha(t1)[:12], sha(t2)[:12], d)), stats
                stats["xattr_order_settled"] = 1
            img3, t3, _ = convert(tools, t2, opts, workdir, tag + "-3")
            if t3 != t2:
                only_order = member_diff(t2, t3) is None
                return ("fixpoint-xattr-order" if only_order else "fixpoint-tar",
                        "third conversion differs from the second (tar %s vs %s)%s: %s" % (
                            sha(t2)[:12], sha(t3)[:12],
                            ", only in the order of the SCHILY.xattr records" if only_order else "",
                            first_tar_diff(t2, t3))), stats
            if sha_file(img2) != sha_file(img3):
                return ("fixpoint-image", "image of the third conversion differs from the second"), stats
        except RuntimeError as e:
            return ("reconvert-fails", "sqfs2tar output is refused on the way back: %s" % e), stats
        stats["fixpoint"] = 1
    return None, stats


def members(data):
    """the archive member by member, in order; xattrs as a set"""
    out = []
    with tarfile.open(fileobj=io.BytesIO(data), mode="r:") as tf:
        for m in tf:
            body = None
            if m.isreg() or m.type == tarfile.GNUTYPE_SPARSE:
                f = tf.extractfile(m)
                body = sha(f.read()) if f is not None else None
            out.append((m.name, m.type, m.mode, m.uid, m.gid, m.mtime, m.size, m.linkname, m.devmajor, m.devminor,
                        tuple(sorted((k, v) for k, v in m.pax_headers.items())), body))
    return out


def member_diff(a, b):
    """None if the two archives hold the same members in the same order with the same metadata, contents and
    xattr SETS (so that they can differ in the order of the xattr records only), else a description"""
    if len(a) != len(b):
        return "lengths differ: %d vs %d bytes" % (len(a), len(b))
    try:
        ma, mb = members(a), members(b)
    except Exception as e:
        return "Python tarfile cannot read one of them: %r" % (e,)
    if len(ma) != len(mb):
        return "%d vs %d members" % (len(ma), len(mb))
    for x, y in zip(ma, mb):
        if x != y:
            f = next(i for i in range(len(x)) if x[i] != y[i])
            names = ("name", "type", "mode", "uid", "gid", "mtime", "size", "linkname", "devmajor", "devminor", "pax records", "contents")
            return "member %r: %s %r vs %r" % (x[0][:60], names[f], str(x[f])[:120], str(y[f])[:120])
    return None


def first_tar_diff(a, b):
    try:
        ta, pa, _ = observed_tree(a)
        tb, pb, _ = observed_tree(b)
        d = diff_trees(ta, pa, tb, pb)
        if d:
            return "as trees: " + d
    except Exception:
        pass
    n = min(len(a), len(b))
    i = next((i for i in range(n) if a[i] != b[i]), n)
    blk = i // 512 * 512
    return "first difference at byte %d (record %d): %r vs %r" % (i, i // 512, a[blk:blk + 40], b[blk:blk + 40])


# ---------------------------------------------------------------- archive generators
SAFE = "abcdefghijklmnopqrstuvwxyzABCDEFXYZ0123456789_-+,=@ "


def rcomp(rnd, n):
    s = "".join(rnd.choice(SAFE) for _ in range(n))
    if s[0] in " -":
        s = "x" + s[1:]
    if s[-1] == " ":
        s = s[:-1] + "y"
    return s


def gen_tree(rnd, big=False):
    """abstract tree: list of (name, kind, attrs) with parents before children"""
    ents = []
    dirs = [""]
    names = set()
    files = []
    others = []        # symbolic links, devices, fifos and hard link records: a hard link may name any of them

    def fresh(parent, n=None):
        for _ in range(50):
            c = rcomp(rnd, n or rnd.choice([1, 3, 8, 20, 60, 99, 100, 101, 140]))
            p = (parent + "/" + c) if parent else c
            if p not in names and len(p) < 900:
                names.add(p)
                return p
        return None

    nent = rnd.randint(3, 40 if big else 14)
    for _ in range(nent):
        parent = rnd.choice(dirs)
        k = rnd.random()
        kind = ("dir" if k < 0.2 else "file" if k < 0.55 else "slink" if k < 0.7 else "hard" if k < 0.8
                else "chr" if k < 0.85 else "blk" if k < 0.9 else "fifo" if k < 0.95 else "sparse")
        if kind == "hard" and not files and not others:
            kind = "file"
        name = fresh(parent)
        if name is None:
            continue
        a = dict(mode=rnd.choice([0o644, 0o755, 0o600, 0o4755, 0o1777, 0o7777, 0, rnd.getrandbits(12)]),
                 uid=rnd.choice([0, 1000, 65534, 65535, 65536, 2097151, 2097152, 16777215, 16777216, 2 ** 31, 2 ** 32 - 1]),
                 gid=rnd.choice([0, 1000, 65534, 2097152, 2 ** 32 - 1]),
                 mtime=rnd.choice([0, 1, 1057296600, 2 ** 31 - 1, 2 ** 31, 2 ** 32 - 1, 2 ** 32, 2 ** 33 + 7, 8 ** 11, -1, -1000]),
                 xattr=[])
        if rnd.random() < 0.25 and kind != "hard":
            for _ in range(rnd.choice([1, 2, 2, 3])):
                key = rnd.choice(["user.", "security.", "trusted."]) + rcomp(rnd, rnd.choice([1, 6, 30])).replace("=", "e").replace(" ", "_")
                if key not in [k for k, _ in a["xattr"]]:
                    a["xattr"].append((key, bytes(rnd.randrange(256) for _ in range(rnd.choice([0, 1, 20, 75, 300, 1000])))))
        if kind == "dir":
            dirs.append(name)
        elif kind == "file":
            n = rnd.choice([0, 1, 100, 511, 512, 513, 1024, 4096, 10000, 131071, 131072, 131073, 200000 if big else 3000])
            a["data"] = bytes(rnd.getrandbits(8) for _ in range(min(n, 64))) * (n // 64 + 1)
            a["data"] = a["data"][:n]
            files.append(name)
        elif kind == "sparse":
            real = rnd.choice([0, 1, 4096, 100000, 300000])
            smap = T.rand_map(rnd, real, rnd.choice([1, 2, 3, 6, 30, 45, 90, 200]))   # 45+: a 1.0 map text longer than one 512 byte block
            a["smap"] = smap
            a["real"] = real
            a["data"] = bytes(rnd.getrandbits(8) for _ in range(sum(c for _, c in smap)))
            files.append(name)
        elif kind == "slink":
            a["link"] = rnd.choice([rcomp(rnd, rnd.choice([1, 10, 99, 100, 101, 250])), "../" + rcomp(rnd, 5), "/abs/" + rcomp(rnd, 7),
                                    "./a/../b", "a//b", rnd.choice(sorted(names))])
        elif kind == "hard":
            # the second name of ANY inode that is not a directory: regular file, symbolic link, device, fifo,
            # or (named through) another hard link record
            a["link"] = rnd.choice(others) if others and (not files or rnd.random() < 0.45) else rnd.choice(files)
        elif kind in ("chr", "blk"):
            a["dev"] = rnd.choice([(1, 3), (8, 0), (0, 0), (4095, 255), (259, 1048575), (12, 256), (4095, 1048575)])
        if kind in ("slink", "hard", "chr", "blk", "fifo"):
            others.append(name)
        ents.append((name, kind, a))
    return ents


def build_archive(rnd, ents, dialect, prefix="", root_entry=False):
    """our own writer: dialect in v7 / ustar / gnu / pax / mixed"""
    out = b""
    if root_entry:
        out += T.header(name=(prefix or "./").encode(), mode=rnd.choice([0o755, 0o700, 0o1777]), uid=rnd.choice([0, 1000]),
                        gid=rnd.choice([0, 50]), mtime=rnd.choice([1234567, 2 ** 32 + 5, 2 ** 33 - 1, 2 ** 31]), typeflag=b"5")
    for name, kind, a in ents:
        d = dialect if dialect != "mixed" else rnd.choice(["ustar", "gnu", "pax"])
        full = (prefix + name).encode("latin-1")
        if kind == "dir" and rnd.random() < 0.7:
            full += b"/"
        link = a.get("link") or ""
        if kind == "hard":
            link = prefix + link
        link = link.encode("latin-1")
        tflag = {"dir": b"5", "file": b"0", "sparse": b"0", "slink": b"2", "hard": b"1", "chr": b"3", "blk": b"4", "fifo": b"6"}[kind]
        data = a.get("data", b"") if kind in ("file", "sparse") else b""
        maj, mn = a.get("dev", (0, 0))
        num = T.octal
        kw = dict(mode=a["mode"], uid=a["uid"], gid=a["gid"], mtime=a["mtime"], devmajor=maj, devminor=mn, typeflag=tflag)
        recs = []
        pre = b""
        body = data
        size = len(data)
        if d == "v7" and (len(full) > 99 or len(link) > 99 or a["uid"] >= 8 ** 7 or a["gid"] >= 8 ** 7 or a["mtime"] < 0
                          or a["mtime"] >= 8 ** 11 or kind in ("chr", "blk", "fifo", "sparse") or a["xattr"]):
            d = "gnu"
        if d == "ustar" and (len(link) > 100 or a["uid"] >= 8 ** 7 or a["gid"] >= 8 ** 7 or a["mtime"] < 0
                             or a["mtime"] >= 8 ** 11 or kind == "sparse" or a["xattr"]):
            d = "pax"
        if a["xattr"]:
            d = "pax"
        hname, hprefix = full, b""
        if d == "ustar":
            if len(full) > 100:
                # split at a '/' so that prefix <= 155 and name <= 100
                cut = None
                for i in range(len(full) - 1, 0, -1):
                    if full[i:i + 1] == b"/" and i <= 155 and len(full) - i - 1 <= 100 and len(full) - i - 1 > 0:
                        cut = i
                        break
                if cut is None:
                    d = "pax"
                else:
                    hprefix, hname = full[:cut], full[cut + 1:]
        if d == "gnu":
            if len(link) > 100:
                pre += T.gnu_long(b"K", link, nul=rnd.random() < 0.8)
            if len(full) > 100:
                pre += T.gnu_long(b"L", full, nul=rnd.random() < 0.8)
            if kind == "sparse":
                out += pre + T.old_gnu_sparse(full[:100], a["smap"], a["real"], data, num=T.octal, **{k: v for k, v in kw.items() if k != "typeflag"})
                continue
            out += pre + T.header(name=full[:100], linkname=link[:100], size=size, magic=b"ustar ", version=b" \0", **kw) + T.pad512(body)
            continue
        if d == "pax":
            if len(full) > 100 or rnd.random() < 0.1:
                recs.append((b"path", full))
            if len(link) > 100:
                recs.append((b"linkpath", link))
            if a["uid"] >= 8 ** 7 or rnd.random() < 0.1:
                recs.append((b"uid", b"%d" % a["uid"]))
                kw["uid"] = min(a["uid"], 8 ** 7 - 1)
            if a["gid"] >= 8 ** 7:
                recs.append((b"gid", b"%d" % a["gid"]))
                kw["gid"] = 8 ** 7 - 1
            if a["mtime"] < 0 or a["mtime"] >= 8 ** 11 or rnd.random() < 0.1:
                recs.append((b"mtime", (b"%d" % a["mtime"]) + rnd.choice([b"", b".5", b".000000001"])))
                kw["mtime"] = max(0, min(a["mtime"], 8 ** 11 - 1))
            for k, v in a["xattr"]:
                if rnd.random() < 0.8:
                    recs.append((b"SCHILY.xattr." + k.encode(), v))
                else:
                    recs.append((b"LIBARCHIVE.xattr." + urllib.parse.quote(k, safe=".").encode(), base64.b64encode(v)))
            if kind == "sparse":
                ver = a.get("sparse_ver") or rnd.choice(["0.0", "0.1", "1.0"])
                sm = a["smap"]
                if ver == "0.0":
                    recs += [(b"GNU.sparse.size", b"%d" % a["real"]), (b"GNU.sparse.numblocks", b"%d" % len(sm))]
                    for o, c in sm:
                        recs += [(b"GNU.sparse.offset", b"%d" % o), (b"GNU.sparse.numbytes", b"%d" % c)]
                elif ver == "0.1":
                    recs += [(b"GNU.sparse.size", b"%d" % a["real"]), (b"GNU.sparse.numblocks", b"%d" % len(sm)),
                             (b"GNU.sparse.name", full), (b"GNU.sparse.map", b",".join(b"%d,%d" % p for p in sm))]
                    hname = b"GNUSparseFile.0/" + full[:80]
                else:
                    recs += [(b"GNU.sparse.major", b"1"), (b"GNU.sparse.minor", b"0"), (b"GNU.sparse.name", full),
                             (b"GNU.sparse.realsize", b"%d" % a["real"])]
                    hname = b"GNUSparseFile.0/" + full[:80]
                    body = T.sparse_1_0_prefix(sm) + data
                    size = len(body)
            if recs:
                pre += T.pax_header(recs)
            out += pre + T.header(name=hname[:100], linkname=link[:100], size=size, **kw) + T.pad512(body)
            continue
        if d == "v7":
            out += T.header(name=full, linkname=link, size=size, magic=b"\0" * 6, version=b"\0\0",
                            **{k: v for k, v in kw.items() if k not in ("devmajor", "devminor")}) + T.pad512(body)
            continue
        out += T.header(name=hname, prefix=hprefix, linkname=link, size=size, **kw) + T.pad512(body)
    return out + b"\0" * 1024


def python_tarfile_archive(rnd, ents, fmt, prefix=""):
    bio = io.BytesIO()
    tf = tarfile.open(fileobj=bio, mode="w", format=fmt)
    for name, kind, a in ents:
        if kind == "sparse":
            kind = "file"
            a = dict(a, data=T.expand(a["smap"], a["data"], a["real"]))
        ti = tarfile.TarInfo((prefix + name).encode("latin-1").decode("utf-8", "surrogateescape"))
        ti.mode = a["mode"]
        ti.uid, ti.gid = a["uid"], a["gid"]
        ti.mtime = a["mtime"] if fmt != tarfile.USTAR_FORMAT else max(0, min(a["mtime"], 8 ** 11 - 1))
        if fmt == tarfile.USTAR_FORMAT:
            ti.uid = min(ti.uid, 8 ** 7 - 1)
            ti.gid = min(ti.gid, 8 ** 7 - 1)
        ti.type = {"dir": tarfile.DIRTYPE, "file": tarfile.REGTYPE, "slink": tarfile.SYMTYPE, "hard": tarfile.LNKTYPE,
                   "chr": tarfile.CHRTYPE, "blk": tarfile.BLKTYPE, "fifo": tarfile.FIFOTYPE}[kind]
        if kind in ("slink", "hard"):
            ti.linkname = ((prefix if kind == "hard" else "") + a["link"])
        if kind in ("chr", "blk"):
            ti.devmajor, ti.devminor = a["dev"]
        if fmt == tarfile.PAX_FORMAT and a["xattr"]:
            ti.pax_headers = {"SCHILY.xattr." + k: v.decode("utf-8", "surrogateescape") for k, v in a["xattr"]}
        data = a.get("data", b"") if kind == "file" else b""
        ti.size = len(data)
        try:
            tf.addfile(ti, io.BytesIO(data))
        except ValueError:
            return None          # name / link does not fit this format
    tf.close()
    return bio.getvalue()


def gnu_tar_archive(rnd, ents, workdir, tag, fmt, sparse_ver=None):
    """materialise the tree (as far as an ordinary directory can hold it) and let GNU tar pack it"""
    root = os.path.join(workdir, "gt-" + tag)
    os.makedirs(root)
    packed = []
    for name, kind, a in ents:
        p = os.path.join(root, name)
        if len(os.path.basename(p).encode()) > 250:
            continue
        try:
            if kind == "dir":
                os.mkdir(p)
            elif kind in ("file", "sparse"):
                with open(p, "wb") as f:
                    if kind == "sparse":
                        pos = 0
                        for o, c in a["smap"]:
                            f.seek(o)
                            f.write(a["data"][pos:pos + c])
                            pos += c
                        f.truncate(a["real"])
                    else:
                        f.write(a["data"])
            elif kind == "slink":
                os.symlink(a["link"], p)
            elif kind == "hard":
                os.link(os.path.join(root, a["link"]), p, follow_symlinks=False)
            elif kind == "fifo":
                os.mkfifo(p)
            elif kind in ("chr", "blk"):
                continue
            if kind != "slink":
                os.chmod(p, a["mode"] | (0o700 if kind == "dir" else 0o400))
            os.utime(p, (max(0, min(a["mtime"], 2 ** 32 - 1)),) * 2, follow_symlinks=False)
            packed.append(name)
        except OSError:
            continue
    # directory mtimes last
    for name, kind, a in reversed(ents):
        if kind == "dir" and name in packed:
            try:
                os.utime(os.path.join(root, name), (max(0, min(a["mtime"], 2 ** 32 - 1)),) * 2)
            except OSError:
                pass
    cmd = ["tar", "--format=" + fmt, "--numeric-owner", "-C", root, "-cf", "-"]
    if sparse_ver:
        cmd += ["--sparse", "--sparse-version=" + sparse_ver]
    tops = sorted(set(n.split("/")[0] for n in packed))
    if not tops:
        return None
    rc, out, err = run(cmd + ["--"] + tops)
    if rc != 0:
        return None
    return out


def sparse_zero_cases(rnd):
    """[(archive, opts, description)]: sparse members whose maps contain ZERO-LENGTH entries below the real size, in all four
    sparse dialects (old GNU header + extension blocks, PAX 0.0, 0.1, 1.0).  GNU tar only writes an empty entry at
    offset == size; libarchive / bsdtar write a leading "0,0" for a file that starts with a hole, and nothing in the
    formats forbids an empty entry anywhere.  Expected contents: Python tarfile's reading of the archive, cross-checked
    here against the generator's own expansion of the map (a case on which the two disagree is dropped)."""
    out = []
    attrs = lambda: dict(mode=rnd.choice([0o644, 0o600]), uid=rnd.choice([0, 1000]), gid=0, mtime=rnd.choice([5, 1057296600]), xattr=[])   # noqa: E731

    def shapes(real):
        h = max(1, real // 3)
        c = max(1, real // 5)
        o2 = min(real - 1, h + c + max(1, real // 7)) if real > 2 else real
        c2 = max(0, min(real - o2, c))
        yield "hole-leading 0,0", [(0, 0), (h, c)]
        yield "all hole 0,0", [(0, 0)]
        yield "all hole 0,0 + end marker", [(0, 0), (real, 0)]
        yield "all hole, empty entry in the middle", [(real // 2, 0)]
        yield "empty entry at the end of a region", [(0, h), (h, 0), (o2, c2), (real, 0)]
        yield "empty entry at the start of a region", [(0, 0), (0, h), (o2, 0), (o2, c2)]
        yield "empty entry inside a hole", [(0, h), (h + max(1, (o2 - h) // 2), 0), (o2, c2)]
        yield "adjacent duplicates", [(0, 0), (0, 0), (0, h), (h, 0), (h, 0), (o2, 0), (o2, 0), (o2, c2), (real, 0), (real, 0)]
        yield "empty entries only behind the data", [(0, h), (h, 0), (real - 1, 0), (real, 0)]
        for _ in range(2):
            yield "random map with empty entries", T.rand_map(rnd, real, rnd.choice([1, 2, 3, 6, 30]), zero=True)

    for ver in ("old", "0.0", "0.1", "1.0"):
        for real in (rnd.choice([1, 2, 20]), rnd.choice([4096, 5000, 131072]), rnd.choice([100000, 300000])):
            ents = []
            what = []
            for k, (nm, smap) in enumerate(shapes(real)):
                smap = [(o, c) for o, c in smap if 0 <= o and o + c <= real]
                pos, ok = 0, bool(smap)
                for o, c in smap:
                    ok = ok and o >= pos
                    pos = o + c
                if not ok:
                    continue
                data = bytes((rnd.getrandbits(8) | 1) for _ in range(sum(c for _, c in smap)))      # no zero byte: a hole is recognisable
                ents.append(("s%02d" % k, "sparse", dict(attrs(), smap=smap, real=real, data=data, sparse_ver=None if ver == "old" else ver)))
                ents.append(("p%02d" % k, "file", dict(attrs(), data=b"plain file behind sparse member %d\n" % k)))
                what.append(nm)
            arc = build_archive(rnd, ents, "gnu" if ver == "old" else "pax")
            try:
                tf = tarfile.open(fileobj=io.BytesIO(arc), mode="r:")
                good = all(tf.extractfile(tf.getmember(n)).read() == T.expand(a["smap"], a["data"], a["real"])
                           for n, kind, a in ents if kind == "sparse")
            except Exception:
                good = False
            if good:
                out.append((arc, {}, "own writer, sparse %s, maps with zero-length entries (size %d)" % (ver, real)))
    return out


def gen_case(rnd, workdir, idx, tier):
    """(archive bytes, opts, description) for the search oracle"""
    big = tier == "thorough" and rnd.random() < 0.3
    ents = gen_tree(rnd, big=big)
    if rnd.random() < 0.3:
        # a directory's own header after (some of) its contents: the directory exists implicitly first and takes
        # its attributes (mode, owner, clamped mtime) from its header when that arrives
        for name in [n for n, kind, a in ents if kind == "dir"]:
            if rnd.random() < 0.6:
                i = next(k for k, e in enumerate(ents) if e[0] == name)
                below = [k for k, e in enumerate(ents) if e[0].startswith(name + "/")]
                if below and max(below) > i:
                    e = ents.pop(i)
                    ents.insert(rnd.randint(min(below), max(below)), e)
    if rnd.random() < 0.35:
        # hard link records in front of the entry they name (and so possibly in front of their own directory's entry)
        for name in [n for n, kind, a in ents if kind == "hard"]:
            if rnd.random() < 0.6:
                i = next(k for k, e in enumerate(ents) if e[0] == name)
                j = next((k for k, e in enumerate(ents) if e[0] == ents[i][2]["link"]), None)
                if j is not None and j < i:
                    e = ents.pop(i)
                    ents.insert(rnd.randint(0, j), e)
    opts = {}
    k = rnd.random()
    prefix = ""
    root_entry = False
    if k < 0.45:
        style = rnd.choice(["./", "", "", "/"])
        prefix = style
        root_entry = style == "./" and rnd.random() < 0.5
    elif k < 0.7:           # --root-becomes on both sides
        top = rcomp(rnd, rnd.choice([1, 4, 9])).replace(" ", "_").replace("=", "e")
        prefix = top + "/"
        root_entry = True
        opts["t2s_root"] = top
        if rnd.random() < 0.6:
            opts["s2t_root"] = top
        if rnd.random() < 0.3:
            opts["no_retarget"] = True
        # some link targets below the root path, some not
        for name, kind, a in ents:
            if kind == "slink" and rnd.random() < 0.5:
                a["link"] = rnd.choice([top + "/" + rcomp(rnd, 5), "./" + top + "//" + rcomp(rnd, 3), top + "x/y", "./" + rcomp(rnd, 3) + "/../z",
                                        "/" + top + "/q", "a/./b/../c"])
    elif k < 0.8:
        opts[rnd.choice(["no_xattr", "s2t_no_xattr", "no_time", "no_hard_links"])] = True
    else:                   # --subdir
        ds = [n for n, kind, a in ents if kind == "dir"]
        if ds:
            opts["subdirs"] = [rnd.choice(ds)]
            if rnd.random() < 0.3 and len(ds) > 1:
                d2 = rnd.choice(ds)
                if not any(d2 == x or d2.startswith(x + "/") or x.startswith(d2 + "/") for x in opts["subdirs"]):
                    opts["subdirs"].append(d2)
            if rnd.random() < 0.4:
                opts["keep_as_dir"] = True
    w = rnd.random()
    if prefix and root_entry and opts.get("t2s_root"):
        # the root directory entry is named like the prefix
        rootname = prefix
    data = None
    desc = ""
    if w < 0.55:
        dialect = rnd.choice(["v7", "ustar", "gnu", "pax", "mixed", "mixed"])
        data = build_archive(rnd, ents, dialect, prefix=prefix, root_entry=root_entry)
        desc = "own writer, dialect " + dialect
    elif w < 0.8:
        fmt = rnd.choice([tarfile.USTAR_FORMAT, tarfile.GNU_FORMAT, tarfile.PAX_FORMAT])
        data = python_tarfile_archive(rnd, ents, fmt, prefix=prefix)
        desc = "python tarfile format %d" % fmt
    else:
        fmt = rnd.choice(["gnu", "oldgnu", "posix", "ustar", "v7"])
        sv = rnd.choice([None, "0.0", "0.1", "1.0"]) if fmt == "posix" else (rnd.choice([None, "0.0"]) if fmt in ("gnu", "oldgnu") else None)
        if prefix not in ("", ) and not opts.get("t2s_root"):
            prefix = ""
        if opts.get("t2s_root"):
            ents = [(opts["t2s_root"], "dir", dict(mode=0o755, uid=0, gid=0, mtime=5, xattr=[]))] + \
                   [(opts["t2s_root"] + "/" + n, kind, dict(a, link=(opts["t2s_root"] + "/" + a["link"]) if kind == "hard" else a.get("link")))
                    for n, kind, a in ents]
        data = gnu_tar_archive(rnd, ents, workdir, "%d" % idx, fmt, sv)
        desc = "GNU tar --format=%s sparse=%s" % (fmt, sv)
    if data is None:
        data = build_archive(rnd, ents, "pax", prefix=prefix, root_entry=root_entry)
        desc = "own writer, dialect pax (fallback)"
    return data, opts, desc
