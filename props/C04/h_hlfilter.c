/* C04, hard link filter in isolation: the real sqfs_hard_link_filter_create (lib/sqfs/src/io/dir_hl.c) on top of a fake
 * flat iterator that reports entries with chosen (dev, inode) pairs - inode references as lib/sqfs/src/dir_iterator.c
 * produces them (48 bit), st_ino-like 64 bit numbers, values 2^31 / 2^32 apart.  The filter must flag exactly the second
 * and later names of a non-directory (dev, inode) as hard links to its FIRST name (props/C04/hlimg.py holds the reference).
 *
 * stdin : CASE <id> / E <d|f> <dev> <inode> <name> ... / END
 * stdout: CASE <id> / R <name> <H|-> <link target|-> ... / rc <last return value> / END */
#include "config.h"
#include <stdio.h>
#include <stdlib.h>
#include <string.h>

#include "sqfs/dir_entry.h"
#include "sqfs/inode.h"
#include "sqfs/error.h"
#include "sqfs/io.h"
#include "compat.h"

typedef struct {
	char name[64];
	int is_dir;
	sqfs_u64 dev, inode;
} ent_t;

static ent_t *ents;
static size_t n_ents, cap_ents;

typedef struct {
	sqfs_dir_iterator_t obj;
	size_t idx;
} fake_it_t;

static int fake_read_link(sqfs_dir_iterator_t *it, char **out) { (void)it; *out = NULL; return 0; }
static void fake_ignore_subdir(sqfs_dir_iterator_t *it) { (void)it; }
static int fake_open_file_ro(sqfs_dir_iterator_t *it, sqfs_istream_t **out) { (void)it; *out = NULL; return SQFS_ERROR_UNSUPPORTED; }
static int fake_read_xattr(sqfs_dir_iterator_t *it, sqfs_xattr_t **out) { (void)it; *out = NULL; return 0; }
static int fake_open_subdir(sqfs_dir_iterator_t *it, sqfs_dir_iterator_t **out) { (void)it; *out = NULL; return SQFS_ERROR_UNSUPPORTED; }

static int fake_next(sqfs_dir_iterator_t *base, sqfs_dir_entry_t **out)
{
	fake_it_t *it = (fake_it_t *)base;
	const ent_t *e;

	if (it->idx >= n_ents)
		return 1;
	e = &ents[it->idx++];
	*out = sqfs_dir_entry_create(e->name, e->is_dir ? (SQFS_INODE_MODE_DIR | 0755) : (SQFS_INODE_MODE_REG | 0644), 0);
	if (*out == NULL)
		return SQFS_ERROR_ALLOC;
	(*out)->inode = e->inode;
	(*out)->dev = e->dev;
	return 0;
}

static void fake_destroy(sqfs_object_t *obj) { free(obj); }

static void run_case(void)
{
	sqfs_dir_iterator_t *base, *it = NULL;
	sqfs_dir_entry_t *ent;
	fake_it_t *f = calloc(1, sizeof(*f));
	int ret;

	if (f == NULL) { printf("rc alloc\n"); return; }
	sqfs_object_init(f, fake_destroy, NULL);
	base = (sqfs_dir_iterator_t *)f;
	base->read_link = fake_read_link;
	base->ignore_subdir = fake_ignore_subdir;
	base->open_file_ro = fake_open_file_ro;
	base->read_xattr = fake_read_xattr;
	base->next = fake_next;
	base->open_subdir = fake_open_subdir;

	ret = sqfs_hard_link_filter_create(&it, base);
	sqfs_drop(base);
	if (ret != 0) { printf("rc create %d\n", ret); return; }
	for (;;) {
		char *target = NULL;
		ent = NULL;
		ret = it->next(it, &ent);
		if (ret != 0)
			break;
		if (ent->flags & SQFS_DIR_ENTRY_FLAG_HARD_LINK) {
			if (it->read_link(it, &target) != 0) target = NULL;
			printf("R %s H %s\n", ent->name, target ? target : "?");
			sqfs_free(target);
		} else {
			printf("R %s - -\n", ent->name);
		}
		sqfs_free(ent);
	}
	printf("rc %d\n", ret);
	sqfs_drop(it);
}

int main(void)
{
	static char line[256];
	setvbuf(stdout, NULL, _IOFBF, 1 << 16);
	while (fgets(line, sizeof(line), stdin) != NULL) {
		char t[8], name[64];
		unsigned long long dev, ino;
		if (strncmp(line, "CASE ", 5) == 0) {
			printf("CASE %s", line + 5);
			n_ents = 0;
		} else if (sscanf(line, "E %7s %llu %llu %63s", t, &dev, &ino, name) == 4) {
			if (n_ents == cap_ents) {
				cap_ents = cap_ents ? cap_ents * 2 : 1024;
				ents = realloc(ents, cap_ents * sizeof(*ents));
				if (ents == NULL) return 2;
			}
			strcpy(ents[n_ents].name, name);
			ents[n_ents].is_dir = t[0] == 'd';
			ents[n_ents].dev = dev;
			ents[n_ents].inode = ino;
			++n_ents;
		} else if (strncmp(line, "END", 3) == 0) {
			run_case();
			printf("END\n");
			fflush(stdout);
		}
	}
	free(ents);
	return 0;
}
