"""C04 — sqfs2tar OPTION leg (session 3 strengthening, seed C04-6).

Real `gensquashfs` images whose names are aimed at the case splits of sqfs2tar's --subdir selection (siblings whose names are string
extensions / string prefixes of a selected path at every depth: lib, lib64, lib.conf, lib0, lib-, li, lib/lib ...; the bytes next to
'/' in ASCII: '.', '-', '0'), through the real `sqfs2tar` with option sets over --subdir (one, several, nested, a file, a path that
does not exist, decorated with leading / trailing / doubled slashes and './'), --keep-as-dir, --root-becomes (name, nested name,
'.', './'), --no-skip, --no-xattr, --no-hard-links.

The expected archive is an INDEPENDENT statement of what bin/sqfs2tar/sqfs2tar.1 and --help promise, computed from the generator's own
tree (never from the image, never with a string-prefix test: paths are compared component by component):

  * no --subdir: every entry of the image;
  * one --subdir S without -k: exactly the entries strictly below S, named by their path relative to S ("it becomes the new root");
  * -k, or several --subdir: exactly the entries at or below some selected S, plus the directories on the way from the root to S, under
    their own names ("keep it as prefix for all unpacked files");
  * --root-becomes R: one more entry named R/ (a directory with the attributes and xattrs of the image's root inode) and every name
    prefixed by R/ ('.' gives './name' and an entry '.');
  * sockets are never emitted; with --no-skip sqfs2tar fails if (and only if) it would have had to emit one;
  * --no-xattr: no xattr records; --no-hard-links: no hard link records, otherwise the names of one inode AMONG THE EMITTED entries form
    one group (first one a full entry, the rest records that resolve inside the archive);
  * everything else (type, mode, owner, time stamp, target, device number, contents, xattrs) as in the image.

Readers: Python tarfile (raw member names, no canonicalisation: the './' and R/ prefixes are compared literally) and GNU tar -t."""
import base64
import hashlib
import io
import os
import random
import subprocess
import tarfile
from concurrent.futures import ThreadPoolExecutor

import oracle as O

MTIME = 1234567

# ---------------------------------------------------------------- tree generator
BASES = ["lib", "a", "usr", "b.c", "x", "sub"]
NOSOCK_KINDS = ["dir", "dir", "file", "file", "file", "slink", "fifo", "nod", "hard"]


def family(b, rnd):
    """names that are string extensions / prefixes of b, incl. the bytes around '/' (0x2f): '.', '-' below, '0' above"""
    f = [b + "64", b + ".conf", b + "exec", b + b, b + "-x", b + "0", b + ".", b + "_", b + "~"]
    if len(b) > 1:
        f += [b[:-1], b[:1]]
    return f


def gen_tree(rnd, cap=46):
    """path -> node; node = dict(type, mode, uid, gid, link, dev, data, xattr, ino).  Directory order is irrelevant here."""
    tree = {}
    ino = [0]
    linkable = []

    def add(path, kind, depth):
        if len(tree) >= cap or path in tree:
            return
        n = dict(type=kind, mode=rnd.choice([0o644, 0o755, 0o600, 0o700, 0o4711, 0o1777]), uid=rnd.choice([0, 1, 1000, 65536, 2 ** 31]),
                 gid=rnd.choice([0, 5, 100, 70000]), link=None, dev=None, data=None, xattr={}, ino=None)
        if kind == "hard":
            if not linkable:
                kind = n["type"] = "file"
            else:
                t = rnd.choice(linkable)
                t = tree[t].get("hard_of", t)
                tree[path] = dict(tree[t], hard_of=t)
                return
        ino[0] += 1
        n["ino"] = ino[0]
        if kind == "file":
            k = rnd.choice([0, 1, 1, 3, 40, 600])
            n["data"] = (("data of %s\n" % path) * k).encode()
        elif kind == "slink":
            n["link"] = rnd.choice(["lib/a", "../" + path, "/abs/" + path.replace("/", "_"), path.split("/")[-1] + "64"])
            n["mode"] = 0o777
        elif kind == "nod":
            n["type"] = rnd.choice(["chr", "blk"])
            n["dev"] = rnd.choice([(5, 1), (8, 0), (1, 3), (259, 7)])
        if kind != "sock" and rnd.random() < 0.25:
            for _ in range(rnd.choice([1, 1, 2])):
                n["xattr"]["user." + rnd.choice(["k", "key2", "lib", "x.y"])] = rnd.choice([b"v", b"value two", b"\x00\x01\xff\x80bin", b"lib64"])
        tree[path] = n
        if kind not in ("dir",):
            linkable.append(path)
        if kind == "dir" and depth < 3:
            populate(path, depth + 1)

    def populate(parent, depth):
        last = parent.split("/")[-1] if parent else None
        bases = []
        if last in BASES and rnd.random() < 0.6:
            bases.append(last)                                    # lib/lib
        bases += rnd.sample(BASES, rnd.choice([1, 1, 2] if depth else [2, 2, 3]))
        names = []
        for b in dict.fromkeys(bases):
            if rnd.random() < 0.9:
                names.append((b, "dir" if rnd.random() < 0.75 else rnd.choice(NOSOCK_KINDS + ["sock"])))
            for x in rnd.sample(family(b, rnd), rnd.choice([1, 2, 3, 4] if depth < 2 else [0, 1, 2])):
                names.append((x, rnd.choice(NOSOCK_KINDS + (["sock"] if rnd.random() < 0.4 else []))))
        rnd.shuffle(names)
        for name, kind in names:
            add((parent + "/" + name) if parent else name, kind, depth)

    populate("", 0)
    return tree


def root_node(rnd):
    return dict(type="dir", mode=rnd.choice([0o755, 0o750, 0o1777]), uid=rnd.choice([0, 11, 1000]), gid=rnd.choice([0, 12]),
                link=None, dev=None, data=None, xattr=rnd.choice([{}, {}, {"user.root": b"r"}]), ino=0)


def pack_text(tree):
    """gensquashfs pack file + xattr file + data files for the tree (hard links after everything else)"""
    lines, links, files = [], [], {}
    for p in sorted(tree):
        n = tree[p]
        if "hard_of" in n:
            links.append("link \"/%s\" 0 0 0 \"/%s\"" % (p, n["hard_of"]))
            continue
        head = "\"/%s\" 0%o %d %d" % (p, n["mode"], n["uid"], n["gid"])
        if n["type"] == "dir":
            lines.append("dir " + head)
        elif n["type"] == "file":
            f = "d%d" % len(files)
            files[f] = n["data"]
            lines.append("file %s %s" % (head, f))
        elif n["type"] == "slink":
            lines.append("slink %s \"%s\"" % (head, n["link"]))
        elif n["type"] == "fifo":
            lines.append("pipe " + head)
        elif n["type"] == "sock":
            lines.append("sock " + head)
        else:
            lines.append("nod %s %s %d %d" % (head, "c" if n["type"] == "chr" else "b", n["dev"][0], n["dev"][1]))
    return "\n".join(lines + links) + "\n", files


def xattr_text(tree, root):
    out = []
    for p, n in [("/", root)] + sorted(tree.items()):
        if n["xattr"] and "hard_of" not in n:
            out.append("# file: %s" % p)
            for k, v in n["xattr"].items():
                out.append("%s=0x%s" % (k, v.hex()))
            out.append("")
    return "\n".join(out) + "\n"


# ---------------------------------------------------------------- option sets
def comps(p):
    return [c for c in p.split("/") if c not in ("", ".")]


def is_prefix(a, b):
    """component list a is a proper prefix of component list b"""
    return len(a) < len(b) and b[:len(a)] == a


def decorate(rnd, p):
    k = rnd.random()
    if k < 0.5:
        return p
    if k < 0.65:
        return p + "/"
    if k < 0.75:
        return "/" + p
    if k < 0.85:
        return "./" + p
    if k < 0.95:
        return p.replace("/", "//") + "//"
    return "/./" + p + "/."


def gen_optsets(rnd, tree):
    paths = sorted(tree)
    dirs = [p for p in paths if tree[p]["type"] == "dir"]
    nondirs = [p for p in paths if tree[p]["type"] != "dir"]
    # selections with a sibling (at the selection's own level, or at an ancestor's) whose path string extends / is extended by it
    ext = [p for p in paths if any(q != p and q.startswith(p) and not q.startswith(p + "/") for q in paths)]
    pre = [p for p in paths if any(q != p and p.startswith(q) and not p.startswith(q + "/") for q in paths)]
    ext_d = [p for p in ext if p in dirs] or dirs or paths
    pre_d = [p for p in pre if p in dirs] or dirs or paths
    missing = []
    for p in rnd.sample(paths, min(4, len(paths))):
        for q in (p + "x", p[:-1], p + "/nope", p + "6"):
            if q and q not in tree and not q.endswith("/"):
                missing.append(q)
    nested = [(a, b) for a in dirs for b in dirs if is_prefix(comps(a), comps(b))]

    def flags(o, p_root=0.35):
        if rnd.random() < p_root:
            o["root"] = rnd.choice(["top", "top", ".", "./", "r/s", "lib", "/t//u/"])
        for k, pr in (("no_skip", 0.25), ("no_xattr", 0.25), ("no_links", 0.3)):
            if rnd.random() < pr:
                o[k] = True
        return o

    sets = [flags(dict(subdirs=[]), 0.6)]
    sets.append(flags(dict(subdirs=[decorate(rnd, rnd.choice(ext_d))])))
    sets.append(flags(dict(subdirs=[decorate(rnd, rnd.choice(ext_d))], keep=True)))
    sets.append(flags(dict(subdirs=[decorate(rnd, rnd.choice(pre_d))], keep=rnd.random() < 0.6)))
    sets.append(flags(dict(subdirs=[decorate(rnd, rnd.choice(ext or paths)), decorate(rnd, rnd.choice(paths))])))
    if nested:
        a, b = rnd.choice(nested)
        sets.append(flags(dict(subdirs=[decorate(rnd, x) for x in rnd.sample([a, b], 2)])))
    if nondirs:
        sets.append(flags(dict(subdirs=[decorate(rnd, rnd.choice(nondirs))], keep=rnd.random() < 0.5)))
    if missing:
        sets.append(flags(dict(subdirs=[decorate(rnd, rnd.choice(missing))], keep=rnd.random() < 0.5)))
        sets.append(flags(dict(subdirs=[decorate(rnd, rnd.choice(missing)), decorate(rnd, rnd.choice(dirs or paths))])))
    sets.append(flags(dict(subdirs=[decorate(rnd, rnd.choice(dirs or paths)) for _ in range(rnd.choice([1, 1, 2, 3]))],
                           keep=rnd.random() < 0.4)))
    return sets


def s2t_args(o):
    a = []
    if o.get("root") is not None:
        a += ["--root-becomes", o["root"]]
    for s in o["subdirs"]:
        a += ["--subdir", s]
    if o.get("keep"):
        a.append("--keep-as-dir")
    if o.get("no_skip"):
        a.append("--no-skip")
    if o.get("no_xattr"):
        a.append("--no-xattr")
    if o.get("no_links"):
        a.append("--no-hard-links")
    return a


# ---------------------------------------------------------------- the promise
def expected(tree, root, o):
    """(must: emitted raw name -> node, optional: raw names that may or may not be there, groups: raw name -> frozenset,
    must_fail: bool).  Paths are compared component-wise."""
    subs = [comps(s) for s in o["subdirs"]]
    keep = bool(o.get("keep")) or len(subs) > 1
    sel = {}
    optional = set()
    for p, n in tree.items():
        c = comps(p)
        if not subs:
            sel[p] = n
        elif keep:
            if any(c == s or is_prefix(s, c) for s in subs):
                sel[p] = n
            elif any(is_prefix(c, s) for s in subs):
                # a directory on the way to a selection: needed to hold it.  If none of the selections it leads to exists, the manual
                # says nothing about it.
                if any(is_prefix(c, s) and "/".join(s) in tree for s in subs):
                    sel[p] = n
                else:
                    optional.add(p)
        else:
            if is_prefix(subs[0], c):
                sel["/".join(c[len(subs[0]):])] = n
    must_fail = bool(o.get("no_skip")) and any(n["type"] == "sock" for n in sel.values())
    sel = {p: n for p, n in sel.items() if n["type"] != "sock"}
    rb = o.get("root")
    pre = ""
    if rb is not None:
        r = "." if rb in (".", "./") else "/".join(comps(rb))
        pre = r + "/"
        sel = {pre + p: n for p, n in sel.items()}
        optional = set(pre + p for p in optional)
        sel[r] = root
    out = {}
    for p, n in sel.items():
        n = dict(n)
        if o.get("no_xattr"):
            n["xattr"] = {}
        out[p] = n
    groups = {}
    if not o.get("no_links"):
        by_ino = {}
        for p, n in out.items():
            if n["type"] != "dir":
                by_ino.setdefault(n["ino"], set()).add(p)
        for g in by_ino.values():
            if len(g) > 1:
                for p in g:
                    groups[p] = frozenset(g)
    return out, optional, groups, must_fail


# ---------------------------------------------------------------- reading sqfs2tar's output
TYPES = {tarfile.REGTYPE: "file", tarfile.AREGTYPE: "file", tarfile.DIRTYPE: "dir", tarfile.SYMTYPE: "slink", tarfile.LNKTYPE: "hard",
         tarfile.CHRTYPE: "chr", tarfile.BLKTYPE: "blk", tarfile.FIFOTYPE: "fifo"}


def raw(name):
    """member name as written, without the trailing slashes of a directory entry"""
    return name.rstrip("/") if name.rstrip("/") else name


def read_raw(data):
    """[(raw name, node)] in archive order; node['link'] of a hard link record is the raw target name"""
    out = []
    with tarfile.open(fileobj=io.BytesIO(data), mode="r:", errorlevel=0) as tf:
        for m in tf:
            typ = TYPES.get(m.type, "type-%r" % m.type)
            n = dict(type=typ, mode=m.mode & 0o7777, uid=m.uid, gid=m.gid, mtime=int(m.mtime), link=None, dev=None, data=None,
                     xattr={k.decode("latin-1"): v for k, v in O.member_xattrs(m).items()})
            if typ == "file":
                f = tf.extractfile(m)
                n["data"] = f.read() if f is not None else b""
            elif typ in ("slink", "hard"):
                n["link"] = O.slink(m)
            elif typ in ("chr", "blk"):
                n["dev"] = (m.devmajor, m.devminor)
            out.append((raw(O.sname(m)), n))
    return out


def header_names(data):
    """member names exactly as written (trailing '/' kept), in order; GNU 'L' records honoured, PAX records skipped"""
    out, pos, longname = [], 0, None
    while pos + 512 <= len(data):
        h = data[pos:pos + 512]
        if h == b"\0" * 512:
            break
        size = int(h[124:136].split(b"\0")[0].strip() or b"0", 8) if h[124] < 0x80 else int.from_bytes(h[125:136], "big")
        typ = h[156:157]
        body = data[pos + 512:pos + 512 + size]
        pos += 512 + (size + 511) // 512 * 512
        if typ == b"L":
            longname = body.split(b"\0")[0]
        elif typ in (b"x", b"g", b"K"):
            continue
        else:
            name = h[0:100].split(b"\0")[0]
            prefix = h[345:500].split(b"\0")[0] if h[257:262] == b"ustar" and h[262:263] == b"\0" else b""
            if prefix:
                name = prefix + b"/" + name
            out.append(longname if longname is not None else name)
            longname = None
    return out


def model_line(o, walk):
    """case line for props/C04/subdir_driver.ml: the options as options.c leaves them, the walk of the plain conversion"""
    subs = ["/".join(comps(x)) for x in o["subdirs"]]
    rb = o.get("root")
    r = None if rb is None else ("." if rb in (".", "./") else "/".join(comps(rb)))
    return "S %d %s %s %s" % (1 if o.get("keep") else 0, "~" if r is None else r.encode("latin-1").hex(),
                              ",".join(x.encode("latin-1").hex() for x in subs) or "-",
                              ";".join("%s:%d" % (n.rstrip(b"/").hex(), n.endswith(b"/")) for n in walk) or "-")


def short(x, n=6):
    x = sorted(x)
    return "%r%s" % (x[:n], " ... (%d)" % len(x) if len(x) > n else "")


def check_output(tree, root, o, rc, out, err):
    """(signature, message) or None"""
    exp, optional, groups, must_fail = expected(tree, root, o)
    if must_fail:
        if rc == 0:
            return "s2t-opt:no-skip-ignored", "--no-skip: sqfs2tar exits 0 although a selected socket cannot be stored"
        return None
    # entries on the way to a selection that does not exist are [optional] (the manual says nothing about them: false alarm of the
    # thorough tier, session 3: `--subdir file/nope`, `--subdir socket/nope --no-skip`).  What is unspecified for the entry is
    # unspecified for everything that follows from emitting it: a socket among them may make --no-skip abort, a second name of
    # an emitted inode among them changes the hard link records.
    rb_pre = ""
    if o.get("root") is not None:
        rb_pre = ("." if o["root"] in (".", "./") else "/".join(comps(o["root"]))) + "/"
    opt_nodes = {}
    for q in optional:
        k = q[len(rb_pre):] if rb_pre and q.startswith(rb_pre) else q
        if k in tree:
            opt_nodes[q] = tree[k]
    if rc != 0 and o.get("no_skip") and any(n["type"] == "sock" for n in opt_nodes.values()):
        return None
    if rc != 0:
        return "s2t-opt:convert-fails", "sqfs2tar fails (status %d): %s" % (rc, err.strip()[-300:])
    if len(out) % 512:
        return "s2t-opt:archive-not-512", "sqfs2tar output is %d bytes, not a multiple of 512" % len(out)
    try:
        members = read_raw(out)
    except Exception as e:
        return "s2t-opt:output-unreadable", "Python tarfile cannot read sqfs2tar's output: %r" % (e,)
    names = [p for p, _ in members]
    dup = sorted(set(p for p in names if names.count(p) > 1))
    if dup:
        return "s2t-opt:names-collide", "the archive holds several members under one name: %s" % short(dup)
    got = dict(members)
    extra = set(got) - set(exp) - optional
    missing = set(exp) - set(got)
    if extra or missing:
        return "s2t-opt:selection", "the archive does not hold exactly the selected entries under their promised names: unexpected %s, " \
                                    "missing %s (expected %d members)" % (short(extra), short(missing), len(exp))
    # hard link records: resolve inside the archive
    part = {}
    for p, n in members:
        if n["type"] == "hard":
            t = raw(n["link"])
            hops = 0
            while t in got and got[t]["type"] == "hard" and hops < 50:
                t = raw(got[t]["link"])
                hops += 1
            if t not in got or got[t]["type"] in ("hard", "dir"):
                return "s2t-opt:dangling-link", "hard link record %r -> %r names no member of the archive" % (p, n["link"])
            if names.index(t) > names.index(p):
                return "s2t-opt:dangling-link", "hard link record %r precedes its target %r" % (p, t)
            part.setdefault(t, {t}).add(p)
    obs_groups = {}
    for t, g in part.items():
        for p in g:
            obs_groups[p] = frozenset(g)
    if o.get("no_links") and obs_groups:
        return "s2t-opt:no-hard-links-ignored", "--no-hard-links: the archive holds hard link records: %s" % short(obs_groups)
    exp_groups = {p: g for p, g in groups.items() if p in got}
    emitted_opt_inos = set(n["ino"] for q, n in opt_nodes.items() if q in got and n["type"] != "dir")
    if emitted_opt_inos:
        # an unspecified entry was emitted and shares an inode with selected entries: compare the groups without that inode
        skip = set(p for p in set(obs_groups) | set(exp_groups)
                   if (p in exp and exp[p].get("ino") in emitted_opt_inos) or p in opt_nodes)
        obs_groups = {p: g for p, g in obs_groups.items() if p not in skip}
        exp_groups = {p: g for p, g in exp_groups.items() if p not in skip}
    if obs_groups != exp_groups:
        bad = [p for p in sorted(set(obs_groups) | set(exp_groups)) if obs_groups.get(p) != exp_groups.get(p)]
        return "s2t-opt:link-groups", "names of one inode among the emitted entries: %r expected %s, archive has %s" % (
            bad[0], sorted(exp_groups.get(bad[0], [])), sorted(obs_groups.get(bad[0], [])))
    for p in sorted(got):
        if p not in exp:
            continue
        e, g = exp[p], got[p]
        if g["type"] == "hard":
            t = raw(g["link"])
            while got[t]["type"] == "hard":
                t = raw(got[t]["link"])
            g = got[t]
        for f in ("type", "mode", "uid", "gid", "link", "dev", "data", "xattr"):
            if e[f] != g[f]:
                return "s2t-opt:entry-differs", "%r: %s in the image %r, in the archive %r" % (p, f, _clip(e[f]), _clip(g[f]))
        if g["mtime"] != MTIME:
            return "s2t-opt:entry-differs", "%r: mtime in the image %d, in the archive %d" % (p, MTIME, g["mtime"])
    gn, gerr = O.gnu_tar_names(out)
    if gn is None:
        return "s2t-opt:gnu-tar-rejects", "GNU tar cannot list sqfs2tar's output: %s" % gerr[-300:]
    gl = sorted(raw(x.encode("utf-8", "surrogateescape").decode("latin-1")) for x in gn)
    if gl != sorted(names):
        return "s2t-opt:gnu-tar-names", "GNU tar lists other names than Python tarfile: %s" % short(set(gl) ^ set(names))
    return None


def _clip(v):
    if isinstance(v, (bytes, str)) and len(v) > 40:
        return v[:40]
    return v


# ---------------------------------------------------------------- running
def build_image(tools, d, tree, root):
    os.makedirs(d, exist_ok=True)
    pack, files = pack_text(tree)
    for f, data in files.items():
        open(os.path.join(d, f), "wb").write(data)
    open(os.path.join(d, "pack.txt"), "w").write(pack)
    open(os.path.join(d, "xattr.txt"), "w").write(xattr_text(tree, root))
    img = os.path.join(d, "i.sqfs")
    defaults = "mtime=%d,uid=%d,gid=%d,mode=0%o" % (MTIME, root["uid"], root["gid"], root["mode"])
    rc, _, err = O.run([tools["gensquashfs"], "-q", "-f", "-c", "gzip", "-j", "1", "-d", defaults, "-A", os.path.join(d, "xattr.txt"),
                        "-D", d, "-F", os.path.join(d, "pack.txt"), img])
    return (img if rc == 0 else None), err, defaults


def tree_to_json(tree, root):
    def enc(n):
        n = dict(n)
        n["data"] = None if n["data"] is None else base64.b64encode(n["data"]).decode()
        n["xattr"] = {k: v.hex() for k, v in n["xattr"].items()}
        n["dev"] = list(n["dev"]) if n["dev"] else None
        return n
    return dict(tree={p: enc(n) for p, n in tree.items()}, root=enc(root))


def tree_from_json(j):
    def dec(n):
        n = dict(n)
        n["data"] = None if n["data"] is None else base64.b64decode(n["data"])
        n["xattr"] = {k: bytes.fromhex(v) for k, v in n["xattr"].items()}
        n["dev"] = tuple(n["dev"]) if n["dev"] else None
        return n
    return {p: dec(n) for p, n in j["tree"].items()}, dec(j["root"])


def self_check(tools, img, tree, root):
    """the image is what the generator meant: the plain conversion agrees with the tree (otherwise the case is a generator
    problem, or a violation that the rest of C04 owns and reports itself)"""
    rc, out, err = O.run([tools["sqfs2tar"], "--root-becomes", "R", img])
    walk = None
    if rc == 0:
        hn = header_names(out)
        if hn and hn[0] == b"R/" and all(n.startswith(b"R/") for n in hn):
            walk = [n[2:] for n in hn[1:]]
    return check_output(tree, root, dict(subdirs=[], root="R"), rc, out, err), walk


def one_image(tools, wd, idx, seed, replay=None, model=None):
    """-> dict(viols=[(sig, msg, replay obj)], runs, stats, note)"""
    rnd = random.Random(seed)
    if replay is not None:
        tree, root = tree_from_json(replay["image"])
        optsets = [replay["opts"]]
    else:
        tree = gen_tree(rnd)
        root = root_node(rnd)
        optsets = gen_optsets(rnd, tree)
    d = os.path.join(wd, "s2topt%d" % idx)
    img, err, defaults = build_image(tools, d, tree, root)
    res = dict(viols=[], runs=0, stats={}, note=None, tie=[])
    if img is None:
        res["note"] = "s2topt generator: gensquashfs refuses the pack file: %s" % err[-200:]
        return res
    base, walk = self_check(tools, img, tree, root)
    if base is not None and replay is None:
        # not an option problem: the plain conversion already disagrees with the generator's tree
        res["viols"].append(("s2t-opt:plain:" + base[0].split(":", 1)[1], "sqfs2tar --root-becomes R (no selection): " + base[1],
                             dict(kind="s2topt", image=tree_to_json(tree, root), opts=dict(subdirs=[], root="R"))))
        return res
    st = res["stats"]
    tie_cases = []
    for o in optsets:
        rc, out, err = O.run([tools["sqfs2tar"]] + s2t_args(o) + [img])
        res["runs"] += 1
        if rc == 0 and walk is not None and model is not None:
            tie_cases.append((o, model_line(o, walk), ";".join(n.hex() for n in header_names(out)) or "-"))
        exp, optional, groups, must_fail = expected(tree, root, o)
        st["members_expected"] = st.get("members_expected", 0) + len(exp)
        key = ("sub%d" % min(len(o["subdirs"]), 3)) + ("k" if o.get("keep") else "") + ("r" if o.get("root") is not None else "")
        st[key] = st.get(key, 0) + 1
        if must_fail:
            st["must_fail"] = st.get("must_fail", 0) + 1
        if o["subdirs"] and len(exp) == (1 if o.get("root") is not None else 0):
            st["empty_result"] = st.get("empty_result", 0) + 1
        subs = ["/".join(comps(s)) for s in o["subdirs"]]
        if any(q != s and q.startswith(s) and not q.startswith(s + "/") for s in subs for q in tree):
            st["sibling_extends_selection"] = st.get("sibling_extends_selection", 0) + 1
        if any(q != s and s.startswith(q) and not s.startswith(q + "/") for s in subs for q in tree):
            st["selection_extends_sibling"] = st.get("selection_extends_sibling", 0) + 1
        v = check_output(tree, root, o, rc, out, err)
        if v:
            res["viols"].append((v[0], "sqfs2tar %s: %s" % (" ".join(s2t_args(o)), v[1]),
                                 dict(kind="s2topt", image=tree_to_json(tree, root), opts=o, gensquashfs_defaults=defaults,
                                      pack=pack_text(tree)[0], xattr_file=xattr_text(tree, root),
                                      how="gensquashfs -d <defaults> -A xattr.txt -D . -F pack.txt img (file lines name data files "
                                          "d0..dN, contents in image.tree[path].data, base64); sqfs2tar %s img | tar tvf -" % " ".join(s2t_args(o)))))
    if tie_cases:
        r = subprocess.run([model], input=("\n".join(c[1] for c in tie_cases) + "\n").encode(), stdout=subprocess.PIPE, timeout=120)
        got = r.stdout.decode().split("\n")
        for (o, line, impl), m in zip(tie_cases, got):
            st["tie_cases"] = st.get("tie_cases", 0) + 1
            if m != impl:
                res["tie"].append(dict(kind="s2topt", image=tree_to_json(tree, root), opts=o, case=line[:2000], impl=impl[:2000], model=m[:2000]))
    return res


def stage(ctx, info, replay=None, model=None):
    """-> ([(sig, msg, replay obj, no_input)], stats).  model = the extracted s2t_names driver (props/C04/subdir_driver.ml)"""
    import tempfile
    tools = info["tools"]
    wd = tempfile.mkdtemp(dir=ctx.scratch)
    if replay is not None:
        r = one_image(tools, wd, 0, 0, replay=replay, model=model)
        v = [x + (False,) for x in r["viols"][:1]]
        if not v and r["tie"]:
            t = r["tie"][0]
            v = [("tie-sqfs2tar-subdir", "correspondence still broken: impl=%s model=%s" % (t["impl"][:200], t["model"][:200]), t, True)]
        return v, dict(images=1, conversions=r["runs"])
    n = 40 if ctx.tier == "quick" else 600
    rnd = random.Random(ctx.seed * 7919 + 4046)
    seeds = [rnd.getrandbits(48) for _ in range(n)]
    with ThreadPoolExecutor(12) as ex:
        results = list(ex.map(lambda a: one_image(tools, wd, a[0], a[1], model=model), enumerate(seeds)))
    best, ties = {}, []
    stats = dict(images=0, conversions=0)
    for r in results:
        if r["note"]:
            ctx.notes.append(r["note"])
            continue
        stats["images"] += 1
        stats["conversions"] += r["runs"]
        for k, v in r["stats"].items():
            stats[k] = stats.get(k, 0) + v
        ties += r["tie"]
        for sig, msg, rep in r["viols"]:
            rank = ("['']" in msg, len(rep["image"]["tree"]), len(msg))          # a small, readable witness per signature
            if sig not in best or rank < best[sig][4]:
                best[sig] = (sig, msg, rep, False, rank)
    viols = [b[:4] for b in best.values()]
    stats["tie_differences"] = len(ties)
    if ties and not viols:
        t = ties[0]
        viols.append(("tie-sqfs2tar-subdir",
                      "correspondence model (coq/C04/SubdirModel.v s2t_names) vs bin/sqfs2tar/src/iterator.c broken on %d of %d option sets: "
                      "sqfs2tar %s: impl=%s model=%s; the option oracle found no failing input" % (
                          len(ties), stats.get("tie_cases", 0), " ".join(s2t_args(t["opts"])), t["impl"][:160], t["model"][:160]),
                      dict(t, correspondence="props/C04: s2t_names (model) = member names of the real sqfs2tar under the options, "
                                             "given the walk of the plain conversion"), True))
    elif ties:
        ctx.notes.append("sqfs2tar option tie: %d differences (concrete violations reported)" % len(ties))
    return viols, stats
