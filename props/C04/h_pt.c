/* C04 / ImgTar harness: the working tree's process_tarball() (bin/tar2sqfs/src/process_tarball.c, #included) on the
 * tar iterator over a memory stream, writing into a real sqfs_writer_t (output file = argv[1]).  Every call of
 * fstree_add_generic is recorded (the call is renamed by a macro while the file is included) and passed on to the
 * real function.
 *
 * One case per line on stdin:
 *   P kt nr root duid dgid dperm dmtime <archive hex>
 *     kt = keep_time, nr = no_symlink_retarget, root = --root-becomes (hex, ~ = none), d* = --defaults
 * Output: "A <name hex> <mode> <uid> <gid> <mtime> <rdev> <hard> <extra hex|~>" joined by " | ", then
 *   " # root=<mode>,<uid>,<gid>,<mtime> verdict=ok|fail"
 * bin/tar2sqfs/src/options.c is compiled along for the globals. */
#include "config.h"
#include "bin/tar2sqfs/src/tar2sqfs.h"
#include <inttypes.h>

typedef struct rec { struct rec *next; char *line; } rec_t;
static rec_t *recs, **recs_tail = &recs;

static int hv(int c) { return c <= '9' ? c - '0' : (c >= 'a' ? c - 'a' + 10 : c - 'A' + 10); }
static unsigned char *unhex(const char *s, size_t *len)
{
	size_t n = strlen(s), i;
	unsigned char *b;
	if (!strcmp(s, "-") || !strcmp(s, "~")) { *len = 0; return calloc(1, 1); }
	b = malloc(n / 2 + 1);
	for (i = 0; i + 1 < n; i += 2)
		b[i / 2] = (unsigned char)(hv(s[i]) * 16 + hv(s[i + 1]));
	b[n / 2] = 0;
	*len = n / 2;
	return b;
}
static size_t hexstr(char *dst, const char *s)
{
	size_t n = 0;
	if (s == NULL) { strcpy(dst, "~"); return 1; }
	if (*s == '\0') { strcpy(dst, "-"); return 1; }
	for (; *s; ++s) n += (size_t)sprintf(dst + n, "%02x", (unsigned char)*s);
	return n;
}

static tree_node_t *rec_add(fstree_t *fs, const sqfs_dir_entry_t *ent, const char *extra)
{
	size_t cap = 2 * strlen(ent->name) + (extra ? 2 * strlen(extra) : 0) + 256, n;
	rec_t *r = calloc(1, sizeof(*r));
	r->line = malloc(cap);
	n = (size_t)sprintf(r->line, "A ");
	n += hexstr(r->line + n, ent->name);
	n += (size_t)sprintf(r->line + n, " %u %" PRIu64 " %" PRIu64 " %" PRId64 " %" PRIu64 " %d ",
			     (unsigned)ent->mode, (uint64_t)ent->uid, (uint64_t)ent->gid, (int64_t)ent->mtime,
			     (uint64_t)ent->rdev, (ent->flags & SQFS_DIR_ENTRY_FLAG_HARD_LINK) ? 1 : 0);
	hexstr(r->line + n, extra);
	*recs_tail = r;
	recs_tail = &r->next;
	return fstree_add_generic(fs, ent, extra);
}

#define fstree_add_generic rec_add
#include "bin/tar2sqfs/src/process_tarball.c"
#undef fstree_add_generic

static void one_case(char *line, const char *outfile)
{
	char *t[16], *save = NULL, defaults[256];
	int nt = 0, ret, first = 1;
	size_t len;
	unsigned char *b;
	sqfs_istream_t *in;
	sqfs_dir_iterator_t *it;
	sqfs_writer_t sqfs;

	for (char *p = strtok_r(line, " \n", &save); p && nt < 16; p = strtok_r(NULL, " \n", &save)) t[nt++] = p;
	if (nt != 9 || strcmp(t[0], "P")) { puts("BADCASE"); return; }

	keep_time = t[1][0] == '1';
	no_symlink_retarget = t[2][0] == '1';
	free(root_becomes);
	root_becomes = NULL;
	if (strcmp(t[3], "~")) root_becomes = (char *)unhex(t[3], &len);
	snprintf(defaults, sizeof(defaults), "uid=%s,gid=%s,mode=0%o,mtime=%s", t[4], t[5], (unsigned)strtoul(t[6], NULL, 10), t[7]);

	sqfs_writer_cfg_init(&cfg);
	cfg.filename = outfile;
	cfg.fs_defaults = defaults;
	cfg.outmode = SQFS_FILE_OPEN_OVERWRITE;
	cfg.num_jobs = 1;
	cfg.max_backlog = 4;
	cfg.quiet = true;
	cfg.no_xattr = true;

	b = unhex(t[8], &len);
	in = istream_memory_create("mem", 4096, b, len);
	it = tar_open_stream(in, NULL);
	sqfs_drop(in);

	memset(&sqfs, 0, sizeof(sqfs));
	if (sqfs_writer_init(&sqfs, &cfg)) { puts("INITFAIL"); sqfs_drop(it); free(b); return; }

	recs = NULL; recs_tail = &recs;
	ret = process_tarball(it, &sqfs);

	for (rec_t *r = recs; r != NULL; ) {
		rec_t *nx = r->next;
		printf("%s%s", first ? "" : " | ", r->line);
		first = 0;
		free(r->line); free(r);
		r = nx;
	}
	printf(" # root=%u,%u,%u,%u verdict=%s\n", (unsigned)sqfs.fs.root->mode, (unsigned)sqfs.fs.root->uid,
	       (unsigned)sqfs.fs.root->gid, (unsigned)sqfs.fs.root->mod_time, ret == 0 ? "ok" : "fail");
	sqfs_writer_cleanup(&sqfs, EXIT_FAILURE);
	sqfs_drop(it);
	free(b);
}

int main(int argc, char **argv)
{
	char *line = NULL;
	size_t cap = 0;

	if (argc < 2) { fputs("usage: h_pt <scratch output file>\n", stderr); return 2; }
	while (getline(&line, &cap, stdin) > 0) {
		one_case(line, argv[1]);
		fflush(stdout);
	}
	free(line);
	return 0;
}
