"""C04 / ImgTar leg: the models of process_tarball (archive entries -> fstree_add_generic calls) and of sqfs2tar's
iterator stack (reader view -> entry sequence), composed with coq/C11 (fstree, post_process), against the real code.

Tie A  (exact): props/C04/h_pt.c runs the working tree's process_tarball on the archive with every
       fstree_add_generic call recorded; the extracted model (imgtar_driver.ml, case P) reads the same bytes with the
       extracted tar reader and prints the calls pt_ops / pt_trace predict: name, mode, uid, gid, clamped or defaulted
       mtime, device number, hard link flag, extra string, the root node's attributes afterwards, verdict.
Tie B  (exact, metadata): the real tar2sqfs then the real sqfs2tar; its output is read by the extracted tar reader
       (case V) and compared entry by entry (order, names, modes, ids, mtimes, sizes, device numbers, hard link flag,
       link target) with what tar_roundtrip_entries predicts for the input archive (case Q).
Search: an archive on which tie B breaks goes through the tool-level oracle (oracle.check_archive: expected tree from
       Python tarfile's reading of the input, hard-link groups, three-round fixpoint)."""
import collections
import os
import random
import subprocess

import targen as T
import oracle as O

ASAN_ENV = dict(os.environ, ASAN_OPTIONS="detect_leaks=0")

COMPS = ["a", "a.", "a-", "a0", "ab", "b", "B", "d", "e", "f", "l", "s", "z", "\x80x", "\xff", "a b", "dev", "sub"]
MTIMES = [0, 1, 7, 1600000000, 2 ** 31, 2 ** 32 - 1, 2 ** 32, 2 ** 32 + 5, 2 ** 33 + 7, -1, -1000]
IDS = [0, 0, 1000, 65535, 2 ** 31, 2 ** 32 - 1]
DEF_IDS = [0, 1000, 65535, 2 ** 31 - 1]          # --defaults accepts uid / gid up to INT32_MAX


def hexs(b):
    return b.hex() if b else "-"


def gen_entries(rnd, fail=None):
    """list of dict(name, kind, mode, uid, gid, mtime, link, data, dev) with parents before children, plus the set of
    directories that exist only implicitly"""
    ents = []
    dirs = [""]
    implicit = set()
    names = {}
    links = []               # names a hard link may point to

    def fresh(parent):
        for _ in range(40):
            c = rnd.choice(COMPS)
            p = (parent + "/" + c) if parent else c
            if p not in names and p not in implicit:
                return p
        return None

    n = rnd.randint(2, 12)
    for _ in range(n):
        parent = rnd.choice(dirs)
        if rnd.random() < 0.25:              # below directories nobody lists
            for _ in range(rnd.randint(1, 2)):
                q = fresh(parent)
                if q is None:
                    break
                implicit.add(q)
                dirs.append(q)
                parent = q
        name = fresh(parent)
        if name is None:
            continue
        k = rnd.random()
        kind = ("dir" if k < 0.22 else "file" if k < 0.45 else "slink" if k < 0.6 else "hard" if k < 0.82
                else "chr" if k < 0.87 else "blk" if k < 0.91 else "fifo")
        if kind == "hard" and not links:
            kind = "file"
        e = dict(name=name, kind=kind, mode=rnd.choice([0o644, 0o755, 0o600, 0o4755, 0o1777, 0, 0o7777]),
                 uid=rnd.choice(IDS), gid=rnd.choice(IDS), mtime=rnd.choice(MTIMES), link="", data=b"", dev=(0, 0))
        if kind == "dir":
            dirs.append(name)
        elif kind == "file":
            e["data"] = bytes(rnd.getrandbits(8) for _ in range(rnd.choice([0, 1, 3, 511, 512, 513, 1500])))
        elif kind == "slink":
            e["link"] = rnd.choice(["t", "../x", "/abs/y", "./a/../b", "a//b"] + sorted(names)[:3])
        elif kind == "hard":
            tgt = rnd.choice(links)
            sp = rnd.random()
            e["link"] = tgt if sp < 0.75 else ("./" + tgt if sp < 0.85 else ("/" + tgt if sp < 0.92 else tgt.replace("/", "//", 1)))
        elif kind in ("chr", "blk"):
            e["dev"] = rnd.choice([(1, 3), (8, 0), (0, 0), (4095, 255), (259, 1048575)])
        names[name] = e
        if kind != "dir":
            links.append(name)
        ents.append(e)
    # some of the implicit directories get their own entry after all (possibly after their contents)
    for q in sorted(implicit):
        if rnd.random() < 0.4:
            ents.append(dict(name=q, kind="dir", mode=rnd.choice([0o755, 0o700, 0o1777]), uid=rnd.choice(IDS), gid=rnd.choice(IDS),
                             mtime=rnd.choice(MTIMES), link="", data=b"", dev=(0, 0)))
    if fail == "dup" and ents:
        ents.append(dict(rnd.choice(ents)))
    elif fail == "notdir":
        fs = [e for e in ents if e["kind"] in ("file", "slink", "fifo")]
        if fs:
            ents.append(dict(name=rnd.choice(fs)["name"] + "/x", kind="file", mode=0o644, uid=0, gid=0, mtime=0, link="", data=b"q", dev=(0, 0)))
    elif fail == "linkdir":
        ds = [e for e in ents if e["kind"] == "dir"]
        if ds:
            ents.append(dict(name="hl_to_dir", kind="hard", mode=0o777, uid=0, gid=0, mtime=0, link=rnd.choice(ds)["name"], data=b"", dev=(0, 0)))
    elif fail == "dangling":
        ents.append(dict(name="hl_nowhere", kind="hard", mode=0o777, uid=0, gid=0, mtime=0, link=rnd.choice(["nope", "a/b/c/nope", "../x"]), data=b"", dev=(0, 0)))
    elif fail == "cycle":
        ents.append(dict(name="cyc1", kind="hard", mode=0o777, uid=0, gid=0, mtime=0, link="cyc2", data=b"", dev=(0, 0)))
        ents.append(dict(name="cyc2", kind="hard", mode=0o777, uid=0, gid=0, mtime=0, link="cyc1", data=b"", dev=(0, 0)))
    return ents


TFLAG = {"dir": b"5", "file": b"0", "slink": b"2", "hard": b"1", "chr": b"3", "blk": b"4", "fifo": b"6"}


def build(ents, prefix=""):
    out = b""
    for e in ents:
        name = e["name"] if e.get("raw") else prefix + e["name"]
        full = name.encode("latin-1")
        if e["kind"] == "dir" and e.get("slash", True):
            full += b"/"
        link = e["link"]
        if e["kind"] == "hard" and not e.get("raw"):
            link = prefix + link if not link.startswith(("/", "./")) else link[:link.index("/") + 1] + prefix + link[link.index("/") + 1:]
        out += T.header(name=full, linkname=link.encode("latin-1"), size=len(e["data"]), mode=e["mode"], uid=e["uid"], gid=e["gid"],
                        mtime=e["mtime"], devmajor=e["dev"][0], devminor=e["dev"][1], typeflag=TFLAG[e["kind"]],
                        magic=b"ustar ", version=b" \0") + T.pad512(e["data"])
    return out + b"\0" * 1024


def gen_case(rnd):
    """(archive bytes, opts, description).  opts: kt, nr, root (str or None), duid, dgid, dperm, dmtime, nolinks"""
    fail = rnd.choice([None] * 22 + ["dup", "notdir", "linkdir", "dangling", "cycle"])
    ents = gen_entries(rnd, fail)
    order = rnd.random()
    if order < 0.35:
        rnd.shuffle(ents)
    elif order < 0.5:
        ents.reverse()
    opts = dict(kt=1, nr=0, root=None, duid=0, dgid=0, dperm=0o755, dmtime=0, nolinks=0)
    if rnd.random() < 0.15:
        opts["kt"] = 0
    if rnd.random() < 0.3:
        opts.update(duid=rnd.choice(DEF_IDS), dgid=rnd.choice(DEF_IDS), dperm=rnd.choice([0o755, 0o700, 0o1777, 0o7777, 0]),
                    dmtime=rnd.choice([0, 5, 2 ** 31, 2 ** 32 - 1]))
    if rnd.random() < 0.15:
        opts["nolinks"] = 1
    prefix = ""
    k = rnd.random()
    if k < 0.2:
        top = rnd.choice(["r", "ro.ot", "a"])
        opts["root"] = top
        opts["nr"] = 1 if rnd.random() < 0.3 else 0
        prefix = top + "/"
        for e in ents:
            if e["kind"] == "slink" and rnd.random() < 0.5:
                e["link"] = rnd.choice([top + "/q", "./" + top + "//w", top + "x/y", "/" + top + "/q", "a/./b", top])
        extra = []
        if rnd.random() < 0.7:
            extra.append(dict(name=top, kind="dir", mode=rnd.choice([0o755, 0o700]), uid=rnd.choice(IDS), gid=rnd.choice(IDS),
                              mtime=rnd.choice(MTIMES), link="", data=b"", dev=(0, 0), raw=True, slash=rnd.random() < 0.5))
        if rnd.random() < 0.5:
            extra.append(dict(name=top + "x", kind="file", mode=0o644, uid=0, gid=0, mtime=0, link="", data=b"out", dev=(0, 0), raw=True))
            extra.append(dict(name="other/f", kind="file", mode=0o644, uid=0, gid=0, mtime=0, link="", data=b"", dev=(0, 0), raw=True))
        if rnd.random() < 0.1:
            extra.append(dict(name=top, kind="file", mode=0o644, uid=0, gid=0, mtime=0, link="", data=b"", dev=(0, 0), raw=True))
        for x in extra:
            ents.insert(rnd.randint(0, len(ents)), x)
    elif k < 0.5:
        prefix = rnd.choice(["./", "./", "/", ".//"])
        for _ in range(rnd.choice([1, 1, 1, 2])):
            if rnd.random() < 0.7:
                ents.insert(rnd.randint(0, len(ents)),
                            dict(name=rnd.choice(["./", ".", "/"]), kind="dir" if rnd.random() < 0.93 else "file",
                                 mode=rnd.choice([0o755, 0o700, 0o1777]), uid=rnd.choice(IDS), gid=rnd.choice(IDS),
                                 mtime=rnd.choice(MTIMES), link="", data=b"", dev=(0, 0), raw=True, slash=False))
    opts["hi"] = int(any(ord(ch) >= 128 for e in ents for ch in e["name"]))
    pos = {e["name"]: i for i, e in enumerate(ents)}
    kinds = {e["name"]: e["kind"] for e in ents}
    hards = [e for e in ents if e["kind"] == "hard" and not e.get("raw")]
    tg = lambda e: O.canon(e["link"]) or ""
    opts["gen"] = dict(
        fail=fail or "none", reordered=int(order < 0.5), root_entry=int(any(e.get("raw") and e["name"] in ("./", ".", "/") for e in ents)),
        hard=len(hards), hard_before_target=sum(1 for e in hards if pos.get(tg(e), -1) > pos[e["name"]]),
        hard_to_slink=sum(1 for e in hards if kinds.get(tg(e)) == "slink"), hard_to_hard=sum(1 for e in hards if kinds.get(tg(e)) == "hard"),
        hard_to_dev_fifo=sum(1 for e in hards if kinds.get(tg(e)) in ("chr", "blk", "fifo")),
        implicit_dirs=len(set("/".join(e["name"].split("/")[:k]) for e in ents if not e.get("raw") for k in range(1, e["name"].count("/") + 1))
                          - set(e["name"] for e in ents if e["kind"] == "dir")))
    data = build(ents, prefix)
    desc = "imgtar generator: %d entries, fail=%s, prefix=%r, opts=%r" % (len(ents), fail, prefix, opts)
    return data, opts, desc


def p_line(data, o):
    return "P %d %d %s %d %d %d %d %s" % (o["kt"], o["nr"], hexs(o["root"].encode("latin-1")) if o["root"] else "~",
                                          o["duid"], o["dgid"], o["dperm"], o["dmtime"], hexs(data))


def q_line(data, o):
    return "Q %d %s" % (o["nolinks"], p_line(data, o)[2:])


def run_lines(cmd, lines, env=None, timeout=600):
    r = subprocess.run(cmd, input=("\n".join(lines) + "\n").encode(), stdout=subprocess.PIPE, stderr=subprocess.PIPE, env=env,
                       timeout=timeout)
    return r.returncode, r.stdout.decode("utf-8", "replace").split("\n"), r.stderr.decode("utf-8", "replace")


def t2s_cmd(tools, o, img):
    a = [tools["tar2sqfs"], "-q", "-f", "-c", "gzip", "-j", "1",
         "--defaults", "uid=%d,gid=%d,mode=0%o,mtime=%d" % (o["duid"], o["dgid"], o["dperm"], o["dmtime"])]
    if o["root"]:
        a += ["--root-becomes", o["root"]]
    if o["nr"]:
        a.append("-S")
    if not o["kt"]:
        a.append("-k")
    return a + [img]


def real_roundtrip(tools, data, o, wd, tag):
    """('ok', tar bytes) | ('t2sfail', msg) | ('s2tfail', msg)"""
    img = os.path.join(wd, tag + ".sqfs")
    rc, _, err = O.run(t2s_cmd(tools, o, img), inp=data)
    if rc != 0:
        return "t2sfail", err[-300:]
    rc, out, err = O.run([tools["sqfs2tar"]] + (["-L"] if o["nolinks"] else []) + [img])
    try:
        os.unlink(img)
    except OSError:
        pass
    if rc != 0:
        return "s2tfail", err[-300:]
    return "ok", out


def oracle_opts(o):
    """the same options in oracle.py's vocabulary, or None when its expected tree does not cover them (--defaults)"""
    if (o["duid"], o["dgid"], o["dperm"], o["dmtime"]) != (0, 0, 0o755, 0):
        return None
    if o.get("hi"):
        return None          # GNU tar -t quotes bytes >= 0x80: the oracle's name comparison is for ASCII names
    d = {}
    if o["root"]:
        d["t2s_root"] = o["root"]
    if o["nr"]:
        d["no_retarget"] = True
    if not o["kt"]:
        d["no_time"] = True
    if o["nolinks"]:
        d["no_hard_links"] = True
    return d


def stage(ctx, info, h_pt, drv, wd, ncases, cases=None):
    """returns dict(stats, diffs_a, diffs_b, viols) ; viols = [(sig, msg, replay_obj, no_input)]"""
    rnd = random.Random(ctx.seed * 7919 + 13)
    if cases is None:
        cases = [gen_case(random.Random(rnd.getrandbits(64))) for _ in range(ncases)]
    stats = collections.Counter()
    for _, o, _ in cases:
        g = o.get("gen") or {}
        stats["gen:fail=" + g.get("fail", "?")] += 1
        for k in ("reordered", "root_entry", "hard", "hard_before_target", "hard_to_slink", "hard_to_hard", "hard_to_dev_fifo", "implicit_dirs"):
            stats["gen:" + k] += g.get(k, 0)
        stats["gen:root_becomes"] += 1 if o["root"] else 0
        stats["gen:no_keep_time"] += 0 if o["kt"] else 1
        stats["gen:no_links"] += o["nolinks"]
        stats["gen:custom_defaults"] += 0 if oracle_opts(dict(o, hi=0)) is not None else 1
    plines = [p_line(d, o) for d, o, _ in cases]
    scratch_img = os.path.join(wd, "h_pt.sqfs")
    rc_c, out_c, err_c = run_lines([h_pt, scratch_img], plines, env=ASAN_ENV)
    rc_m, out_m, err_m = run_lines([drv], plines)
    if rc_m != 0:
        raise RuntimeError("imgtar model driver failed: " + err_m[-400:])
    viols = []
    diffs_a = []
    for i, (c, l) in enumerate(zip(cases, plines)):
        a = out_c[i] if i < len(out_c) else ""
        b = out_m[i] if i < len(out_m) else ""
        if not a:
            a = "<harness died rc=%d: %s>" % (rc_c, err_c[-300:].replace("\n", " "))
        stats["A:" + ("ok" if a.endswith("verdict=ok") else "fail" if a.endswith("verdict=fail") else "other")] += 1
        stats["A:adds"] += a.count("A ")
        if a != b:
            diffs_a.append((i, a, b))
    if rc_c != 0 and len([x for x in out_c if x]) < len(plines):
        k = len([x for x in out_c if x])
        viols.append(("harness-crash:P", "process_tarball harness died (rc=%d) on an archive: %s" % (rc_c, err_c[-600:]),
                      replay(cases[k], "harness crash"), False))
    # ---- tie B: the real tools
    tools = info["tools"]
    from concurrent.futures import ThreadPoolExecutor

    def one(ic):
        i, (data, o, desc) = ic
        return real_roundtrip(tools, data, o, wd, "it%d" % i)

    with ThreadPoolExecutor(16) as ex:
        real = list(ex.map(one, enumerate(cases)))
    qlines = [q_line(d, o) for d, o, _ in cases]
    vlines = ["V " + hexs(r[1]) if r[0] == "ok" else "S -" for r in real]
    _, out_q, err_q = run_lines([drv], qlines)
    _, out_v, _ = run_lines([drv], vlines)
    diffs_b = []
    for i, c in enumerate(cases):
        exp = out_q[i] if i < len(out_q) else "<no model output>"
        if real[i][0] == "ok":
            got = out_v[i]
        elif real[i][0] == "t2sfail":
            got = "T2SFAIL"
        else:
            got = "S2TFAIL " + real[i][1]
        stats["B:" + got.split(" ")[0][:8 if not got.endswith("END") else 0] + ("conv" if got.endswith("END") else "")] += 1
        if got.endswith("END"):
            stats["B:entries"] += got.count("|")
            stats["B:hardlinks"] += sum(1 for e in got.split(" | ")[:-1] if e.split(" ")[7] == "1")
        if exp == "READERR" and got == "T2SFAIL":
            continue
        if exp in ("FUEL",):
            continue
        if got != exp:
            diffs_b.append((i, got, exp))
    # ---- tie broke => the property on the implementation, on the archives where it broke
    seen = set()
    for i, got, exp in diffs_b[:40]:
        data, o, desc = cases[i]
        oo = oracle_opts(o)
        v = None
        if oo is not None:
            try:
                v, _ = O.check_archive(tools, data, oo, wd, "itb%d" % i)
            except Exception as e:      # the oracle itself must not turn a tie difference into a crash
                v = None
                ctx.notes.append("imgtar: oracle error %r" % (e,))
        if v and v[0] not in seen:
            seen.add(v[0])
            viols.append(("imgtar:" + v[0], "C04 violated by the tools on an archive where the composed model and the tools disagree "
                          "(%s): %s; sqfs2tar wrote [%s], the model predicts [%s]" % (desc, v[1], first_diff(got, exp)[0], first_diff(got, exp)[1]),
                          replay(cases[i], v[1]), False))
    if (diffs_a or diffs_b) and not [v for v in viols if not v[3]]:
        if diffs_b:
            i, got, exp = diffs_b[0]
            g, e = first_diff(got, exp)
            viols.append(("tie-imgtar-roundtrip", "correspondence broken: entry sequence of the real tar2sqfs | sqfs2tar vs. tar_roundtrip_entries "
                          "(process_tarball + fstree + post_process + walk models) on %d of %d archives; first (%s): tools [%s], model [%s]; "
                          "the tool-level oracle found no property failure on them" % (len(diffs_b), len(cases), cases[i][2], g, e),
                          dict(replay(cases[i], "tie B"), correspondence="ImgTar.tar_roundtrip_entries = sqfs2tar(tar2sqfs(archive))"), True))
        else:
            i, a, b = diffs_a[0]
            g, e = first_diff(a, b, sep=" | ")
            viols.append(("tie-process_tarball", "correspondence broken: fstree_add_generic calls of process_tarball vs. pt_ops on %d of %d "
                          "archives; first (%s): impl [%s], model [%s]" % (len(diffs_a), len(cases), cases[i][2], g, e),
                          dict(replay(cases[i], "tie A"), correspondence="ImgTar.pt_ops / pt_trace = process_tarball"), True))
    return dict(stats=stats, diffs_a=diffs_a, diffs_b=diffs_b, viols=viols, ncases=len(cases),
                samples=[dict(case=cases[k][2][:160], impl=(out_c[k] if k < len(out_c) else "")[:200], model=(out_m[k] if k < len(out_m) else "")[:200])
                         for k in (0, len(cases) // 2)] if cases else [])


def first_diff(a, b, sep=" | "):
    xa, xb = a.split(sep), b.split(sep)
    for x, y in zip(xa, xb):
        if x != y:
            return x[:120], y[:120]
    if len(xa) != len(xb):
        return ("%d entries" % len(xa), "%d entries" % len(xb))
    return a[:120], b[:120]


def replay(case, detail):
    import base64
    data, o, desc = case
    return dict(kind="imgtar", archive_b64=base64.b64encode(data).decode(), opts=o, source=desc, detail=detail,
                how="tar2sqfs %s < archive; sqfs2tar %simg" % (" ".join(t2s_cmd({"tar2sqfs": "tar2sqfs"}, o, "img")[1:]),
                                                              "-L " if o["nolinks"] else ""))
