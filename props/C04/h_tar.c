/* C04 component harness: drives the working tree's lib/tar code on memory
 * streams.  One case per line on stdin, one canonical result line per case on
 * stdout; formats identical to props/C04/driver.ml.
 *
 * write_header.c and iterator.c are #included to reach their static functions
 * (write_number, write_number_signed, the tar_iterator_t layout). */
#include "config.h"
#include "lib/tar/src/write_header.c"
#include "lib/tar/src/iterator.c"
#include "common.h"

#include <stdio.h>
#include <string.h>
#include <stdlib.h>
#include <inttypes.h>
#include <stddef.h>

/* ---------- helpers ---------- */
static int hv(int c) { return c <= '9' ? c - '0' : (c >= 'a' ? c - 'a' + 10 : c - 'A' + 10); }

static unsigned char *unhex(const char *s, size_t *len)
{
	size_t n = strlen(s), i;
	unsigned char *b;
	if (!strcmp(s, "-") || !strcmp(s, "~")) { *len = 0; b = calloc(1, 1); return b; }
	b = malloc(n / 2 + 1);
	for (i = 0; i + 1 < n; i += 2)
		b[i / 2] = (unsigned char)(hv(s[i]) * 16 + hv(s[i + 1]));
	b[n / 2] = 0;
	*len = n / 2;
	return b;
}

static void puthex(const unsigned char *p, size_t n)
{
	size_t i;
	if (n == 0) { fputs("-", stdout); return; }
	for (i = 0; i < n; ++i) printf("%02x", p[i]);
}

/* growing output stream */
typedef struct {
	sqfs_ostream_t base;
	unsigned char *buf;
	size_t used, cap;
} mem_out_t;

static int mo_append(sqfs_ostream_t *s, const void *data, size_t size)
{
	mem_out_t *m = (mem_out_t *)s;
	if (m->used + size > m->cap) {
		m->cap = (m->used + size) * 2 + 1024;
		m->buf = realloc(m->buf, m->cap);
	}
	if (data == NULL) memset(m->buf + m->used, 0, size);
	else memcpy(m->buf + m->used, data, size);
	m->used += size;
	return 0;
}
static int mo_flush(sqfs_ostream_t *s) { (void)s; return 0; }
static const char *mo_name(sqfs_ostream_t *s) { (void)s; return "mem"; }
static void mo_destroy(sqfs_object_t *o) { (void)o; }

static void mo_init(mem_out_t *m)
{
	memset(m, 0, sizeof(*m));
	sqfs_object_init(m, mo_destroy, NULL);
	m->base.append = mo_append;
	m->base.flush = mo_flush;
	m->base.get_filename = mo_name;
}

/* scheduled input stream: every get_buffered_data exposes chunk[i] bytes */
typedef struct {
	sqfs_istream_t base;
	const unsigned char *data;
	size_t size, off;
	const size_t *chunk;
	size_t nchunk, step;
} sch_in_t;

static int si_get(sqfs_istream_t *s, const sqfs_u8 **out, size_t *size, size_t want)
{
	sch_in_t *m = (sch_in_t *)s;
	size_t have = m->size - m->off, c;
	(void)want;
	if (have == 0) { *out = NULL; *size = 0; return 1; }
	c = m->step < m->nchunk ? m->chunk[m->step] : have;
	if (c > have) c = have;
	*out = m->data + m->off;
	*size = c;
	return 0;
}
static void si_adv(sqfs_istream_t *s, size_t count) { ((sch_in_t *)s)->off += count; }
static const char *si_name(sqfs_istream_t *s) { (void)s; return "sched"; }
static void si_destroy(sqfs_object_t *o) { (void)o; }

static char **split(char *line, int *n)
{
	static char *tok[65536];
	int k = 0;
	char *p = strtok(line, " ");
	while (p && k < 65535) { tok[k++] = p; p = strtok(NULL, " "); }
	*n = k;
	return tok;
}

static void print_pairs(const sparse_map_t *m)
{
	if (m == NULL) { fputs("-", stdout); return; }
	for (; m != NULL; m = m->next)
		printf("%" PRIu64 ":%" PRIu64 "%s", (uint64_t)m->offset, (uint64_t)m->count, m->next ? ";" : "");
}

static void print_xattr(const sqfs_xattr_t *x)
{
	if (x == NULL) { fputs("-", stdout); return; }
	for (; x != NULL; x = x->next) {
		puthex((const unsigned char *)x->key, strlen(x->key));
		fputs(":", stdout);
		puthex(x->value, x->value_len);
		if (x->next) fputs(";", stdout);
	}
}

static void print_str(const char *s)
{
	if (s == NULL) fputs("~", stdout);
	else puthex((const unsigned char *)s, strlen(s));
}

/* ---------- cases ---------- */
static void case_read_number(const char *f, int as_mtime)
{
	size_t len;
	unsigned char *b = unhex(f, &len);
	sqfs_u64 v = 0;
	if (read_number((const char *)b, (int)len, &v)) {
		puts("ERR");
	} else if (as_mtime) {
		/* decode_header's reading of the mtime field (two's complement;
		   read_header itself is exercised by the R cases) */
		int64_t t;
		memcpy(&t, &v, sizeof(t));
		printf("OK %" PRId64 "\n", t);
	} else {
		printf("OK %" PRIu64 "\n", (uint64_t)v);
	}
	free(b);
}

static void case_header(char **t, int n)
{
	/* H counter hl mode uid gid size mtime rdev name target nx (k v)* */
	size_t nlen, tlen, i;
	unsigned char *name = unhex(t[9], &nlen);
	unsigned char *target = unhex(t[10], &tlen);
	int nx = atoi(t[11]);
	sqfs_dir_entry_t *ent = calloc(1, sizeof(*ent) + nlen + 1);
	sqfs_xattr_t *xs = NULL, **tail = &xs;
	mem_out_t out;
	int ret;

	memcpy(ent->name, name, nlen);
	ent->flags = atoi(t[2]) ? SQFS_DIR_ENTRY_FLAG_HARD_LINK : 0;
	ent->mode = (sqfs_u16)strtoul(t[3], NULL, 10);
	ent->uid = strtoull(t[4], NULL, 10);
	ent->gid = strtoull(t[5], NULL, 10);
	ent->size = strtoull(t[6], NULL, 10);
	ent->mtime = strtoll(t[7], NULL, 10);
	ent->rdev = strtoull(t[8], NULL, 10);
	for (i = 0; i < (size_t)nx && 12 + 2 * i + 1 < (size_t)n; ++i) {
		size_t kl, vl;
		unsigned char *k = unhex(t[12 + 2 * i], &kl);
		unsigned char *v = unhex(t[13 + 2 * i], &vl);
		*tail = sqfs_xattr_create((const char *)k, v, vl);
		tail = &((*tail)->next);
		free(k); free(v);
	}
	mo_init(&out);
	ret = write_tar_header((sqfs_ostream_t *)&out, ent,
			       strcmp(t[10], "~") ? (const char *)target : NULL,
			       xs, (unsigned int)strtoul(t[1], NULL, 10));
	if (ret == 0) { fputs("OK ", stdout); puthex(out.buf, out.used); puts(""); }
	else if (ret == SQFS_ERROR_UNSUPPORTED) { fputs("UNSUP ", stdout); puthex(out.buf, out.used); puts(""); }
	else printf("FAIL %d\n", ret);
	sqfs_xattr_list_free(xs);
	free(out.buf); free(ent); free(name); free(target);
}

static void case_read_header(const char *hex)
{
	size_t len;
	unsigned char *b = unhex(hex, &len);
	sqfs_istream_t *in = istream_memory_create("mem", 700, b, len);
	tar_header_decoded_t d;
	int ret = read_header(in, &d);

	if (ret > 0) puts("EOF");
	else if (ret < 0) puts("ERR");
	else {
		/* position of the stream = bytes consumed */
		const sqfs_u8 *p; size_t sz, left = 0;
		while (in->get_buffered_data(in, &p, &sz, 700) == 0 && sz > 0) { left += sz; in->advance_buffer(in, sz); }
		printf("OK consumed=%zu name=", len - left);
		print_str(d.name);
		fputs(" link=", stdout);
		print_str(d.link_target);
		printf(" mode=%u uid=%" PRIu64 " gid=%" PRIu64 " dev=%" PRIu64 " mtime=%" PRId64
		       " rsize=%" PRIu64 " asize=%" PRIu64 " unk=%d hl=%d sparse=",
		       (unsigned)d.mode, (uint64_t)d.uid, (uint64_t)d.gid, (uint64_t)d.devno, (int64_t)d.mtime,
		       (uint64_t)d.record_size, (uint64_t)d.actual_size, d.unknown_record ? 1 : 0, d.is_hard_link ? 1 : 0);
		print_pairs(d.sparse);
		fputs(" xattr=", stdout);
		print_xattr(d.xattr);
		puts("");
		clear_header(&d);
	}
	sqfs_drop(in);
	free(b);
}

static void case_archive(const char *bufsz, const char *hex)
{
	size_t len;
	unsigned char *b = unhex(hex, &len);
	sqfs_istream_t *in = istream_memory_create("mem", (size_t)atol(bufsz), b, len);
	sqfs_dir_iterator_t *it = tar_open_stream(in, NULL);
	int first = 1;

	sqfs_drop(in);
	for (;;) {
		sqfs_dir_entry_t *ent = NULL;
		sqfs_xattr_t *xs = NULL;
		char *link = NULL;
		int ret = it->next(it, &ent);

		if (ret > 0) { printf("%sEND\n", first ? "" : " | "); break; }
		if (ret < 0) { printf("%sERR\n", first ? "" : " | "); break; }
		if (!first) fputs(" | ", stdout);
		first = 0;
		fputs("name=", stdout); print_str(ent->name);
		printf(" mode=%u uid=%" PRIu64 " gid=%" PRIu64 " size=%" PRIu64 " mtime=%" PRId64 " rdev=%" PRIu64 " hl=%d link=",
		       (unsigned)ent->mode, (uint64_t)ent->uid, (uint64_t)ent->gid, (uint64_t)ent->size,
		       (int64_t)ent->mtime, (uint64_t)ent->rdev, (ent->flags & SQFS_DIR_ENTRY_FLAG_HARD_LINK) ? 1 : 0);
		ret = it->read_link(it, &link);
		print_str(ret == 0 ? link : NULL);
		free(link);
		fputs(" xattr=", stdout);
		ret = it->read_xattr(it, &xs);
		print_xattr(ret == 0 ? xs : NULL);
		sqfs_xattr_list_free(xs);
		fputs(" data=", stdout);
		if (S_ISREG(ent->mode)) {
			sqfs_istream_t *f = NULL;
			ret = it->open_file_ro(it, &f);
			if (ret == 0) {
				unsigned char chunk[1000];
				size_t total = 0;
				for (;;) {
					sqfs_s32 r = sqfs_istream_read(f, chunk, sizeof(chunk));
					if (r < 0) { fputs("!ERR", stdout); break; }
					if (r == 0) break;
					{ size_t i; for (i = 0; i < (size_t)r; ++i) printf("%02x", chunk[i]); }
					total += (size_t)r;
				}
				if (total == 0) fputs("-", stdout);
				sqfs_drop(f);
			} else {
				fputs("!OPEN", stdout);
			}
		} else {
			fputs("-", stdout);
		}
		free(ent);
	}
	sqfs_drop(it);
	free(b);
}

static void case_stream(char **t)
{
	/* T fsize map data sched(w:c:t;...) */
	sqfs_u64 fsize = strtoull(t[1], NULL, 10);
	size_t dlen, nstep = 0, i;
	unsigned char *data = unhex(t[3], &dlen);
	static size_t want[4096], chunk[4096], take[4096];
	sparse_map_t *map = NULL, **tail = &map;
	tar_iterator_t *tar = calloc(1, sizeof(*tar));
	sch_in_t *src = calloc(1, sizeof(*src));
	sqfs_istream_t *strm = NULL;
	mem_out_t out;
	char *p, *save = NULL;
	const char *verdict = "MORE";
	int ret;

	if (strcmp(t[2], "-")) {
		for (p = strtok_r(t[2], ";", &save); p; p = strtok_r(NULL, ";", &save)) {
			sparse_map_t *e = calloc(1, sizeof(*e));
			char *c = strchr(p, ':');
			e->offset = strtoull(p, NULL, 10);
			e->count = strtoull(c + 1, NULL, 10);
			*tail = e; tail = &e->next;
		}
	}
	if (strcmp(t[4], "-")) {
		for (p = strtok_r(t[4], ";", &save); p && nstep < 4096; p = strtok_r(NULL, ";", &save)) {
			char *c1 = strchr(p, ':'), *c2 = strchr(c1 + 1, ':');
			want[nstep] = strtoull(p, NULL, 10);
			chunk[nstep] = strtoull(c1 + 1, NULL, 10);
			take[nstep] = strtoull(c2 + 1, NULL, 10);
			++nstep;
		}
	}
	sqfs_object_init(src, si_destroy, NULL);
	src->base.get_buffered_data = si_get;
	src->base.advance_buffer = si_adv;
	src->base.get_filename = si_name;
	src->data = data; src->size = dlen; src->chunk = chunk; src->nchunk = nstep;

	sqfs_object_init(tar, it_destroy, NULL);
	tar->stream = (sqfs_istream_t *)src;
	tar->current.sparse = map;
	tar->current.mode = S_IFREG | 0644;
	tar->current.name = strdup("f");
	tar->current.actual_size = fsize;
	tar->current.record_size = dlen;
	tar->record_size = dlen;
	tar->file_size = fsize;
	tar->offset = 0;

	mo_init(&out);
	ret = it_open_file_ro((sqfs_dir_iterator_t *)tar, &strm);
	if (ret != 0) { printf("FAIL open %d\n", ret); goto done; }
	for (i = 0; ; ++i) {
		const sqfs_u8 *ptr; size_t size, n;
		/* end-of-file is reported without consuming a schedule entry */
		src->step = i;
		if (i >= nstep) {
			/* probe: does the stream report EOF now? */
			sqfs_u64 d;
			if (tar->offset >= tar->file_size) verdict = "DONE";
			else { (void)is_sparse_region(tar, &d); if (d == 0) verdict = "DONE"; }
			break;
		}
		ret = strm->get_buffered_data(strm, &ptr, &size, want[i]);
		if (ret > 0) { verdict = "DONE"; break; }
		if (ret < 0) { verdict = "CORRUPT"; break; }
		n = take[i] < size ? take[i] : size;
		mo_append((sqfs_ostream_t *)&out, ptr, n);
		strm->advance_buffer(strm, n);
	}
	printf("%s ", verdict);
	puthex(out.buf, out.used);
	if (strcmp(verdict, "CORRUPT")) printf(" consumed=%zu", src->off);
	puts("");
done:
	if (strm) sqfs_drop(strm);
	/* tar is released through the stream's reference / here */
	free(out.buf);
	free(data);
}

int main(void)
{
	char *line = NULL;
	size_t cap = 0;
	ssize_t n;

	while ((n = getline(&line, &cap, stdin)) > 0) {
		char **t; int k;
		while (n > 0 && (line[n - 1] == '\n' || line[n - 1] == '\r')) line[--n] = 0;
		t = split(line, &k);
		if (k == 0) { puts("BADCASE"); continue; }
		if (!strcmp(t[0], "K")) {
			/* constants of the working tree the model relies on */
			printf("TAR_MAX_SYMLINK_LEN=%d TAR_MAX_PATH_LEN=%d TAR_MAX_PAX_LEN=%d TAR_MAX_SPARSE_ENT=%d "
			       "TAR_RECORD_SIZE=%d STREAM_BUFSZ=%zu S_IFMT=%d S_IFSOCK=%d S_IFLNK=%d S_IFREG=%d S_IFBLK=%d "
			       "S_IFDIR=%d S_IFCHR=%d S_IFIFO=%d T_FILE=%d T_LINK=%d T_SLINK=%d T_CHR=%d T_BLK=%d T_DIR=%d "
			       "T_FIFO=%d T_GNU_SLINK=%d T_GNU_PATH=%d T_GNU_SPARSE=%d T_PAX=%d T_PAX_GLOBAL=%d "
			       "SPARSE_IN_HDR=%zu SPARSE_IN_EXT=%zu OFF_GNU_SPARSE=%zu OFF_GNU_ISEXT=%zu OFF_GNU_REALSIZE=%zu "
			       "OFF_EXT_ISEXT=%zu SIZEOF_PREFIX=%zu\n",
			       TAR_MAX_SYMLINK_LEN, TAR_MAX_PATH_LEN, TAR_MAX_PAX_LEN, TAR_MAX_SPARSE_ENT, TAR_RECORD_SIZE,
			       sizeof(((tar_istream_t *)0)->buffer), S_IFMT, S_IFSOCK, S_IFLNK, S_IFREG, S_IFBLK, S_IFDIR,
			       S_IFCHR, S_IFIFO, TAR_TYPE_FILE, TAR_TYPE_LINK, TAR_TYPE_SLINK, TAR_TYPE_CHARDEV,
			       TAR_TYPE_BLOCKDEV, TAR_TYPE_DIR, TAR_TYPE_FIFO, TAR_TYPE_GNU_SLINK, TAR_TYPE_GNU_PATH,
			       TAR_TYPE_GNU_SPARSE, TAR_TYPE_PAX, TAR_TYPE_PAX_GLOBAL,
			       sizeof(((tar_header_t *)0)->tail.gnu.sparse) / sizeof(gnu_old_sparse_t),
			       sizeof(((gnu_old_sparse_record_t *)0)->sparse) / sizeof(gnu_old_sparse_t),
			       offsetof(tar_header_t, tail.gnu.sparse) - offsetof(tar_header_t, tail),
			       offsetof(tar_header_t, tail.gnu.isextended) - offsetof(tar_header_t, tail),
			       offsetof(tar_header_t, tail.gnu.realsize) - offsetof(tar_header_t, tail),
			       offsetof(gnu_old_sparse_record_t, isextended),
			       sizeof(((tar_header_t *)0)->tail.posix.prefix));
			fflush(stdout);
			continue;
		}
		if (!strcmp(t[0], "N") && k == 2) case_read_number(t[1], 0);
		else if (!strcmp(t[0], "M") && k == 2) case_read_number(t[1], 1);
		else if (!strcmp(t[0], "W") && k == 3) {
			char buf[64]; int d = atoi(t[1]);
			memset(buf, 0, sizeof(buf));
			write_number(buf, strtoull(t[2], NULL, 10), d);
			puthex((unsigned char *)buf, d); puts("");
		} else if (!strcmp(t[0], "S") && k == 3) {
			char buf[64]; int d = atoi(t[1]);
			memset(buf, 0, sizeof(buf));
			write_number_signed(buf, strtoll(t[2], NULL, 10), d);
			puthex((unsigned char *)buf, d); puts("");
		} else if (!strcmp(t[0], "P") && k == 2) {
			mem_out_t out; mo_init(&out);
			padd_file((sqfs_ostream_t *)&out, strtoull(t[1], NULL, 10));
			printf("%zu\n", out.used); free(out.buf);
		} else if (!strcmp(t[0], "C") && k == 2) {
			size_t len; unsigned char *b = unhex(t[1], &len);
			unsigned char h[512]; memset(h, 0, 512); memcpy(h, b, len < 512 ? len : 512);
			printf("%u\n", tar_compute_checksum((const tar_header_t *)h)); free(b);
		} else if (!strcmp(t[0], "H") && k >= 12) case_header(t, k);
		else if (!strcmp(t[0], "R") && k == 2) case_read_header(t[1]);
		else if (!strcmp(t[0], "A") && k == 3) case_archive(t[1], t[2]);
		else if (!strcmp(t[0], "T") && k == 5) case_stream(t);
		else puts("BADCASE");
		fflush(stdout);
	}
	free(line);
	return 0;
}
