"""C04 / ImgTarFull leg: the COMPOSED models of tar2sqfs and sqfs2tar (coq/ImgTarFull: archive entries -> process_tarball
+ copy_xattr + write_file -> fstree -> block processor -> xattr writer / flush -> write_image -> image BYTES -> the reader
models -> walk + hard link filter + xattr lists + contents) against the real tar2sqfs | sqfs2tar, INCLUDING file
contents (sparse files: holes expanded) and xattr lists (order of the records).

Tie C (exact): the real tar2sqfs then the real sqfs2tar; its output, read by the extracted tar reader (case V), must equal
       entry by entry - order, names, modes, ids, mtimes, sizes, device numbers, hard link flag, link target, the xattr
       list IN ORDER, the contents - what the extracted drv_conv predicts for the input archive (case F), pushed through
       write_archive / read_archive; and the archive BYTES sqfs2tar wrote must equal write_archive of the predicted entries
       (the composed conv_round on bytes).
Search: an archive on which the tie breaks goes through the tool-level oracle (oracle.check_archive: tree with contents
       and xattr sets against Python tarfile's reading of the input, three-round fixpoint) when its options are in the
       oracle's vocabulary."""
import collections
import os
import random

import targen as T
import oracle as O
import imgtar as IT

KEYS = [b"user.a", b"user.b", b"user.c", b"user.mime_type", b"trusted.t", b"security.selinux", b"user.a.b", b"user."]
FOREIGN = [b"system.posix_acl_access", b"foo.bar", b"userx", b"us"]


def rand_value(rnd):
    k = rnd.random()
    if k < 0.15:
        return b""
    if k < 0.6:
        return bytes(rnd.choice(b"abc012") for _ in range(rnd.randint(1, 6)))
    if k < 0.9:
        return bytes(rnd.getrandbits(8) for _ in range(rnd.randint(1, 24)))         # binary, NUL, '=', newline
    return bytes(rnd.getrandbits(8) for _ in range(rnd.choice([100, 300])))


def decorate(rnd, ents, flavour):
    """add xattrs / sparse maps to the entries of imgtar.gen_entries.  flavour: 'clean' = every key supported and
    pairwise different per entry, none on hard link records (the domain of conv_roundtrip_full); 'rough' = also
    foreign prefixes, duplicate keys, xattrs on hard link records"""
    shared = [(rnd.choice(KEYS[:5]), rand_value(rnd)) for _ in range(2)]
    for e in ents:
        if e.get("raw") and e["name"] in ("./", ".", "/") and rnd.random() < 0.5:
            continue
        if e["kind"] == "hard" and flavour == "clean":
            continue
        r = rnd.random()
        if r < 0.5:
            xs = []
            for _ in range(rnd.choice([1, 1, 2, 2, 3, 4])):
                xs.append(rnd.choice(shared) if rnd.random() < 0.35 else (rnd.choice(KEYS[:-1]), rand_value(rnd)))
            if flavour == "clean":
                seen, ys = set(), []
                for k, v in xs:
                    if k not in seen:
                        seen.add(k)
                        ys.append((k, v))
                xs = ys
            else:
                if rnd.random() < 0.25:
                    xs.insert(rnd.randint(0, len(xs)), (rnd.choice(FOREIGN), rand_value(rnd)))
                if rnd.random() < 0.25 and xs:
                    xs.append((xs[0][0], rand_value(rnd)))                              # the same key twice
            rnd.shuffle(xs)
            e["xattrs"] = xs
        if e["kind"] == "file" and rnd.random() < 0.12:           # around the block size of the tie (-b 4096): blocks + tail end
            n = rnd.choice([4095, 4096, 4097, 8192, 8193, 12289])
            seedb = bytes(rnd.getrandbits(8) for _ in range(61))
            e["data"] = (seedb * (n // 61 + 1))[:n]
        elif e["kind"] == "file" and rnd.random() < 0.4:
            real = rnd.choice([0, 1, 7, 512, 513, 1200, 4096, 5000, 9000])
            smap = T.rand_map(rnd, real, rnd.randint(1, 5))
            nbytes = sum(c for _, c in smap)
            data = bytes(rnd.getrandbits(8) | 1 for _ in range(nbytes))
            e["sparse"] = (smap, real, data)
            e["data"] = T.expand(smap, data, real)
    return ents


def build(ents, prefix=""):
    """imgtar.build with SCHILY.xattr PAX records in front of an entry and old GNU sparse headers"""
    out = b""
    for e in ents:
        name = e["name"] if e.get("raw") else prefix + e["name"]
        full = name.encode("latin-1")
        if e["kind"] == "dir" and e.get("slash", True):
            full += b"/"
        link = e["link"]
        if e["kind"] == "hard" and not e.get("raw"):
            link = prefix + link if not link.startswith(("/", "./")) else link[:link.index("/") + 1] + prefix + link[link.index("/") + 1:]
        if e.get("xattrs"):
            out += T.pax_header([(b"SCHILY.xattr." + k, v) for k, v in e["xattrs"]])
        kw = dict(mode=e["mode"], uid=e["uid"], gid=e["gid"], mtime=e["mtime"])
        if e.get("sparse"):
            smap, real, data = e["sparse"]
            out += T.old_gnu_sparse(full, smap, real, data, **kw)
        else:
            out += T.header(name=full, linkname=link.encode("latin-1"), size=len(e["data"]), devmajor=e["dev"][0], devminor=e["dev"][1],
                            typeflag=IT.TFLAG[e["kind"]], magic=b"ustar ", version=b" \0", **kw) + T.pad512(e["data"])
    return out + b"\0" * 1024


def gen_case(rnd):
    """(archive, opts, description); opts as imgtar's plus noxs (sqfs2tar -X), noxt (tar2sqfs -x), ntp (-T), noskip (-s)"""
    flavour = "clean" if rnd.random() < 0.6 else "rough"
    shaped = rnd.random() < 0.55          # in sqfs2tar's shape: sorted, every directory listed, links behind their targets
    fail = None if shaped or rnd.random() < 0.9 else rnd.choice(["dup", "notdir", "dangling"])
    ents = IT.gen_entries(rnd, fail)
    opts = dict(kt=1, nr=0, root=None, duid=0, dgid=0, dperm=0o755, dmtime=0, nolinks=0, noxs=0, noxt=0, ntp=0, noskip=0)
    if shaped:
        names = set(e["name"] for e in ents)
        for e in list(ents):
            parts = e["name"].split("/")
            for k in range(1, len(parts)):
                q = "/".join(parts[:k])
                if q not in names:
                    names.add(q)
                    ents.append(dict(name=q, kind="dir", mode=0o755, uid=0, gid=0, mtime=0, link="", data=b"", dev=(0, 0)))
        ents.sort(key=lambda e: [c.encode("latin-1") for c in e["name"].split("/")])
        byname = {e["name"]: e for e in ents}
        pos = {e["name"]: i for i, e in enumerate(ents)}
        for e in ents:
            if e["kind"] == "hard":
                t = byname.get(O.canon(e["link"]) or "")
                if t is None or t["kind"] in ("hard", "dir") or pos[t["name"]] > pos[e["name"]]:
                    e["kind"], e["link"] = "file", ""
                    e["data"] = b"was a link"
                else:
                    e["link"] = t["name"]
                    e.update(uid=t["uid"], gid=t["gid"], mtime=t["mtime"])
            if e["kind"] == "slink":
                e["mode"] = 0o777
        if rnd.random() < 0.3:            # what tar -C dir -c . writes: the root entry "./" in front
            ents.insert(0, dict(name="./", kind="dir", mode=rnd.choice([0o755, 0o700, 0o1777]), uid=rnd.choice(IT.IDS), gid=rnd.choice(IT.IDS),
                                mtime=rnd.choice(IT.MTIMES), link="", data=b"", dev=(0, 0), raw=True, slash=False))
    else:
        order = rnd.random()
        if order < 0.35:
            rnd.shuffle(ents)
        if rnd.random() < 0.2:
            ents.insert(rnd.randint(0, len(ents)), dict(name=rnd.choice(["./", "."]), kind="dir", mode=0o700, uid=rnd.choice(IT.IDS),
                                                        gid=0, mtime=5, link="", data=b"", dev=(0, 0), raw=True, slash=False))
        if rnd.random() < 0.12:
            opts["kt"] = 0
    decorate(rnd, ents, flavour)
    if rnd.random() < 0.1:
        opts["nolinks"] = 1
    if rnd.random() < 0.08:
        opts["noxs"] = 1
    if rnd.random() < 0.08:
        opts["noxt"] = 1
    if rnd.random() < 0.15:
        opts["ntp"] = 1
    if flavour == "rough" and rnd.random() < 0.2:
        opts["noskip"] = 1
    prefix = rnd.choice(["", "", "./"]) if not shaped else ""
    opts["hi"] = int(any(ord(ch) >= 128 for e in ents for ch in e["name"]))
    opts["gen"] = dict(flavour=flavour, shaped=int(shaped), fail=fail or "none",
                       xattr_entries=sum(1 for e in ents if e.get("xattrs")), xattr_pairs=sum(len(e.get("xattrs") or []) for e in ents),
                       sparse_files=sum(1 for e in ents if e.get("sparse")),
                       holes=sum(max(0, len(e["sparse"][0]) - 1) for e in ents if e.get("sparse")),
                       foreign_keys=sum(1 for e in ents for k, _ in (e.get("xattrs") or []) if k in FOREIGN),
                       dup_keys=sum(1 for e in ents if len(set(k for k, _ in (e.get("xattrs") or []))) < len(e.get("xattrs") or [])),
                       xattrs_on_hard_links=sum(1 for e in ents if e["kind"] == "hard" and e.get("xattrs")),
                       root_entry_in_front=int(bool(ents) and bool(ents[0].get("raw"))),
                       hard=sum(1 for e in ents if e["kind"] == "hard"))
    data = build(ents, prefix)
    desc = "imgtarfull generator: %d entries, %s, shaped=%d, fail=%s, prefix=%r, opts=%r" % (
        len(ents), flavour, shaped, fail, prefix, {k: v for k, v in opts.items() if k != "gen"})
    return data, opts, desc


def pax_members(data):
    """[(header name bytes, typeflag, [(xattr key, value) in RECORD order])] of an archive written by build(): a tiny reader
    of its own (ustar / old GNU headers, 'x' records in front of a member)"""
    out, pos, pending = [], 0, []
    while pos + 512 <= len(data):
        h = data[pos:pos + 512]
        if h == b"\0" * 512:
            break
        try:
            size = int(h[124:136].rstrip(b"\0 ") or b"0", 8)
        except ValueError:
            return out
        tf = h[156:157]
        body = data[pos + 512:pos + 512 + size]
        if tf == b"x":
            pending, p = [], 0
            while p < len(body):
                sp = body.index(b" ", p)
                n = int(body[p:sp])
                rec = body[sp + 1:p + n - 1]
                k, _, v = rec.partition(b"=")
                if k.startswith(b"SCHILY.xattr."):
                    pending.append((k[13:], v))
                p += n
        else:
            out.append((h[:100].split(b"\0")[0], tf, pending))
            pending = []
        pos += 512
        if tf == b"S" and h[482]:            # old GNU sparse: extension blocks follow the header (isextended)
            while pos + 512 <= len(data):
                more = data[pos + 504]
                pos += 512
                if not more:
                    break
        pos += (size + 511) // 512 * 512
    return out


def supported_key(k):
    return any(k.startswith(p) and len(k) > len(p) for p in (b"user.", b"trusted.", b"security."))


def dup_key_oracle(data, out_tar):
    """PAX: a later record of an extended header overrides an earlier one with the same keyword.  For every member of the
    input that is not a hard link record: the value the converted archive holds for a (supported) xattr key must be the one
    of the LAST record of that key.  Returns None or (signature, message)."""
    import io
    import tarfile
    try:
        tf = tarfile.open(fileobj=io.BytesIO(out_tar), mode="r:", errorlevel=0)
        got = {O.canon(O.sname(m)): O.member_xattrs(m) for m in tf if not m.islnk()}
    except Exception as e:
        return ("imgtarfull:output-unreadable", "Python tarfile cannot read the archive sqfs2tar wrote: %r" % (e,))
    for name, tfl, recs in pax_members(data):
        if tfl == b"1" or not recs:
            continue
        keys = [k for k, _ in recs]
        if len(set(keys)) == len(keys):
            continue
        cn = O.canon(name.decode("latin-1"))
        if not cn or cn not in got:
            continue
        last, first = {}, {}
        for k, v in recs:
            last[k] = v
            first.setdefault(k, v)
        for k in last:
            if not supported_key(k) or last[k] == first[k]:
                continue
            g = got[cn].get(k)
            if g != last[k]:
                if g == first[k]:
                    return ("F26:dup-xattr-key-first-record-wins",
                            "member %r carries the PAX record SCHILY.xattr.%s %d times; the last record says %r (what GNU tar and Python "
                            "tarfile extract), after tar2sqfs | sqfs2tar the key holds %r = the value of the FIRST record"
                            % (cn, k.decode("latin-1"), keys.count(k), last[k][:40], g[:40]))
                return ("imgtarfull:dup-xattr-key", "member %r, key %r given %d times: expected the value of the last record %r, the converted "
                        "archive has %r" % (cn, k, keys.count(k), last[k][:40], g if g is None else g[:40]))
    return None


def f_line(data, o):
    return "F %d %d %d %d %d %s" % (o["nolinks"], o["noxs"], o["noxt"], o["ntp"], o["noskip"], IT.p_line(data, o)[2:])


def t2s_cmd(tools, o, img):
    a = IT.t2s_cmd(tools, o, img)
    img = a.pop()
    a += ["-b", "4096"]
    if o["noxt"]:
        a.append("-x")
    if o["ntp"]:
        a.append("-T")
    if o["noskip"]:
        a.append("-s")
    return a + [img]


def real_roundtrip(tools, data, o, wd, tag):
    img = os.path.join(wd, tag + ".sqfs")
    rc, _, err = O.run(t2s_cmd(tools, o, img), inp=data)
    if rc != 0:
        return "t2sfail", err[-300:]
    rc, out, err = O.run([tools["sqfs2tar"]] + (["-L"] if o["nolinks"] else []) + (["-X"] if o["noxs"] else []) + [img])
    try:
        os.unlink(img)
    except OSError:
        pass
    if rc != 0:
        return "s2tfail", err[-300:]
    return "ok", out


def check_real(data, oo, real):
    """C04's first sentence on the conversion the tie ran: the tree Python tarfile reads from sqfs2tar's output against the
    tree it reads from the input (oracle.expected_tree: contents with holes expanded, xattr sets, hard link groups)"""
    try:
        exp, exp_part, root = O.expected_tree(data, oo)
    except Exception:
        return None                      # the independent reader refuses the input
    if real[0] == "t2sfail":
        try:
            O.resolve_hard_links(dict(exp))
        except Exception:
            return None
        return ("convert-fails", "tar2sqfs refuses an archive Python tarfile reads as a tree: %s" % real[1][-200:])
    if real[0] != "ok":
        return ("convert-fails", "sqfs2tar fails on the image tar2sqfs wrote: %s" % real[1][-200:])
    exp2, part2 = O.apply_s2t_opts(exp, exp_part, root, oo)
    try:
        obs, obs_part, order = O.observed_tree(real[1])
    except Exception as e:
        return ("output-unreadable", "Python tarfile cannot read sqfs2tar output: %r" % (e,))
    d = O.diff_trees(exp2, part2, obs, obs_part)
    if d:
        return ("tree-differs", "tar -> sqfs -> tar changed the tree: " + d)
    return None


def stage(ctx, info, drv, wd, ncases, cases=None):
    """returns dict(stats, diffs, viols, ncases, samples); viols = [(sig, msg, replay_obj, no_input)]"""
    rnd = random.Random(ctx.seed * 104729 + 71)
    if cases is None:
        cases = [gen_case(random.Random(rnd.getrandbits(64))) for _ in range(ncases)]
    stats = collections.Counter()
    for _, o, _ in cases:
        g = o.get("gen") or {}
        stats["gen:" + g.get("flavour", "?")] += 1
        for k in ("shaped", "xattr_entries", "xattr_pairs", "sparse_files", "holes", "foreign_keys", "dup_keys", "xattrs_on_hard_links", "hard",
                  "root_entry_in_front"):
            stats["gen:" + k] += g.get(k, 0)
        for k in ("nolinks", "noxs", "noxt", "ntp", "noskip"):
            stats["gen:" + k] += o[k]
    tools = info["tools"]
    from concurrent.futures import ThreadPoolExecutor

    def one(ic):
        i, (data, o, desc) = ic
        return real_roundtrip(tools, data, o, wd, "itf%d" % i)

    with ThreadPoolExecutor(16) as ex:
        real = list(ex.map(one, enumerate(cases)))
    flines = [f_line(d, o) for d, o, _ in cases]
    vlines = ["V " + IT.hexs(r[1]) if r[0] == "ok" else "V -" for r in real]
    rc, out_f, err_f = IT.run_lines([drv], flines)
    if rc != 0:
        raise RuntimeError("imgtarfull model driver failed: " + err_f[-400:])
    _, out_v, _ = IT.run_lines([drv], vlines)
    diffs, viols = [], []
    for i, c in enumerate(cases):
        m = out_f[i] if i < len(out_f) else "<no model output>"
        exp, _, rest = m.partition(" # ")
        hyps = "hyps=1" in rest
        mtar = rest.partition("tar=")[2]
        if real[i][0] == "ok":
            got = out_v[i]
        elif real[i][0] == "t2sfail":
            got = "T2SFAIL"
        else:
            got = "S2TFAIL"
        stats["C:" + ("conv" if got.endswith("END") else got.split(" ")[0][:8])] += 1
        if exp in ("READERR", "FUEL", "CRASH") and got == "T2SFAIL":
            continue
        if exp == "FUEL":
            continue
        if got.endswith("END"):
            es = got.split(" | ")[:-1]
            stats["C:entries"] += len(es)
            stats["C:entries_with_xattrs"] += sum(1 for e in es if " X=-" not in e)
            stats["C:entries_with_contents"] += sum(1 for e in es if not e.endswith(" D=-"))
            stats["C:theorem_instances"] += int(hyps)
        if got != exp:
            diffs.append((i, got, exp, "entries"))
        elif real[i][0] == "ok" and IT.hexs(real[i][1]) != mtar:
            diffs.append((i, "tar bytes " + O.sha(real[i][1])[:12], "tar bytes of write_archive differ", "bytes"))
        elif real[i][0] == "ok":
            stats["C:bytes_equal"] += 1
    seen = set()
    # ---- PAX rule "the last record of a keyword wins" on the implementation, for every converted archive that repeats a key
    for i, c in enumerate(cases):
        data, o, desc = c
        if real[i][0] != "ok" or o["noxs"] or o["noxt"] or not (o.get("gen") or {}).get("dup_keys", 1):
            continue
        v = dup_key_oracle(data, real[i][1])
        stats["dup_key_oracle"] += 1
        if v and v[0] not in seen:
            seen.add(v[0])
            viols.append((v[0], "C04 violated by the tools (%s): %s" % (desc, v[1]), replay(c, v[1]), False))
    for i, got, exp, what in diffs[:30]:
        data, o, desc = cases[i]
        if real[i][0] == "ok" and not (o["noxs"] or o["noxt"]):
            dv = dup_key_oracle(data, real[i][1])
            if dv is not None:            # the difference is the duplicate keyword rule: reported above under its own signature
                if dv[0] not in seen:
                    seen.add(dv[0])
                    viols.append((dv[0], "C04 violated by the tools (%s): %s" % (desc, dv[1]), replay(cases[i], dv[1]), False))
                continue
        oo = IT.oracle_opts(o)
        if oo is not None and (o["noxs"] or o["noxt"]):
            oo = dict(oo, no_xattr=True)
        v = None
        if oo is not None and not o["noskip"]:
            try:
                v = check_real(data, oo, real[i])          # the conversion the tie ran (-b 4096, -T, ...)
                if v is None and not o["ntp"]:
                    v, _ = O.check_archive(tools, data, oo, wd, "itfb%d" % i)
            except Exception as e:
                ctx.notes.append("imgtarfull: oracle error %r" % (e,))
        if v and v[0] not in seen:
            seen.add(v[0])
            g, e = IT.first_diff(got, exp)
            viols.append(("imgtarfull:" + v[0], "C04 violated by the tools on an archive where the composed full model and the tools disagree "
                          "(%s): %s; sqfs2tar wrote [%s], the model predicts [%s]" % (desc, v[1], g, e), replay(cases[i], v[1]), False))
    if diffs and not [v for v in viols if not v[3]]:
        i, got, exp, what = diffs[0]
        g, e = IT.first_diff(got, exp)
        viols.append(("tie-imgtarfull-roundtrip", "correspondence broken (%s): entries incl. contents and xattr lists of the real tar2sqfs | sqfs2tar vs. "
                      "the composed model drv_conv (t2s_full -> image bytes -> sqfs2tar_full) on %d of %d archives; first (%s): tools [%s], "
                      "model [%s]; the tool-level oracle found no property failure on them" % (what, len(diffs), len(cases), cases[i][2], g, e),
                      dict(replay(cases[i], "tie C"), correspondence="ImgTarFull.drv_conv = sqfs2tar(tar2sqfs(archive)) incl. contents and xattrs"), True))
    return dict(stats=stats, diffs=diffs, viols=viols, ncases=len(cases),
                samples=[dict(case=cases[k][2][:160], impl=(out_v[k] if k < len(out_v) else "")[:200], model=(out_f[k] if k < len(out_f) else "")[:200])
                         for k in (0, len(cases) // 2)] if cases else [])


def replay(case, detail):
    import base64
    data, o, desc = case
    return dict(kind="imgtarfull", archive_b64=base64.b64encode(data).decode(), opts={k: v for k, v in o.items() if k != "gen"}, source=desc,
                detail=detail, how="tar2sqfs %s < archive; sqfs2tar %s%simg" % (" ".join(t2s_cmd({"tar2sqfs": "tar2sqfs"}, o, "img")[1:]),
                                                                               "-L " if o["nolinks"] else "", "-X " if o["noxs"] else ""))
