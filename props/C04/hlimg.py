"""C04, hard links at the scale where inode references stop being small numbers (strengthening, session 3).

The hard link filter (lib/sqfs/src/io/dir_hl.c) keys its rbtree by (dev, inode) and lib/sqfs/src/dir_iterator.c hands it the
48 bit inode REFERENCE (metadata block offset << 16 | offset in block) as `inode`.  Everything the other legs of C04 build
is small: a few dozen inodes in one metadata block, references < 2^16 apart.  Here the inode table spans well over 64 KiB:

A. images written by vlib/sqfsimg.Builder (UNCOMPRESSED metadata: 8194 bytes of image per 8192 bytes of inodes, so a block
   distance of d shifts the reference by d * 8194 * 2^16; d >= 4 is more than 2^31, d >= 8 more than 2^32) with a few
   thousand inodes, hard link groups (regular files with nlink >= 2: one inode named from several directory entries)
   scattered over the whole table, and the order in which a tree walk MEETS the inodes chosen independently of their
   position in the table (ascending, descending, alternating from both ends, strided across blocks, random).
   Required of the real sqfs2tar: exactly the image's names; every inode that has several names comes out as ONE entry of
   its type plus hard link records for the other names (partition of the names compared with the one that was built, contents
   compared); then tar2sqfs on that archive gives an image (independent parser) with the same partition and link counts.
B. real images: an archive of a few thousand entries whose inodes do not compress (random symlink targets, ids, times)
   with hard link groups, through the real tar2sqfs (gzip) and sqfs2tar; same comparison against the archive.

The generator never looks at the comparator: it only makes the key space of the filter as wide as the format allows."""
import hashlib
import io
import itertools
import os
import random
import tarfile

from vlib import sqfsimg as S

import oracle as O

ORDERS = ("asc", "desc", "alt", "stride", "rnd")
ALNUM = "abcdefghijklmnopqrstuvwxyzABCDEFGHIJKLMNOPQRSTUVWXYZ0123456789_-+=,.%@"


class _Children(list):
    """children of a Builder directory: indexing / len (what the Builder uses to write the listing) = entries in name
    order; iteration (what it uses to hand out inode numbers and table positions) yields `numbering` first"""

    def __init__(self, by_name, numbering=()):
        super().__init__(by_name)
        self.numbering = list(numbering)

    def __iter__(self):
        return itertools.chain(iter(self.numbering), list.__iter__(self))


def _rstr(rnd, n):
    return "".join(rnd.choice(ALNUM) for _ in range(n)).encode()


def meet_order(rnd, n, kind):
    """permutation of range(n): the order in which the walk meets the inodes, in terms of table positions"""
    idx = list(range(n))
    if kind == "asc":
        return idx
    if kind == "desc":
        return idx[::-1]
    if kind == "alt":
        out = []
        lo, hi = 0, n - 1
        while lo <= hi:
            out.append(lo)
            if hi != lo:
                out.append(hi)
            lo += 1
            hi -= 1
        return out
    if kind == "stride":
        k = rnd.choice([61, 89, 97, 131])
        return sorted(idx, key=lambda i: (i % k, i))
    rnd.shuffle(idx)
    return idx


def build_image(seed, kind, nfill=2300, ngroups=90):
    """(image bytes, expectation) — deterministic in its arguments"""
    rnd = random.Random("hlimg-%d-%s-%d-%d" % (seed, kind, nfill, ngroups))
    inodes = []
    for i in range(nfill):
        r = rnd.random()
        if r < 0.80:
            n = S.BNode(S.T_SLINK, mode=0o777, uid=rnd.choice([0, 1000]), gid=rnd.choice([0, 100]), mtime=rnd.randrange(1, 1 << 31),
                        target=_rstr(rnd, rnd.randint(40, 99)))
        elif r < 0.95:
            n = S.BNode(S.T_FILE, mode=rnd.choice([0o644, 0o600, 0o755]), uid=rnd.choice([0, 1000]), gid=0,
                        mtime=rnd.randrange(1, 1 << 31), data=_rstr(rnd, rnd.randint(0, 40)))
        else:
            n = S.BNode(S.T_FIFO, mode=0o640, uid=0, gid=0, mtime=rnd.randrange(1, 1 << 31))
        n._names = []
        n._group = False
        inodes.append(n)
    groups = []
    for g in range(ngroups):
        k = rnd.choice([2, 2, 2, 3, 3, 4, 6])
        n = S.BNode(S.T_FILE, mode=rnd.choice([0o644, 0o444]), uid=rnd.choice([0, 1000]), gid=0, mtime=rnd.randrange(1, 1 << 31),
                    data=b"group %d " % g + _rstr(rnd, rnd.randint(0, 50)), ext=True, nlink=k)
        n._names = []
        n._group = True
        n._k = k
        groups.append(n)
        inodes.insert(rnd.randrange(0, len(inodes) + 1), n)
    # two groups pushed to the two ends of the table, two into neighbouring slots
    for n, at in zip(groups[:4], (0, len(inodes), len(inodes) // 2, len(inodes) // 2 + 1)):
        inodes.remove(n)
        inodes.insert(min(at, len(inodes)), n)
    # walk order: first names in the chosen order, the further names of a group right behind / somewhere later / at the end
    perm = meet_order(rnd, len(inodes), kind)
    seq = [(inodes[i], 0) for i in perm]
    tail = []
    for n in groups:
        for j in range(1, n._k):
            where = rnd.random()
            p = next(i for i, e in enumerate(seq) if e[0] is n and e[1] == 0)
            if where < 0.25:
                seq.insert(p + 1, (n, j))
            elif where < 0.7:
                seq.insert(rnd.randrange(p + 1, len(seq) + 1), (n, j))
            else:
                tail.append((n, j))
    rnd.shuffle(tail)
    seq += tail
    # directories: consecutive chunks of the walk; names ascending inside a directory = walk order
    dirs = []
    i = 0
    while i < len(seq):
        m = rnd.randint(120, 420)
        chunk = seq[i:i + m]
        i += m
        dname = b"d%03d" % len(dirs)
        ents = []
        for r, (n, j) in enumerate(chunk):
            nm = b"e%04d%s" % (r, _rstr(rnd, rnd.randint(0, 12)))
            n._names.append((dname + b"/" + nm).decode())
            ents.append((nm, n))
        dirs.append((dname, S.BNode(S.T_DIR, mode=0o755, mtime=rnd.randrange(1, 1 << 31), children=_Children(ents), ext=True)))
    root = S.BNode(S.T_DIR, mode=0o755, mtime=1, ext=True,
                   children=_Children(dirs, numbering=[(b"", n) for n in inodes]))
    b = S.Builder(root, block_size=4096, frag=True)
    data = b.build()
    exp = dict(types={}, part={}, content={})
    for dn, d in dirs:
        exp["types"][dn.decode()] = "dir"
    for n in inodes:
        t = {S.T_SLINK: "slink", S.T_FILE: "file", S.T_FIFO: "fifo"}[n.typ]
        for nm in n._names:
            exp["types"][nm] = t
            if n.typ == S.T_FILE:
                exp["content"][nm] = (len(n.data), hashlib.sha256(n.data).hexdigest())
        if len(n._names) > 1:
            fs = frozenset(n._names)
            for nm in n._names:
                exp["part"][nm] = fs
    exp["refs"] = {nm: n.ref for n in inodes for nm in n._names}
    exp["table_bytes"] = b.layout["dir_start"] - b.layout["inode_start"]
    exp["inodes"] = len(inodes)
    exp["groups"] = ngroups
    return data, exp


def selfcheck(data, exp):
    """the image is what was meant (independent parser): None or a text — generator trouble, never a finding"""
    try:
        img = S.Image(data)
        bad = img.validate()
        if bad:
            return "image violates on-disk invariants: %r" % (bad[:3],)
        t = img.walk()
    except Exception as e:            # noqa: BLE001
        return "independent parser refuses the built image: %r" % (e,)
    names = {p.decode(): n for p, n in t.items() if p}
    if set(names) != set(exp["types"]):
        return "built image holds other names than intended"
    for nm, r in exp["refs"].items():
        if names[nm].ref != r:
            return "inode reference of %s is not the intended one" % nm
    for p, n in t.items():
        if n.type == S.T_DIR and [e[0] for e in n.children] != sorted(e[0] for e in n.children):
            return "directory %r not sorted" % p
    byref = {}
    for nm, n in names.items():
        if n.type != S.T_DIR:
            byref.setdefault(n.ref, set()).add(nm)
    part = {nm: frozenset(g) for g in byref.values() if len(g) > 1 for nm in g}
    if part != exp["part"]:
        return "hard link groups of the built image are not the intended ones"
    for g in set(part.values()):
        if names[next(iter(g))].nlink != len(g):
            return "link count of a group differs from its number of names"
    return None


def span_text(exp, names):
    rs = sorted(exp["refs"][n] for n in names if n in exp["refs"])
    if len(rs) < 1:
        return "one inode"
    return "the inode with reference 0x%x" % rs[0]


def _dist_classes(exp):
    """how far apart the keys of the filter are: counts of hard-link inodes by distance to the nearest / farthest other key"""
    refs = sorted(set(exp["refs"].values()))
    return dict(keys=len(refs), min_ref=refs[0], max_ref=refs[-1], span_log2=(refs[-1] - refs[0]).bit_length())


def check_s2t_output(out, exp, what):
    """(sig, text) or None: sqfs2tar's archive against the names / types / groups / contents of the image"""
    if len(out) % 512:
        return ("hl-image:archive-not-512", "%s: sqfs2tar output is %d bytes" % (what, len(out)))
    try:
        nodes, order, _root = O.read_tree(out, "sqfs2tar output")
    except Exception as e:        # noqa: BLE001
        return ("hl-image:output-unreadable", "%s: Python tarfile cannot read sqfs2tar's archive: %r" % (what, e))
    raw_hard = {n for n, v in nodes.items() if v["type"] == "hard"}
    try:
        part = O.resolve_hard_links(nodes)
    except ValueError as e:
        return ("hl-image:dangling-link", "%s: hard link record without its target in the archive: %s" % (what, e))
    if set(nodes) != set(exp["types"]):
        miss = sorted(set(exp["types"]) - set(nodes))[:3]
        extra = sorted(set(nodes) - set(exp["types"]))[:3]
        return ("hl-image:names", "%s: sqfs2tar does not emit exactly the image's names: missing %r, unexpected %r" % (what, miss, extra))
    if part != exp["part"]:
        lost = sorted((sorted(g) for g in set(exp["part"].values()) if any(part.get(n) != g for n in g)))
        merged = sorted(sorted(g) for g in set(part.values()) if len(set(exp["part"].get(n, n) for n in g)) > 1)
        split = sum(max(0, len([n for n in g if n not in raw_hard]) - 1) for g in lost)
        if lost:
            g = lost[0]
            indep = [n for n in g if n not in raw_hard]
            eg = "the %d names %r of %s come out as %d independent entries %r" % (len(g), g, span_text(exp, g), len(indep), indep)
        else:
            g = merged[0]
            eg = "the names %r of %d different inodes come out as one entry and hard links to it" % (g, len(set(exp["part"].get(n, n) for n in g)))
        return ("hl-image:link-groups",
                "%s: sqfs2tar does not emit every inode with several names as one entry plus hard link records: %d of %d groups differ "
                "(%d further names of an inode emitted as entries of their own, %d link groups in the archive tie different inodes "
                "together); e.g. %s (exit status 0)"
                % (what, len(lost), len(set(exp["part"].values())), split, len(merged), eg))
    for n, t in exp["types"].items():
        if nodes[n]["type"] != t:
            return ("hl-image:type", "%s: %r is a %s in the image, a %s in the archive" % (what, n, t, nodes[n]["type"]))
    for n, c in exp["content"].items():
        if nodes[n]["data"] != c:
            return ("hl-image:content", "%s: contents of %r differ (image %r, archive %r)" % (what, n, c, nodes[n]["data"]))
    return None


def check_reimage(img_bytes, exp, what):
    """(sig, text) or None: the image tar2sqfs makes of sqfs2tar's archive has the same names, groups and link counts"""
    try:
        img = S.Image(img_bytes)
        t = img.walk()
    except Exception as e:        # noqa: BLE001
        return ("hl-image:reimage-unreadable", "%s: independent parser refuses the image tar2sqfs made of sqfs2tar's archive: %r" % (what, e))
    names = {p.decode("latin-1"): n for p, n in t.items() if p}
    if set(names) != set(exp["types"]):
        return ("hl-image:reimage-names", "%s: image -> tar -> image changes the set of names (%d vs %d)" % (what, len(names), len(exp["types"])))
    byino = {}
    for nm, n in names.items():
        if n.type != S.T_DIR:
            byino.setdefault(n.ino, set()).add(nm)
    part = {nm: frozenset(g) for g in byino.values() if len(g) > 1 for nm in g}
    if part != exp["part"]:
        lost = [g for g in set(exp["part"].values()) if any(part.get(n) != g for n in g)]
        g = sorted(sorted(lost, key=sorted)[0]) if lost else []
        return ("hl-image:reimage-link-groups",
                "%s: image -> tar -> image does not keep the hard link structure: %d of %d groups differ, e.g. %r are no longer one inode"
                % (what, len(lost), len(set(exp["part"].values())), g))
    for g in set(part.values()):
        n = names[next(iter(g))]
        if n.nlink is not None and n.nlink != len(g):
            return ("hl-image:reimage-nlink", "%s: link count %d for the %d names %r" % (what, n.nlink, len(g), sorted(g)))
    return None


def run_builder_case(tools, workdir, seed, kind, nfill, ngroups, tag):
    """-> (violation or None, stats, note or None)"""
    data, exp = build_image(seed, kind, nfill, ngroups)
    sc = selfcheck(data, exp)
    if sc:
        return None, {}, "hlimg generator (%s): %s" % (kind, sc)
    path = os.path.join(workdir, "hl-%s.sqfs" % tag)
    with open(path, "wb") as f:
        f.write(data)
    what = "hand-built image (uncompressed inode table of %d bytes = %d metadata blocks, %d inodes, %d hard link groups, walk meets " \
           "the inodes in '%s' order of their table positions)" % (exp["table_bytes"], (exp["table_bytes"] + 8193) // 8194, exp["inodes"],
                                                                   exp["groups"], kind)
    st = dict(entries=len(exp["types"]), groups=len(set(exp["part"].values())), table_bytes=exp["table_bytes"], **_dist_classes(exp))
    rc, out, err = O.run([tools["sqfs2tar"], path], timeout=45)
    if rc != 0:
        return ("hl-image:convert-fails", "%s: sqfs2tar fails (rc %d): %s" % (what, rc, err[-300:])), st, None
    v = check_s2t_output(out, exp, what)
    if v:
        return v, st, None
    img2 = os.path.join(workdir, "hl-%s-2.sqfs" % tag)
    rc, _, err = O.run([tools["tar2sqfs"], "-q", "-f", "-c", "gzip", "-j", "1", img2], inp=out)
    if rc != 0:
        return ("hl-image:reconvert-fails", "%s: tar2sqfs refuses sqfs2tar's archive: %s" % (what, err[-300:])), st, None
    v = check_reimage(open(img2, "rb").read(), exp, what)
    if v:
        return v, st, None
    # and once more through sqfs2tar: the image tar2sqfs wrote (compressed metadata, its own inode order)
    rc, out2, err = O.run([tools["sqfs2tar"], img2], timeout=45)
    if rc != 0:
        return ("hl-image:convert-fails", "%s, second round: sqfs2tar fails: %s" % (what, err[-300:])), st, None
    exp2 = dict(exp, refs={})
    v = check_s2t_output(out2, exp2, what + ", archive of the re-made image")
    return v, st, None


# ---------------------------------------------------------------- B: real images with inodes that do not compress
def incompressible_archive(seed, nfill=3200, ngroups=120):
    rnd = random.Random("hlarc-%d-%d-%d" % (seed, nfill, ngroups))
    buf = io.BytesIO()
    tf = tarfile.open(fileobj=buf, mode="w", format=tarfile.GNU_FORMAT)
    ents = []
    ndirs = 12
    for d in range(ndirs):
        ti = tarfile.TarInfo("q%02d" % d)
        ti.type = tarfile.DIRTYPE
        ti.mode = 0o755
        ti.mtime = rnd.randrange(1, 1 << 31)
        tf.addfile(ti)
    prim = []
    for i in range(nfill):
        nm = "q%02d/%s" % (rnd.randrange(ndirs), _rstr(rnd, rnd.randint(6, 20)).decode() + "%d" % i)
        ti = tarfile.TarInfo(nm)
        ti.type = tarfile.SYMTYPE
        ti.linkname = _rstr(rnd, rnd.randint(70, 99)).decode()
        ti.mode = 0o777
        ti.uid, ti.gid = rnd.randrange(0, 60000), rnd.randrange(0, 60000)
        ti.mtime = rnd.randrange(1, 1 << 31)
        ents.append((ti, None))
    for g in range(ngroups):
        nm = "q%02d/%s" % (rnd.randrange(ndirs), _rstr(rnd, rnd.randint(6, 20)).decode() + "g%d" % g)
        ti = tarfile.TarInfo(nm)
        payload = b"G%d " % g + _rstr(rnd, rnd.randint(0, 30))
        ti.size = len(payload)
        ti.mode = 0o644
        ti.uid, ti.gid = rnd.randrange(0, 60000), rnd.randrange(0, 60000)
        ti.mtime = rnd.randrange(1, 1 << 31)
        ents.append((ti, payload))
        prim.append(nm)
    rnd.shuffle(ents)
    for ti, payload in ents:
        tf.addfile(ti, io.BytesIO(payload) if payload is not None else None)
    for g, nm in enumerate(prim):
        for j in range(rnd.choice([1, 1, 2, 3])):
            ti = tarfile.TarInfo("q%02d/%sL%d_%d" % (rnd.randrange(ndirs), _rstr(rnd, rnd.randint(1, 12)).decode(), g, j))
            ti.type = tarfile.LNKTYPE
            ti.linkname = nm
            tf.addfile(ti)
    tf.close()
    return buf.getvalue()


def run_archive_case(tools, workdir, seed, nfill, ngroups, tag):
    data = incompressible_archive(seed, nfill, ngroups)
    nodes, order, _root = O.read_tree(data, "generated archive")
    part = O.resolve_hard_links(nodes)
    exp = dict(types={n: v["type"] for n, v in nodes.items()}, part=part, refs={},
               content={n: v["data"] for n, v in nodes.items() if v["type"] == "file"})
    img = os.path.join(workdir, "hla-%s.sqfs" % tag)
    rc, _, err = O.run([tools["tar2sqfs"], "-q", "-f", "-c", "gzip", "-j", "1", img], inp=data)
    if rc != 0:
        return None, {}, "hlimg archive case: tar2sqfs refuses the generated archive: %s" % err[-200:]
    raw = open(img, "rb").read()
    try:
        im = S.Image(raw)
        span = im.super["dir_table_start"] - im.super["inode_table_start"]
    except Exception as e:        # noqa: BLE001
        return None, {}, "hlimg archive case: independent parser refuses tar2sqfs's image: %r" % (e,)
    what = "image made by tar2sqfs -c gzip of an archive with %d entries and %d hard link groups whose inodes do not compress " \
           "(inode table %d bytes on disk)" % (len(nodes), len(set(part.values())), span)
    st = dict(entries=len(nodes), groups=len(set(part.values())), table_bytes=span)
    v = check_reimage(raw, exp, "tar2sqfs of the generated archive")
    if v:
        return v, st, None
    rc, out, err = O.run([tools["sqfs2tar"], img], timeout=45)
    if rc != 0:
        return ("hl-image:convert-fails", "%s: sqfs2tar fails (rc %d): %s" % (what, rc, err[-300:])), st, None
    return check_s2t_output(out, exp, what), st, None


# ---------------------------------------------------------------- C: the filter in isolation on adversarial (dev, inode) keys
INTS = [0, 1, (1 << 31) - 1, 1 << 31, (1 << 31) + 1, (1 << 32) - 1, 1 << 32, 1 << 47, (1 << 48) - 1, 1 << 63, (1 << 64) - 1]
FKINDS = ("refs-uncompressed", "refs-compressed", "refs-64k-stride", "st_ino", "multi-dev")


def filter_keys(rnd, kind, n):
    """n distinct (dev, inode) pairs"""
    keys = []
    if kind == "refs-uncompressed":
        nb = max(16, n // 20)
        keys = [(0, ((b * 8194) << 16) | rnd.randrange(0, 8192)) for b in range(nb) for _ in range(n // nb + 1)]
    elif kind == "refs-compressed":
        pos, offs = 0, []
        for _ in range(max(16, n // 20)):
            offs.append(pos)
            pos += rnd.randint(300, 8194)
        keys = [(0, (rnd.choice(offs) << 16) | rnd.randrange(0, 8192)) for _ in range(n + n // 4)]
    elif kind == "refs-64k-stride":
        # metadata blocks whose start offsets differ by multiples of 64 KiB (happens among compressed blocks): inodes at the same
        # offset inside such blocks have references that agree in their low 32 bits
        base = [rnd.randrange(0, 65536) for _ in range(4)]
        offs = [rnd.randrange(0, 8192) for _ in range(max(4, n // 16))]
        keys = [(0, ((b + 65536 * m) << 16) | o) for b in base for m in (0, 1, 2, 5, 32768) for o in offs]
    elif kind == "st_ino":
        b = rnd.randrange(0, 1 << 64)
        vals = INTS + [(b + d) % (1 << 64) for d in (0, 1, 1 << 31, 1 << 32, (1 << 32) + 1, 3 << 30, 1 << 33)]
        vals += [rnd.choice([rnd.randrange(0, 1 << 64), rnd.randrange(0, 1 << 48), rnd.randrange(0, 1 << 20)]) for _ in range(n)]
        keys = [(7, v) for v in vals]
    else:
        devs = [0, 1, 1 << 31, 1 << 32, (1 << 32) + 1, 1 << 63, (1 << 64) - 1]
        vals = INTS[:7] + [rnd.randrange(0, 1 << 34) for _ in range(max(2, n // 6))]
        keys = [(d, v) for d in devs for v in vals]
    keys = list(dict.fromkeys(keys))
    rnd.shuffle(keys)
    return keys[:n]


def filter_case(seed, kind, n, order):
    """entries [(type, dev, inode, name)] and what the filter must answer [(name, 'H'|'-', target|'-')]"""
    rnd = random.Random("hlf-%d-%s-%d-%s" % (seed, kind, n, order))
    keys = filter_keys(rnd, kind, n)
    ks = sorted(keys)
    perm = meet_order(rnd, len(ks), order)
    L = len(perm)
    items = [(float(p), "f", ks[i]) for p, i in enumerate(perm)]
    for p, i in enumerate(perm):
        for _ in range(rnd.choice([0, 0, 1, 1, 2])):
            items.append((rnd.uniform(p + 0.01, L), "f", ks[i]))          # a further name, somewhere after the first
    for _ in range(max(1, L // 12)):          # directories: never linked, never remembered
        k = rnd.choice(keys) if rnd.random() < 0.5 else (0, rnd.randrange(0, 1 << 48))
        items.append((rnd.uniform(-1, L), "d", k))
    items.sort(key=lambda e: e[0])
    seq = [(t, k) for _p, t, k in items]
    ents = [(t, k[0], k[1], "n%05d" % i) for i, (t, k) in enumerate(seq)]
    first = {}
    exp = []
    for t, d, i, name in ents:
        if t == "d":
            exp.append((name, "-", "-"))
        elif (d, i) in first:
            exp.append((name, "H", first[(d, i)]))
        else:
            first[(d, i)] = name
            exp.append((name, "-", "-"))
    return ents, exp


def build_filter_harness(info):
    from vlib import build as B
    return B.compile_harness(info, [os.path.join(os.path.dirname(os.path.abspath(__file__)), "h_hlfilter.c")], "h_hlfilter_c04")


def filter_plan(ctx_seed, tier):
    rnd = random.Random(ctx_seed * 6151 + 11)
    cases = []
    reps = 2 if tier == "quick" else 30
    for r in range(reps):
        for kind in FKINDS:
            for order in ("asc", "desc", "alt", "rnd"):
                cases.append(dict(kind="hlfilter", seed=rnd.randrange(1 << 30), keys=kind, n=rnd.choice([12, 40, 150, 400]), order=order))
    cases.append(dict(kind="hlfilter", seed=rnd.randrange(1 << 30), keys="refs-uncompressed", n=3000, order="asc"))
    cases.append(dict(kind="hlfilter", seed=rnd.randrange(1 << 30), keys="refs-compressed", n=3000, order="rnd"))
    return cases


def filter_stage(ctx, info, cases=None):
    import subprocess
    exe = build_filter_harness(info)
    cases = filter_plan(ctx.seed, ctx.tier) if cases is None else cases
    built = [filter_case(c["seed"], c["keys"], c["n"], c["order"]) for c in cases]
    inp = "".join("CASE %d\n%sEND\n" % (i, "".join("E %s %d %d %s\n" % e for e in ents)) for i, (ents, _) in enumerate(built))
    env = dict(os.environ, ASAN_OPTIONS="detect_leaks=1:abort_on_error=0", UBSAN_OPTIONS="halt_on_error=1:print_stacktrace=1")
    try:
        r = subprocess.run([exe], input=inp.encode(), stdout=subprocess.PIPE, stderr=subprocess.PIPE, env=env, timeout=120)
        out, err, rc = r.stdout.decode("utf-8", "replace"), r.stderr.decode("utf-8", "replace"), r.returncode
    except subprocess.TimeoutExpired as e:
        out, err, rc = (e.stdout or b"").decode("utf-8", "replace"), "[timeout]", 124
    res = {}
    cur = None
    for l in out.split("\n"):
        if l.startswith("CASE "):
            cur = int(l.split()[1])
            res[cur] = []
        elif l == "END":
            cur = None
        elif cur is not None:
            res[cur].append(l)
    viols = []
    stats = dict(cases=0, entries=0, hard_links=0, kinds={})
    for i, (c, (ents, exp)) in enumerate(zip(cases, built)):
        lines = res.get(i)
        what = "hard link filter (sqfs_hard_link_filter_create) over %d entries with %s keys, first names met in '%s' key order" % (
            len(ents), c["keys"], c["order"])
        if lines is None or not lines or not lines[-1].startswith("rc "):
            viols.append(("hl-filter:crash", "%s: sanitizer report / signal / time-out (rc %d): %s" % (what, rc, err[-600:]), dict(c)))
            break
        stats["cases"] += 1
        stats["entries"] += len(ents)
        stats["hard_links"] += sum(1 for e in exp if e[1] == "H")
        stats["kinds"][c["keys"]] = stats["kinds"].get(c["keys"], 0) + 1
        got = [tuple(l.split()[1:4]) for l in lines if l.startswith("R ")]
        if lines[-1] != "rc 1" or got != exp:
            k = next((j for j in range(min(len(got), len(exp))) if got[j] != exp[j]), min(len(got), len(exp)))
            key = {n: (d, ino) for _t, d, ino, n in ents}
            if k < len(exp) and k < len(got):
                name = exp[k][0]
                d, ino = key[name]
                if exp[k][1] == "H" and got[k][1] == "-":
                    txt = "entry %s names (dev %d, inode 0x%x) again - first name %s - and is NOT reported as a hard link" % (name, d, ino, exp[k][2])
                elif exp[k][1] == "-" and got[k][1] == "H":
                    d2, i2 = key.get(got[k][2], (0, 0))
                    txt = "entry %s is the first name of (dev %d, inode 0x%x) and is reported as a hard link to %s = (dev %d, inode 0x%x)" % (
                        name, d, ino, got[k][2], d2, i2)
                else:
                    txt = "entry %s: expected %r, filter says %r" % (name, exp[k], got[k])
            else:
                txt = "the filter reports %d entries of %d (%s)" % (len(got), len(exp), lines[-1])
            bad = sum(1 for a, b in zip(got, exp) if a != b)
            viols.append(("hl-filter:link-structure", "%s: %s (%d of %d entries answered wrongly)" % (what, txt, bad, len(exp)), dict(c)))
    if rc != 0 and not viols:
        viols.append(("hl-filter:sanitizer", "hard link filter harness: sanitizer / leak report (rc %d): %s" % (rc, err[-800:]), dict(kind="hlfilter")))
    return viols, stats


# ---------------------------------------------------------------- stage
def plan(ctx_seed, tier):
    rnd = random.Random(ctx_seed * 7907 + 5)
    cases = []
    kinds = list(ORDERS)
    if tier != "quick":
        kinds = kinds * 6
    for i, k in enumerate(kinds):
        cases.append(dict(kind="hlimage", how="builder", seed=rnd.randrange(1 << 30), order=k,
                          nfill=rnd.randint(2100, 2700), ngroups=rnd.randint(60, 120)))
    for i in range(1 if tier == "quick" else 6):
        cases.append(dict(kind="hlimage", how="archive", seed=rnd.randrange(1 << 30), order="tar2sqfs",
                          nfill=rnd.randint(3000, 3600), ngroups=rnd.randint(80, 160)))
    return cases


def run_case(tools, workdir, c, tag):
    if c["how"] == "builder":
        return run_builder_case(tools, workdir, c["seed"], c["order"], c["nfill"], c["ngroups"], tag)
    return run_archive_case(tools, workdir, c["seed"], c["nfill"], c["ngroups"], tag)


HOWTO = ("python3 -c \"import sys; sys.path[:0]=['/verif','/verif/props/C04']; import hlimg; "
         "open('i.sqfs','wb').write(hlimg.build_image(SEED,'ORDER',NFILL,NGROUPS)[0])\"; sqfs2tar i.sqfs | tar tvf - | grep -c '^h'   "
         "(how=archive: hlimg.incompressible_archive(SEED,NFILL,NGROUPS) | tar2sqfs i.sqfs; sqfs2tar i.sqfs)")


def stage(ctx, info, cases=None):
    from concurrent.futures import ThreadPoolExecutor
    import tempfile
    tools = info["tools"]
    wd = tempfile.mkdtemp(dir=ctx.scratch)
    cases = plan(ctx.seed, ctx.tier) if cases is None else cases

    def one(ic):
        i, c = ic
        try:
            return c, run_case(tools, wd, c, "%d" % i)
        except Exception as e:        # noqa: BLE001  (generator / oracle trouble is not a finding)
            return c, (None, {}, "hlimg: %r" % (e,))

    with ThreadPoolExecutor(6) as ex:
        res = list(ex.map(one, enumerate(cases)))
    viols = []
    stats = dict(images=0, entries=0, groups=0, max_span_log2=0, min_table_bytes=None, orders={})
    for c, (v, st, note) in res:
        if note:
            ctx.notes.append(note)
            continue
        stats["images"] += 1
        stats["entries"] += st.get("entries", 0)
        stats["groups"] += st.get("groups", 0)
        stats["max_span_log2"] = max(stats["max_span_log2"], st.get("span_log2", 0))
        if c["how"] == "builder":
            tb = st.get("table_bytes", 0)
            stats["min_table_bytes"] = tb if stats["min_table_bytes"] is None else min(stats["min_table_bytes"], tb)
        else:
            stats["tar2sqfs_inode_table_bytes"] = st.get("table_bytes", 0)
        stats["orders"][c["order"]] = stats["orders"].get(c["order"], 0) + 1
        if v:
            viols.append((v[0], v[1], dict(c, howto=HOWTO)))
    return viols, stats
