(* C04 / sqfs2tar --subdir model driver.  One case per line on stdin:
     S <keep 0|1> <root-becomes hex | ~> <subdirs hex,hex,.. | -> <entries hex:0|1;hex:0|1;...  | ->
   (subdirs and root-becomes as options.c leaves them, entries = names of the image walk with their is-directory bit)
   -> the member names s2t_names predicts, hex, joined by ';' ('-' if none) *)
open C04sd_model

let rec pos_of_int i = if i = 1 then XH else if i land 1 = 1 then XI (pos_of_int (i lsr 1)) else XO (pos_of_int (i lsr 1))
let n_of_int i = if i = 0 then N0 else Npos (pos_of_int i)
let rec int_of_pos = function XH -> 1 | XO p -> 2 * int_of_pos p | XI p -> 2 * int_of_pos p + 1
let int_of_n = function N0 -> 0 | Npos p -> int_of_pos p
let hexval c = match c with
  | '0'..'9' -> Char.code c - 48 | 'a'..'f' -> Char.code c - 87 | _ -> Char.code c - 55
let bytes_tbl = Array.init 256 n_of_int
let unhex s =
  let n = String.length s / 2 in
  let rec go i acc = if i < 0 then acc
    else go (i - 1) (bytes_tbl.(hexval s.[2*i] * 16 + hexval s.[2*i+1]) :: acc) in
  go (n - 1) []
let hex l =
  let b = Buffer.create 64 in
  List.iter (fun c -> Buffer.add_string b (Printf.sprintf "%02x" (int_of_n c))) l;
  Buffer.contents b
let split c s = if s = "-" then [] else String.split_on_char c s

let () =
  try
    while true do
      let line = input_line stdin in
      (match String.split_on_char ' ' line with
       | ["S"; keep; rb; subs; ents] ->
         let subs = List.map unhex (split ',' subs) in
         let rb = if rb = "~" then None else Some (unhex rb) in
         let ents = List.map (fun e ->
             match String.split_on_char ':' e with
             | [n; d] -> (unhex n, d = "1")
             | _ -> failwith "bad entry") (split ';' ents) in
         let out = s2t_names subs (keep = "1") rb ents in
         print_endline (match out with [] -> "-" | _ -> String.concat ";" (List.map hex out))
       | _ -> print_endline "BAD");
    done
  with End_of_file -> ()
