(* C04 model driver: one case per line on stdin, one canonical result line per
   case on stdout.  Same line formats as props/C04/h_tar.c. *)
open C04_model

let rec pos_of_int i = if i = 1 then XH else if i land 1 = 1 then XI (pos_of_int (i lsr 1)) else XO (pos_of_int (i lsr 1))
let n_of_int i = if i = 0 then N0 else Npos (pos_of_int i)
let rec int_of_pos = function XH -> 1 | XO p -> 2 * int_of_pos p | XI p -> 2 * int_of_pos p + 1
let int_of_n = function N0 -> 0 | Npos p -> int_of_pos p
let rec nat_of_int i = if i <= 0 then O else S (nat_of_int (i - 1))

let ten = n_of_int 10
(* decimal string <-> N (arbitrary size) *)
let n_of_string s =
  let r = ref N0 in
  String.iter (fun c -> r := N.add (N.mul !r ten) (n_of_int (Char.code c - 48))) s;
  !r
let string_of_n n =
  if n = N0 then "0" else begin
    let b = Buffer.create 24 in
    let rec go n acc = if n = N0 then acc else go (N.div n ten) (int_of_n (N.modulo n ten) :: acc) in
    List.iter (fun d -> Buffer.add_char b (Char.chr (48 + d))) (go n []);
    Buffer.contents b
  end
let z_of_string s =
  if String.length s > 0 && s.[0] = '-' then
    (match n_of_string (String.sub s 1 (String.length s - 1)) with N0 -> Z0 | Npos p -> Zneg p)
  else (match n_of_string s with N0 -> Z0 | Npos p -> Zpos p)
let string_of_z = function
  | Z0 -> "0" | Zpos p -> string_of_n (Npos p) | Zneg p -> "-" ^ string_of_n (Npos p)

let hexval c = match c with
  | '0'..'9' -> Char.code c - 48 | 'a'..'f' -> Char.code c - 87 | _ -> Char.code c - 55
let bytes_tbl = Array.init 256 n_of_int
let unhex s =
  if s = "-" || s = "~" then [] else begin
    let n = String.length s / 2 in
    let rec go i acc = if i < 0 then acc
      else go (i - 1) (bytes_tbl.(hexval s.[2*i] * 16 + hexval s.[2*i+1]) :: acc) in
    go (n - 1) []
  end
let hex l =
  match l with [] -> "-" | _ ->
    let b = Buffer.create 1024 in
    List.iter (fun c -> Buffer.add_string b (Printf.sprintf "%02x" (int_of_n c))) l;
    Buffer.contents b
let hexopt = function None -> "~" | Some l -> hex l

let split_on c s = if s = "-" || s = "" then [] else String.split_on_char c s

let pairs_str l =
  match l with [] -> "-" | _ ->
    String.concat ";" (List.map (fun (a, b) -> string_of_n a ^ ":" ^ string_of_n b) l)
let xattr_str l =
  match l with [] -> "-" | _ ->
    String.concat ";" (List.map (fun (k, v) -> hex k ^ ":" ^ hex v) l)

let parse_map s =
  List.map (fun p -> match String.split_on_char ':' p with
    | [a; b] -> (n_of_string a, n_of_string b) | _ -> failwith "map") (split_on ';' s)

let bool01 b = if b then "1" else "0"

let show_dec d rest total =
  Printf.sprintf "OK consumed=%d name=%s link=%s mode=%s uid=%s gid=%s dev=%s mtime=%s rsize=%s asize=%s unk=%s hl=%s sparse=%s xattr=%s"
    (total - List.length rest) (hexopt d.d_name) (hexopt d.d_link) (string_of_n d.d_mode)
    (string_of_n d.d_uid) (string_of_n d.d_gid) (string_of_n d.d_dev) (string_of_z d.d_mtime)
    (string_of_n d.d_record) (string_of_n d.d_actual) (bool01 d.d_unknown) (bool01 d.d_hl)
    (pairs_str d.d_sparse) (xattr_str d.d_xattr)

let show_entry t =
  let e = t.te_e in
  Printf.sprintf "name=%s mode=%s uid=%s gid=%s size=%s mtime=%s rdev=%s hl=%s link=%s xattr=%s data=%s"
    (hex e.e_name) (string_of_n e.e_mode) (string_of_n e.e_uid) (string_of_n e.e_gid)
    (string_of_n e.e_size) (string_of_z e.e_mtime) (string_of_n e.e_rdev) (bool01 e.e_hardlink)
    (hexopt t.te_target) (xattr_str t.te_xattr) (hex t.te_data)

let handle line =
  match String.split_on_char ' ' line with
  | ["N"; f] ->
    (match read_number (unhex f) with
     | Some v -> "OK " ^ string_of_n v
     | None -> "ERR")
  | ["W"; d; v] -> hex (write_number (n_of_string v) (nat_of_int (int_of_string d)))
  | ["S"; d; v] -> hex (write_number_signed (z_of_string v) (nat_of_int (int_of_string d)))
  | ["M"; f] ->
    (match read_number (unhex f) with
     | Some v -> "OK " ^ string_of_z (s64_of_u64 v)
     | None -> "ERR")
  | ["P"; v] -> string_of_int (List.length (padding (n_of_string v)))
  | "H" :: counter :: hl :: mode :: uid :: gid :: size :: mtime :: rdev :: name :: target :: nx :: rest ->
    let rec xs l = match l with k :: v :: r -> (unhex k, unhex v) :: xs r | _ -> [] in
    ignore nx;
    let e = { e_name = unhex name; e_mode = n_of_string mode; e_uid = n_of_string uid;
              e_gid = n_of_string gid; e_size = n_of_string size; e_mtime = z_of_string mtime;
              e_rdev = n_of_string rdev; e_hardlink = (hl = "1") } in
    let tgt = if target = "~" then None else Some (unhex target) in
    (match write_tar_header e tgt (xs rest) (n_of_string counter) with
     | W_Ok b -> "OK " ^ hex b
     | W_Unsupported -> "UNSUP -")
  | "E" :: counter :: hl :: mode :: uid :: gid :: size :: mtime :: rdev :: name :: target :: data :: nx :: rest ->
    (* sqfs2tar's write_entry: xattrs in image order, header + data + padding *)
    let rec xs l = match l with k :: v :: r -> (unhex k, unhex v) :: xs r | _ -> [] in
    ignore nx;
    let e = { e_name = unhex name; e_mode = n_of_string mode; e_uid = n_of_string uid;
              e_gid = n_of_string gid; e_size = n_of_string size; e_mtime = z_of_string mtime;
              e_rdev = n_of_string rdev; e_hardlink = (hl = "1") } in
    let t = { te_e = e; te_target = (if target = "~" then None else Some (unhex target));
              te_xattr = xs rest; te_data = unhex data } in
    let c = n_of_string counter in
    (match write_entry_hdr t c with
     | W_Ok _ -> "OK " ^ hex (write_entries [t] c)
     | W_Unsupported -> "UNSUP -")
  | ["R"; s] ->
    let l = unhex s in
    (match read_header l with
     | RH_Ok (d, rest) -> show_dec d rest (List.length l)
     | RH_Eof -> "EOF"
     | RH_Err -> "ERR"
     | RH_Fuel -> "FUEL")
  | ["A"; _; s] ->
    (match read_archive (unhex s) with
     | RA_Ok es -> String.concat " | " (List.map show_entry es @ ["END"])
     | RA_Err -> "ERR"
     | RA_Crash -> "CRASH"
     | RA_Fuel -> "FUEL")
  | ["T"; fsize; map; data; sched] ->
    let sch = List.map (fun p -> match String.split_on_char ':' p with
        | [w; c; t] -> ((N.sub (n_of_string w) (n_of_int 1), N.sub (n_of_string c) (n_of_int 1)),
                        N.sub (n_of_string t) (n_of_int 1))
        | _ -> failwith "sched") (split_on ';' sched) in
    let d = unhex data in
    (match stream_go sch (parse_map map) (n_of_string fsize) N0 d [] with
     | S_Done (out, rest, _) -> Printf.sprintf "DONE %s consumed=%d" (hex out) (List.length d - List.length rest)
     | S_Corrupt out -> "CORRUPT " ^ hex out
     | S_More (out, rest, _) -> Printf.sprintf "MORE %s consumed=%d" (hex out) (List.length d - List.length rest))
  | ["G"; root; link] ->
    hex (retarget (unhex root) (unhex link)) ^ " " ^ hex (retarget_old (unhex root) (unhex link))
  | ["C"; h] -> string_of_n (checksum (unhex h))
  | _ -> "BADCASE"

let () =
  try
    while true do
      let line = input_line stdin in
      print_string (handle line);
      print_char '\n'
    done
  with End_of_file -> ()
