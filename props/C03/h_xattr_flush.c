/* C03 component harness for the xattr section: the working tree's sqfs_xattr_writer_begin / add_kv / end and
 * sqfs_xattr_writer_flush on an in-memory file of <size0> bytes, with the toy compressors of props/C03/h_image.c
 * (modes 0, 1 = MetaModel.toy_compress, 3 = zero-run-length = Img/TreeModel.v zrle_compress).
 *
 * stdin : X <mode> <size0> <set>;<set>;...        set = <hexkey>:<hexvalue>,...  or "-" (no pairs)
 * stdout: X idx=<index per set> add=<first add_kv error or 0> flush=<rc> start=<header offset - size0 | none>
 *           noxattr=<NO_XATTRS bit after the call, super.flags = 0 before> bytes=<hex of everything appended>
 * The driver of the extracted model (props/C03/xattr_driver.ml) prints the same line. */
#include "config.h"
#include "sqfs/xattr_writer.h"
#include "sqfs/compressor.h"
#include "sqfs/super.h"
#include "sqfs/xattr.h"
#include "sqfs/error.h"
#include "sqfs/io.h"

#include <stdio.h>
#include <stdlib.h>
#include <string.h>

typedef struct {
	sqfs_file_t base;
	unsigned char *data;
	size_t size, cap;
} memfile_t;

static int mf_read_at(sqfs_file_t *f, sqfs_u64 off, void *buf, size_t size)
{
	memfile_t *m = (memfile_t *)f;
	if (off + size > m->size) return SQFS_ERROR_OUT_OF_BOUNDS;
	memcpy(buf, m->data + off, size);
	return 0;
}

static int mf_write_at(sqfs_file_t *f, sqfs_u64 off, const void *buf, size_t size)
{
	memfile_t *m = (memfile_t *)f;
	if (off + size > m->cap) {
		size_t nc = (off + size) * 2 + 4096;
		m->data = realloc(m->data, nc);
		memset(m->data + m->cap, 0, nc - m->cap);
		m->cap = nc;
	}
	if (off > m->size) memset(m->data + m->size, 0, off - m->size);
	memcpy(m->data + off, buf, size);
	if (off + size > m->size) m->size = off + size;
	return 0;
}

static sqfs_u64 mf_get_size(const sqfs_file_t *f) { return ((const memfile_t *)f)->size; }
static int mf_truncate(sqfs_file_t *f, sqfs_u64 size) { ((memfile_t *)f)->size = size; return 0; }
static const char *mf_name(sqfs_file_t *f) { (void)f; return "mem"; }
static void mf_destroy(sqfs_object_t *o) { memfile_t *m = (memfile_t *)o; free(m->data); free(m); }

static memfile_t *memfile_new(void)
{
	memfile_t *m = calloc(1, sizeof(*m));
	sqfs_object_init(m, mf_destroy, NULL);
	m->base.read_at = mf_read_at;
	m->base.write_at = mf_write_at;
	m->base.get_size = mf_get_size;
	m->base.truncate = mf_truncate;
	m->base.get_filename = mf_name;
	return m;
}

typedef struct {
	sqfs_compressor_t base;
	int mode;
} toy_t;

static sqfs_s32 toy_block(sqfs_compressor_t *c, const sqfs_u8 *in, sqfs_u32 size, sqfs_u8 *out, sqfs_u32 outsize)
{
	toy_t *t = (toy_t *)c;
	sqfs_u32 i;

	if (t->mode == 0 || size == 0)
		return 0;
	if (t->mode == 1) {
		if (size < 5 || size >= 16777216 || outsize < 4) return 0;
		for (i = 1; i < size; ++i)
			if (in[i] != in[0]) return 0;
		out[0] = in[0];
		out[1] = size & 0xFF; out[2] = (size >> 8) & 0xFF; out[3] = (size >> 16) & 0xFF;
		return 4;
	}
	if (t->mode == 2) {
		if (size < 64 && outsize >= size + 2) {
			out[0] = 0xEE; out[1] = 0xEE;
			memcpy(out + 2, in, size);
			return size + 2;
		}
		return 0;
	}
	{
		sqfs_u32 o = 0, z = 0;
		for (i = 0; i < size; ++i) {
			if (in[i] == 0) {
				if (z == 255) {
					if (o + 2 > outsize) return 0;
					out[o++] = 0; out[o++] = 255;
					z = 1;
				} else {
					++z;
				}
			} else {
				if (z != 0) {
					if (o + 2 > outsize) return 0;
					out[o++] = 0; out[o++] = (sqfs_u8)z;
					z = 0;
				}
				if (o + 1 > outsize) return 0;
				out[o++] = in[i];
			}
		}
		if (z != 0) {
			if (o + 2 > outsize) return 0;
			out[o++] = 0; out[o++] = (sqfs_u8)z;
		}
		return o < size ? (sqfs_s32)o : 0;
	}
}

static void toy_destroy(sqfs_object_t *o) { free(o); }

static sqfs_compressor_t *toy_new(int mode)
{
	toy_t *t = calloc(1, sizeof(*t));
	sqfs_object_init(t, toy_destroy, NULL);
	t->base.do_block = toy_block;
	t->mode = mode;
	return (sqfs_compressor_t *)t;
}

static int hv(int c) { return c <= '9' ? c - '0' : c - 'a' + 10; }

static size_t unhex(const char *s, unsigned char *out)
{
	size_t n = 0;
	if (strcmp(s, "-") == 0) return 0;
	while (s[0] && s[1]) { out[n++] = (unsigned char)(hv(s[0]) * 16 + hv(s[1])); s += 2; }
	return n;
}

static void puthex(const unsigned char *p, size_t n)
{
	static const char *d = "0123456789abcdef";
	size_t i;
	if (n == 0) { fputs("-", stdout); return; }
	for (i = 0; i < n; ++i) { putchar(d[p[i] >> 4]); putchar(d[p[i] & 15]); }
}

static char line[1 << 25];
static unsigned char kbuf[1 << 20], vbuf[1 << 23];
static sqfs_u32 idx[1 << 17];

int main(void)
{
	while (fgets(line, sizeof(line), stdin)) {
		size_t l = strlen(line), nsets = 0, i, size0;
		char *p, *sets;
		int mode, adderr = 0, frc;
		sqfs_xattr_writer_t *xwr;
		sqfs_compressor_t *cmp;
		memfile_t *mf;
		sqfs_super_t super;

		while (l > 0 && (line[l - 1] == '\n' || line[l - 1] == '\r')) line[--l] = 0;
		if (line[0] != 'X' || line[1] != ' ') { puts("PARSE"); fflush(stdout); continue; }
		mode = (int)strtol(line + 2, &p, 10);
		size0 = (size_t)strtoull(p, &p, 10);
		while (*p == ' ') ++p;
		sets = p;

		xwr = sqfs_xattr_writer_create(0);
		while (*p) {
			char *end = strchr(p, ';');
			if (end) *end = 0;
			sqfs_xattr_writer_begin(xwr, 0);
			if (strcmp(p, "-") != 0) {
				char *q = p;
				while (*q) {
					char *c = strchr(q, ','), *colon;
					size_t kl, vl;
					int rc;
					if (c) *c = 0;
					colon = strchr(q, ':');
					if (!colon) break;
					*colon = 0;
					kl = unhex(q, kbuf);
					kbuf[kl] = 0;
					vl = unhex(colon + 1, vbuf);
					rc = sqfs_xattr_writer_add_kv(xwr, (const char *)kbuf, vbuf, vl);
					if (rc != 0 && adderr == 0) adderr = rc;
					if (!c) break;
					q = c + 1;
				}
			}
			idx[nsets] = 0;
			sqfs_xattr_writer_end(xwr, &idx[nsets]);
			++nsets;
			if (!end) break;
			p = end + 1;
		}
		(void)sets;

		mf = memfile_new();
		if (size0 > 0) {
			unsigned char *pad = calloc(1, size0);
			mf_write_at(&mf->base, 0, pad, size0);
			free(pad);
		}
		cmp = toy_new(mode);
		memset(&super, 0, sizeof(super));
		frc = sqfs_xattr_writer_flush(xwr, &mf->base, &super, cmp);

		printf("X idx=");
		for (i = 0; i < nsets; ++i) printf("%s%u", i ? "," : "", idx[i]);
		printf(" add=%d flush=%d start=", adderr, frc);
		if (super.xattr_id_table_start == 0xFFFFFFFFFFFFFFFFULL) fputs("none", stdout);
		else printf("%llu", (unsigned long long)(super.xattr_id_table_start - size0));
		printf(" noxattr=%d bytes=", (super.flags & SQFS_FLAG_NO_XATTRS) ? 1 : 0);
		puthex(mf->data + size0, mf->size - size0);
		putchar('\n');
		fflush(stdout);
		sqfs_drop(cmp);
		sqfs_drop(mf);
		sqfs_drop(xwr);
	}
	return 0;
}
