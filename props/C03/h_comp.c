/* C03 compressor-contract harness: calls the working tree's do_block of every compressor back end the way
 * the writers call it (meta writer: outsize = 8192 whatever the input size; block processor: outsize =
 * block size) and re-checks the contract of include/sqfs/compressor.h that the theorems assume:
 *   ret < 0: error;  ret == 0: "does not shrink";  ret > 0: ret <= size and uncompress(out, ret) == in.
 *
 * stdin:  c <comp_id> <flags> <block_size> <outsize> <kind> <size> <seed>
 * stdout: c <comp_id> <flags> <block_size> <outsize> <kind> <size> <seed> ret=<ret> rt=<1|0|->  (rt: round trip ok)
 * kinds: 0 zeros, 1 random, 2 text-like, 3 random prefix + zeros, 4 short period (3 bytes), 5 counter bytes */
#include "config.h"
#include "sqfs/compressor.h"
#include "sqfs/error.h"
#include "sqfs/block.h"

#include <stdio.h>
#include <stdlib.h>
#include <string.h>

static unsigned long long rng;
static unsigned rnd(void)
{
	rng ^= rng << 13; rng ^= rng >> 7; rng ^= rng << 17;
	return (unsigned)(rng >> 11);
}

static void fill(unsigned char *p, size_t n, int kind, unsigned long long seed)
{
	size_t i;
	static const char *words[] = { "the ", "quick ", "brown ", "fox ", "jumps ", "over ", "lazy ", "dog\n" };
	rng = seed * 0x9E3779B97F4A7C15ULL + 0x1234567ULL;
	if (rng == 0) rng = 1;
	switch (kind) {
	case 0: memset(p, 0, n); break;
	case 1: for (i = 0; i < n; ++i) p[i] = (unsigned char)rnd(); break;
	case 2:
		i = 0;
		while (i < n) {
			const char *w = words[rnd() % 8];
			size_t l = strlen(w);
			if (l > n - i) l = n - i;
			memcpy(p + i, w, l);
			i += l;
		}
		break;
	case 3:
		memset(p, 0, n);
		for (i = 0; i < n / 2; ++i) p[i] = (unsigned char)rnd();
		break;
	case 4: for (i = 0; i < n; ++i) p[i] = (unsigned char)("abc"[i % 3]); break;
	default: for (i = 0; i < n; ++i) p[i] = (unsigned char)i; break;
	}
}

int main(void)
{
	static char line[256];
	while (fgets(line, sizeof(line), stdin)) {
		unsigned id, flags, bs, outsize, kind, size;
		unsigned long long seed;
		sqfs_compressor_config_t cfg;
		sqfs_compressor_t *cmp = NULL, *ucmp = NULL;
		unsigned char *in, *out, *back;
		sqfs_s32 ret, r2;
		int rt = -1;

		if (sscanf(line, "c %u %u %u %u %u %u %llu", &id, &flags, &bs, &outsize, &kind, &size, &seed) != 7)
			continue;
		if (sqfs_compressor_config_init(&cfg, id, bs, flags) || sqfs_compressor_create(&cfg, &cmp)) {
			printf("c %u %u %u %u %u %u %llu ret=create-failed rt=-\n", id, flags, bs, outsize, kind, size, seed);
			continue;
		}
		cfg.flags |= SQFS_COMP_FLAG_UNCOMPRESS;
		if (sqfs_compressor_create(&cfg, &ucmp)) {
			printf("c %u %u %u %u %u %u %llu ret=ucreate-failed rt=-\n", id, flags, bs, outsize, kind, size, seed);
			sqfs_drop(cmp);
			continue;
		}
		in = malloc(size ? size : 1);
		out = malloc(outsize ? outsize : 1);
		back = malloc(size ? size : 1);
		fill(in, size, kind, seed);
		ret = cmp->do_block(cmp, in, size, out, outsize);
		if (ret > 0) {
			r2 = ucmp->do_block(ucmp, out, ret, back, size);
			rt = (r2 == (sqfs_s32)size && memcmp(in, back, size) == 0) ? 1 : 0;
		}
		printf("c %u %u %u %u %u %u %llu ret=%d rt=%c\n", id, flags, bs, outsize, kind, size, seed, (int)ret,
		       rt < 0 ? '-' : (rt ? '1' : '0'));
		free(in); free(out); free(back);
		sqfs_drop(cmp); sqfs_drop(ucmp);
	}
	return 0;
}
