"""C03 whole-image stage (coq/Image: write_image / read_super / read_table / read_image_tree / valid_image).

(a) EXACT tie: the extracted `write_image` against the working tree's real `sqfs_writer_init` + `sqfs_writer_finish`
    (props/C03/h_image.c: real output file, real block processor / block writer / fragment table / xattr writer / id
    table / directory writer, toy compressor injected through the linker): super block fields and every byte of
    the file.  Search oracle of the tie: the extracted `valid_image` + `read_image_tree` run on the bytes THE C CODE
    wrote, compared with `spec_tree` of the dumped fstree.
(b) REAL IMAGES: gensquashfs / tar2sqfs of the working tree on generated trees (toolgen specs, all five compressors);
    the extracted reader specification (decompression = system libraries through image_stubs.c) reads super block, id /
    fragment / export tables and the tree from the image bytes; `valid_image` must hold; the decoded tree is compared
    with the input tree of the spec and, field by field, with the independent Python decoder vlib/sqfsimg.py; the
    verdict of `valid_image` is compared with validate_ext."""
import os
import random
import re
import subprocess
import sys
import time
from concurrent.futures import ThreadPoolExecutor, ProcessPoolExecutor

ENV = dict(os.environ, ASAN_OPTIONS="detect_leaks=0:abort_on_error=0", UBSAN_OPTIONS="print_stacktrace=1")
ENV.pop("SOURCE_DATE_EPOCH", None)

# inodes x inode table bytes the tree reader specification may cost per image (it re-parses the metadata blocks
# behind a reference for every inode: about 1 s per 5e6)
TREE_BUDGET = dict(quick=12_000_000, thorough=120_000_000)


# same estimate for the read-back of the exact tie (toy compressors barely shrink the table)
EXACT_TREE_BUDGET = 9_000_000


def hx(b):
    if isinstance(b, str):
        b = b.encode()
    return b.hex() if b else "-"


# --------------------------------------------------------------------------
# (a) exact tie: cases
# --------------------------------------------------------------------------

def _ent(path, typ, perm=0o644, uid=0, gid=0, mtime=0, rdev=0, xattr=None, extra="-"):
    xs = "-"
    if xattr:
        xs = ";".join("%s=%s" % (k.encode().hex(), (v if isinstance(v, bytes) else v.encode()).hex() or "")
                      for k, v in xattr)
    return "%s %s %o %d %d %d %d %s %s" % (hx(path), typ, perm, uid, gid, mtime, rdev, xs, extra)


def _case(mode, bs, devblk, exportable, no_xattr, optlen, ents, duid=0, dgid=0, dmtime=0, dperm=0o755):
    return "W %d %d %d %d %d %d %d %d %d %o %d %s" % (mode, bs, devblk, int(exportable), int(no_xattr), optlen, duid, dgid,
                                                      dmtime, dperm, len(ents), " ".join(ents))


def tree_basic(r, bs, xattrs=True, files=True):
    """every inode type, files around the block size, fragments, sparse, compressible, hard links, xattrs"""
    e = [_ent("d", "d", 0o755, 1000, 100, 5), _ent("d/sub", "d", 0o700, 1, 2, 3)]
    if files:
        sizes = [0, 1, bs - 1, bs, bs + 1, 2 * bs + 7, 300, 4000]
        for i, sz in enumerate(sizes):
            e.append(_ent("d/f%02d" % i, "f", 0o644, r.choice([0, 1000, 65534]), r.choice([0, 100]), 1000 + i,
                          extra="%d:%d:%d:%d" % (i % 4, sz, r.randrange(1 << 16), 0)))
        e.append(_ent("d/nofrag", "f", 0o600, 7, 7, 7, extra="2:%d:%d:4" % (bs + 100, r.randrange(1 << 16))))
        e.append(_ent("d/dup1", "f", 0o600, 7, 7, 7, extra="2:%d:77:0" % (bs + 50)))
        e.append(_ent("d/dup2", "f", 0o600, 7, 7, 7, extra="2:%d:77:0" % (bs + 50)))
        e.append(_ent("d/sub/hl", "h", extra=hx("d/f01")))
    e.append(_ent("d/sl", "l", 0o777, 0, 0, 9, extra=hx("../target/of/link")))
    e.append(_ent("d/longsl", "l", 0o777, 0, 0, 9, extra=hx("x" * r.choice([300, 3000, 9000]))))
    e.append(_ent("d/blk", "b", 0o660, 0, 6, 1, rdev=0x801))
    e.append(_ent("d/chr", "c", 0o666, 0, 0, 1, rdev=0x103,
                  xattr=[("user.k", "v"), ("security.selinux", b"ctx\0")] if xattrs else None))
    e.append(_ent("d/fifo", "p", 0o644, 3, 4, 2))
    e.append(_ent("d/sock", "s", 0o644, 3, 4, 2))
    if xattrs:
        e.append(_ent("x1", "p", xattr=[("user.a", "1"), ("user.long", "L" * 40)]))
        e.append(_ent("x2", "p", xattr=[("user.a", "1"), ("user.long", "L" * 40)]))
        e.append(_ent("x3", "d", 0o755, xattr=[("trusted.t", "L" * 40), ("user.b", "")]))
    return e


def tree_wide(r, n, namelen, files=False, ids=False):
    e = [_ent("w", "d", 0o755)]
    for i in range(n):
        nm = ("%05d" % i) + "n" * max(0, namelen - 5)
        uid, gid = (100000 + i, 300000 + i) if ids else (r.choice([0, 5]), 0)
        if files:
            e.append(_ent("w/" + nm, "f", 0o644, uid, gid, i, extra="2:%d:%d:0" % (files, i)))
        else:
            e.append(_ent("w/" + nm, r.choice("pscb") if not ids else "p", 0o644, uid, gid, i, rdev=i))
    return e


def tree_random(r, bs, no_xattr):
    dirs = [""]
    e = []
    for i in range(r.randint(1, 25)):
        p = r.choice(dirs)
        d = (p + "/" if p else "") + "D%d" % i
        e.append(_ent(d, "d", r.choice([0o755, 0o700, 0o1777]), r.choice([0, 1, 70000]), r.choice([0, 9]), r.randrange(1 << 31),
                      xattr=[("user.d", str(i % 3))] if (not no_xattr and r.random() < 0.2) else None))
        dirs.append(d)
    paths = []
    for i in range(r.randint(0, 120)):
        p = r.choice(dirs)
        path = (p + "/" if p else "") + "n%d" % i + "y" * r.choice([0, 3, 40, 200])
        t = r.choice("fffflpscb")
        xa = None
        if not no_xattr and r.random() < 0.25:
            xa = [("user.k%d" % r.randrange(4), "v" * r.choice([0, 1, 9, 30]) + str(r.randrange(3)))]
        extra = "-"
        if t == "f":
            extra = "%d:%d:%d:%d" % (r.randrange(4), r.choice([0, 1, 77, bs - 1, bs, bs + 1, 3 * bs + 9, r.randint(0, 2 * bs)]),
                                     r.randrange(1 << 16), r.choice([0, 0, 0, 4, 1]))
            paths.append(path)
        elif t == "l":
            extra = hx("t" * r.choice([1, 10, 255, 1000]))
        e.append(_ent(path, t, r.randrange(0o1000), r.choice([0, 1, 1000, 4000000000]), r.choice([0, 1, 65534]),
                      r.randrange(1 << 32), rdev=r.randrange(1 << 20), xattr=xa, extra=extra))
    for i in range(min(len(paths), r.randint(0, 4))):
        e.append(_ent("hl%d" % i, "h", extra=hx(r.choice(paths))))
    return e


def exact_cases(rnd, tier):
    r = random.Random(rnd.getrandbits(32))
    cases = []

    def add(label, line):
        cases.append((label, line))

    # configuration sweep on the basic tree: compressor mode x block size x device block x -e x no_xattr x options
    k = 0
    for mode in (0, 1, 3):
        for bs in (4096, 8192, 131072):
            if tier == "quick" and bs == 8192 and mode != 3:
                continue
            exportable = (k % 2 == 0)
            no_xattr = (k % 3 == 1)
            optlen = [0, 4, 8, 61][k % 4]
            devblk = [4096, 1024, 8192, 65536, 512, 3000][k % 6]
            add("basic-m%d-b%d-e%d-x%d-o%d-d%d" % (mode, bs, exportable, no_xattr, optlen, devblk),
                _case(mode, bs, devblk, exportable, no_xattr, optlen, tree_basic(r, bs, xattrs=not no_xattr),
                      duid=r.choice([0, 1000]), dgid=r.choice([0, 50]), dmtime=r.choice([0, 1600000000, 4294967295]),
                      dperm=r.choice([0o755, 0o700])))
            k += 1
    # no files at all: no fragment table, empty data area; also without xattrs -> NO_XATTRS from the writer
    add("nofiles-export", _case(3, 4096, 4096, True, False, 0, tree_basic(r, 4096, xattrs=False, files=False)))
    add("nofiles-plain", _case(0, 4096, 4096, False, False, 4, tree_basic(r, 4096, xattrs=True, files=False)))
    add("nofiles-noxattr", _case(1, 4096, 4096, False, True, 0, tree_basic(r, 4096, xattrs=False, files=False)))
    add("empty", _case(3, 4096, 4096, True, False, 0, []))
    add("empty-noexport", _case(0, 1048576, 1024, False, True, 8, []))
    # files that never produce a fragment (DONT_FRAGMENT) / only fragments
    add("only-blocks", _case(3, 4096, 4096, True, False, 0,
                             [_ent("a", "f", extra="2:%d:1:4" % (4096 * 2 + 5)), _ent("b", "f", extra="3:9000:2:4")]))
    add("only-frags", _case(3, 4096, 4096, False, False, 0,
                            [_ent("a", "f", extra="2:100:1:0"), _ent("b", "f", extra="3:200:2:0"), _ent("c", "f", extra="1:50:3:0")]))
    # uncompressed fragment blocks (random data, store mode) vs compressed ones: UNCOMPRESSED_FRAGMENTS flag
    add("frag-uncompressed", _case(3, 4096, 4096, False, False, 0, [_ent("a", "f", extra="2:1000:1:0")]))
    add("frag-compressed", _case(3, 4096, 4096, False, False, 0, [_ent("a", "f", extra="3:1000:1:0")]))
    # refused block sizes: the model refuses as well
    for bs in (0, 2048, 12288, 2097152):
        add("refuse-bs%d" % bs, _case(0, bs, 4096, False, False, 0, []))
    # tables of more than one metadata block: > 1024 inodes (export), > 2048 ids, directory / inode tables of many
    # blocks; padding when bytes_used is a multiple of the device block size is exercised by devblk 1 / 2
    add("export-2blocks", _case(3, 4096, 4096, True, True, 0, tree_wide(r, 1100, 6)))
    add("ids-2blocks", _case(1, 4096, 4096, False, True, 0, tree_wide(r, 1030, 6, ids=True)))
    add("dir-multiblock", _case(3, 4096, 1, True, True, 0, tree_wide(r, 300, 120)))
    add("devblk2", _case(0, 4096, 2, False, True, 0, tree_wide(r, 3, 6)))
    if tier != "quick":
        # > 512 fragment blocks: fragment table of two metadata blocks
        add("frags-2blocks", _case(3, 4096, 4096, True, True, 0, tree_wide(r, 520, 6, files=4095)))
        add("export-3blocks-ids-3", _case(3, 8192, 4096, True, True, 0, tree_wide(r, 2100, 8, ids=True)))
    n_rand = 12 if tier == "quick" else 150
    for i in range(n_rand):
        bs = r.choice([4096, 4096, 8192, 32768])
        no_x = r.random() < 0.3
        add("random-%d" % i, _case(r.choice([0, 1, 3, 3]), bs, r.choice([1024, 4096, 4096, 65536, 777]), r.random() < 0.5, no_x,
                                  r.choice([0, 0, 4, 8]), tree_random(r, bs, no_x), dmtime=r.randrange(1 << 32)))
    return cases


# --------------------------------------------------------------------------
# (a) exact tie: running
# --------------------------------------------------------------------------

STACK = ["sh", "-c", 'ulimit -s unlimited 2>/dev/null || ulimit -s 4000000 2>/dev/null; exec "$0" "$@"']


def run_proc(argv, text, timeout=600):
    """the extracted code recurses over byte lists: the model driver needs a big stack"""
    try:
        r = subprocess.run(STACK + list(argv), input=text.encode(), stdout=subprocess.PIPE, stderr=subprocess.PIPE, env=ENV, timeout=timeout)
        return r.returncode, r.stdout.decode("latin-1").split("\n"), r.stderr.decode("latin-1")
    except subprocess.TimeoutExpired as e:
        return 124, (e.stdout or b"").decode("latin-1").split("\n"), "[timeout]"


SUPER_NAMES = ["magic", "inode_count", "mtime", "block_size", "frag_count", "comp_id", "block_log", "flags", "id_count",
               "vmaj", "vmin", "root_ref", "bytes_used", "id_start", "xattr_start", "inode_start", "dir_start",
               "frag_start", "export_start"]


def one_exact(h, drv, scratch, lab, line):
    res = dict(label=lab, line=line, err=None, model_in=None, impl=None, model=None, flags="", readback=None)
    rc, out, err = run_proc([h, scratch], line + "\n")
    out = [o for o in out if o]
    if rc != 0 or len(out) != 1 or " | " not in out[0]:
        res["err"] = "harness rc=%s: %s" % (rc, err[-1500:])
        return res
    mi, impl = out[0].split(" | ", 1)
    res["model_in"], res["impl"] = mi, impl
    if impl.startswith("-1 build") or impl.startswith("-1 readback"):
        res["model"] = "SKIP"
        return res
    rc2, mout, merr = run_proc([drv], mi + "\n")
    mout = [o for o in mout if o]
    if rc2 != 0 or len(mout) != 1:
        res["err"] = "model driver rc=%s: %s %s" % (rc2, merr[-300:], mout[:1])
        return res
    m, _, flags = mout[0].partition(" # ")
    res["model"], res["flags"] = m, flags
    p = impl.split(" ")
    if p[0] == "0" and len(p) == 3:
        t = mi.split(" ")
        # search oracle on the C output: valid_image + read_image_tree (toy decompressor) vs spec_tree
        sup = [int(x) for x in p[1].split(",")]
        want_tree = sup[1] * (sup[16] - sup[15]) <= EXACT_TREE_BUDGET
        rc3, rout, rerr = run_proc([drv], "C %s %s %d %s %s\n" % (t[1], t[5], 1 if want_tree else 0, p[2], " ".join(t[12:])))
        rout = [o for o in rout if o]
        res["readback"] = rout[0] if (rc3 == 0 and rout) else "DRIVER-FAILED rc=%s %s" % (rc3, rerr[-300:])
    return res


def exact_tie(ctx, h, drv, cases):
    t0 = time.time()
    scratch = os.path.join(ctx.scratch, "image-exact")
    os.makedirs(scratch, exist_ok=True)
    order = sorted(range(len(cases)), key=lambda i: -len(cases[i][1]))
    with ThreadPoolExecutor(max_workers=12) as ex:
        res = list(ex.map(lambda i: one_exact(h, drv, scratch, cases[i][0], cases[i][1]), order))
    st = dict(cases=len(res), exact_equal=0, accepted=0, refused=0, skipped=0, readback_ok=0, inodes=0, bytes=0,
              with_fragments=0, with_export=0, with_xattrs=0, with_options=0, multi_block_tables=0, padded=0)
    tie_bad, prop_bad = [], []
    for r in res:
        if r["err"]:
            ctx.violation("harness-crash:image", "whole-image harness/driver failed on case %s: %s" % (r["label"], r["err"][-600:]),
                          dict(kind="image-lines", lines=[r["line"]], stderr=r["err"]))
            continue
        if r["model"] == "SKIP":
            st["skipped"] += 1
            continue
        p, m = r["impl"].split(" "), r["model"].split(" ")
        if p[0] == "0":
            st["accepted"] += 1
            if r["impl"] == r["model"]:
                st["exact_equal"] += 1
            else:
                tie_bad.append(r)
            f = [int(x) for x in p[1].split(",")]
            sup = dict(zip(SUPER_NAMES, f))
            st["inodes"] += sup["inode_count"]
            st["bytes"] += len(p[2]) // 2
            none = 0xFFFFFFFFFFFFFFFF
            st["with_fragments"] += sup["frag_start"] != none
            st["with_export"] += sup["export_start"] != none
            st["with_xattrs"] += sup["xattr_start"] != none
            st["with_options"] += bool(sup["flags"] & 0x400)
            st["multi_block_tables"] += (sup["inode_count"] > 1024 and sup["export_start"] != none) or sup["id_count"] > 2048 \
                or sup["frag_count"] > 512
            st["padded"] += len(p[2]) // 2 != sup["bytes_used"]
            if r["readback"] and r["readback"].startswith("OK"):
                st["readback_ok"] += 1
            elif "r1" in r["flags"] and "f1" in r["flags"]:
                prop_bad.append(r)
        else:
            st["refused"] += 1
            if m[0] == "0":
                tie_bad.append(r)
            else:
                st["exact_equal"] += 1
    for r in prop_bad[:2]:
        ctx.violation("image-readback:" + r["readback"].split(" ")[0],
                      "the file written by sqfs_writer_init + sqfs_writer_finish fails the extracted validator / reader "
                      "specification (case %s): %s" % (r["label"], r["readback"][:300]),
                      dict(kind="image-lines", lines=[r["line"]], readback=r["readback"], impl=r["impl"][:3000]))
    if tie_bad:
        r = tie_bad[0]
        a, b = r["impl"].split(" "), r["model"].split(" ")
        what = "return code"
        if a[0] == b[0] == "0":
            fa, fb = a[1].split(","), b[1].split(",")
            diff = [SUPER_NAMES[i] for i in range(min(len(fa), len(fb), 19)) if fa[i] != fb[i]]
            if diff:
                what = "super block fields " + ", ".join("%s (C %s, model %s)" % (n, fa[SUPER_NAMES.index(n)], fb[SUPER_NAMES.index(n)])
                                                           for n in diff[:4])
            else:
                k = next((i for i in range(0, min(len(a[2]), len(b[2])), 2) if a[2][i:i + 2] != b[2][i:i + 2]),
                         min(len(a[2]), len(b[2])))
                what = "file bytes from offset %d (C %d bytes, model %d bytes)" % (k // 2, len(a[2]) // 2, len(b[2]) // 2)
        ctx.violation("tie:write-image",
                      "correspondence sqfs_writer_init/sqfs_writer_finish = Image.FinishModel.write_image broken on %d of %d "
                      "cases; first: %s, differs in %s (%s)"
                      % (len(tie_bad), len(res), r["label"], what,
                         "the C output fails the read-back, see other violation" if prop_bad else
                         "the extracted validator and tree reader accept the C output: no property failure found"),
                      dict(kind="image-lines", lines=[r["line"]], impl=r["impl"][:4000], model=r["model"][:4000],
                           correspondence="props/C03/h_image.c vs coq/Image/FinishModel.v write_image (exact bytes)"),
                      no_input=True)
    st["wall_s"] = round(time.time() - t0, 1)
    return st


# --------------------------------------------------------------------------
# (b) real images
# --------------------------------------------------------------------------

S_IFMT = 0o170000
TYPE_OF_FMT = {0o040000: "dir", 0o100000: "file", 0o120000: "slink", 0o060000: "blk", 0o020000: "chr", 0o010000: "fifo",
               0o140000: "sock"}


def expected_tree(spec):
    """path(bytes) -> dict(type, perm, uid, gid, [size|target|dev], mtime or None, group) of what the image must hold"""
    tar = spec["tool"] == "tar2sqfs"
    out = {b"": dict(type="dir", perm=0o755, uid=0, gid=0, mtime=None, implicit=True)}
    links = []
    for e in spec["entries"]:
        if tar and e["type"] == "sock":
            continue
        parts = e["path"].split("/")
        for i in range(1, len(parts)):
            p = "/".join(parts[:i]).encode()
            out.setdefault(p, dict(type="dir", perm=0o755, uid=0, gid=0, mtime=None, implicit=True))
        p = e["path"].encode()
        if e["type"] == "link":
            links.append((p, e["link"].encode()))
            continue
        n = dict(type=e["type"], perm=e["mode"] & 0o7777, uid=e["uid"], gid=e["gid"],
                 mtime=(1000000 + len(e["path"])) if tar else None)
        if e["type"] == "file":
            n["size"] = e["size"]
        elif e["type"] == "slink":
            n["target"] = e["target"].encode()
            n["perm"] = 0o777
        elif e["type"] in ("blk", "chr"):
            n["dev"] = os.makedev(e["dev"][0], e["dev"][1])
        if e["type"] == "dir" and p in out and not out[p].get("implicit"):
            continue
        out[p] = n
    return out, links


def parse_real(lines):
    """driver output of one R command -> dict"""
    r = dict(super=None, ids=None, frags=None, export=None, valid=None, clause=None, tree=None, nodes=[])
    for l in lines:
        if l.startswith("S "):
            r["super"] = None if l == "S NONE" else dict(zip(SUPER_NAMES, [int(x) for x in l[2:].split(",")]))
        elif l.startswith("I "):
            r["ids"] = None if l == "I NOREAD" else ([] if l == "I -" else [int(x) for x in l[2:].split(",")])
        elif l.startswith("F "):
            r["frags"] = None if l == "F NOREAD" else ([] if l == "F -" else [tuple(int(y) for y in x.split(":")) for x in l[2:].split(",")])
        elif l.startswith("X "):
            r["export"] = "NOREAD" if l == "X NOREAD" else (None if l == "X -" else [int(x) for x in l[2:].split(",")])
        elif l.startswith("V "):
            p = l.split()
            if p[1] != "SKIPPED":
                r["valid"], r["clause"] = p[1] == "1", int(p[2])
        elif l.startswith("T "):
            r["tree"] = l[2:]
        elif l.startswith("N "):
            p = l.split(" ")
            path = b"" if p[1] == "-" else b"/".join(bytes.fromhex(x) for x in p[1].split("/"))
            n = dict(path=path, mode=int(p[2]), uid=None if p[3] == "?" else int(p[3]), gid=None if p[4] == "?" else int(p[4]),
                     mtime=int(p[5]), ino=int(p[6]), nlink=int(p[7]), xattr=int(p[8]), kind=p[9], rest=p[10:])
            r["nodes"].append(n)
    return r


CLAUSES = {0: "-", 1: "super block", 2: "v_size", 3: "v_order", 4: "v_opts", 5: "v_meta", 6: "v_chain", 7: "v_tables",
           8: "v_inodes", 9: "v_root", 10: "v_dirs", 11: "inode table does not decode", 12: "table bounds"}


def check_real(spec, data, res, pyimg, pybad):
    """compare the extracted reader's results with the spec and with the Python decoder; returns list of problems"""
    bad = []
    if res["super"] is None:
        return ["extracted read_super rejects the image"]
    s = res["super"]
    ps = pyimg.super
    pymap = dict(magic="magic", inode_count="inode_count", mtime="mod_time", block_size="block_size", frag_count="frag_count",
                 comp_id="comp_id", block_log="block_log", flags="flags", id_count="id_count", vmaj="ver_major", vmin="ver_minor",
                 root_ref="root_ref", bytes_used="bytes_used", id_start="id_table_start", xattr_start="xattr_table_start",
                 inode_start="inode_table_start", dir_start="dir_table_start", frag_start="frag_table_start",
                 export_start="export_table_start")
    for k, pk in pymap.items():
        if pk in ps and ps[pk] != s[k]:
            bad.append("super field %s: extracted reader %d, python %d" % (k, s[k], ps[pk]))
    if s["block_size"] != spec["bs"]:
        bad.append("super block_size %d, option -b %d" % (s["block_size"], spec["bs"]))
    if res["ids"] is None or res["ids"] != list(pyimg.ids):
        bad.append("id table: extracted reader %r, python %r" % (res["ids"] and res["ids"][:5], list(pyimg.ids)[:5]))
    if res["frags"] is None or [tuple(f) for f in res["frags"]] != [tuple(f) for f in pyimg.frags]:
        bad.append("fragment table differs (extracted %r python %r)" % (res["frags"] and res["frags"][:3], pyimg.frags[:3]))
    if res["export"] == "NOREAD" or (res["export"] is None) != (pyimg.export is None) or \
            (res["export"] is not None and list(res["export"]) != list(pyimg.export)):
        bad.append("export table differs")
    if spec["exportable"] and res["export"] is None:
        bad.append("-e given but no export table")
    # validity verdicts
    if not res["valid"]:
        bad.append("extracted valid_image = false (first failing clause: %s)" % CLAUSES.get(res["clause"], res["clause"]))
    vfull = res.get("valid_full")
    if vfull is None and res["valid"] != (not pybad):
        bad.append("valid_image (%s) and the Python validator (%s) disagree"
                   % (res["valid"], "; ".join(pybad[:2]) if pybad else "no violation"))
    if vfull is not None and vfull != (not pybad):
        bad.append("valid_image_full (%s) and the Python validator (%s) disagree"
                   % (vfull, "; ".join(pybad[:2]) if pybad else "no violation"))
    if res["tree"] == "SKIPPED":
        return bad
    if res["tree"] == "NOREAD":
        bad.append("extracted read_image_tree cannot read the tree")
        return bad
    # the decoded tree against the input
    exp, links = expected_tree(spec)
    got = {n["path"]: n for n in res["nodes"]}
    if len(got) != len(res["nodes"]):
        bad.append("a path occurs twice in the decoded tree")
    want_paths = set(exp) | {p for p, _ in links}
    if set(got) != want_paths:
        miss = sorted(want_paths - set(got))[:3]
        extra = sorted(set(got) - want_paths)[:3]
        bad.append("decoded tree has other paths than the input: missing %r, unexpected %r" % (miss, extra))
        return bad
    for p, e in exp.items():
        g = got[p]
        typ = TYPE_OF_FMT.get(g["mode"] & S_IFMT)
        if typ != e["type"]:
            bad.append("%r: type %s, input %s" % (p, typ, e["type"]))
            continue
        if not e.get("implicit"):
            if g["mode"] & 0o7777 != e["perm"]:
                bad.append("%r: permissions %o, input %o" % (p, g["mode"] & 0o7777, e["perm"]))
            if g["uid"] != e["uid"] or g["gid"] != e["gid"]:
                bad.append("%r: owner %s:%s, input %d:%d" % (p, g["uid"], g["gid"], e["uid"], e["gid"]))
            if e["mtime"] is not None and g["mtime"] != e["mtime"]:
                bad.append("%r: mtime %d, input %d" % (p, g["mtime"], e["mtime"]))
        if e["type"] == "file" and int(g["rest"][1]) != e["size"]:
            bad.append("%r: file size %s, input %d" % (p, g["rest"][1], e["size"]))
        if e["type"] == "slink" and bytes.fromhex(g["rest"][0] if g["rest"][0] != "-" else "") != e["target"]:
            bad.append("%r: symlink target differs" % (p,))
        if e["type"] in ("blk", "chr") and int(g["rest"][0]) != e["dev"]:
            bad.append("%r: device number %s, input %d" % (p, g["rest"][0], e["dev"]))
    for p, tgt in links:
        t = tgt
        seen = 0
        while t not in exp and seen < 8:      # link to a link
            t = dict(links).get(t, t)
            seen += 1
        if t in got and got[p]["ino"] != got[t]["ino"]:
            bad.append("hard link %r -> %r: inode numbers %d / %d" % (p, tgt, got[p]["ino"], got[t]["ino"]))
    # the decoded tree against the independent Python decoder, field by field
    try:
        pw = pyimg.walk()
    except Exception as ex:  # noqa
        bad.append("python decoder cannot walk the image: %r" % (ex,))
        return bad
    if set(pw) != set(got):
        bad.append("python decoder sees other paths than the extracted reader")
        return bad
    T_NAME = {1: "d", 2: "f", 3: "l", 4: "b", 5: "c", 6: "p", 7: "s"}
    for p, n in pw.items():
        g = got[p]
        # the reader specification reports the full mode (type bits or'ed in), python the 12 permission bits
        pyv = (n.mode & 0o7777, n.uid, n.gid, n.mtime, n.ino, n.nlink, n.xattr_idx, T_NAME.get(n.type))
        gv = (g["mode"] & 0o7777, g["uid"], g["gid"], g["mtime"], g["ino"], g["nlink"], g["xattr"], g["kind"])
        if pyv != gv:
            bad.append("%r: extracted reader %r, python decoder %r" % (p, gv, pyv))
            continue
        if n.type == 2:
            fi = n.frag_idx
            words = ",".join(str(w) for w in n.block_sizes) if n.block_sizes else "-"
            pyf = [str(n.blocks_start), str(n.size), str(n.sparse or 0), str(fi), str(n.frag_off), words]
            if pyf != g["rest"]:
                bad.append("%r: file location: extracted %r, python %r" % (p, g["rest"], pyf))
        elif n.type == 1 and int(g["rest"][0]) != n.parent_ino:
            bad.append("%r: parent inode %s / %d" % (p, g["rest"][0], n.parent_ino))
    return bad[:12]


def real_job(args):
    """one packer run + extracted reader + python decoder (worker process)"""
    import shutil
    spec, tools, drv, d, budget = args[:5]
    drv_valid, index, tier = (args[5:] + (None, 0, "quick"))[:3]
    sys.path.insert(0, os.path.dirname(os.path.abspath(__file__)))
    import toolgen
    from vlib import sqfsimg as S
    import validate_ext as VE
    import valid_stage as VS
    t0 = time.time()
    out = dict(rc=None, bad=[], stats=None, tree_read=False, t=0.0, oracle=[], vfull=None)
    try:
        rc, err, data = toolgen.run_spec(spec, tools, d)
    except subprocess.TimeoutExpired:
        shutil.rmtree(d, ignore_errors=True)
        out["bad"] = ["packer timed out"]
        return out
    out["rc"] = rc
    if rc != 0 or data is None:
        out["bad"] = ["%s failed (rc=%d): %s" % (spec["tool"], rc, err[-300:])]
        shutil.rmtree(d, ignore_errors=True)
        return out
    try:
        pyimg = S.Image(data)
        pybad = VE.validate_ext(pyimg, spec["devblk"])
    except Exception as e:  # noqa
        pyimg, pybad = None, ["python decoder: %r" % (e,)]
    inodes = int.from_bytes(data[4:8], "little")
    itbl = int.from_bytes(data[72:80], "little") - int.from_bytes(data[64:72], "little")
    want_tree = inodes * max(itbl, 1) * 3 <= budget          # compressed size: the stream is about 3 times that
    vf = None
    if drv_valid:
        # valid_image_full (coq/ImgValid) implies valid_image: the R command leaves the verdict to this driver
        vf = VS.check_image(drv_valid, d, data, spec, pyimg, pybad, S, VE, index=index,
                            max_mutations=3 if tier == "quick" else 6, max_base_seconds=0.7 if tier == "quick" else 4.0)
        if vf["valid"] is None:
            vf = None
    rc2, lines, err2 = run_proc([drv], "R %s %d %d%s\n" % (os.path.join(d, "out.sqfs"), spec["devblk"], 1 if want_tree else 0,
                                                          " novalid" if vf else ""), timeout=900)
    if vf:
        # first_failure_full reports Image.ValidModel.first_failure (1 .. 12) when that is not 0
        lines = [("V %d %d" % (1 if (vf["clause"] == 0 or vf["clause"] >= 13) else 0, vf["clause"] if vf["clause"] <= 12 else 0))
                 if l == "V SKIPPED" else l for l in lines]
        out["vfull"] = dict(valid=vf["valid"], clause=vf["clause"], mutations=vf["mutations"], t=round(vf["t"], 2))
        out["oracle"] = vf["oracle_problems"]
    if rc2 != 0 or "END" not in lines:
        out["bad"] = ["extracted reader driver failed (rc=%s): %s" % (rc2, err2[-300:])]
    elif pyimg is None:
        res = parse_real(lines)
        out["bad"] = ["extracted valid_image = %s (first failing clause: %s); the python decoder rejects the image too (%s)"
                      % (res["valid"], CLAUSES.get(res["clause"], res["clause"]), pybad[0])] if not res["valid"] else \
                     ["the python decoder rejects the image (%s) but the extracted valid_image accepts it" % (pybad[0],)]
    else:
        res = parse_real(lines)
        res["valid_full"] = vf["valid"] if vf else None
        out["bad"] = (vf["problems"] if vf and res["valid"] else []) + check_real(spec, data, res, pyimg, pybad)
        out["tree_read"] = res["tree"] not in ("SKIPPED", "NOREAD", None)
        out["stats"] = dict(inodes=inodes, bytes=len(data), nodes=len(res["nodes"]), valid=bool(res["valid"]),
                            frags=len(res["frags"] or []), ids=len(res["ids"] or []), export=res["export"] not in (None, "NOREAD"),
                            xattrs=res["super"]["xattr_start"] != 0xFFFFFFFFFFFFFFFF if res["super"] else False)
    shutil.rmtree(d, ignore_errors=True)
    out["t"] = time.time() - t0
    return out


def real_specs(rnd, tier, toolgen):
    """moderate trees (the tree reader specification is quadratic) x all compressors x both tools"""
    specs = []
    k = rnd.randrange(1000)
    bss = [4096, 8192, 32768, 131072]
    devs = [4096, 1024, 8192, 65536]
    shapes = ["mixed", "random", "xattrs-small", "hardlinks-small", "wide-small", "empty", "bigids-small", "longnames-small"]
    comps = toolgen.COMPS
    for si, shape in enumerate(shapes):
        for ci, comp in enumerate(comps):
            if tier == "quick" and (si + ci + k) % 2 and shape != "mixed":
                continue
            base = shape.split("-")[0]
            tool = "tar2sqfs" if base == "hardlinks" or (base in ("mixed", "xattrs", "random") and (ci + k) % 2) else "gensquashfs"
            bs = bss[(si + ci + k) % len(bss)]
            spec = toolgen.gen_spec(rnd, base if not shape.endswith("-small") else "empty", tool, comp, bs,
                                    bool((si + ci + k) % 3 != 1), bool((si + 2 * ci + k) % 4 == 0), devs[(si + ci + k) % len(devs)])
            if shape.endswith("-small"):
                spec["shape"] = shape
                spec["entries"] = small_entries(random.Random(rnd.getrandbits(32)), base)
            specs.append(spec)
    if tier != "quick":
        for _ in range(60):
            specs.append(toolgen.gen_spec(rnd, "random", rnd.choice(["gensquashfs", "tar2sqfs"]), rnd.choice(comps), rnd.choice(bss),
                                          rnd.random() < 0.6, rnd.random() < 0.3, rnd.choice(devs)))
        for comp in comps:      # larger ones: validator on all, tree read where the budget allows
            for shape in ("wide", "manydirs", "xattrs", "hardlinks", "longnames", "bigids"):
                specs.append(toolgen.gen_spec(rnd, shape, "tar2sqfs" if shape == "hardlinks" else "gensquashfs", comp, 4096,
                                              True, False, 4096))
    return specs


def small_entries(r, base):
    """scaled-down variants of toolgen's shapes (same entry dict format)"""
    ents = []
    ids = [0, 1, 2, 1000, 65534, 4000000000]

    def add(path, typ, **kw):
        e = dict(path=path, type=typ, mode=kw.pop("mode", 0o644 if typ != "dir" else 0o755),
                 uid=kw.pop("uid", r.choice(ids)), gid=kw.pop("gid", r.choice(ids)))
        e.update(kw)
        ents.append(e)

    if base == "xattrs":
        add("x", "dir", xattrs={"user.dir": "on a directory"})
        for i in range(120):
            xa = {"user.k%d" % (i % 9): "v%d" % i}
            if i % 5 == 0:
                xa["user.long"] = "L" * 300
            if i % 7 == 0:
                xa["security.tag"] = "s%d" % (i % 3)
            add("x/f%04d" % i, r.choice(["file", "file", "slink", "fifo"]), kind="same", size=2, seed=i, target="t", xattrs=xa)
    elif base == "hardlinks":
        add("a", "dir")
        add("b", "dir")
        add("z", "dir")
        for i in range(150):
            add("a/f%05d" % i, "file", kind="same", size=r.choice([0, 4]), seed=i)
        for i in range(0, 150, 7):
            add("z/l%05d" % i, "link", link="a/f%05d" % i)
            add("b/m%05d" % i, "link", link="a/f%05d" % (149 - i))
        add("b/first", "link", link="z/l00000")
    elif base == "wide":
        for j, n in enumerate([0, 1, 2, 255, 256, 257]):
            d = "w%02d" % j
            add(d, "dir")
            for i in range(n):
                add("%s/%s%s" % (d, "e%04d" % i, "n" * ((i * 7) % 20)), "fifo", uid=0, gid=0)
    elif base == "bigids":
        add("i", "dir")
        for i in range(250):
            add("i/f%05d" % i, "file", kind="same", size=1, seed=i, uid=100000 + i, gid=200000 + 2 * i)
    elif base == "longnames":
        add("L", "dir")
        for i in range(270):
            add("L/%04d%s" % (i, "n" * (251 if i % 3 else 196)), "file", kind="same", size=r.choice([0, 3]), seed=i)
    return ents


def real_images(ctx, tools, drv, specs, tier, drv_valid=None):
    t0 = time.time()
    jobs = [(s, tools, drv, os.path.join(ctx.scratch, "image-real%04d" % i), TREE_BUDGET["quick" if tier == "quick" else "thorough"],
             drv_valid, i, tier)
            for i, s in enumerate(specs)]
    with ProcessPoolExecutor(max_workers=12) as ex:
        results = list(ex.map(real_job, jobs, chunksize=1))
    st = dict(images=len(specs), valid=0, trees_read=0, trees_skipped=0, nodes_compared=0, inodes=0, bytes=0,
              with_fragments=0, with_export=0, with_xattrs=0, images_with_problems=0,
              by_comp={}, by_tool={},
              valid_full=dict(images=0, accepted=0, mutated_images=0, mutations={}, rejected_by_clause={}, oracle_problems=0,
                              seconds=0.0))
    seen = set()
    oseen = set()
    for spec, r in zip(specs, results):
        vf = r.get("vfull")
        if vf:
            st["valid_full"]["images"] += 1
            st["valid_full"]["accepted"] += bool(vf["valid"])
            st["valid_full"]["seconds"] = round(st["valid_full"]["seconds"] + vf["t"], 2)
            for name, clause in vf["mutations"]:
                st["valid_full"]["mutated_images"] += 1
                st["valid_full"]["mutations"][name] = st["valid_full"]["mutations"].get(name, 0) + 1
                st["valid_full"]["rejected_by_clause"][str(clause)] = st["valid_full"]["rejected_by_clause"].get(str(clause), 0) + 1
        for o in r.get("oracle") or []:
            st["valid_full"]["oracle_problems"] += 1
            cls = re.sub(r"[^A-Za-z]+", "-", re.sub(r"0x[0-9a-fA-F]+|[0-9]+", "N", o))[:60].strip("-")
            sig = "valid-full-oracle:%s" % cls
            if sig in oseen or len(oseen) >= 3:
                continue
            oseen.add(sig)
            ctx.violation(sig, "valid_image_full stage (coq/ImgValid) on an image written by %s -c %s -b %d (%s tree): %s -- the "
                          "validators disagree or a mutated image is not rejected; no image of the implementation that violates "
                          "C03 was found" % (spec["tool"], spec["comp"], spec["bs"], spec["shape"], o),
                          dict(kind="image-real", spec=spec, problems=r.get("oracle")[:8],
                               correspondence="extracted ImgValid.valid_image_full = props/C03/validate_ext.py on real and mutated images"),
                          no_input=True)
        st["by_comp"][spec["comp"]] = st["by_comp"].get(spec["comp"], 0) + 1
        st["by_tool"][spec["tool"]] = st["by_tool"].get(spec["tool"], 0) + 1
        if r["stats"]:
            s = r["stats"]
            st["valid"] += s["valid"]
            st["inodes"] += s["inodes"]
            st["bytes"] += s["bytes"]
            st["nodes_compared"] += s["nodes"]
            st["with_fragments"] += s["frags"] > 0
            st["with_export"] += s["export"]
            st["with_xattrs"] += s["xattrs"]
            st["trees_read"] += r["tree_read"]
            st["trees_skipped"] += not r["tree_read"]
        if r["bad"]:
            st["images_with_problems"] += 1
            cls = re.sub(r"b?'[^']*'|b?\"[^\"]*\"", "X", r["bad"][0])
            cls = re.sub(r"0x[0-9a-fA-F]+|[0-9]+", "N", cls)
            cls = re.sub(r"[^A-Za-z]+", "-", cls)[:60].strip("-")
            sig = "image-reader:%s:%s" % (spec["comp"], cls)
            if sig in seen or len(seen) >= 5:
                continue
            seen.add(sig)
            ctx.violation(sig, "image written by %s -c %s -b %d%s%s (%s tree) read by the extracted reader specification / "
                          "validator: %s" % (spec["tool"], spec["comp"], spec["bs"], " -e" if spec["exportable"] else "",
                                            " -T" if spec["notail"] else "", spec["shape"], "; ".join(r["bad"][:3])),
                          dict(kind="image-real", spec=spec, problems=r["bad"][:12]))
    st["wall_s"] = round(time.time() - t0, 1)
    return st


# --------------------------------------------------------------------------

def build(B, core, info_asan, here):
    h = B.compile_harness(info_asan, [os.path.join(here, "h_image.c")], "c03_h_image",
                          extra=["-Wl,--wrap=sqfs_compressor_create"])
    drv = core.build_model_driver("C03image", "ExtractImage.v", os.path.join(here, "image_driver.ml"),
                                  stubs_c=os.path.join(here, "image_stubs.c"), cclibs=["-lz", "-llzma", "-llz4", "-lzstd"])
    return h, drv


def stage(ctx, h, drv, tools, toolgen, seed, tier, drv_valid=None):
    """both parts; returns the statistics dict"""
    rnd = random.Random(seed * 104729 + 11)
    cases = exact_cases(rnd, tier)
    specs = real_specs(rnd, tier, toolgen)
    with ThreadPoolExecutor(max_workers=2) as ex:
        fa = ex.submit(exact_tie, ctx, h, drv, cases)
        fb = ex.submit(real_images, ctx, tools, drv, specs, tier, drv_valid)
        a, b = fa.result(), fb.result()
    return dict(exact=a, real=b)
