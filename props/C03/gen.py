"""C03: regenerate coq/C03/GenC03.v from the working tree (constants that vlib/gen_constants.c does not
print: file-local #defines of dir_writer.c, the S_IF* values the code is compiled with, struct field offsets
of the directory records, writer flags).  Same idea as core.regen_constants; returns (changed, error)."""
import os
import re
import shutil
import subprocess
import tempfile

from vlib import build as B

DST = os.path.join(B.VERIF, "coq", "C03", "GenC03.v")

PROG = r"""
#include "config.h"
#include <stdio.h>
#include <stddef.h>
#include <sys/stat.h>
#include "compat.h"
#include "sqfs/super.h"
#include "sqfs/block.h"
#include "sqfs/dir.h"
#include "sqfs/inode.h"
#include "sqfs/error.h"
#include "sqfs/meta_writer.h"
#include "sqfs/dir_writer.h"
#define C(name) printf("Definition c_%s : N := %llu.\n", #name, (unsigned long long)(name))
#define OFF(t, f) printf("Definition off_%s_%s : N := %llu.\n", #t, #f, (unsigned long long)offsetof(t, f))
#define FSZ(t, f) printf("Definition fsz_%s_%s : N := %llu.\n", #t, #f, (unsigned long long)sizeof(((t *)0)->f))
int main(void)
{
	printf("(* GENERATED from the working tree by props/C03/gen.py -- do not edit *)\n");
	printf("From Coq Require Import NArith.\nLocal Open Scope N_scope.\n");
	printf("Definition c_DIR_INDEX_THRESHOLD : N := %llu.\n", (unsigned long long)(@DIT@));
	C(S_IFMT); C(S_IFSOCK); C(S_IFLNK); C(S_IFREG); C(S_IFBLK); C(S_IFDIR); C(S_IFCHR); C(S_IFIFO);
	C(SQFS_META_WRITER_KEEP_IN_MEMORY); C(SQFS_DIR_WRITER_CREATE_EXPORT_TABLE);
	OFF(sqfs_dir_header_t, count); OFF(sqfs_dir_header_t, start_block); OFF(sqfs_dir_header_t, inode_number);
	FSZ(sqfs_dir_header_t, count); FSZ(sqfs_dir_header_t, start_block); FSZ(sqfs_dir_header_t, inode_number);
	OFF(sqfs_dir_node_t, offset); OFF(sqfs_dir_node_t, inode_diff); OFF(sqfs_dir_node_t, type); OFF(sqfs_dir_node_t, size);
	FSZ(sqfs_dir_node_t, offset); FSZ(sqfs_dir_node_t, inode_diff); FSZ(sqfs_dir_node_t, type); FSZ(sqfs_dir_node_t, size);
	OFF(sqfs_dir_index_t, index); OFF(sqfs_dir_index_t, start_block); OFF(sqfs_dir_index_t, size);
	FSZ(sqfs_inode_dir_t, size); FSZ(sqfs_inode_dir_t, start_block); FSZ(sqfs_inode_dir_t, offset);
	FSZ(sqfs_inode_dir_ext_t, size); FSZ(sqfs_inode_dir_ext_t, start_block); FSZ(sqfs_inode_dir_ext_t, inodex_count);
	FSZ(sqfs_super_t, id_count); FSZ(sqfs_super_t, inode_count);
	return 0;
}
"""


def _macro(src, name, inc):
    r = subprocess.run(["gcc", "-E", "-dM", "-w"] + inc + [src], stdout=subprocess.PIPE, stderr=subprocess.PIPE, text=True)
    if r.returncode != 0:
        return None
    m = re.search(r"^#define\s+%s\s+(.*)$" % re.escape(name), r.stdout, re.M)
    return m.group(1).strip() if m else None


def regen():
    d = tempfile.mkdtemp(prefix="verif-c03gen.")
    try:
        shutil.copy(B.config_h_path(), os.path.join(d, "config.h"))      # may be vlib/config.h.fallback
        inc = ["-I" + os.path.join(B.REPO, "include"), "-I" + d, "-D_GNU_SOURCE"]
        dit = _macro(os.path.join(B.REPO, "lib/sqfs/src/dir_writer.c"), "DIR_INDEX_THRESHOLD", inc)
        if dit is None:
            return False, "DIR_INDEX_THRESHOLD is no longer a macro of lib/sqfs/src/dir_writer.c"
        src = os.path.join(d, "g.c")
        open(src, "w").write(PROG.replace("@DIT@", dit))
        exe = os.path.join(d, "g")
        r = subprocess.run(["gcc", "-w"] + inc + [src, "-o", exe], stdout=subprocess.PIPE, stderr=subprocess.STDOUT, text=True)
        if r.returncode != 0:
            return False, "props/C03/gen.py: generator does not compile against the current headers:\n" + r.stdout[-2000:]
        r = subprocess.run([exe], stdout=subprocess.PIPE, text=True)
        if r.returncode != 0:
            return False, "generator failed"
        txt = r.stdout
        old = open(DST).read() if os.path.exists(DST) else None
        if old != txt:
            os.makedirs(os.path.dirname(DST), exist_ok=True)
            open(DST, "w").write(txt)
            return True, None
        return False, None
    finally:
        shutil.rmtree(d, ignore_errors=True)


if __name__ == "__main__":
    print(regen())
