(* C03 valid_image_full stage: driver of the extracted coq/ImgValid/ValidFull.v.
     V <path> <devblk>     -> the extracted valid_image_full / first_failure_full on the image FILE (decompressor oracle =
                              system zlib / liblzma / liblz4 / libzstd through image_stubs.c: metadata blocks with capacity
                              8192, data and fragment blocks with the capacity the validator asks for):
                              R <0|1> <first failing clause> <comp id | -> *)
open Valid_model

external c_uncompress : int -> string -> int -> int * string = "c03img_uncompress"

let rec pos_of_int i = if i = 1 then XH else if i land 1 = 1 then XI (pos_of_int (i lsr 1)) else XO (pos_of_int (i lsr 1))
let n_of_int i = if i = 0 then N0 else Npos (pos_of_int i)
let rec int_of_pos = function XH -> 1 | XO p -> 2 * int_of_pos p | XI p -> 2 * int_of_pos p + 1
let int_of_n = function N0 -> 0 | Npos p -> int_of_pos p
let rec int_of_nat = function O -> 0 | S n -> 1 + int_of_nat n
let int_of_nat n = let rec go acc = function O -> acc | S m -> go (acc + 1) m in go 0 n

let byte_tbl = Array.init 256 n_of_int
let list_of_string s =
  let l = ref [] in
  for i = String.length s - 1 downto 0 do l := byte_tbl.(Char.code s.[i]) :: !l done;
  !l
let string_of_list l =
  let b = Buffer.create 8192 in
  List.iter (fun c -> Buffer.add_char b (Char.chr (int_of_n c land 255))) l;
  Buffer.contents b

let memo : (string * int, n list option) Hashtbl.t = Hashtbl.create 1024
let unc id cap (c : n list) : n list option =
  let s = string_of_list c in
  match Hashtbl.find_opt memo (s, cap) with
  | Some r -> r
  | None ->
    let (ret, out) = c_uncompress id s cap in
    let r = if ret > 0 then Some (list_of_string out) else None in
    Hashtbl.replace memo (s, cap) r;
    r

let read_file path =
  let ic = open_in_bin path in
  let n = in_channel_length ic in
  let s = really_input_string ic n in
  close_in ic;
  s

let () =
  try
    while true do
      let line = input_line stdin in
      (match List.filter (fun s -> s <> "") (String.split_on_char ' ' line) with
       | ["V"; path; devblk] ->
         (try
            Hashtbl.reset memo;
            let img = list_of_string (read_file path) in
            let dev = n_of_int (int_of_string devblk) in
            (match read_super img with
             | None -> print_string "R 0 1 -\n"
             | Some s ->
               let id = int_of_n s.s_comp_id in
               let mun = unc id 8192 in
               let dun raw cap = unc id (int_of_nat cap) raw in
               let v = valid_image_full mun dun dev img in
               Printf.printf "R %s %d %d\n" (if v then "1" else "0")
                 (if v then 0 else int_of_n (first_failure_full mun dun dev img)) id)
          with Sys_error m -> Printf.printf "E %s\n" m)
       | _ -> print_string "PARSE\n");
      flush stdout
    done
  with End_of_file -> ()
