"""C03: extensions of vlib.sqfsimg.Image.validate() (the tool-level oracle).

validate_ext(img) = the shared validator's findings (with its strict "compressed block must be *smaller*"
relaxed to the property's "not larger": lzma legitimately returns results of equal size) plus the invariants of
the property text that the shared validator does not look at:

* lookup-table metadata blocks (id / fragment / export / xattr-id tables) and fragment blocks: stored size
  <= uncompressed size, <= 8192 resp. block size;
* full layout accounting: [96, bytes_used) is tiled exactly by compressor options, data area, inode table,
  directory table and the lookup tables, every table area is a gap-free sequence of metadata blocks that ends
  exactly where the next section starts, every metadata block except the last of its area holds exactly 8192
  bytes; location lists point at consecutive blocks;
* data area: blocks of the files and fragment blocks lie inside [data start, inode_table_start);
* directory index entries: `index` is the listing offset of a header, `start` the directory-table offset of the
  metadata block that header starts in, the header is at offset (dir offset + index) mod 8192 in that block
  (what the kernel computes), entries ascending, first-name correct;
* every header's entries share the inode metadata block announced in the header and the inode is really there
  (already implied by the shared validator's inode-number comparison), the inode number delta wrap is sane;
* super block flags consistent with what is stored (fragments / export / xattr / compressor options /
  UNCOMPRESSED_* flags);
* id table non-empty, id/fragment/xattr indices in range, export table has exactly inode_count entries.
"""
import re
import struct

from vlib import sqfsimg as S

META = 8192
NOTBL = S.NOTBL


def _scan_meta_area(img, start, end, what, bad, full_except_last=True):
    """sequentially parse metadata blocks in [start, end); returns list of (pos, stored, uncompressed?, length)"""
    d = img.data
    pos = start
    out = []
    while pos < end:
        if pos + 2 > end:
            bad.append("%s: stray byte(s) before the next section at %d" % (what, pos))
            return out
        hdr = struct.unpack_from("<H", d, pos)[0]
        size = hdr & 0x7FFF
        unc = bool(hdr & 0x8000)
        if size > META:
            bad.append("%s: metadata block at %d has stored size %d > 8192" % (what, pos, size))
            return out
        if size == 0:
            bad.append("%s: empty metadata block at %d" % (what, pos))
            return out
        if pos + 2 + size > end:
            bad.append("%s: metadata block at %d (+%d) overruns the section end %d" % (what, pos, size, end))
            return out
        raw = d[pos + 2:pos + 2 + size]
        try:
            data = raw if unc else S.decompress(img.super["comp_id"], raw, META)
        except Exception as e:  # noqa
            bad.append("%s: metadata block at %d does not decompress: %s" % (what, pos, e))
            return out
        if len(data) > META:
            bad.append("%s: metadata block at %d expands to %d > 8192" % (what, pos, len(data)))
        if not unc and size > len(data):
            bad.append("%s: compressed metadata block at %d larger than its data (%d > %d)" % (what, pos, size, len(data)))
        out.append((pos, size, unc, len(data)))
        pos += 2 + size
    if full_except_last:
        for b in out[:-1]:
            if b[3] != META:
                bad.append("%s: metadata block at %d holds %d bytes but is not the last of its section" % (what, b[0], b[3]))
    return out


def _table_area(img, start, count, esz, what, lower, bad):
    """check a lookup table whose location list is at `start`: blocks consecutive, directly before the list.
    returns (first block position, end of location list)"""
    d = img.data
    total = count * esz
    nblk = (total + META - 1) // META
    locs = struct.unpack_from("<%dQ" % nblk, d, start) if nblk else ()
    end = start + 8 * nblk
    if not locs:
        return start, end
    blocks = _scan_meta_area(img, locs[0], start, what, bad)
    if [b[0] for b in blocks] != list(locs):
        bad.append("%s: location list %r does not match the blocks found %r" % (what, list(locs)[:4], [b[0] for b in blocks][:4]))
    if sum(b[3] for b in blocks) != total:
        bad.append("%s: blocks hold %d bytes, table needs %d" % (what, sum(b[3] for b in blocks), total))
    if locs[0] < lower:
        bad.append("%s: first block %d before the end of the previous section %d" % (what, locs[0], lower))
    return locs[0], end


def _dir_headers_with_pos(img, n):
    """re-read a directory listing recording the metadata position of every header:
    list of dict(pos=listing offset, blk, off, first=name)"""
    ms = img.dirs
    size = n.size - 3
    blk, off = n.dir_start, n.dir_off
    done = 0
    out = []
    while done < size:
        data, nxt = ms.block(blk)
        if off >= len(data):
            blk, off = nxt, off - len(data)
            continue
        hblk, hoff = blk, off
        h, blk, off = ms.read(blk, off, 12)
        count = struct.unpack_from("<I", h, 0)[0] + 1
        lp = done
        done += 12
        first = None
        for _ in range(count):
            e, blk, off = ms.read(blk, off, 8)
            nsz = struct.unpack_from("<H", e, 6)[0] + 1
            nm, blk, off = ms.read(blk, off, nsz)
            if first is None:
                first = nm
            done += 8 + nsz
        out.append(dict(pos=lp, blk=hblk, off=hoff, first=first, count=count))
    return out


def validate_ext(img, devblk=4096):
    s = img.super
    d = img.data
    bad = []
    for m in img.validate(devblk):
        mm = re.search(r"not smaller than its data \((\d+) >= (\d+)\)", m)
        if mm and int(mm.group(1)) == int(mm.group(2)):
            continue          # equal size is allowed by the format ("never exceeds")
        bad.append(m)
    if any(b.startswith("walk:") for b in bad):
        return bad
    flags = s["flags"]
    F_UNC_INODES, F_UNC_DATA, F_UNC_FRAGS, F_NO_FRAGS, F_ALWAYS_FRAGS = 0x1, 0x2, 0x8, 0x10, 0x20
    F_EXPORT, F_UNC_XATTRS, F_NO_XATTRS, F_COMP_OPT, F_UNC_IDS = 0x80, 0x100, 0x200, 0x400, 0x800

    # ---- section boundaries ----
    pos = 96
    if flags & F_COMP_OPT:
        if pos + 2 > len(d):
            bad.append("compressor options flag set but no room")
        else:
            hdr = struct.unpack_from("<H", d, pos)[0]
            if not hdr & 0x8000:
                bad.append("compressor options block not stored uncompressed")
            pos += 2 + (hdr & 0x7FFF)
    data_start = pos
    if s["comp_id"] == 5 and not flags & F_COMP_OPT:
        bad.append("lz4 image without compressor options")
    if s["inode_table_start"] < data_start:
        bad.append("inode table starts inside the super block / compressor options")
    # inode table and directory table: gap-free block sequences
    iblocks = _scan_meta_area(img, s["inode_table_start"], s["dir_table_start"], "inode table", bad)
    after_dir = [x for x in (s["frag_table_start"], s["export_table_start"], s["id_table_start"], s["xattr_table_start"])
                 if x != NOTBL]
    cur_end = None
    # lookup tables in the mandated order; each table's blocks start where the previous section ended
    tables = []
    if s["frag_table_start"] != NOTBL:
        tables.append(("fragment table", s["frag_table_start"], s["frag_count"], 16))
    if s["export_table_start"] != NOTBL:
        tables.append(("export table", s["export_table_start"], s["inode_count"], 8))
    tables.append(("id table", s["id_table_start"], s["id_count"], 4))
    firsts = []
    for what, start, count, esz in tables:
        if start == NOTBL or start + 8 * ((count * esz + META - 1) // META) > len(d):
            bad.append("%s out of bounds" % what)
            return bad
        nblk = (count * esz + META - 1) // META
        locs = struct.unpack_from("<%dQ" % nblk, d, start) if nblk else ()
        firsts.append((what, locs[0] if locs else start, start, count, esz))
    xattr_first = None
    if s["xattr_table_start"] != NOTBL:
        xattr_first = img.xattr_kv_start
    # directory table ends where the first following section's first block starts
    nxt = [f[1] for f in firsts] + ([xattr_first] if xattr_first is not None else []) + [s["bytes_used"]]
    dir_end = min(nxt)
    dblocks = _scan_meta_area(img, s["dir_table_start"], dir_end, "directory table", bad)
    lower = dir_end
    for what, first, start, count, esz in firsts:
        if first != lower:
            bad.append("%s: first block at %d, previous section ended at %d (gap or overlap)" % (what, first, lower))
        _, lower = _table_area(img, start, count, esz, what, lower, bad)
    if s["xattr_table_start"] != NOTBL:
        xs = s["xattr_table_start"]
        kv_start, count, _ = struct.unpack_from("<QII", d, xs)
        if kv_start != lower:
            bad.append("xattr kv area starts at %d, previous section ended at %d" % (kv_start, lower))
        nblk = (count * 16 + META - 1) // META
        locs = struct.unpack_from("<%dQ" % nblk, d, xs + 16) if nblk else ()
        id_first = locs[0] if locs else xs
        _scan_meta_area(img, kv_start, id_first, "xattr kv area", bad, full_except_last=True)
        idb = _scan_meta_area(img, id_first, xs, "xattr id table", bad)
        if [b[0] for b in idb] != list(locs):
            bad.append("xattr id table: location list does not match the blocks found")
        if sum(b[3] for b in idb) != count * 16:
            bad.append("xattr id table: blocks hold %d bytes, need %d" % (sum(b[3] for b in idb), count * 16))
        lower = xs + 16 + 8 * nblk
        if count == 0:
            bad.append("xattr table present but empty")
    if lower != s["bytes_used"]:
        bad.append("bytes_used %d but the last section ends at %d" % (s["bytes_used"], lower))

    # ---- flags vs. contents ----
    if bool(flags & F_NO_FRAGS) != (s["frag_table_start"] == NOTBL or s["frag_count"] == 0):
        bad.append("NO_FRAGMENTS flag inconsistent with the fragment table")
    if (s["frag_table_start"] == NOTBL) != (s["frag_count"] == 0):
        bad.append("fragment_entry_count %d inconsistent with fragment_table_start" % s["frag_count"])
    if bool(flags & F_EXPORT) != (s["export_table_start"] != NOTBL):
        bad.append("EXPORTABLE flag inconsistent with export_table_start")
    if (flags & F_NO_XATTRS) and s["xattr_table_start"] != NOTBL:
        bad.append("NO_XATTRS flag set but xattr table present")
    if (flags & F_UNC_INODES) and any(not b[2] for b in iblocks + dblocks):
        bad.append("UNCOMPRESSED_INODES flag set but a compressed inode/directory block exists")
    if s["id_count"] == 0:
        bad.append("id_count is 0")
    if s["id_table_start"] == NOTBL:
        bad.append("no id table")

    # ---- fragment blocks ----
    for i, (start, w, unused) in enumerate(img.frags):
        sz = w & 0xFFFFFF
        comp = not (w & (1 << 24))
        if start < data_start or start + sz > s["inode_table_start"]:
            bad.append("fragment block %d outside the data area" % i)
            continue
        if sz == 0:
            bad.append("fragment block %d is empty" % i)
        if comp:
            try:
                fb = S.decompress(s["comp_id"], d[start:start + sz], img.bs)
                if sz > len(fb):
                    bad.append("compressed fragment block %d larger than its data (%d > %d)" % (i, sz, len(fb)))
                if len(fb) > img.bs:
                    bad.append("fragment block %d expands beyond the block size" % i)
            except Exception as e:  # noqa
                bad.append("fragment block %d does not decompress: %s" % (i, e))
            if flags & F_UNC_FRAGS:
                bad.append("UNCOMPRESSED_FRAGMENTS flag set but fragment block %d is compressed" % i)
        if unused != 0:
            bad.append("fragment entry %d: unused field not 0" % i)

    # ---- per inode ----
    tree = img.walk()
    seen = set()
    for p, n in tree.items():
        if n.ref in seen:
            continue
        seen.add(n.ref)
        if n.xattr_idx is not None and n.xattr_idx != S.NOID and n.xattr_idx >= len(img.xattr_ids):
            bad.append("xattr index of %r out of range" % p)
        if n.type == S.T_FILE:
            for pos_, sz, comp, ln in img.file_blocks(n):
                if sz and pos_ < data_start:
                    bad.append("data block of %r before the data area" % p)
                if sz and comp and sz > ln:
                    bad.append("compressed data block of %r larger than its data (%d > %d)" % (p, sz, ln))
                if sz and comp and (flags & F_UNC_DATA):
                    bad.append("UNCOMPRESSED_DATA flag set but a block of %r is compressed" % p)
            if n.frag_idx != S.NOID:
                if n.frag_idx < len(img.frags):
                    tail = n.size % img.bs
                    if tail == 0:
                        bad.append("file %r has a fragment but its size is a multiple of the block size" % p)
            if (n.size or 0) >= img.bs or n.frag_idx == S.NOID:
                if n.size and n.blocks_start is not None and (n.blocks_start < data_start and any(x & 0xFFFFFF for x in n.block_sizes)):
                    bad.append("blocks_start of %r before the data area" % p)
        if n.type == S.T_DIR:
            if not n.ext and n.size > 0xFFFF:
                bad.append("basic directory inode with size > 65535")
            try:
                hdrs = _dir_headers_with_pos(img, n)
            except S.ParseError as e:
                bad.append("directory %r: %s" % (p, e))
                continue
            ents, hs = img.readdir(n)
            for h in hs:
                # reference inode number + delta must not wrap below 1 / above 2^32-1
                for e in h["entries"]:
                    v = h["ino"] + e["diff"]
                    if v < 1 or v > 0xFFFFFFFF:
                        bad.append("directory %r: inode number %d + delta %d out of range" % (p, h["ino"], e["diff"]))
            if n.index is not None:
                by_pos = {h["pos"]: h for h in hdrs}
                last = -1
                lastname = None
                for idx, sb, nm in n.index:
                    h = by_pos.get(idx)
                    if h is None:
                        continue       # reported by the shared validator
                    if sb != h["blk"]:
                        bad.append("directory %r: index entry for listing offset %d says block +%d, header is in block +%d"
                                   % (p, idx, sb, h["blk"]))
                    if (n.dir_off + idx) % META != h["off"] and not (h["off"] == 0 and False):
                        bad.append("directory %r: header at listing offset %d sits at block offset %d, kernel computes %d"
                                   % (p, idx, h["off"], (n.dir_off + idx) % META))
                    if idx <= last:
                        bad.append("directory %r: index entries not ascending" % (p,))
                    if lastname is not None and not lastname < nm:
                        bad.append("directory %r: index names not ascending" % (p,))
                    last, lastname = idx, nm
            # the kernel's offset arithmetic needs every directory metadata block before the last to be full:
            # checked globally by _scan_meta_area(full_except_last)
    if img.export is not None and len(img.export) != s["inode_count"]:
        bad.append("export table has %d entries, inode_count %d" % (len(img.export), s["inode_count"]))
    if img.export is not None:
        for ino, ref in enumerate(img.export, 1):
            if ref == 0xFFFFFFFFFFFFFFFF:
                bad.append("export table entry %d unset" % ino)
    return bad


def stats(img):
    """measured coverage of one image (for the evidence file)"""
    st = dict(inodes=0, dirs=0, headers=0, headers_256=0, max_abs_delta=0, index_entries=0, ext_dirs=0,
              dirs_over_64k=0, files=0, data_blocks=0, frag_blocks=len(img.frags), xattr_sets=len(img.xattr_ids),
              ids=len(img.ids), inode_meta_blocks=0, dir_meta_blocks=0, multi_block_runsplit=0)
    tree = img.walk()
    seen = set()
    for p, n in tree.items():
        if n.ref in seen:
            continue
        seen.add(n.ref)
        st["inodes"] += 1
        if n.type == S.T_DIR:
            st["dirs"] += 1
            ents, hs = img.readdir(n)
            st["headers"] += len(hs)
            for h in hs:
                if h["count"] == 256:
                    st["headers_256"] += 1
                for e in h["entries"]:
                    st["max_abs_delta"] = max(st["max_abs_delta"], abs(e["diff"]))
            for a, b in zip(hs, hs[1:]):
                if a["start"] != b["start"]:
                    st["multi_block_runsplit"] += 1
            if n.ext:
                st["ext_dirs"] += 1
            if n.index:
                st["index_entries"] += len(n.index)
            if n.size > 65535:
                st["dirs_over_64k"] += 1
        elif n.type == S.T_FILE:
            st["files"] += 1
            st["data_blocks"] += len(n.block_sizes)
    st["inode_meta_blocks"] = len(img.inodes.blocks_seen)
    st["dir_meta_blocks"] = len(img.dirs.blocks_seen)
    return st
