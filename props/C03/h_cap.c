/* C03 field-capacity harness: drives the working tree's id table (sqfs_id_table_id_to_index N times with N distinct
 * ids, then sqfs_id_table_write through the real sqfs_write_table / meta writer) up to and beyond the capacity of the
 * 16-bit fields that refer to it (sqfs_super_t.id_count, sqfs_inode_t.uid_idx / gid_idx), on an in-memory file with a
 * compressor that never compresses.
 *
 *   usage: h_cap <id0> <stride> <maxn> <checkpoint>...      (checkpoints ascending)
 *
 * Ids id0, id0+stride, ... are offered one after the other until one is refused or <maxn> were accepted.  Whenever the
 * number of accepted ids reaches a checkpoint (and once more at the end: "final"), the table is written to a fresh
 * file and one line is printed:
 *
 *   W <accepted> <last_index_returned> <ret_write> <super.id_count> <super.id_table_start> <file_size> <hex of the file>
 *
 * and finally
 *
 *   L <accepted> <ret of the refused call or 0> <asked>
 *   Z <sizeof id_count> <sizeof uid_idx> <sizeof gid_idx>      (first line)
 *
 * The hex dump is decoded by props/C03/cap_stage.py (independent of the library).
 */
#include "config.h"
#include "sqfs/id_table.h"
#include "sqfs/compressor.h"
#include "sqfs/super.h"
#include "sqfs/inode.h"
#include "sqfs/table.h"
#include "sqfs/error.h"
#include "sqfs/io.h"

#include <stdio.h>
#include <stdlib.h>
#include <string.h>

typedef struct {
	sqfs_file_t base;
	unsigned char *data;
	size_t size, cap;
} memfile_t;

static int mf_read_at(sqfs_file_t *f, sqfs_u64 off, void *buf, size_t size)
{
	memfile_t *m = (memfile_t *)f;
	if (off + size > m->size) return SQFS_ERROR_OUT_OF_BOUNDS;
	memcpy(buf, m->data + off, size);
	return 0;
}

static int mf_write_at(sqfs_file_t *f, sqfs_u64 off, const void *buf, size_t size)
{
	memfile_t *m = (memfile_t *)f;
	if (off + size > m->cap) {
		size_t nc = (off + size) * 2 + 4096;
		m->data = realloc(m->data, nc);
		memset(m->data + m->cap, 0, nc - m->cap);
		m->cap = nc;
	}
	memcpy(m->data + off, buf, size);
	if (off + size > m->size) m->size = off + size;
	return 0;
}

static sqfs_u64 mf_get_size(const sqfs_file_t *f) { return ((const memfile_t *)f)->size; }
static int mf_truncate(sqfs_file_t *f, sqfs_u64 size) { ((memfile_t *)f)->size = size; return 0; }
static const char *mf_name(sqfs_file_t *f) { (void)f; return "mem"; }
static void mf_destroy(sqfs_object_t *o) { memfile_t *m = (memfile_t *)o; free(m->data); free(m); }

static memfile_t *memfile_new(void)
{
	memfile_t *m = calloc(1, sizeof(*m));
	sqfs_object_init(m, mf_destroy, NULL);
	m->base.read_at = mf_read_at;
	m->base.write_at = mf_write_at;
	m->base.get_size = mf_get_size;
	m->base.truncate = mf_truncate;
	m->base.get_filename = mf_name;
	return m;
}

static sqfs_s32 never_block(sqfs_compressor_t *c, const sqfs_u8 *in, sqfs_u32 size, sqfs_u8 *out, sqfs_u32 outsize)
{
	(void)c; (void)in; (void)size; (void)out; (void)outsize;
	return 0;
}

static void cmp_destroy(sqfs_object_t *o) { free(o); }

static sqfs_compressor_t *never_new(void)
{
	sqfs_compressor_t *c = calloc(1, sizeof(*c));
	sqfs_object_init(c, cmp_destroy, NULL);
	c->do_block = never_block;
	return c;
}

static void dump(sqfs_id_table_t *tbl, unsigned long accepted, unsigned long last_idx)
{
	memfile_t *m = memfile_new();
	sqfs_compressor_t *cmp = never_new();
	sqfs_super_t super;
	size_t i;
	int ret;

	memset(&super, 0, sizeof(super));
	ret = sqfs_id_table_write(tbl, (sqfs_file_t *)m, &super, cmp);
	printf("W %lu %lu %d %lu %llu %lu ", accepted, last_idx, ret, (unsigned long)super.id_count,
	       (unsigned long long)super.id_table_start, (unsigned long)m->size);
	if (m->size == 0)
		fputs("-", stdout);
	for (i = 0; i < m->size; ++i)
		printf("%02x", m->data[i]);
	fputs("\n", stdout);
	sqfs_drop(cmp);
	sqfs_drop(m);
}

int main(int argc, char **argv)
{
	unsigned long id0, stride, maxn, n = 0, last_idx = 0, asked = 0;
	sqfs_id_table_t *tbl;
	int cp = 4, ret = 0, dumped_at_n = 0;
	sqfs_u16 idx;

	if (argc < 4)
		return 2;
	id0 = strtoul(argv[1], NULL, 10);
	stride = strtoul(argv[2], NULL, 10);
	maxn = strtoul(argv[3], NULL, 10);
	tbl = sqfs_id_table_create(0);
	if (tbl == NULL)
		return 3;
	printf("Z %lu %lu %lu\n", (unsigned long)sizeof(((sqfs_super_t *)0)->id_count),
	       (unsigned long)sizeof(((sqfs_inode_t *)0)->uid_idx), (unsigned long)sizeof(((sqfs_inode_t *)0)->gid_idx));

	while (n < maxn) {
		++asked;
		ret = sqfs_id_table_id_to_index(tbl, (sqfs_u32)(id0 + n * stride), &idx);
		if (ret != 0)
			break;
		last_idx = idx;
		++n;
		dumped_at_n = 0;
		while (cp < argc && strtoul(argv[cp], NULL, 10) < n)
			++cp;
		if (cp < argc && strtoul(argv[cp], NULL, 10) == n) {
			dump(tbl, n, last_idx);
			dumped_at_n = 1;
			++cp;
		}
	}
	if (!dumped_at_n && n > 0)
		dump(tbl, n, last_idx);
	printf("L %lu %d %lu\n", n, ret, asked);
	sqfs_drop(tbl);
	return 0;
}
