"""C03 — every image written by gensquashfs / tar2sqfs satisfies the on-disk invariants other readers rely on.

Theorems: coq/Properties_C03.v (meta writer, directory writer, lookup tables, super block, padding, inode
numbering; compressor = Section oracle with the contract of include/sqfs/compressor.h).

Tie (exact): extracted model (props/C03/driver.ml) vs. the working tree's meta_writer.c / dir_writer.c /
write_table.c / super.c / write_super.c driven by props/C03/h_dirmeta.c on an in-memory file with a toy
compressor implemented identically in Gallina and C; cases aimed at every branch boundary of the models.
The oracle contract is re-evaluated on the five real back ends by props/C03/h_comp.c.

Search: (a) an independent Python evaluation of the property on the C output of every component case
(cases.py: EVAL), (b) real gensquashfs / tar2sqfs on generated trees x all compressors x block sizes x -e / -T /
-B, every image checked by validate_ext (vlib.sqfsimg.Image.validate + props/C03/validate_ext.py).

Whole image (coq/Image, props/C03/image_stage.py): exact tie of write_image against the real sqfs_writer_init + sqfs_writer_finish,
extracted valid_image + reader specification on the C output and on real images.
Xattr section (coq/ImgXattr, props/C03/xattr_stage.py): exact tie of the byte-level flush model against the real
sqfs_xattr_writer_flush, extracted xattr_tail / v_xattr / reader specification on the C bytes and on gensquashfs -A images with
more than 512 sets.  Both stages run in background threads beside the component tie, the compressor contract and the tool search."""
import importlib.util
import json
import os
import random
import re
import shutil
import subprocess
import sys
import time
from concurrent.futures import ProcessPoolExecutor, ThreadPoolExecutor

from vlib import build as B
from vlib import core

HERE = os.path.dirname(os.path.abspath(__file__))
LEVEL = "proof"
if HERE not in sys.path:
    sys.path.insert(0, HERE)


def _load(name):
    spec = importlib.util.spec_from_file_location("c03_" + name, os.path.join(HERE, name + ".py"))
    mod = importlib.util.module_from_spec(spec)
    sys.modules["c03_" + name] = mod
    spec.loader.exec_module(mod)
    return mod


gen = _load("gen")
cases_mod = _load("cases")
validate_ext = _load("validate_ext")
toolgen = _load("toolgen")
image_stage = _load("image_stage")       # whole-image stage (coq/Image): see props/C03/image_stage.py
xattr_stage = _load("xattr_stage")       # xattr section (coq/ImgXattr): see props/C03/xattr_stage.py
valid_stage = _load("valid_stage")       # valid_image_full (coq/ImgValid): see props/C03/valid_stage.py
cap_stage = _load("cap_stage")           # field capacity boundaries (id table at 65535 / 65536 / 65537 ids): see props/C03/cap_stage.py

ENV = dict(os.environ, ASAN_OPTIONS="detect_leaks=0")
COMP_NAME = {1: "gzip", 2: "lzma", 4: "xz", 5: "lz4", 6: "zstd"}


# --------------------------------------------------------------------------
# component tie
# --------------------------------------------------------------------------

def _run_chunk(exe, text):
    r = subprocess.run([exe], input=text.encode(), stdout=subprocess.PIPE, stderr=subprocess.PIPE, env=ENV)
    return r.returncode, r.stdout.decode("utf-8", "replace").split("\n"), r.stderr.decode("utf-8", "replace")


def run_cases(exe, cases, nchunks=12):
    """run the command scripts of `cases`; returns per-case output line lists (None where the process died)"""
    chunks = [[] for _ in range(nchunks)]
    order = sorted(range(len(cases)), key=lambda i: -sum(len(c) for c in cases[i].cmds))
    load = [0] * nchunks
    for i in order:                       # greedy balancing by input size
        k = load.index(min(load))
        chunks[k].append(i)
        load[k] += sum(len(c) for c in cases[i].cmds)
    results = [None] * len(cases)
    errs = []

    def work(idx):
        if not idx:
            return
        text = "\n".join("\n".join(cases[i].cmds) for i in idx) + "\n"
        rc, lines, err = _run_chunk(exe, text)
        k = 0
        for i in idx:
            n = len(cases[i].cmds)
            out = lines[k:k + n]
            k += n
            if len(out) == n and all(o != "" for o in out):
                results[i] = out
            else:
                results[i] = None
        if rc != 0:
            errs.append((rc, err[-1500:], idx))

    with ThreadPoolExecutor(max_workers=nchunks) as ex:
        list(ex.map(work, chunks))
    return results, errs


def first_diff(a, b):
    for i, (x, y) in enumerate(zip(a, b)):
        if x != y:
            return i
    return min(len(a), len(b))


def component_tie(ctx, h, drv, cases):
    t0 = time.time()
    out_c, err_c = run_cases(h, cases)
    if drv:
        out_m, err_m = run_cases(drv, cases)
    else:                                  # no model: the property oracle on the C output still runs
        out_m, err_m = list(out_c), []
    ctx.log("component tie: %d cases, C+model in %.1fs" % (len(cases), time.time() - t0))
    tie_bad = []
    prop_bad = []
    kinds = {}
    nontriv = 0
    stats = dict(dirs=0, dirs_multi_header=0, dirs_ext=0, dirs_basic=0, index_entries=0,
                 meta_multi_block=0, refused_entries=0)
    for rc, err, idx in err_c:
        c = cases[idx[0]]
        ctx.violation("harness-crash", "component harness died (rc=%d): %s" % (rc, err[-500:]),
                      dict(kind="component", case=c.to_json(), stderr=err), no_input=False)
    for rc, err, idx in err_m:
        ctx.violation("model-driver-crash", "model driver died (rc=%d): %s" % (rc, err[-300:]),
                      dict(kind="component", case=cases[idx[0]].to_json()), no_input=True)
    for i, c in enumerate(cases):
        kinds[c.kind] = kinds.get(c.kind, 0) + 1
        oc, om = out_c[i], out_m[i]
        if oc is None:
            continue
        if om is None or oc != om:
            k = first_diff(oc, om or [])
            tie_bad.append((c, k, oc[k][:400] if k < len(oc) else "", (om[k][:400] if om and k < len(om) else "<none>")))
        try:
            pr = cases_mod.EVAL[c.kind](c, oc)
        except Exception as e:  # the oracle could not even decode the output: that is a finding about the output
            pr = ["oracle could not decode the implementation's output: %r" % (e,)]
        if pr:
            prop_bad.append((c, pr))
        # measured coverage
        if c.kind == "dir":
            for cmd, o in zip(c.cmds, oc):
                if cmd[0] == "i":
                    p = o.split()
                    stats["dirs"] += 1
                    if p[1] == "8":
                        stats["dirs_ext"] += 1
                        stats["index_entries"] += len(p) - 9
                        if len(p) - 9 > 1:
                            stats["dirs_multi_header"] += 1
                    else:
                        stats["dirs_basic"] += 1
                elif cmd[0] == "n" and o != "n 0":
                    stats["refused_entries"] += 1
            nontriv += 1
        elif c.kind == "meta":
            last = oc[-1].split()
            if int(last[1]) > 8194:
                stats["meta_multi_block"] += 1
                nontriv += 1
        else:
            nontriv += 1
    for c, pr in prop_bad[:3]:
        sig = "component-property:%s:%s" % (c.kind, re.sub(r"[0-9]+", "N", pr[0])[:60])
        ctx.violation(sig, "C03 violated by the implementation on a %s-writer case: %s" % (c.kind, "; ".join(pr[:3])),
                      dict(kind="component", case=c.to_json(), problems=pr[:10]))
    if tie_bad and not prop_bad:
        c, k, lc, lm = tie_bad[0]
        ctx.violation("tie-%s" % c.kind,
                      "correspondence model vs C broken on a %s case at command %r: impl=%s model=%s "
                      "(the property oracle holds on the implementation output of all %d component cases)"
                      % (c.kind, c.cmds[k][:60] if k < len(c.cmds) else "?", lc[:160], lm[:160], len(cases)),
                      dict(kind="component", case=c.to_json(), command_index=k, impl=lc, model=lm,
                           correspondence="props/C03: MetaModel/DirModel/TableModel = meta_writer.c/dir_writer.c/"
                                          "write_table.c/super.c (exact bytes, toy compressor)",
                           other_mismatches=len(tie_bad)),
                      no_input=True)
    return dict(cases=len(cases), kinds=kinds, mismatches=len(tie_bad), property_failures=len(prop_bad),
                nontrivial=nontriv, stats=stats)


# --------------------------------------------------------------------------
# compressor contract on the real back ends
# --------------------------------------------------------------------------

def comp_lines(rnd, tier):
    lines = []
    cfgs = [(1, 0), (2, 0), (4, 0), (5, 0), (5, 1), (6, 0)]      # (id, flags); lz4 flag 1 = HC
    meta_sizes = [1, 2, 3, 4, 5, 8, 12, 13, 16, 20, 32, 64, 100, 500, 1000, 4000, 8000, 8191, 8192]
    kinds = [0, 1, 2, 3, 4, 5]
    for cid, fl in cfgs:
        for bs in ((131072,) if tier == "quick" else (4096, 131072, 1048576)):
            for sz in meta_sizes:
                for k in kinds:
                    lines.append("c %d %d %d 8192 %d %d %d" % (cid, fl, bs, k, sz, rnd.getrandbits(16)))
        dbs = (4096, 32768) if tier == "quick" else (4096, 8192, 65536, 131072, 1048576)
        for bs in dbs:
            for sz in sorted({1, 7, 100, bs // 2, bs - 1, bs}):
                for k in (kinds if tier != "quick" else (0, 1, 2, 3)):
                    lines.append("c %d %d %d %d %d %d %d" % (cid, fl, bs, bs, k, sz, rnd.getrandbits(16)))
        if tier != "quick":
            for _ in range(300):
                bs = rnd.choice([4096, 16384, 131072])
                outsz = rnd.choice([8192, bs])
                sz = rnd.randint(1, min(outsz, 8192 if outsz == 8192 else bs))
                lines.append("c %d %d %d %d %d %d %d" % (cid, fl, bs, outsz, rnd.choice(kinds), sz, rnd.getrandbits(16)))
    return lines


def comp_contract(ctx, hc, lines):
    n = 16
    chunks = [lines[i::n] for i in range(n)]
    outs = []

    def work(ch):
        if not ch:
            return []
        rc, out, err = _run_chunk(hc, "\n".join(ch) + "\n")
        if rc != 0:
            outs.append(("CRASH", err[-800:], ch))
        return [o for o in out if o]

    with ThreadPoolExecutor(max_workers=n) as ex:
        res = list(ex.map(work, chunks))
    bad = {}
    total = 0
    shrunk = 0
    for r in res:
        for l in r:
            p = l.split()
            total += 1
            size = int(p[6])
            ret = p[8][4:]
            rt = p[9][3:]
            cid = int(p[1])
            try:
                reti = int(ret)
            except ValueError:
                bad.setdefault(("create", cid), []).append(l)
                continue
            if reti < 0:
                bad.setdefault(("error", cid), []).append(l)
            elif reti > 0:
                shrunk += 1
                if reti > size:
                    bad.setdefault(("larger", cid), []).append(l)
                elif rt != "1":
                    bad.setdefault(("roundtrip", cid), []).append(l)
    for o in outs:
        ctx.violation("compressor-harness-crash", "h_comp died: " + o[1][-300:], dict(kind="comp", lines=o[2][:50]))
    for (what, cid), ls in sorted(bad.items()):
        name = COMP_NAME.get(cid, str(cid))
        if what == "larger":
            sig = "compressor-contract:result-larger-than-input:%s" % name
            msg = ("%s back end: do_block returned a result larger than its input (%d of %d calls), e.g. %s -- the "
                   "writers store it as a 'compressed' block that is larger than its data" % (name, len(ls), total, ls[0]))
        elif what == "roundtrip":
            sig = "compressor-contract:roundtrip:%s" % name
            msg = "%s back end: uncompress(compress(x)) != x, e.g. %s" % (name, ls[0])
        elif what == "error":
            sig = "compressor-contract:error:%s" % name
            msg = "%s back end: do_block failed on a legal input, e.g. %s" % (name, ls[0])
        else:
            sig = "compressor-contract:create:%s" % name
            msg = "%s back end: compressor could not be created: %s" % (name, ls[0])
        ctx.violation(sig, msg, dict(kind="comp", lines=[" ".join(x.split()[:8]) for x in ls[:20]], outputs=ls[:20]))
    return dict(calls=total, compressed_results=shrunk, contract_breaches=sum(len(v) for v in bad.values()))


# --------------------------------------------------------------------------
# tool level search oracle
# --------------------------------------------------------------------------

def classify(msg):
    m = re.sub(r"b?'[^']*'|b?\"[^\"]*\"", "X", msg)
    m = re.sub(r"0x[0-9a-fA-F]+|[0-9]+", "N", m)
    return re.sub(r"[^A-Za-z]+", "-", m)[:70].strip("-")


def numbering_tie(ctx, drv, specs, results):
    """inode numbers of the image = NumModel.numbering on the tree (specs without hard links)"""
    todo = []
    for spec, r in zip(specs, results):
        if r.get("inos") and not r["bad"]:
            s, paths = toolgen.encode_tree(toolgen.tree_of_spec(spec))
            todo.append((spec, r, s, paths))
    if not todo:
        return dict(images=0, nodes=0, mismatches=0)
    rc, out, err = _run_chunk(drv, "".join("N %s\n" % t[2] for t in todo))
    bad = 0
    nodes = 0
    for (spec, r, s, paths), line in zip(todo, out):
        model = {}
        for w in line.split()[1:]:
            p, n = w.rsplit(":", 1)
            ip = tuple(int(x) for x in p.split(".")) if p else ()
            model[b"/".join(paths[ip])] = int(n)
        nodes += len(model)
        if model != r["inos"]:
            bad += 1
            if bad == 1:
                diff = [(k, model.get(k), r["inos"].get(k)) for k in sorted(set(model) | set(r["inos"]))
                        if model.get(k) != r["inos"].get(k)][:5]
                ctx.violation("tie-inode-numbering",
                              "correspondence NumModel.numbering vs fstree_post_process broken (%s, %s tree): "
                              "path, model, image: %r (the image passes the validator: numbers are still dense and "
                              "children precede parents as far as the validator can tell)" % (spec["tool"], spec["shape"], diff),
                              dict(kind="tool", spec=spec, differences=[(k.decode("latin-1"), a, b) for k, a, b in diff],
                                   correspondence="coq/C03/NumModel.v numbering = inode numbers in the image"),
                              no_input=True)
    return dict(images=len(todo), nodes=nodes, mismatches=bad)


def tool_search(ctx, tools, specs, drv=None):
    jobs = [(s, tools, os.path.join(ctx.scratch, "img%04d" % i)) for i, s in enumerate(specs)]
    t0 = time.time()
    with ProcessPoolExecutor(max_workers=12) as ex:
        results = list(ex.map(toolgen.job, jobs, chunksize=1))
    ctx.log("tool search: %d images in %.1fs" % (len(specs), time.time() - t0))
    agg = {}
    seen = set()
    nviol = 0
    for spec, r in zip(specs, results):
        if r["stats"]:
            for k, v in r["stats"].items():
                agg[k] = max(agg.get(k, 0), v) if k.startswith("max") else agg.get(k, 0) + v
        for b in r["bad"]:
            cls = classify(b)
            sig = "image-invariant:%s:%s" % (spec["comp"], cls)
            if sig in seen:
                continue
            seen.add(sig)
            nviol += 1
            if nviol <= 6:
                ctx.violation(sig, "image written by %s -c %s -b %d%s%s (%s tree) violates: %s"
                              % (spec["tool"], spec["comp"], spec["bs"], " -e" if spec["exportable"] else "",
                                 " -T" if spec["notail"] else "", spec["shape"], b),
                              dict(kind="tool", spec=spec, violations=r["bad"][:20]))
    numbering = numbering_tie(ctx, drv, specs, results) if drv else None
    return dict(images=len(specs), images_with_violations=sum(1 for r in results if r["bad"]), totals=agg,
                numbering_tie=numbering,
                by_tool={t: sum(1 for s in specs if s["tool"] == t) for t in ("gensquashfs", "tar2sqfs")},
                by_comp={c: sum(1 for s in specs if s["comp"] == c) for c in toolgen.COMPS})


# --------------------------------------------------------------------------

def run(ctx):
    state = {}
    try:
        _run(ctx, state)
    finally:
        # a run against a scratch tree (VERIF_REPO) must not leave that tree's probed constants in the shared coq/ directory
        if state.get("cap_saved") and os.path.realpath(B.REPO) != "/repo":
            with core.Lock("coq"):
                cap_stage.restore(state["cap_saved"])
            ctx.log("GenC03Cap.v of the unchanged tree restored")


def _run(ctx, state):
    ctx.log("proof obligations checked; building harnesses and model drivers")
    changed, err = gen.regen()
    if err:
        ctx.proof_broken.append("C03/GenC03.v: " + err)
    plain = B.build("plain")
    # field capacity, library leg first: it probes how many ids the id table accepts (-> coq/C03/GenC03Cap.v)
    h_cap = cap_lib = None
    try:
        h_cap = cap_stage.build(plain, HERE)
        if not ctx.replay:
            cap_lib = cap_stage.lib_leg(ctx, h_cap, ctx.seed)
            if cap_lib.get("accepted") is not None and cap_lib.get("widths"):
                ch2, state["cap_saved"] = cap_stage.regen(cap_lib["accepted"], cap_lib["widths"])
                if ch2:
                    ctx.log("GenC03Cap.v changed: the id table of this tree accepts %d ids" % cap_lib["accepted"])
                changed = changed or ch2
    except Exception as e:  # the capacity harness no longer builds / runs against the current tree
        ctx.violation("capacity-harness-failed",
                      "the field-capacity harness (props/C03/h_cap.c) no longer builds / runs against the current tree: %s" % (str(e)[-600:],),
                      dict(kind="harness build", detail=str(e)[-3000:]), no_input=True)
    if changed:
        ctx.log("GenC03.v / GenC03Cap.v changed -> re-checking the proofs")
        ctx.proof_broken[:] = [b for b in ctx.proof_broken if b.startswith("C03/GenC03.v")]
        core.prepare_proofs(ctx)
    info = B.build("asan")
    h = B.compile_harness(info, [os.path.join(HERE, "h_dirmeta.c")], "c03_h_dirmeta")
    hc = B.compile_harness(info, [os.path.join(HERE, "h_comp.c")], "c03_h_comp")
    # private copies: vlib.build prunes its cache while other checks build their variants
    bindir = os.path.join(ctx.scratch, "bin")
    os.makedirs(bindir, exist_ok=True)
    tools = {}
    for name, p in list(plain["tools"].items()) + [("c03_h_dirmeta", h), ("c03_h_comp", hc)] + ([("c03_h_cap", h_cap)] if h_cap else []):
        dst = os.path.join(bindir, name)
        shutil.copy2(p, dst)
        tools[name] = dst
    h, hc = tools["c03_h_dirmeta"], tools["c03_h_comp"]
    h_cap = tools.get("c03_h_cap")
    try:
        drv = core.build_model_driver("C03", "ExtractC03.v", os.path.join(HERE, "driver.ml"))
    except Exception as e:  # the model no longer compiles/extracts (e.g. a constant changed): proof broke => search
        drv = None
        ctx.violation("model-extraction-failed",
                      "the Coq model of C03 no longer compiles / extracts against the current tree: %s" % (str(e)[-600:],),
                      dict(kind="proof obligation / model build", detail=str(e)[-3000:]), no_input=True)
    try:
        h_image, drv_image = image_stage.build(B, core, info, HERE)
        dst = os.path.join(bindir, "c03_h_image")
        shutil.copy2(h_image, dst)
        h_image = dst
    except Exception as e:  # the whole-image model / harness no longer builds against the current tree
        h_image = drv_image = None
        ctx.violation("image-model-build-failed",
                      "the whole-image model (coq/Image) or its harness no longer builds against the current tree: %s" % (str(e)[-600:],),
                      dict(kind="proof obligation / model build", detail=str(e)[-3000:]), no_input=True)
    try:
        drv_valid = valid_stage.build(core, HERE)
    except Exception as e:  # the extended validator no longer builds against the current tree
        drv_valid = None
        ctx.violation("valid-full-model-build-failed",
                      "the extended image validator (coq/ImgValid) no longer compiles / extracts against the current tree: %s" % (str(e)[-600:],),
                      dict(kind="proof obligation / model build", detail=str(e)[-3000:]), no_input=True)
    try:
        h_xattr, drv_xattr = xattr_stage.build(B, core, info, HERE)
        dst = os.path.join(bindir, "c03_h_xattr_flush")
        shutil.copy2(h_xattr, dst)
        h_xattr = dst
    except Exception as e:  # the xattr flush model / harness no longer builds against the current tree
        h_xattr = drv_xattr = None
        ctx.violation("xattr-model-build-failed",
                      "the xattr flush model (coq/ImgXattr) or its harness no longer builds against the current tree: %s" % (str(e)[-600:],),
                      dict(kind="proof obligation / model build", detail=str(e)[-3000:]), no_input=True)
    ctx.trusted += [
        "props/C03/h_xattr_flush.c (drives the real sqfs_xattr_writer_begin / add_kv / end / flush on an in-memory file, toy "
        "compressors as in h_image.c), props/C03/xattr_driver.ml (set parsing, hex I/O, the pseudo super block handed to the "
        "extracted xattr_tail / v_xattr / reader specification, decompressor oracle = system codec libraries for real images), "
        "props/C03/xattr_stage.py (case generation, expected meaning of a recorded set = last value per key)",
        "props/C03/h_image.c (drives the real sqfs_writer_init / sqfs_writer_finish on a real file; toy compressor injected with "
        "-Wl,--wrap=sqfs_compressor_create; dumps the post-processed fstree, the data area, the fragment table and the xattr section "
        "as the model's inputs), props/C03/image_driver.ml + image_stubs.c (decompressor oracle of the extracted reader = system "
        "zlib/liblzma/liblz4/libzstd), props/C03/image_stage.py (expected tree of a spec, comparison with vlib/sqfsimg.py)",
        "props/C03/h_dirmeta.c, props/C03/driver.ml (command parsing, hex I/O, in-memory sqfs_file_t, toy compressor in C)",
        "props/C03/h_comp.c (re-evaluation of the compressor contract on the real back ends)",
        "props/C03/h_cap.c (drives the real sqfs_id_table_id_to_index / sqfs_id_table_write on an in-memory file with a compressor that "
        "never compresses; probe of the number of ids the table accepts -> coq/C03/GenC03Cap.v), props/C03/cap_stage.py (independent "
        "decoder of the written lookup table, pack file / ustar generators with an exact number of distinct uid + gid values)",
        "props/C03/gen.py (file-local constants -> coq/C03/GenC03.v)",
        "vlib/sqfsimg.py + props/C03/validate_ext.py + props/C03/cases.py:EVAL (independent Python decoders / validators, "
        "written from doc/format.adoc; system zlib/liblzma/liblz4/libzstd for decompression)",
        "ASan/UBSan verdict on the component harness runs",
        "props/C03/valid_driver.ml + image_stubs.c (decompressor oracle of the extracted valid_image_full: metadata blocks with capacity "
        "8192, data / fragment blocks with the capacity the validator asks for), props/C03/valid_stage.py (byte surgery: re-storing the "
        "last inode table block / a lookup table block uncompressed and shifting the absolute positions behind it)",
    ]
    ctx.assumptions += [
        "compressor oracle contract (include/sqfs/compressor.h): compress b = CData c -> |c| <= |b| /\\ uncompress c = Some b; "
        "re-evaluated on every run on gzip/lzma/xz/lz4/lz4hc/zstd by h_comp.c (meta-writer and block-processor call patterns)",
        "names are NUL-free byte strings (C strings at the API), host is little endian (export table is written in host order)",
        "abstract inputs of the whole-image model: the data area and the fragment entries (block processor / block writer: C08), the "
        "bytes cmp->write_options writes, the post-processed tree (fstree_post_process incl. reorder_hard_links: coq/ImgPost, C01); the "
        "xattr section is the flush model's output in writer_valid_with_xattrs (the exact tie of the whole image still takes it from "
        "the C output, the flush model is tied separately on the same bytes)",
        "xattr flush model: sqfs_s32 / size_t accumulators unbounded (a key-value block of 2 GiB is out of the model); value bytes "
        "instead of the hexadecimal strings of the value table (C01: hex_rt)",
    ]

    if ctx.replay:
        r = json.load(open(ctx.replay))
        kind = r.get("kind")
        if kind == "component":
            c = cases_mod.Case.from_json(r["case"])
            res = component_tie(ctx, h, drv, [c])
            ctx.coverage["evaluations"] = 1
            ctx.coverage["rule"] = "replay of one component case"
            ctx.coverage["component"] = res
        elif kind == "comp":
            res = comp_contract(ctx, hc, r["lines"])
            ctx.coverage["evaluations"] = res["calls"]
            ctx.coverage["rule"] = "replay of compressor contract calls"
        elif kind == "tool":
            res = tool_search(ctx, tools, [r["spec"]], drv)
            ctx.coverage["evaluations"] = 1
            ctx.coverage["rule"] = "replay of one packer run"
        elif kind == "image-lines" and h_image:
            res = image_stage.exact_tie(ctx, h_image, drv_image, [("replay", l) for l in r.get("lines", [])])
            ctx.coverage["evaluations"] = res["cases"]
            ctx.coverage["rule"] = "replay of whole-image exact-tie cases"
        elif kind == "image-real" and h_image:
            res = image_stage.real_images(ctx, tools, drv_image, [r["spec"]], "thorough", drv_valid)
            ctx.coverage["evaluations"] = 1
            ctx.coverage["rule"] = "replay of one packer run read by the extracted reader"
        elif kind == "xattr-lines" and h_xattr:
            res = xattr_stage.exact_tie(ctx, h_xattr, drv_xattr, [("replay", l) for l in r.get("lines", [])])
            ctx.coverage["evaluations"] = res["cases"]
            ctx.coverage["rule"] = "replay of xattr flush cases (exact tie + validator / reader specification on the C bytes)"
        elif kind == "xattr-real" and h_xattr:
            res = xattr_stage.real_images(ctx, tools, drv_image, drv_xattr, toolgen, [r["spec"]])
            ctx.coverage["evaluations"] = 1
            ctx.coverage["rule"] = "replay of one gensquashfs -A run read by the extracted xattr reader specification"
        elif kind == "cap-lib" and h_cap:
            rc, lines, err = cap_stage.lib_run(h_cap, r["id0"], r["stride"])
            bad = cap_stage.lib_eval(lines, r["id0"], r["stride"])[0] if rc == 0 else [(0, ["h_cap died: " + err[-300:]])]
            for n, pr in bad[:1]:
                ctx.violation("field-capacity:id_count:library", "replay: id table of %d ids written invalid: %s" % (n, "; ".join(pr[:3])),
                              dict(r, problems=pr[:5]))
            ctx.coverage["evaluations"] = 1
            ctx.coverage["rule"] = "replay of one id table capacity run (library level)"
        elif kind == "cap-tool":
            res = cap_stage.tool_leg(ctx, tools, r.get("seed", ctx.seed), "quick", only=(r["tool"], r["nids"], r["per_dir"]))
            ctx.coverage["evaluations"] = res["runs"]
            ctx.coverage["rule"] = "replay of one packer run at the id table capacity boundary"
        else:
            ctx.log("replay file has no re-runnable case (kind=%r)" % kind)
        return

    ctx.log("harnesses and drivers ready")
    rnd = random.Random(ctx.seed)
    # the whole-image stage and the xattr stage have their own generators (seeded from ctx.seed) and their own scratch
    # directories: they run beside the component tie / compressor contract / tool search
    bg = ThreadPoolExecutor(max_workers=3)
    t0 = time.time()
    f_img = bg.submit(image_stage.stage, ctx, h_image, drv_image, tools, toolgen, ctx.seed, ctx.tier, drv_valid) if h_image else None
    f_xat = bg.submit(xattr_stage.stage, ctx, h_xattr, drv_xattr, drv_image, tools, toolgen, ctx.seed, ctx.tier) if h_xattr else None
    f_cap = bg.submit(cap_stage.tool_leg, ctx, tools, ctx.seed, ctx.tier)
    cases = cases_mod.all_cases(rnd, ctx.tier)
    comp = component_tie(ctx, h, drv, cases)
    cl = comp_lines(rnd, ctx.tier)
    cc = comp_contract(ctx, hc, cl)
    specs = toolgen.plan(rnd, ctx.tier)
    ts = tool_search(ctx, tools, specs, drv)
    img = None
    if f_img:
        img = f_img.result()
        vfs = img["real"].get("valid_full") or {}
        ctx.log("whole-image stage: %d exact cases (%d equal), %d real images (%d valid, %d trees compared; valid_image_full: %d of %d "
                "accepted, %d mutated images rejected by clauses %s), done %.1fs after start"
                % (img["exact"]["cases"], img["exact"]["exact_equal"], img["real"]["images"], img["real"]["valid"],
                   img["real"]["trees_read"], vfs.get("accepted", 0), vfs.get("images", 0), vfs.get("mutated_images", 0),
                   sorted(int(k) for k in (vfs.get("rejected_by_clause") or {})), time.time() - t0))
    xat = None
    if f_xat:
        xat = f_xat.result()
        ctx.log("xattr stage: %d exact cases (%d equal, %d with two or more id blocks, max %d sets), %d real images (%d ok, max %d sets), "
                "done %.1fs after start" % (xat["exact"]["cases"], xat["exact"]["exact_equal"], xat["exact"]["two_or_more_id_blocks"],
                                            xat["exact"]["max_sets"], xat["real"]["images"], xat["real"]["ok"], xat["real"]["max_sets"],
                                            time.time() - t0))
    cap_tool = f_cap.result()
    ctx.log("field capacity: id table accepts %s ids (%s tables written and decoded, %s invalid); tool level %d runs at 65535 / 65536 / 65537 "
            "distinct ids: %d images (all validated), %d refusals, %d invalid, %.1fs"
            % (cap_lib and cap_lib.get("accepted"), cap_lib and cap_lib.get("dumps"), cap_lib and cap_lib.get("problems"),
               cap_tool["runs"], cap_tool["accepted"], cap_tool["refused"], cap_tool["invalid"], cap_tool["wall_s"]))
    bg.shutdown()

    ctx.coverage["evaluations"] = comp["cases"] + cc["calls"] + ts["images"] + \
        (img["exact"]["cases"] + img["real"]["images"] if img else 0) + (xat["exact"]["cases"] + xat["real"]["images"] if xat else 0)
    ctx.coverage["distinct_nontrivial"] = comp["nontrivial"] + cc["compressed_results"] + ts["images"] + \
        (img["exact"]["accepted"] + img["real"]["images"] if img else 0) + (xat["exact"]["with_table"] + xat["real"]["images"] if xat else 0)
    ctx.coverage["traces_validated_against_impl"] = comp["cases"] + (img["exact"]["cases"] if img else 0) + \
        (xat["exact"]["cases"] if xat else 0)
    ctx.coverage["evaluations"] += (cap_lib.get("dumps") or 0 if cap_lib else 0) + cap_tool["runs"]
    ctx.coverage["distinct_nontrivial"] += (cap_lib.get("dumps") or 0 if cap_lib else 0) + cap_tool["accepted"]
    ctx.coverage["field_capacity"] = dict(library=cap_lib, tool=cap_tool)
    ctx.coverage["whole_image"] = img
    ctx.coverage["xattr_section"] = xat
    ctx.coverage["rule"] = (
        "component tie (exact bytes, model vs C): systematic cases at every branch boundary of the models -- appends of "
        "1..24577 bytes around 8192 with/without flush, KEEP_IN_MEMORY on/off, toy compressor modes (never / RLE / "
        "contract-breaking); directories of 0..700 (export: ..2049) entries, names 1..256, inode number deltas +-32766..32769 "
        "and u32 wrap, inode block changes incl. > 32 bit, listing start offsets 8170..8193 (header straddling), run sizes "
        "hitting 8192 +-2, listing sizes around 65532, refused entries, export tables around 1024 entries/block; lookup "
        "tables of 0..24576 bytes; super block for every power of two +-1 -- plus seeded random cases (seed %d); "
        "compressor contract: all five back ends (+lz4hc), meta-writer (outsize 8192) and block-processor (outsize = "
        "block size) call patterns, sizes 1..block size, six content kinds; tool level: real gensquashfs/tar2sqfs on 9 "
        "tree shapes x 5 compressors x block sizes 4K..1M x -e/-T/-B, every image through validate_ext; non-trivial = "
        "directory case / multi-block meta case / compressor call that returned a compressed result / image; whole-image "
        "stage: exact tie of Image.write_image against the real sqfs_writer_init + sqfs_writer_finish (configuration sweep "
        "toy compressor x block size x device block x -e x no-xattr x compressor options; trees with every inode type, files "
        "around the block size, no files / only blocks / only fragments, refused block sizes, tables of more than one "
        "metadata block, seeded random trees) with valid_image + read_image_tree on the C output, and the extracted reader "
        "specification + valid_image on real gensquashfs / tar2sqfs images of 8 tree shapes x 5 compressors compared with "
        "the input tree and with vlib/sqfsimg.py; xattr stage: exact tie of ImgXattr.xflush against the real sqfs_xattr_writer_flush "
        "(511 / 512 / 513 / 1024 / 1025 distinct sets, key-value areas ending at 8192 -1 / +0 / +1 / +4, out-of-line values first "
        "stored in a later compressed block, whole blocks of equal bytes, seeded random sets; store / RLE / zero-run-length "
        "compressors), the extracted xattr_tail + v_xattr + reader specification on the C bytes compared with the recorded sets, "
        "and gensquashfs -A images with 620 / 1100 distinct sets through valid_image, v_xattr, v_xattr_inodes and the reader "
        "specification; valid_image_full stage (coq/ImgValid): the extracted validator with the data / cross-reference clauses "
        "(v_frag, v_data incl. decompression of every data and fragment block, v_xattr_inodes, v_export, v_links) on every real "
        "image of the whole-image stage and on up to 3 (thorough: 6) byte-surgery mutations of each small image (13 kinds: size "
        "word above the block size, uncompressed bit flipped, blocks_start before the data area, corrupted compressed block, "
        "fragment index / offset / entry start / entry size out of range, xattr index out of range, export slots swapped, link "
        "count + 1, directory link count + 1, parent inode number), every verdict compared with validate_ext; field capacity "
        "(props/C03/cap_stage.py): the real id table filled with up to 70000 distinct ids (seeded start / stride), written by "
        "sqfs_id_table_write at 1, 2, 255..257, 2047..2049, 4096, 65534..65537 accepted ids and decoded independently (id_count = "
        "number of ids, last index = count - 1, table bytes = ids offered); gensquashfs pack files and tar2sqfs ustar streams with "
        "exactly 65535 / 65536 / 65537 (thorough: + 65534, 70000) distinct uid + gid values in sub-directories of 255 / 256 / 257 "
        "entries, every image produced through validate_ext + id census" % ctx.seed)
    ctx.coverage["component"] = comp
    ctx.coverage["compressor_contract"] = cc
    ctx.coverage["tool_level"] = ts
    ctx.add_samples([dict(kind="component", first_commands=cases[len(cases) // 2].cmds[:3][0][:80]),
                     dict(kind="compressor", call=cl[len(cl) // 2]),
                     dict(kind="tool", tool=specs[0]["tool"], comp=specs[0]["comp"], bs=specs[0]["bs"], shape=specs[0]["shape"],
                          entries=len(specs[0]["entries"]))])


def setup():
    gen.regen()
    core.build_model_driver("C03", "ExtractC03.v", os.path.join(HERE, "driver.ml"))
    core.build_model_driver("C03image", "ExtractImage.v", os.path.join(HERE, "image_driver.ml"),
                            stubs_c=os.path.join(HERE, "image_stubs.c"), cclibs=["-lz", "-llzma", "-llz4", "-lzstd"])
    core.build_model_driver("C03xattr", "ExtractC03Xattr.v", os.path.join(HERE, "xattr_driver.ml"),
                            stubs_c=os.path.join(HERE, "image_stubs.c"), cclibs=["-lz", "-llzma", "-llz4", "-lzstd"])
    valid_stage.build(core, HERE)
