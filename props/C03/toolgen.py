"""C03 tool-level search oracle: deterministic tree specs -> inputs for gensquashfs (pack file + xattr
file) or tar2sqfs (tar stream) -> image -> validate_ext.  A spec is a JSON-able dict, so a failing case is
its own replay."""
import io
import os
import random
import subprocess
import tarfile

COMPS = ["gzip", "xz", "lz4", "zstd", "lzma"]


def content(kind, size, seed):
    if size == 0:
        return b""
    if kind == "zero":
        return b"\0" * size
    r = random.Random(seed)
    if kind == "rand":
        return r.randbytes(size)
    if kind == "text":
        words = [b"alpha ", b"beta ", b"gamma\n", b"delta ", b"squash ", b"fs "]
        out = bytearray()
        while len(out) < size:
            out += r.choice(words)
        return bytes(out[:size])
    if kind == "mixed":          # random head, zero hole, text tail
        a = size // 3
        return r.randbytes(a) + b"\0" * a + content("text", size - 2 * a, seed + 1)
    return bytes([seed & 0xFF]) * size


def _b62(i):
    al = "0123456789abcdefghijklmnopqrstuvwxyzABCDEFGHIJKLMNOPQRSTUVWXYZ"
    out = ""
    while True:
        out = al[i % 62] + out
        i //= 62
        if i == 0:
            return out


def _nm(r, n, i):
    """a name of about n bytes that is unique per index i (never shorter than the index needs)"""
    alpha = "abcdefghijklmnopqrstuvwxyzABCDEFGHIJKLMNOPQRSTUVWXYZ0123456789_-+,=@"
    base = _b62(i)
    if n <= len(base):
        return base
    return base + "~" + "".join(r.choice(alpha) for _ in range(n - len(base) - 1))


def gen_spec(rnd, shape, tool, comp, bs, exportable, notail, devblk, big=False):
    """entries: list of dict(path, type, mode, uid, gid, [kind,size,seed] | target | dev | link, xattrs)"""
    r = random.Random(rnd.getrandbits(32))
    ents = []
    ids = [0, 1, 2, 1000, 65534, 4000000000]

    def add(path, typ, **kw):
        e = dict(path=path, type=typ, mode=kw.pop("mode", 0o644 if typ != "dir" else 0o755),
                 uid=kw.pop("uid", r.choice(ids)), gid=kw.pop("gid", r.choice(ids)))
        e.update(kw)
        ents.append(e)

    def files_in(d, n, namelen, sizes=(0, 1, 10, 100)):
        for i in range(n):
            ln = namelen(i) if callable(namelen) else namelen
            add(d + "/" + _nm(r, ln, i), "file", kind=r.choice(["rand", "text", "zero", "same"]),
                size=r.choice(sizes), seed=r.getrandbits(16))

    if shape == "mixed":
        add("d", "dir")
        szs = [0, 1, bs - 1, bs, bs + 1, 2 * bs, 2 * bs + 7, 3 * bs + bs // 2, 100, 5000]
        for i, sz in enumerate(szs):
            add("d/f%02d" % i, "file", kind=["rand", "text", "zero", "mixed", "same"][i % 5], size=sz, seed=i)
        add("d/dup1", "file", kind="text", size=bs + 100, seed=99)
        add("d/dup2", "file", kind="text", size=bs + 100, seed=99)
        # runs of one repeated non-zero block, a shorter file directly before a longer one: the duplicate search of
        # the block writer matches the new file's blocks against a run that ends in the file's own first blocks
        add("r", "dir")
        for nm, sz in (("a", bs), ("b", 3 * bs), ("c", 2 * bs), ("d", 2 * bs + 100), ("e", 5 * bs), ("f", bs)):
            add("r/" + nm, "file", kind="same", size=sz, seed=0xAA)
        add("d/sl", "slink", target="../d/f01", mode=0o777)
        add("d/longsl", "slink", target="x" * 3000, mode=0o777)
        add("d/blk", "blk", dev=(8, 1))
        add("d/chr", "chr", dev=(1, 3))
        add("d/fifo", "fifo")
        add("d/sock", "sock")
        add("e", "dir", mode=0o700)
        add("e/sub", "dir")
        add("e/sub/leaf", "file", kind="text", size=12, seed=5)
        for i in range(40):
            add("e/u%03d" % i, "file", kind="same", size=3, seed=i, uid=1000 + i * 7, gid=70000 + i)
    elif shape == "wide":
        # directories around the 256-entry header limit / index threshold, nested to spread inode blocks
        for j, n in enumerate([0, 1, 2, 255, 256, 257, 300, 512, 513]):
            d = "w%02d" % j
            add(d, "dir")
            files_in(d, n, lambda i: 1 + (i * 7) % 40 if n > 3 else 6)
        # small inodes (20 bytes) so that more than 256 entries share one inode block: the 256 limit fires
        for j, n in enumerate([256, 257, 300, 600]):
            d = "y%02d" % j
            add(d, "dir")
            for i in range(n):
                add(d + "/" + _b62(i), "fifo", uid=0, gid=0)
    elif shape == "longnames":
        add("L", "dir")
        files_in("L", 300, lambda i: 255 if i % 3 else 200)
        add("M", "dir")
        files_in("M", 250, 255)           # < 256 entries but listing > 64 KiB: extended by size
        add("N", "dir")
        files_in("N", 240, lambda i: 250 + i % 6)
    elif shape == "manydirs":
        n = 1500 if not big else 6000
        for i in range(n):
            d = "p%02d/q%04d" % (i % 37, i)
            if i < 37:
                add("p%02d" % i, "dir")
            add(d, "dir", mode=0o750)
            for k in range(r.choice([0, 1, 3])):
                add("%s/%s" % (d, _nm(r, r.choice([1, 8, 30]), k)), "file", kind="same", size=r.choice([0, 5]), seed=k)
    elif shape == "hardlinks":
        add("a", "dir")
        add("b", "dir")
        add("z", "dir")
        n = 400 if not big else 33500
        per = 100
        for j in range((n + per - 1) // per):
            add("a/d%03d" % j, "dir")
        for i in range(n):
            add("a/d%03d/f%05d" % (i // per, i), "file", kind="same", size=r.choice([0, 4]), seed=i)
        for i in range(0, n, max(1, n // 50)):
            add("z/l%05d" % i, "link", link="a/d%03d/f%05d" % (i // per, i))
            j = n - 1 - i
            add("b/m%05d" % i, "link", link="a/d%03d/f%05d" % (j // per, j))
        add("b/first", "link", link="z/l00000")
    elif shape == "xattrs":
        add("x", "dir", xattrs={"user.dir": "on a directory"})
        n = 520 if not big else 1100
        for i in range(n):
            xa = {"user.k%d" % (i % 9): "v%d" % i}
            if i % 5 == 0:
                xa["user.long"] = "L" * 300          # out-of-line value candidate (shared)
            if i % 7 == 0:
                xa["security.tag"] = "s%d" % (i % 3)
            add("x/f%04d" % i, r.choice(["file", "file", "slink", "fifo"]), kind="same", size=2, seed=i,
                target="t", mode=0o644, xattrs=xa)
        for i in range(30):
            add("x/same%02d" % i, "file", kind="same", size=1, seed=1, xattrs={"user.same": "shared"})
    elif shape == "empty":
        pass
    elif shape == "bigids":
        add("i", "dir")
        n = 300 if not big else 3000
        for i in range(n):
            add("i/f%05d" % i, "file", kind="same", size=1, seed=i, uid=100000 + i, gid=200000 + 2 * i)
    elif shape == "random":
        dirs = [""]
        for i in range(r.randint(5, 60)):
            p = r.choice(dirs)
            d = (p + "/" if p else "") + _nm(r, r.choice([1, 3, 12, 60]), i)
            add(d, "dir", mode=r.choice([0o755, 0o700, 0o1777]))
            dirs.append(d)
        for i in range(r.randint(10, 400)):
            p = r.choice(dirs)
            path = (p + "/" if p else "") + "n" + _nm(r, r.choice([1, 5, 20, 100, 200]), i)
            t = r.choice(["file"] * 6 + ["slink", "fifo", "chr", "sock", "blk"])
            add(path, t, kind=r.choice(["rand", "text", "zero", "same", "mixed"]),
                size=r.choice([0, 1, 77, bs - 1, bs, bs + 1, 3 * bs + 9, r.randint(0, 4 * bs)]), seed=r.getrandbits(16),
                target="t" * r.choice([1, 10, 255, 1000]), dev=(r.randrange(256), r.randrange(256)))
    spec = dict(tool=tool, comp=comp, bs=bs, exportable=exportable, notail=notail, devblk=devblk, shape=shape,
                entries=ents)
    return spec


def _q(path):
    return '"' + path.replace("\\", "\\\\").replace('"', '\\"') + '"'


def materialize(spec, d):
    """write the inputs into directory d; returns (argv tail, stdin bytes or None)"""
    os.makedirs(d, exist_ok=True)
    tool = spec["tool"]
    args = ["-q", "-f", "-c", spec["comp"], "-b", str(spec["bs"]), "-B", str(spec["devblk"])]
    if spec["exportable"]:
        args.append("-e")
    if spec["notail"]:
        args.append("-T")
    if tool == "gensquashfs":
        lines = []
        xl = []
        fdir = os.path.join(d, "in")
        os.makedirs(fdir, exist_ok=True)
        n = 0
        for e in spec["entries"]:
            p = _q("/" + e["path"])
            t = e["type"]
            if t == "dir":
                lines.append("dir %s 0%o %d %d" % (p, e["mode"], e["uid"], e["gid"]))
            elif t == "file":
                fn = "f%d" % n
                n += 1
                with open(os.path.join(fdir, fn), "wb") as f:
                    f.write(content(e["kind"], e["size"], e["seed"]))
                lines.append("file %s 0%o %d %d in/%s" % (p, e["mode"], e["uid"], e["gid"], fn))
            elif t == "slink":
                lines.append("slink %s 0%o %d %d %s" % (p, e["mode"], e["uid"], e["gid"], e["target"]))
            elif t in ("blk", "chr"):
                lines.append("nod %s 0%o %d %d %s %d %d" % (p, e["mode"], e["uid"], e["gid"], t[0], e["dev"][0], e["dev"][1]))
            elif t == "fifo":
                lines.append("pipe %s 0%o %d %d" % (p, e["mode"], e["uid"], e["gid"]))
            elif t == "sock":
                lines.append("sock %s 0%o %d %d" % (p, e["mode"], e["uid"], e["gid"]))
            elif t == "link":
                lines.append("link %s 0 0 0 /%s" % (p, e["link"]))
            if e.get("xattrs"):
                xl.append("# file: %s" % e["path"])
                for k, v in e["xattrs"].items():
                    xl.append('%s="%s"' % (k, v))
                xl.append("")
        pf = os.path.join(d, "pack.txt")
        with open(pf, "w") as f:
            f.write("\n".join(lines) + "\n")
        args += ["-F", pf]
        if xl:
            xf = os.path.join(d, "xattr.txt")
            with open(xf, "w") as f:
                f.write("\n".join(xl) + "\n")
            args += ["-A", xf]
        return args, None
    # tar2sqfs
    bio = io.BytesIO()
    tf = tarfile.open(fileobj=bio, mode="w", format=tarfile.PAX_FORMAT)
    for e in spec["entries"]:
        ti = tarfile.TarInfo(e["path"])
        ti.mode = e["mode"] & 0o7777
        ti.uid, ti.gid = e["uid"], e["gid"]
        ti.mtime = 1000000 + len(e["path"])
        t = e["type"]
        data = None
        if t == "dir":
            ti.type = tarfile.DIRTYPE
        elif t == "file":
            data = content(e["kind"], e["size"], e["seed"])
            ti.size = len(data)
        elif t == "slink":
            ti.type = tarfile.SYMTYPE
            ti.linkname = e["target"]
        elif t == "blk":
            ti.type = tarfile.BLKTYPE
            ti.devmajor, ti.devminor = e["dev"]
        elif t == "chr":
            ti.type = tarfile.CHRTYPE
            ti.devmajor, ti.devminor = e["dev"]
        elif t == "fifo":
            ti.type = tarfile.FIFOTYPE
        elif t == "sock":
            continue                       # tar has no sockets
        elif t == "link":
            ti.type = tarfile.LNKTYPE
            ti.linkname = e["link"]
        if e.get("xattrs"):
            ti.pax_headers = {"SCHILY.xattr." + k: v for k, v in e["xattrs"].items()}
        tf.addfile(ti, io.BytesIO(data) if data is not None else None)
    tf.close()
    return args, bio.getvalue()


def run_spec(spec, tools, d):
    """returns (rc, stderr, image bytes or None)"""
    args, stdin = materialize(spec, d)
    img = os.path.join(d, "out.sqfs")
    r = subprocess.run([tools[spec["tool"]]] + args + [img], input=stdin, stdout=subprocess.PIPE, stderr=subprocess.PIPE,
                       cwd=d, timeout=600)
    data = None
    if r.returncode == 0 and os.path.exists(img):
        with open(img, "rb") as f:
            data = f.read()
    return r.returncode, r.stderr.decode("utf-8", "replace"), data


def expected_counts(spec):
    """what the image must contain: number of inodes (distinct), names per directory (for cross-checks)"""
    dirs = {""}
    n = 1
    for e in spec["entries"]:
        if spec["tool"] == "tar2sqfs" and e["type"] == "sock":
            continue
        parts = e["path"].split("/")
        for i in range(1, len(parts)):
            p = "/".join(parts[:i])
            if p not in dirs:
                dirs.add(p)
                n += 1
        if e["type"] == "dir":
            if e["path"] not in dirs:
                dirs.add(e["path"])
                n += 1
        elif e["type"] != "link":
            n += 1
    return n


def tree_of_spec(spec):
    """nested dict name(bytes) -> subtree | None (leaf) of what the image must contain"""
    root = {}
    for e in spec["entries"]:
        if spec["tool"] == "tar2sqfs" and e["type"] == "sock":
            continue
        parts = [p.encode() for p in e["path"].split("/")]
        d = root
        for p in parts[:-1]:
            if d.get(p) is None:
                d[p] = {}
            d = d[p]
        if e["type"] == "dir":
            if d.get(parts[-1]) is None:
                d[parts[-1]] = {}
        else:
            d[parts[-1]] = None
    return root


def encode_tree(tree):
    """(string for the model's N command, list of name-paths in the order of the model's index paths)"""
    paths = {}

    def enc(d, ipath, npath):
        paths[ipath] = npath
        if d is None:
            return "L"
        out = ["D("]
        for i, nm in enumerate(sorted(d)):
            out.append(enc(d[nm], ipath + (i,), npath + (nm,)))
        out.append(")")
        return "".join(out)
    s = enc(tree, (), ())
    return s, paths


def plan(rnd, tier):
    """list of specs for this run"""
    specs = []
    shapes = ["mixed", "wide", "longnames", "manydirs", "hardlinks", "xattrs", "empty", "bigids", "random"]
    bss = [4096, 8192, 32768, 131072, 1048576]
    devs = [4096, 4096, 1024, 8192, 65536]
    k = rnd.randrange(1000)
    # every shape with every compressor once; block size / flags rotate with the seed
    for si, shape in enumerate(shapes):
        for ci, comp in enumerate(COMPS):
            if tier == "quick" and (si + ci + k) % 2 and shape not in ("mixed",):
                continue
            tool = "tar2sqfs" if shape == "hardlinks" or (shape in ("mixed", "xattrs", "random") and (ci + k) % 2) else "gensquashfs"
            bs = bss[(si + ci + k) % len(bss)]
            if shape in ("mixed", "random") and bs > 131072 and tier == "quick":
                bs = 32768
            specs.append(gen_spec(rnd, shape, tool, comp, bs, bool((si + ci + k) % 3 == 0), bool((si + 2 * ci + k) % 4 == 0),
                                  devs[(si * 2 + ci + k) % len(devs)]))
    if tier != "quick":
        # > 32768 inodes with hard links across the whole number range (the 16 bit delta rule itself cannot
        # fire at tool level: inodes of one metadata block have consecutive numbers; it is covered by the
        # component tie)
        for comp in COMPS[:2]:
            specs.append(gen_spec(rnd, "hardlinks", "tar2sqfs", comp, 131072, True, False, 4096, big=True))
        for comp in COMPS:
            specs.append(gen_spec(rnd, "manydirs", "gensquashfs", comp, 4096, True, False, 4096, big=True))
            specs.append(gen_spec(rnd, "xattrs", "gensquashfs", comp, 8192, False, False, 4096, big=True))
            specs.append(gen_spec(rnd, "bigids", "gensquashfs", comp, 8192, False, False, 4096, big=True))
        for _ in range(150):
            specs.append(gen_spec(rnd, "random", rnd.choice(["gensquashfs", "tar2sqfs"]), rnd.choice(COMPS), rnd.choice(bss),
                                  rnd.random() < 0.5, rnd.random() < 0.3, rnd.choice(devs)))
    return specs


def job(args):
    """one packer run + validation (runs in a worker process)"""
    import shutil
    import sys
    import time
    spec, tools, d = args
    from vlib import sqfsimg as S
    ve = sys.modules["c03_validate_ext"]
    t0 = time.time()
    try:
        rc, err, data = run_spec(spec, tools, d)
    except subprocess.TimeoutExpired:
        shutil.rmtree(d, ignore_errors=True)
        return dict(rc=124, err="timeout", bad=["packer timed out"], stats=None, t=time.time() - t0)
    res = dict(rc=rc, err=err[-600:], bad=[], stats=None, size=len(data) if data else 0)
    if rc != 0 or data is None:
        res["bad"] = ["%s failed (rc=%d): %s" % (spec["tool"], rc, err[-300:])]
    else:
        try:
            img = S.Image(data)
            res["bad"] = ve.validate_ext(img, spec["devblk"])
            if not any(b.startswith("walk:") for b in res["bad"]):
                st = ve.stats(img)
                res["stats"] = st
                if not any(e["type"] == "link" for e in spec["entries"]):
                    res["inos"] = {p: n.ino for p, n in img.walk().items()}
                exp = expected_counts(spec)
                if st["inodes"] != exp or img.super["inode_count"] != exp:
                    res["bad"].append("image has %d inodes (super block says %d), the input describes %d"
                                      % (st["inodes"], img.super["inode_count"], exp))
        except S.ParseError as e:
            res["bad"] = ["image does not parse: %s" % e]
        except Exception as e:  # noqa
            res["bad"] = ["validator failed on the image: %r" % (e,)]
    shutil.rmtree(d, ignore_errors=True)
    res["t"] = time.time() - t0
    return res
