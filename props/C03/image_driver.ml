(* C03 whole-image stage: driver of the extracted coq/Image models.
     W <toymode> <bs> <mtime> <comp> <devblk> <exportable> <no_xattr> <hex opts> <hex data> <frags> <xattr> <N> <nodes>
         (model input printed by props/C03/h_image.c)         -> <rc> <19 super fields> <hex file> # r<0|1> f<0|1>
     C <toymode> <devblk> <tree 0|1> <hex file> <N> <nodes>   -> extracted valid_image + read_image_tree (toy
         decompressor) on bytes the C code produced, compared with spec_tree of the dumped tree:
         OK <nodes> | INVALID <clause> | NOREAD | MISMATCH <where>
     R <path> <devblk> <tree 0|1> [novalid]                   -> the extracted reader / validator on a real image file
         (novalid: valid_image is left to the valid_image_full driver, props/C03/valid_driver.ml; the line reads V SKIPPED)
         (decompressor oracle = system zlib / liblzma / liblz4 / libzstd through image_stubs.c), several lines:
         S <19 super fields> | S NONE
         I <ids>   F <start:size:pad,..>   X <-|refs>   V <0|1> <first failing clause>   T <n> | T NOREAD
         N <hexpath> <mode> <uid> <gid> <mtime> <ino> <nlink> <xattr> <kind..>    (one per entry, depth first)
         END *)
open Image_model

external c_uncompress : int -> string -> int -> int * string = "c03img_uncompress"

let rec pos_of_int i = if i = 1 then XH else if i land 1 = 1 then XI (pos_of_int (i lsr 1)) else XO (pos_of_int (i lsr 1))
let n_of_int i = if i = 0 then N0 else Npos (pos_of_int i)
let rec int_of_pos = function XH -> 1 | XO p -> 2 * int_of_pos p | XI p -> 2 * int_of_pos p + 1
let int_of_n = function N0 -> 0 | Npos p -> int_of_pos p
let rec pos_bits = function XH -> 1 | XO p | XI p -> 1 + pos_bits p
let n10 = n_of_int 10

let n_of_string s =
  if String.length s <= 17 then n_of_int (int_of_string s)
  else begin
    let r = ref N0 in
    String.iter (fun c -> r := N.add (N.mul !r n10) (n_of_int (Char.code c - 48))) s;
    !r
  end

let string_of_n n =
  match n with
  | N0 -> "0"
  | Npos p when pos_bits p <= 61 -> string_of_int (int_of_pos p)
  | _ ->
    let rec go n acc = match n with
      | N0 -> acc
      | _ -> let (q, r) = N.div_eucl n n10 in go q (String.make 1 (Char.chr (48 + int_of_n r)) ^ acc) in
    go n ""

let int_of_z = function Z0 -> 0 | Zpos p -> int_of_pos p | Zneg p -> - (int_of_pos p)

let byte_tbl = Array.init 256 n_of_int
let hexv c = if c <= '9' then Char.code c - 48 else (Char.code c lor 32) - 87
let unhex s =
  if s = "-" then [] else begin
    let l = ref [] in
    for i = String.length s / 2 - 1 downto 0 do
      l := byte_tbl.(hexv s.[2*i] * 16 + hexv s.[2*i+1]) :: !l
    done;
    !l
  end
let hexd = "0123456789abcdef"
let hex l =
  match l with
  | [] -> "-"
  | _ ->
    let b = Buffer.create 65536 in
    List.iter (fun c -> let v = int_of_n c in Buffer.add_char b hexd.[v lsr 4]; Buffer.add_char b hexd.[v land 15]) l;
    Buffer.contents b

let list_of_string s =
  let l = ref [] in
  for i = String.length s - 1 downto 0 do l := byte_tbl.(Char.code s.[i]) :: !l done;
  !l
let string_of_list l =
  let b = Buffer.create 8192 in
  List.iter (fun c -> Buffer.add_char b (Char.chr (int_of_n c land 255))) l;
  Buffer.contents b

let nlist s = if s = "-" then [] else List.map n_of_string (String.split_on_char ',' s)
let nlist_s l = match l with [] -> "-" | _ -> String.concat "," (List.map string_of_n l)

(* ---- token stream ---- *)
let toks = ref [||]
let pos = ref 0
let next () = let t = !toks.(!pos) in incr pos; t
let nextn () = n_of_string (next ())

let parse_file spec =
  match String.split_on_char ':' spec with
  | [ext; bs; fi; fo; fs; sp; w] ->
    let n = n_of_string in
    if ext = "1" then BFileX (n bs, n fs, n sp, n_of_int 1, n fi, n fo, n_of_string "4294967295", nlist w)
    else BFile (n bs, n fi, n fo, n fs, nlist w)
  | _ -> failwith "file"

let parse_node () =
  let mode = nextn () in let uid = nextn () in let gid = nextn () in let mtime = nextn () in
  let nlink = nextn () in let xattr = nextn () in
  let k = next () in
  let p = match k with
    | "d" ->
      let par = nextn () in
      let cnt = int_of_string (next ()) in
      let ch = List.init cnt (fun _ -> let nm = unhex (next ()) in let c = nextn () in (nm, c)) in
      PDir (par, ch)
    | "f" -> PFile (parse_file (next ()))
    | "l" -> PSlink (unhex (next ()))
    | "b" -> PDev (false, nextn ())
    | "c" -> PDev (true, nextn ())
    | "p" -> PIpc false
    | "s" -> PIpc true
    | _ -> failwith "kind" in
  { fn_mode = mode; fn_uid = uid; fn_gid = gid; fn_mtime = mtime; fn_nlink = nlink; fn_xattr = xattr; fn_payload = p }

let parse_tree () =
  let cnt = int_of_string (next ()) in
  List.init cnt (fun _ -> parse_node ())

let rec nat_of_int i = if i = 0 then O else S (nat_of_int (i - 1))
let b01 b = if b then "1" else "0"

let super_s (s : super) =
  String.concat "," (List.map (fun (_, v) -> string_of_n v) (fields s))

(* ---- W: the writer model ---- *)
let cmd_w () =
  let mode = nextn () in
  let bs = nextn () in let mtime = nextn () in let comp = nextn () in let devblk = nextn () in
  let exportable = next () <> "0" in let no_xattr = next () <> "0" in
  let opts = unhex (next ()) in
  let data = unhex (next ()) in
  let frags = (let s = next () in if s = "-" then [] else
                 List.map (fun p -> match String.split_on_char ':' p with
                     | [a; b] -> (n_of_string a, n_of_string b) | _ -> failwith "frag") (String.split_on_char ',' s)) in
  let xattr = (let s = next () in if s = "-" then None else
                 match String.split_on_char ':' s with
                 | [off; h] -> Some (unhex h, n_of_string off) | _ -> failwith "xattr") in
  let t = parse_tree () in
  let cfg = { c_block_size = bs; c_mtime = mtime; c_comp_id = comp; c_devblk = devblk; c_exportable = exportable;
              c_no_xattr = no_xattr } in
  let inp = { in_opts = opts; in_data = data; in_frags = frags; in_tree = t; in_xattr = xattr } in
  match write_image (img_compress mode) c_id_table_limit cfg inp with
  | Ok w ->
    Printf.printf "0 %s %s # r%s f%s\n" (super_s w.w_super) (hex (image_bytes w))
      (b01 (representable bs t)) (b01 (trace_fits w.w_img))
  | Err e -> Printf.printf "%d -\n" (if int_of_z e < 0 then -1 else int_of_z e)
  | Crash -> print_string "CRASH -\n"
  | OutOfFuel -> print_string "FUEL -\n"

(* ---- tree comparison / printing ---- *)
let rec count_lt (LT (_, ents)) = List.fold_left (fun a (_, s) -> a + count_lt s) 1 ents

let rec first_diff path a b =
  match a, b with
  | LT (va, ea), LT (vb, eb) ->
    if va <> vb then Some (path ^ " view(ino " ^ string_of_n va.lv_ino ^ "/" ^ string_of_n vb.lv_ino ^ ")")
    else if List.length ea <> List.length eb then Some (path ^ " entry-count")
    else
      List.fold_left2 (fun acc (na, sa) (nb, sb) ->
          match acc with
          | Some _ -> acc
          | None -> if na <> nb then Some (path ^ " name " ^ hex na ^ "/" ^ hex nb) else first_diff (path ^ "/" ^ hex na) sa sb)
        None ea eb

let cmd_c () =
  let mode = nextn () in
  let devblk = nextn () in
  let want_tree = next () <> "0" in
  let file = unhex (next ()) in
  let t = parse_tree () in
  let un = img_uncompress mode in
  let n = List.length t in
  if not (valid_image un devblk file) then
    Printf.printf "INVALID %s\n" (string_of_n (first_failure un devblk file))
  else if not want_tree then print_string "OK valid\n"
  else
    match read_image_tree un file, spec_tree t (nat_of_int n) (n_of_int n) with
    | Some x, Some y ->
      if x = y then Printf.printf "OK %d\n" (count_lt x)
      else Printf.printf "MISMATCH %s\n" (match first_diff "" x y with Some d -> d | None -> "?")
    | None, Some _ -> print_string "NOREAD\n"
    | _, None -> print_string "NOSPEC\n"

let opt_s = function Some v -> string_of_n v | None -> "?"

let kind_s = function
  | LDir par -> "d " ^ string_of_n par
  | LFile (bs, fs, sp, fi, fo, bl) ->
    Printf.sprintf "f %s %s %s %s %s %s" (string_of_n bs) (string_of_n fs) (string_of_n sp) (string_of_n fi)
      (string_of_n fo) (nlist_s bl)
  | LSlink t -> "l " ^ hex t
  | LDev (c, d) -> (if c then "c " else "b ") ^ string_of_n d
  | LIpc s -> if s then "s" else "p"

let rec print_tree path (LT (v, ents)) =
  Printf.printf "N %s %s %s %s %s %s %s %s %s\n" (if path = "" then "-" else path) (string_of_n v.lv_mode) (opt_s v.lv_uid)
    (opt_s v.lv_gid) (string_of_n v.lv_mtime) (string_of_n v.lv_ino) (string_of_n v.lv_nlink) (string_of_n v.lv_xattr)
    (kind_s v.lv_kind);
  List.iter (fun (nm, sub) -> print_tree (if path = "" then hex nm else path ^ "/" ^ hex nm) sub) ents

(* decompressor oracle for real images, memoised on the compressed bytes *)
let memo : (string, n list option) Hashtbl.t = Hashtbl.create 1024
let real_uncompress id (c : n list) : n list option =
  let s = string_of_list c in
  match Hashtbl.find_opt memo s with
  | Some r -> r
  | None ->
    let (ret, out) = c_uncompress id s 8192 in
    let r = if ret > 0 then Some (list_of_string out) else None in
    Hashtbl.replace memo s r;
    r

let read_file path =
  let ic = open_in_bin path in
  let n = in_channel_length ic in
  let s = really_input_string ic n in
  close_in ic;
  s

let cmd_r () =
  let path = next () in
  let devblk = nextn () in
  let want_tree = next () <> "0" in
  let want_valid = not (!pos < Array.length !toks && !toks.(!pos) = "novalid") in
  Hashtbl.reset memo;
  let img = list_of_string (read_file path) in
  (match read_super img with
   | None -> print_string "S NONE\n"
   | Some s ->
     let un = real_uncompress (int_of_n s.s_comp_id) in
     Printf.printf "S %s\n" (super_s s);
     (match read_ids un img s with
      | Some ids -> Printf.printf "I %s\n" (nlist_s ids)
      | None -> print_string "I NOREAD\n");
     (match read_frags un img s with
      | Some fr -> Printf.printf "F %s\n" (match fr with [] -> "-" | _ ->
          String.concat "," (List.map (fun ((a, b), c) -> string_of_n a ^ ":" ^ string_of_n b ^ ":" ^ string_of_n c) fr))
      | None -> print_string "F NOREAD\n");
     (match read_export un img s with
      | Some None -> print_string "X -\n"
      | Some (Some l) -> Printf.printf "X %s\n" (nlist_s l)
      | None -> print_string "X NOREAD\n");
     if want_valid then begin
       let v = valid_image un devblk img in
       Printf.printf "V %s %s\n" (b01 v) (if v then "0" else string_of_n (first_failure un devblk img))
     end else print_string "V SKIPPED\n";
     if want_tree then
       (match read_image_tree un img with
        | Some t -> Printf.printf "T %d\n" (count_lt t); print_tree "" t
        | None -> print_string "T NOREAD\n")
     else print_string "T SKIPPED\n");
  print_string "END\n"

let () =
  try
    while true do
      let line = input_line stdin in
      toks := Array.of_list (List.filter (fun s -> s <> "") (String.split_on_char ' ' line));
      pos := 0;
      (try
         match next () with
         | "W" -> if Array.length !toks >= 2 && !toks.(1) = "-" then print_string "SKIP\n" else cmd_w ()
         | "C" -> cmd_c ()
         | "R" -> cmd_r ()
         | _ -> print_string "PARSE\n"
       with Failure m -> Printf.printf "PARSE %s\n" m
          | Invalid_argument m -> Printf.printf "PARSE %s\n" m);
      flush stdout
    done
  with End_of_file -> ()
