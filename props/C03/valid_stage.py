"""C03, valid_image_full stage (coq/ImgValid): the extracted validator with the data / cross-reference clauses
(v_frag, v_data, v_xattr_inodes, v_export, v_links) on the REAL images the whole-image stage produces anyway, and on
mutated copies of them.

* every real image (gensquashfs / tar2sqfs, all five compressors; decompressor oracle = system codec libraries
  through image_stubs.c): valid_image_full must be true and agree with the Python validator (validate_ext);
* mutations by byte surgery guided by vlib/sqfsimg.py: one on-disk field is changed so that exactly one of the new
  clauses is violated.  Fields inside compressed metadata are reached by re-storing the LAST metadata block of the
  inode table (resp. the block of a lookup table) uncompressed with the field changed and shifting every absolute
  position behind it (super block table starts, bytes_used, location lists, xattr header) — inode references do not
  change because no earlier block of the inode table moves.  Both validators must reject every mutated image; the
  clause the extracted validator reports must be the one the mutation aims at.

A real image the extracted validator rejects is a concrete violation of C03; a mutated image it accepts (or a
disagreement with the Python validator) is reported as a broken oracle (no failing input of the implementation)."""
import os
import struct
import subprocess
import resource

META = 8192
NOTBL = 0xFFFFFFFFFFFFFFFF
NOID = 0xFFFFFFFF

CLAUSES = {0: "-", 1: "super block", 2: "v_size", 3: "v_order", 4: "v_opts", 5: "v_meta", 6: "v_chain", 7: "v_tables",
           8: "v_inodes", 9: "v_root", 10: "v_dirs", 11: "inode table does not decode", 12: "table bounds",
           13: "v_frag", 14: "v_data", 15: "v_xattr_inodes", 16: "v_export", 17: "v_links (directories)",
           18: "v_links (link counts of non-directories)", 19: "a table does not read"}

ENV = dict(os.environ)


def _big_stack():
    resource.setrlimit(resource.RLIMIT_STACK, (resource.RLIM_INFINITY, resource.RLIM_INFINITY))


def run_valid(drv, paths, devblk, timeout=600):
    """[(valid, clause)] for the image files `paths` (one driver process)"""
    text = "".join("V %s %d\n" % (p, devblk) for p in paths)
    try:
        r = subprocess.run([drv], input=text.encode(), stdout=subprocess.PIPE, stderr=subprocess.PIPE, env=ENV,
                           timeout=timeout, preexec_fn=_big_stack)
    except subprocess.TimeoutExpired:
        return None, "timeout"
    out = [l for l in r.stdout.decode("latin-1").split("\n") if l]
    if r.returncode != 0 or len(out) != len(paths) or not all(l.startswith("R ") for l in out):
        return None, "rc=%s out=%r err=%s" % (r.returncode, out[:2], r.stderr.decode("latin-1")[-300:])
    return [(l.split()[1] == "1", int(l.split()[2])) for l in out], None


# --------------------------------------------------------------------------
# byte surgery
# --------------------------------------------------------------------------

def _blocks(data, start, end):
    """metadata blocks tiling [start, end): [(pos, stored, uncompressed?)]"""
    out = []
    pos = start
    while pos + 2 <= end:
        hdr = struct.unpack_from("<H", data, pos)[0]
        out.append((pos, hdr & 0x7FFF, bool(hdr & 0x8000)))
        pos += 2 + (hdr & 0x7FFF)
    return out


def _pad(body, devblk):
    n = len(body)
    return body + b"\0" * ((-n) % devblk)


def restore_block(S, data, sup, pos, content, devblk):
    """the image with the metadata block at absolute position `pos` replaced by `content` stored uncompressed; every absolute
    position behind it moves by the change of the stored size"""
    d = bytearray(data[:sup["bytes_used"]])
    old = struct.unpack_from("<H", d, pos)[0] & 0x7FFF
    delta = len(content) - old
    d[pos:pos + 2 + old] = struct.pack("<H", 0x8000 | len(content)) + content

    def mv(x):
        return x + delta if x != NOTBL and x > pos else x

    s2 = dict(sup)
    for k in ("dir_table_start", "frag_table_start", "export_table_start", "id_table_start", "xattr_table_start", "bytes_used",
              "inode_table_start"):
        s2[k] = mv(sup[k])
    struct.pack_into(S.SUPER_FMT, d, 0, *[s2[k] for k in S.SUPER_FIELDS])

    def fix_list(at, n):
        for i in range(n):
            v = struct.unpack_from("<Q", d, at + 8 * i)[0]
            struct.pack_into("<Q", d, at + 8 * i, mv(v))

    if s2["frag_table_start"] != NOTBL and sup["frag_count"]:
        fix_list(s2["frag_table_start"], (sup["frag_count"] * 16 + META - 1) // META)
    if s2["export_table_start"] != NOTBL:
        fix_list(s2["export_table_start"], (sup["inode_count"] * 8 + META - 1) // META)
    fix_list(s2["id_table_start"], (sup["id_count"] * 4 + META - 1) // META)
    if s2["xattr_table_start"] != NOTBL:
        xs = s2["xattr_table_start"]
        kv, count, _ = struct.unpack_from("<QII", d, xs)
        struct.pack_into("<Q", d, xs, mv(kv))
        fix_list(xs + 16, (count * 16 + META - 1) // META)
    return _pad(bytes(d), devblk)


# field offsets from the start of an inode, by on-disk type
F_NLINK = {1: 20, 8: 16, 9: 40, 3: 16, 10: 16, 4: 16, 5: 16, 11: 16, 12: 16, 6: 16, 7: 16, 13: 16, 14: 16}
F_XATTR = {8: 36, 9: 52, 11: 24, 12: 24, 13: 20, 14: 20}
F_PARENT = {1: 28, 8: 28}


def mutations(S, pyimg, data, devblk, want=None):
    """[(name, expected clause numbers, mutated image bytes)]"""
    sup = pyimg.super
    bs = pyimg.bs
    out = []
    try:
        tree = pyimg.walk()
    except Exception:  # noqa
        return out
    iblocks = _blocks(data, sup["inode_table_start"], sup["dir_table_start"])
    if not iblocks:
        return out
    lpos, lstored, lunc = iblocks[-1]
    lrel = lpos - sup["inode_table_start"]
    content = bytearray(pyimg.inodes.block(lrel)[0])
    nodes = {}
    for p, n in tree.items():
        nodes.setdefault(n.ref, (p, n))
    # inodes that start in the last block of the inode table (they end there too)
    last = sorted(((n.ref & 0xFFFF, p, n) for p, n in nodes.values() if (n.ref >> 16) == lrel), key=lambda t: t[0])

    def inode_patch(name, exp, off, fmt, val):
        if off + struct.calcsize(fmt) > len(content):
            return
        c = bytearray(content)
        struct.pack_into(fmt, c, off, val)
        out.append((name, exp, restore_block(S, data, sup, lpos, bytes(c), devblk)))

    def first(pred):
        for off, p, n in last:
            if pred(n):
                return off, p, n
        return None

    # --- v_data ---
    f = first(lambda n: n.type == S.T_FILE and n.block_sizes and (n.block_sizes[0] & 0xFFFFFF))
    if f:
        off, p, n = f
        wpos = off + (56 if n.raw_type == 9 else 32)
        w0 = n.block_sizes[0]
        inode_patch("size-word-above-block-size", {14}, wpos, "<I", bs + 1)
        inode_patch("uncompressed-bit-flipped", {14}, wpos, "<I", w0 ^ (1 << 24))
        inode_patch("blocks-start-before-data-area", {14}, off + 16, "<Q" if n.raw_type == 9 else "<I", 0)
        if not (w0 & (1 << 24)) and (w0 & 0xFFFFFF) >= 12 and sup["comp_id"] in (1, 4):      # formats with a checksum
            d = bytearray(data)
            for i in range(8):
                d[n.blocks_start + 2 + i] ^= 0xA5
            out.append(("compressed-data-block-corrupted", {14}, bytes(d)))
    f = first(lambda n: n.type == S.T_FILE and n.frag_idx != NOID)
    if f:
        off, p, n = f
        inode_patch("fragment-index-out-of-range", {14}, off + (44 if n.raw_type == 9 else 20), "<I", len(pyimg.frags))
        inode_patch("fragment-offset-beyond-block", {14}, off + (48 if n.raw_type == 9 else 24), "<I", bs)
    # --- v_xattr_inodes ---
    f = first(lambda n: n.raw_type in F_XATTR and n.type != S.T_SLINK and n.xattr_idx not in (None, NOID))
    if f:
        off, p, n = f
        inode_patch("xattr-index-out-of-range", {15}, off + F_XATTR[n.raw_type], "<I", len(pyimg.xattr_ids))
    # --- v_links ---
    f = first(lambda n: n.type not in (S.T_DIR, S.T_FILE) or n.raw_type == 9)
    if f:
        off, p, n = f
        inode_patch("link-count-plus-one", {18}, off + F_NLINK[n.raw_type], "<I", n.nlink + 1)
    f = first(lambda n: n.type == S.T_DIR)
    if f:
        off, p, n = f
        inode_patch("directory-link-count-plus-one", {17}, off + F_NLINK[n.raw_type], "<I", n.nlink + 1)
    f = first(lambda n: n.type == S.T_DIR and n.ref != sup["root_ref"])
    if f:
        off, p, n = f
        inode_patch("parent-inode-number", {17}, off + F_PARENT[n.raw_type], "<I", n.parent_ino + 1)
    # --- v_frag ---
    if pyimg.frags and sup["frag_table_start"] != NOTBL:
        nblk = (sup["frag_count"] * 16 + META - 1) // META
        loc = struct.unpack_from("<Q", data, sup["frag_table_start"])[0]
        hdr = struct.unpack_from("<H", data, loc)[0]
        raw = data[loc + 2:loc + 2 + (hdr & 0x7FFF)]
        tb = bytearray(raw if hdr & 0x8000 else S.decompress(sup["comp_id"], raw, META))
        start, w, _ = pyimg.frags[0]
        c = bytearray(tb)
        struct.pack_into("<Q", c, 0, sup["inode_table_start"])
        out.append(("fragment-entry-outside-data-area", {13}, restore_block(S, data, sup, loc, bytes(c), devblk)))
        c = bytearray(tb)
        struct.pack_into("<I", c, 8, (bs + 1) | (1 << 24))
        out.append(("fragment-entry-size-above-block-size", {13}, restore_block(S, data, sup, loc, bytes(c), devblk)))
    # --- v_export ---
    if pyimg.export is not None and sup["inode_count"] >= 2:
        loc = struct.unpack_from("<Q", data, sup["export_table_start"])[0]
        hdr = struct.unpack_from("<H", data, loc)[0]
        raw = data[loc + 2:loc + 2 + (hdr & 0x7FFF)]
        tb = bytearray(raw if hdr & 0x8000 else S.decompress(sup["comp_id"], raw, META))
        c = bytearray(tb)
        c[0:8], c[8:16] = tb[8:16], tb[0:8]
        if c != tb:
            out.append(("export-slots-swapped", {16}, restore_block(S, data, sup, loc, bytes(c), devblk)))
    if want is not None:
        out = [m for m in out if m[0] in want]
    return out


RARE = ["xattr-index-out-of-range", "compressed-data-block-corrupted", "size-word-above-block-size", "uncompressed-bit-flipped",
        "blocks-start-before-data-area", "export-slots-swapped"]


def pick(muts, index, count):
    """at most `count` of the applicable mutations: rare kinds first, the rest in a rotation that depends on the image index"""
    rare = [m for m in muts if m[0] in RARE]
    rest = [m for m in muts if m[0] not in RARE]
    rare = rare[index % len(rare):] + rare[:index % len(rare)] if rare else []
    rest = rest[index % len(rest):] + rest[:index % len(rest)] if rest else []
    out = rare[:(count + 1) // 2]
    return out + rest[:count - len(out)]


def check_image(drv, d, data, spec, pyimg, pybad, S, VE, index=0, max_mutations=3, max_base_seconds=0.7):
    """returns dict(valid, clause, problems=[...], oracle_problems=[...], mutations=[(name, clause)], t=seconds of the base run)"""
    import time
    res = dict(valid=None, clause=None, problems=[], oracle_problems=[], mutations=[], t=0.0)
    path = os.path.join(d, "out.sqfs")
    t0 = time.time()
    out, err = run_valid(drv, [path], spec["devblk"])
    res["t"] = time.time() - t0
    if out is None:
        res["oracle_problems"].append("valid_image_full driver failed: %s" % err)
        return res
    res["valid"], res["clause"] = out[0]
    if not res["valid"]:
        res["problems"].append("extracted valid_image_full = false (first failing clause: %s)%s"
                               % (CLAUSES.get(res["clause"], res["clause"]),
                                  "; the Python validator reports: " + "; ".join(pybad[:2]) if pybad else
                                  "; the Python validator accepts the image"))
    elif pybad:
        res["oracle_problems"].append("valid_image_full accepts the image, the Python validator reports: %s" % "; ".join(pybad[:2]))
    if not res["valid"] or pybad or pyimg is None or max_mutations <= 0 or res["t"] > max_base_seconds:
        return res
    try:
        muts = pick(mutations(S, pyimg, data, spec["devblk"]), index, max_mutations)
    except Exception as e:  # noqa: the surgery could not be applied to this image (nothing is claimed then)
        res["oracle_problems"].append("mutation generator failed: %r" % (e,))
        return res
    if not muts:
        return res
    paths = []
    for i, (name, exp, mdata) in enumerate(muts):
        p = os.path.join(d, "mut%02d.sqfs" % i)
        with open(p, "wb") as f:
            f.write(mdata)
        paths.append(p)
    out, err = run_valid(drv, paths, spec["devblk"])
    if out is None:
        res["oracle_problems"].append("valid_image_full driver failed on a mutated image: %s" % err)
        return res
    for (name, exp, mdata), (v, clause) in zip(muts, out):
        try:
            mb = VE.validate_ext(S.Image(mdata), spec["devblk"])
        except Exception as e:  # noqa
            mb = ["python decoder: %r" % (e,)]
        res["mutations"].append((name, clause))
        if v:
            res["oracle_problems"].append("mutation %s: the extracted valid_image_full ACCEPTS the mutated image (python: %s)"
                                          % (name, mb[:1] or "accepts too"))
        elif clause not in exp:
            res["oracle_problems"].append("mutation %s: rejected by clause %s, expected %s"
                                          % (name, CLAUSES.get(clause, clause), [CLAUSES[c] for c in sorted(exp)]))
        if not mb:
            res["oracle_problems"].append("mutation %s: the Python validator ACCEPTS the mutated image (extracted: clause %s)"
                                          % (name, CLAUSES.get(clause, clause)))
    return res


def build(core, here):
    return core.build_model_driver("C03valid", "ExtractC03Valid.v", os.path.join(here, "valid_driver.ml"),
                                   stubs_c=os.path.join(here, "image_stubs.c"), cclibs=["-lz", "-llzma", "-llz4", "-lzstd"])
