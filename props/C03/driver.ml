(* C03 model driver: same command language and output format as props/C03/h_dirmeta.c *)
open C03_model

let rec pos_of_int i = if i = 1 then XH else if i land 1 = 1 then XI (pos_of_int (i lsr 1)) else XO (pos_of_int (i lsr 1))
let n_of_int i = if i = 0 then N0 else Npos (pos_of_int i)
let rec int_of_pos = function XH -> 1 | XO p -> 2 * int_of_pos p | XI p -> 2 * int_of_pos p + 1
let int_of_n = function N0 -> 0 | Npos p -> int_of_pos p
let int_of_z = function Z0 -> 0 | Zpos p -> int_of_pos p | Zneg p -> - (int_of_pos p)

(* decimal strings up to 2^64-1 do not fit OCaml's 63-bit int: go through positive arithmetic *)
let n_of_string s =
  let hi = ref 0 and lo = ref 0 in   (* value = hi * 2^32 + lo, both < 2^32 .. hi < 2^32 *)
  String.iter (fun c ->
    let d = Char.code c - 48 in
    let l = !lo * 10 + d in
    lo := l land 0xFFFFFFFF;
    hi := !hi * 10 + (l lsr 32)) s;
  (* build N from the 64 bits *)
  let bits = Array.make 64 false in
  for i = 0 to 31 do bits.(i) <- (!lo lsr i) land 1 = 1; bits.(32 + i) <- (!hi lsr i) land 1 = 1 done;
  let rec top i = if i < 0 then -1 else if bits.(i) then i else top (i - 1) in
  let t = top 63 in
  if t < 0 then N0 else begin
    let p = ref XH in
    for i = t - 1 downto 0 do p := if bits.(i) then XI !p else XO !p done;
    Npos !p
  end

let string_of_n n =
  match n with
  | N0 -> "0"
  | Npos p ->
    let rec lsb p = match p with XH -> [true] | XO q -> false :: lsb q | XI q -> true :: lsb q in
    (* decimal by repeated doubling on a digit array (values up to 2^128) *)
    let digits = Array.make 40 0 in
    List.iter (fun b ->
      let carry = ref (if b then 1 else 0) in
      for i = 0 to 39 do
        let v = digits.(i) * 2 + !carry in
        digits.(i) <- v mod 10; carry := v / 10
      done) (List.rev (lsb p));
    let buf = Buffer.create 40 in
    let started = ref false in
    for i = 39 downto 0 do
      if digits.(i) <> 0 then started := true;
      if !started then Buffer.add_char buf (Char.chr (48 + digits.(i)))
    done;
    if Buffer.length buf = 0 then "0" else Buffer.contents buf

let unhex s =
  if s = "-" then [] else
  let n = String.length s / 2 in
  List.init n (fun i -> n_of_int (int_of_string ("0x" ^ String.sub s (2*i) 2)))

let hex l =
  let b = Buffer.create 64 in
  List.iter (fun c -> Buffer.add_string b (Printf.sprintf "%02x" (int_of_n c))) l;
  if Buffer.length b = 0 then "-" else Buffer.contents b

let rec drop k l = if k = 0 then l else match l with [] -> [] | _ :: r -> drop (k - 1) r

(* ---- context ---- *)
let toymode = ref N0
let comp b = toy_compress !toymode b
let mwr = ref (mw_init false)
let dwr : dw option ref = ref None
let file = Buffer.create 65536            (* the memory file, as hex-independent raw bytes *)
let out_seen = ref 0                      (* how many bytes of mw_out are already in [file] *)

let sync_file () =
  let o = (!mwr).mw_out in
  let fresh = drop !out_seen o in
  List.iter (fun c -> Buffer.add_char file (Char.chr (int_of_n c))) fresh;
  out_seen := !out_seen + List.length fresh

let file_append l = List.iter (fun c -> Buffer.add_char file (Char.chr (int_of_n c))) l
let file_size () = n_of_int (Buffer.length file)

let pos_str () =
  let (b, o) = mw_position !mwr in
  Printf.sprintf "%s %s" (string_of_n b) (string_of_n o)

let with_dm w = { w with dw_dm = !mwr }

let words s = List.filter (fun x -> x <> "") (String.split_on_char ' ' s)

(* tree syntax of the N command: L = node with a number, H = hard link entry, D( children ) = directory *)
let parse_tree (s : string) : tnode =
  let pos = ref 0 in
  let rec node () =
    let c = s.[!pos] in
    incr pos;
    match c with
    | 'L' -> TLeaf false
    | 'H' -> TLeaf true
    | 'D' ->
      incr pos;                       (* '(' *)
      let ch = ref [] in
      while s.[!pos] <> ')' do ch := node () :: !ch done;
      incr pos;
      TDir (List.rev !ch)
    | _ -> failwith "bad tree"
  in
  node ()

let rec nat_of_int i = if i = 0 then O else S (nat_of_int (i - 1))
let rec int_of_nat = function O -> 0 | S n -> 1 + int_of_nat n

let () =
  try
    while true do
      let line = input_line stdin in
      if String.length line > 0 then begin
        let cmd = line.[0] in
        let args = words (String.sub line 1 (String.length line - 1)) in
        match cmd, args with
        | 'M', [keep; mode] ->
          toymode := n_of_int (int_of_string mode);
          mwr := mw_init (keep <> "0");
          dwr := None;
          Buffer.clear file; out_seen := 0;
          print_endline "M ok"
        | 'a', [h] ->
          (match mw_append comp !mwr (unhex h) with
           | Ok m -> mwr := m; sync_file (); Printf.printf "a 0 %s\n" (pos_str ())
           | Err e -> Printf.printf "a %d %s\n" (int_of_z e) (pos_str ())
           | Fuel -> print_endline "a FUEL")
        | 'f', [] ->
          (match mw_flush comp !mwr with
           | Ok m -> mwr := m; sync_file (); Printf.printf "f 0 %s\n" (pos_str ())
           | Err e -> Printf.printf "f %d %s\n" (int_of_z e) (pos_str ())
           | Fuel -> print_endline "f FUEL")
        | 'w', [] ->
          mwr := mw_write_to_file !mwr; sync_file (); print_endline "w 0"
        | 'o', [] ->
          let b = Buffer.create (2 * Buffer.length file + 16) in
          String.iter (fun c -> Buffer.add_string b (Printf.sprintf "%02x" (Char.code c))) (Buffer.contents file);
          Printf.printf "o %d %s\n" (Buffer.length file) (if Buffer.length b = 0 then "-" else Buffer.contents b)
        | 'D', [ex] ->
          dwr := Some (dw_create !mwr (ex <> "0")); print_endline "D ok"
        | 'b', [] ->
          (match !dwr with
           | Some w -> let w' = dw_begin (with_dm w) in dwr := Some w';
             Printf.printf "b 0 %s\n" (string_of_n w'.dw_ref)
           | None -> print_endline "b nodw")
        | 'n', [h; inum; iref; mode] ->
          (match !dwr with
           | Some w ->
             (match dw_add_entry (with_dm w) (unhex h) (n_of_string inum) (n_of_string iref) (n_of_string mode) with
              | Ok w' -> dwr := Some w'; print_endline "n 0"
              | Err e -> Printf.printf "n %d\n" (int_of_z e)
              | Fuel -> print_endline "n FUEL")
           | None -> print_endline "n nodw")
        | 'E', [] ->
          (match !dwr with
           | Some w ->
             (match dw_end comp (with_dm w) with
              | Ok w' -> dwr := Some w'; mwr := w'.dw_dm; sync_file ();
                Printf.printf "E 0 %s %s %s %s\n" (string_of_n w'.dw_size) (string_of_n (dw_index_size w'))
                  (string_of_n w'.dw_count) (pos_str ())
              | Err e -> Printf.printf "E %d\n" (int_of_z e)
              | Fuel -> print_endline "E FUEL")
           | None -> print_endline "E nodw")
        | 'i', [hl; xa; pa] ->
          (match !dwr with
           | Some w ->
             let di = dw_create_inode w (n_of_string hl) (n_of_string xa) (n_of_string pa) in
             let b = Buffer.create 256 in
             Buffer.add_string b (Printf.sprintf "i %d %s %s %s %s %s %s %s" (if di.di_ext then 8 else 1)
               (string_of_n di.di_nlink) (string_of_n di.di_size) (string_of_n di.di_start_block)
               (string_of_n di.di_offset) (string_of_n di.di_parent) (string_of_n di.di_xattr)
               (string_of_n di.di_icount));
             List.iter (fun (((ix, sb), sz), nm) ->
               Buffer.add_string b (Printf.sprintf " %s,%s,%s,%s" (string_of_n ix) (string_of_n sb) (string_of_n sz) (hex nm)))
               di.di_index;
             print_endline (Buffer.contents b)
           | None -> print_endline "i nodw")
        | 'x', [rn; rr] ->
          (match !dwr with
           | Some w ->
             (match dw_write_export_table comp w (file_size ()) (n_of_string rn) (n_of_string rr) with
              | Ok ((w', bytes), st) ->
                dwr := Some w'; file_append bytes;
                (match st with
                 | Some s -> Printf.printf "x 0 %s 128\n" (string_of_n s)
                 | None -> print_endline "x 0 18446744073709551615 0")
              | Err e -> Printf.printf "x %d 18446744073709551615 0\n" (int_of_z e)
              | Fuel -> print_endline "x FUEL")
           | None -> print_endline "x nodw")
        | 't', [h] ->
          (match write_table comp (file_size ()) (unhex h) with
           | Ok (bytes, st) -> file_append bytes; Printf.printf "t 0 %s\n" (string_of_n st)
           | Err e -> Printf.printf "t %d 0\n" (int_of_z e)
           | Fuel -> print_endline "t FUEL")
        | 'S', [bs; mt; co] ->
          (match super_init (n_of_string bs) (n_of_string mt) (n_of_string co) with
           | Ok s -> Printf.printf "S 0 %s\n" (hex (super_write s))
           | Err e -> Printf.printf "S %d -\n" (int_of_z e)
           | Fuel -> print_endline "S FUEL")
        | 'N', [t] ->
          let nums = numbering (parse_tree t) in
          let b = Buffer.create 4096 in
          Buffer.add_string b "N";
          List.iter (fun (p, n) ->
            Buffer.add_char b ' ';
            Buffer.add_string b (String.concat "." (List.map (fun k -> string_of_int (int_of_nat k)) p));
            Buffer.add_char b ':';
            Buffer.add_string b (string_of_n n)) nums;
          print_endline (Buffer.contents b)
        | _ -> Printf.printf "? %s\n" line
      end
    done
  with End_of_file -> ()
