(* C03 xattr section: driver of the extracted models (coq/ImgXattr).
     X <mode> <size0> <sets>                      xw_sets + xflush with the toy compressor <mode>: the same line as
                                                  props/C03/h_xattr_flush.c prints for the real sqfs_xattr_writer_flush
     V <mode> <size0> <start|none> <hexbytes> <idx,idx,...|->
                                                  the extracted validator / reader specification on bytes the C code produced
                                                  (a file of <size0> zero bytes ++ bytes, super block with xattr table start
                                                  size0 + start and bytes_used = file size): xattr_tail, v_xattr, count, and the
                                                  sets behind the given indices    -> V tail=<0|1> vx=<0|1> count=<n> sets=<i>=<rc>/<set>;...
     R <path> <idx,idx,...|->                     the same on a real image file (decompressor = system codec libraries through
                                                  props/C03/image_stubs.c)          -> R super=<0|1> vx=<0|1> vi=<0|1> count=<n> sets=... *)
open C03x_model

external c_uncompress : int -> string -> int -> int * string = "c03img_uncompress"

let rec pos_of_int i = if i = 1 then XH else if i land 1 = 1 then XI (pos_of_int (i lsr 1)) else XO (pos_of_int (i lsr 1))
let n_of_int i = if i = 0 then N0 else Npos (pos_of_int i)
let rec int_of_pos = function XH -> 1 | XO p -> 2 * int_of_pos p | XI p -> 2 * int_of_pos p + 1
let int_of_n = function N0 -> 0 | Npos p -> int_of_pos p
let int_of_z = function Z0 -> 0 | Zpos p -> int_of_pos p | Zneg p -> - (int_of_pos p)

let byte_tbl = Array.init 256 n_of_int
let hexv c = if c <= '9' then Char.code c - 48 else (Char.code c lor 32) - 87
let unhex s =
  if s = "-" then [] else begin
    let l = ref [] in
    for i = String.length s / 2 - 1 downto 0 do
      l := byte_tbl.(hexv s.[2*i] * 16 + hexv s.[2*i+1]) :: !l
    done;
    !l
  end

let hex_to buf l =
  let d = "0123456789abcdef" in
  List.iter (fun c -> let v = int_of_n c in Buffer.add_char buf d.[v lsr 4]; Buffer.add_char buf d.[v land 15]) l

let hex l =
  let b = Buffer.create 64 in
  hex_to b l;
  if Buffer.length b = 0 then "-" else Buffer.contents b

let split c s = if s = "" then [] else String.split_on_char c s

let parse_sets s =
  List.map (fun set ->
    if set = "-" then [] else
    List.map (fun kv -> match String.index_opt kv ':' with
      | Some i -> (unhex (String.sub kv 0 i), unhex (String.sub kv (i + 1) (String.length kv - i - 1)))
      | None -> failwith "kv") (split ',' set)) (split ';' s)

let list_of_string s =
  let l = ref [] in
  for i = String.length s - 1 downto 0 do l := byte_tbl.(Char.code s.[i]) :: !l done;
  !l
let string_of_list l =
  let b = Buffer.create 8192 in
  List.iter (fun c -> Buffer.add_char b (Char.chr (int_of_n c))) l;
  Buffer.contents b

let memo : (string, n list option) Hashtbl.t = Hashtbl.create 64
let real_uncompress id (c : n list) : n list option =
  let s = string_of_list c in
  match Hashtbl.find_opt memo s with
  | Some r -> r
  | None ->
    let (ret, out) = c_uncompress id s 8192 in
    let r = if ret > 0 then Some (list_of_string out) else None in
    Hashtbl.replace memo s r;
    r

let read_file path =
  let ic = open_in_bin path in
  let n = in_channel_length ic in
  let s = really_input_string ic n in
  close_in ic;
  s

let b01 b = if b then "1" else "0"

let set_s l = match l with
  | [] -> "-"
  | _ -> String.concat "," (List.map (fun (k, v) -> hex k ^ ":" ^ hex v) l)

let sets_s un img s idxs =
  match read_xattr_table un img s with
  | None -> "NOTABLE"
  | Some t ->
    String.concat ";" (List.map (fun i ->
      match xt_set t (n_of_int i) with
      | Ok l -> Printf.sprintf "%d=0/%s" i (set_s l)
      | Err e -> Printf.sprintf "%d=%d/" i (int_of_z e)
      | _ -> Printf.sprintf "%d=?/" i) idxs)

let count_s un img s =
  match read_xattr_table un img s with
  | None -> "-1"
  | Some t -> string_of_int (int_of_n (xt_count t))

let idx_list s = if s = "-" then [] else List.map int_of_string (split ',' s)

let none64 = N.add (N.mul (n_of_int 0xFFFFFFFF) (n_of_int 0x100000000)) (n_of_int 0xFFFFFFFF)

let () =
  try
    while true do
      let line = input_line stdin in
      (try
        (match split ' ' line with
         | "X" :: mode :: size0 :: rest ->
           let mode = n_of_int (int_of_string mode) and size0 = n_of_int (int_of_string size0) in
           let sets = parse_sets (String.concat " " rest) in
           (match xw_sets xw_empty sets with
            | Ok (w, idxs) ->
              let b = Buffer.create 4096 in
              Buffer.add_string b "X idx=";
              List.iteri (fun i x -> if i > 0 then Buffer.add_char b ','; Buffer.add_string b (string_of_int (int_of_n x))) idxs;
              (match xflush (img_compress mode) size0 w with
               | Ok None -> Buffer.add_string b " add=0 flush=0 start=none noxattr=1 bytes=-"
               | Ok (Some (bytes, off)) ->
                 Buffer.add_string b (Printf.sprintf " add=0 flush=0 start=%d noxattr=0 bytes=" (int_of_n off));
                 hex_to b bytes
               | Err e -> Buffer.add_string b (Printf.sprintf " add=0 flush=%d" (int_of_z e))
               | Crash -> Buffer.add_string b " add=0 flush=CRASH"
               | OutOfFuel -> Buffer.add_string b " add=0 flush=FUEL");
              print_endline (Buffer.contents b)
            | Err e -> Printf.printf "X add=%d\n" (int_of_z e)
            | _ -> print_endline "X add=?")
         | [ "V"; mode; size0; start; bytes; idxs ] ->
           let mode = n_of_int (int_of_string mode) and size0 = int_of_string size0 in
           let bytes = unhex bytes in
           let img = List.init size0 (fun _ -> N0) @ bytes in
           let used = n_of_int (size0 + List.length bytes) in
           let xs = if start = "none" then none64 else n_of_int (size0 + int_of_string start) in
           let s = { s_magic = N0; s_inode_count = N0; s_mtime = N0; s_block_size = N0; s_frag_count = N0; s_comp_id = N0;
                     s_block_log = N0; s_flags = N0; s_id_count = N0; s_vmaj = N0; s_vmin = N0; s_root_ref = N0;
                     s_bytes_used = used; s_id_start = N0; s_xattr_start = xs; s_inode_start = N0; s_dir_start = N0;
                     s_frag_start = N0; s_export_start = N0 } in
           let un = img_uncompress mode in
           Printf.printf "V tail=%s vx=%s count=%s sets=%s\n" (b01 (xattr_tail un img s (n_of_int size0))) (b01 (v_xattr un img s))
             (count_s un img s) (sets_s un img s (idx_list idxs))
         | [ "R"; path; idxs ] ->
           Hashtbl.reset memo;
           let img = list_of_string (read_file path) in
           (match read_super img with
            | None -> print_endline "R super=0"
            | Some s ->
              let un = real_uncompress (int_of_n s.s_comp_id) in
              Printf.printf "R super=1 vx=%s vi=%s count=%s sets=%s\n" (b01 (v_xattr un img s)) (b01 (v_xattr_inodes un img s))
                (count_s un img s) (sets_s un img s (idx_list idxs)))
         | _ -> print_endline "PARSE")
       with Failure m -> Printf.printf "PARSE %s\n" m
          | Invalid_argument m -> Printf.printf "PARSE %s\n" m
          | Sys_error m -> Printf.printf "PARSE %s\n" m);
      flush stdout
    done
  with End_of_file -> ()
