/* C03 component harness: drives the working tree's meta writer, directory writer, table writer and
 * super block writer on an in-memory sqfs_file_t with a toy compressor that is implemented identically in
 * Gallina (coq/C03/MetaModel.v: toy_compress).  One command per input line, one result line per command;
 * the OCaml driver of the extracted model prints the same lines for the same commands.
 *
 *   M <keep> <toymode>            new context (memory file, compressor, meta writer)
 *   a <hex>                       sqfs_meta_writer_append           -> a <ret> <block> <offset>
 *   f                             sqfs_meta_writer_flush            -> f <ret> <block> <offset>
 *   w                             sqfs_meta_write_write_to_file     -> w <ret>
 *   o                             file contents                     -> o <len> <hex>
 *   D <export>                    sqfs_dir_writer_create on the current meta writer -> D ok
 *   b                             sqfs_dir_writer_begin             -> b <ret> <dir_ref>
 *   n <hexname> <inum> <iref> <mode>   sqfs_dir_writer_add_entry    -> n <ret>
 *   E                             sqfs_dir_writer_end               -> E <ret> <size> <index_size> <count> <block> <offset>
 *   i <hlinks> <xattr> <parent>   sqfs_dir_writer_create_inode      -> i <type> <nlink> <size> <start> <off> <parent> <xattr> <icount> {index,start,size,hexname}*
 *   x <root_inum> <root_ref>      sqfs_dir_writer_write_export_table (same file) -> x <ret> <export_table_start> <flags>
 *   t <hex>                       sqfs_write_table (same file)      -> t <ret> <start>
 *   S <block_size> <mtime> <comp> sqfs_super_init + sqfs_super_write on a fresh file -> S <ret> <hex of the 96 bytes>
 *   g <offset> <hexname>*         get_conseq_entry_count (static) is exercised through E; no direct command
 */
#include "config.h"
#include "sqfs/meta_writer.h"
#include "sqfs/dir_writer.h"
#include "sqfs/compressor.h"
#include "sqfs/super.h"
#include "sqfs/table.h"
#include "sqfs/inode.h"
#include "sqfs/error.h"
#include "sqfs/block.h"
#include "sqfs/dir.h"
#include "sqfs/io.h"

#include <stdio.h>
#include <stdlib.h>
#include <string.h>

/* ---------------- in-memory file ---------------- */
typedef struct {
	sqfs_file_t base;
	unsigned char *data;
	size_t size, cap;
} memfile_t;

static int mf_read_at(sqfs_file_t *f, sqfs_u64 off, void *buf, size_t size)
{
	memfile_t *m = (memfile_t *)f;
	if (off + size > m->size) return SQFS_ERROR_OUT_OF_BOUNDS;
	memcpy(buf, m->data + off, size);
	return 0;
}

static int mf_write_at(sqfs_file_t *f, sqfs_u64 off, const void *buf, size_t size)
{
	memfile_t *m = (memfile_t *)f;
	if (off + size > m->cap) {
		size_t nc = (off + size) * 2 + 4096;
		m->data = realloc(m->data, nc);
		memset(m->data + m->cap, 0, nc - m->cap);
		m->cap = nc;
	}
	memcpy(m->data + off, buf, size);
	if (off + size > m->size) m->size = off + size;
	return 0;
}

static sqfs_u64 mf_get_size(const sqfs_file_t *f) { return ((const memfile_t *)f)->size; }
static int mf_truncate(sqfs_file_t *f, sqfs_u64 size) { ((memfile_t *)f)->size = size; return 0; }
static const char *mf_name(sqfs_file_t *f) { (void)f; return "mem"; }
static void mf_destroy(sqfs_object_t *o) { memfile_t *m = (memfile_t *)o; free(m->data); free(m); }

static memfile_t *memfile_new(void)
{
	memfile_t *m = calloc(1, sizeof(*m));
	sqfs_object_init(m, mf_destroy, NULL);
	m->base.read_at = mf_read_at;
	m->base.write_at = mf_write_at;
	m->base.get_size = mf_get_size;
	m->base.truncate = mf_truncate;
	m->base.get_filename = mf_name;
	return m;
}

/* ---------------- toy compressor (= MetaModel.toy_compress) ---------------- */
typedef struct {
	sqfs_compressor_t base;
	int mode;
} toy_t;

static sqfs_s32 toy_block(sqfs_compressor_t *c, const sqfs_u8 *in, sqfs_u32 size, sqfs_u8 *out, sqfs_u32 outsize)
{
	toy_t *t = (toy_t *)c;
	sqfs_u32 i;
	if (t->mode == 0 || size == 0)
		return 0;
	if (t->mode == 1) {
		if (size < 5 || size >= 16777216 || outsize < 4) return 0;
		for (i = 1; i < size; ++i)
			if (in[i] != in[0]) return 0;
		out[0] = in[0];
		out[1] = size & 0xFF; out[2] = (size >> 8) & 0xFF; out[3] = (size >> 16) & 0xFF;
		return 4;
	}
	if (size < 64 && outsize >= size + 2) {
		out[0] = 0xEE; out[1] = 0xEE;
		memcpy(out + 2, in, size);
		return size + 2;
	}
	return 0;
}

static void toy_destroy(sqfs_object_t *o) { free(o); }

static sqfs_compressor_t *toy_new(int mode)
{
	toy_t *t = calloc(1, sizeof(*t));
	sqfs_object_init(t, toy_destroy, NULL);
	t->base.do_block = toy_block;
	t->mode = mode;
	return (sqfs_compressor_t *)t;
}

/* ---------------- helpers ---------------- */
static int hv(int c) { return c <= '9' ? c - '0' : c - 'a' + 10; }

static size_t unhex(const char *s, unsigned char *out)
{
	size_t n = 0;
	if (strcmp(s, "-") == 0) return 0;
	while (s[0] && s[1]) { out[n++] = (unsigned char)(hv(s[0]) * 16 + hv(s[1])); s += 2; }
	return n;
}

static void puthex(const unsigned char *p, size_t n)
{
	size_t i;
	if (n == 0) { fputs("-", stdout); return; }
	for (i = 0; i < n; ++i) printf("%02x", p[i]);
}

static char line[1 << 22];
static unsigned char buf[1 << 21];

int main(void)
{
	memfile_t *file = NULL;
	sqfs_compressor_t *cmp = NULL;
	sqfs_meta_writer_t *mw = NULL;
	sqfs_dir_writer_t *dw = NULL;

	while (fgets(line, sizeof(line), stdin)) {
		size_t n = strlen(line);
		char *arg;
		sqfs_u64 blk;
		sqfs_u32 off;
		int ret;
		while (n > 0 && (line[n - 1] == '\n' || line[n - 1] == '\r')) line[--n] = 0;
		if (n == 0) continue;
		arg = line + 1;
		while (*arg == ' ') ++arg;

		switch (line[0]) {
		case 'M': {
			int keep, mode;
			sscanf(arg, "%d %d", &keep, &mode);
			if (dw) { sqfs_drop(dw); dw = NULL; }
			if (mw) { sqfs_drop(mw); mw = NULL; }
			if (cmp) { sqfs_drop(cmp); cmp = NULL; }
			if (file) { sqfs_drop(file); file = NULL; }
			file = memfile_new();
			cmp = toy_new(mode);
			mw = sqfs_meta_writer_create((sqfs_file_t *)file, cmp, keep ? SQFS_META_WRITER_KEEP_IN_MEMORY : 0);
			puts("M ok");
			break;
		}
		case 'a': {
			size_t len = unhex(arg, buf);
			ret = sqfs_meta_writer_append(mw, buf, len);
			sqfs_meta_writer_get_position(mw, &blk, &off);
			printf("a %d %llu %u\n", ret, (unsigned long long)blk, off);
			break;
		}
		case 'f':
			ret = sqfs_meta_writer_flush(mw);
			sqfs_meta_writer_get_position(mw, &blk, &off);
			printf("f %d %llu %u\n", ret, (unsigned long long)blk, off);
			break;
		case 'w':
			ret = sqfs_meta_write_write_to_file(mw);
			printf("w %d\n", ret);
			break;
		case 'o':
			printf("o %llu ", (unsigned long long)file->size);
			puthex(file->data, file->size);
			putchar('\n');
			break;
		case 'D': {
			int ex;
			sscanf(arg, "%d", &ex);
			if (dw) sqfs_drop(dw);
			dw = sqfs_dir_writer_create(mw, ex ? SQFS_DIR_WRITER_CREATE_EXPORT_TABLE : 0);
			puts(dw ? "D ok" : "D fail");
			break;
		}
		case 'b':
			ret = sqfs_dir_writer_begin(dw, 0);
			printf("b %d %llu\n", ret, (unsigned long long)sqfs_dir_writer_get_dir_reference(dw));
			break;
		case 'n': {
			char *p = strchr(arg, ' ');
			unsigned long long inum, iref, mode;
			size_t len;
			*p++ = 0;
			len = unhex(arg, buf);
			buf[len] = 0;
			sscanf(p, "%llu %llu %llu", &inum, &iref, &mode);
			ret = sqfs_dir_writer_add_entry(dw, (const char *)buf, (sqfs_u32)inum, (sqfs_u64)iref, (sqfs_u16)mode);
			printf("n %d\n", ret);
			break;
		}
		case 'E':
			ret = sqfs_dir_writer_end(dw);
			sqfs_meta_writer_get_position(mw, &blk, &off);
			printf("E %d %llu %llu %llu %llu %u\n", ret,
			       (unsigned long long)sqfs_dir_writer_get_size(dw),
			       (unsigned long long)sqfs_dir_writer_get_index_size(dw),
			       (unsigned long long)sqfs_dir_writer_get_entry_count(dw),
			       (unsigned long long)blk, off);
			break;
		case 'i': {
			unsigned long long hl, xa, pa;
			sqfs_inode_generic_t *ino;
			sscanf(arg, "%llu %llu %llu", &hl, &xa, &pa);
			ino = sqfs_dir_writer_create_inode(dw, (size_t)hl, (sqfs_u32)xa, (sqfs_u32)pa);
			if (ino == NULL) { puts("i null"); break; }
			if (ino->base.type == SQFS_INODE_DIR) {
				printf("i %u %u %u %u %u %u %u %u", (unsigned)ino->base.type, ino->data.dir.nlink,
				       (unsigned)ino->data.dir.size, ino->data.dir.start_block,
				       (unsigned)ino->data.dir.offset, ino->data.dir.parent_inode, 4294967295u, 0u);
			} else {
				size_t pos = 0;
				printf("i %u %u %u %u %u %u %u %u", (unsigned)ino->base.type, ino->data.dir_ext.nlink,
				       ino->data.dir_ext.size, ino->data.dir_ext.start_block,
				       (unsigned)ino->data.dir_ext.offset, ino->data.dir_ext.parent_inode,
				       ino->data.dir_ext.xattr_idx, (unsigned)ino->data.dir_ext.inodex_count);
				while (pos < ino->payload_bytes_used) {
					sqfs_dir_index_t ie;
					memcpy(&ie, (sqfs_u8 *)ino->extra + pos, sizeof(ie));
					printf(" %u,%u,%u,", ie.index, ie.start_block, ie.size);
					puthex((sqfs_u8 *)ino->extra + pos + sizeof(ie), (size_t)ie.size + 1);
					pos += sizeof(ie) + ie.size + 1;
				}
			}
			putchar('\n');
			free(ino);
			break;
		}
		case 'x': {
			unsigned long long rn, rr;
			sqfs_super_t super;
			memset(&super, 0, sizeof(super));
			super.export_table_start = 0xFFFFFFFFFFFFFFFFULL;
			sscanf(arg, "%llu %llu", &rn, &rr);
			ret = sqfs_dir_writer_write_export_table(dw, (sqfs_file_t *)file, cmp, (sqfs_u32)rn, (sqfs_u64)rr, &super);
			printf("x %d %llu %u\n", ret, (unsigned long long)super.export_table_start, (unsigned)super.flags);
			break;
		}
		case 't': {
			size_t len = unhex(arg, buf);
			sqfs_u64 start = 0;
			ret = sqfs_write_table((sqfs_file_t *)file, cmp, buf, len, &start);
			printf("t %d %llu\n", ret, (unsigned long long)start);
			break;
		}
		case 'S': {
			unsigned long long bs, mt, co;
			sqfs_super_t super;
			memfile_t *f2 = memfile_new();
			sscanf(arg, "%llu %llu %llu", &bs, &mt, &co);
			memset(&super, 0xAA, sizeof(super));
			ret = sqfs_super_init(&super, (size_t)bs, (sqfs_u32)mt, (SQFS_COMPRESSOR)co);
			printf("S %d ", ret);
			if (ret == 0) {
				sqfs_super_write(&super, (sqfs_file_t *)f2);
				puthex(f2->data, f2->size);
			} else {
				fputs("-", stdout);
			}
			putchar('\n');
			sqfs_drop(f2);
			break;
		}
		default:
			printf("? %s\n", line);
		}
	}
	if (dw) sqfs_drop(dw);
	if (mw) sqfs_drop(mw);
	if (cmp) sqfs_drop(cmp);
	if (file) sqfs_drop(file);
	return 0;
}
