"""C03 — the xattr section of the image (coq/ImgXattr: byte-level model of sqfs_xattr_writer_flush).

Legs
  exact   : the extracted model (xw_sets + xflush, props/C03/xattr_driver.ml) against the working tree's
            sqfs_xattr_writer_begin / add_kv / end / flush on an in-memory file (props/C03/h_xattr_flush.c): the same set
            collections, toy compressors 0 (store) / 1 (RLE) / 3 (zero-run-length), EXACT bytes of everything the flush
            appends, header offset, returned indices, NO_XATTRS bit.  Cases are aimed at the split points of the proofs:
            511 / 512 / 513 / 1024 / 1025 distinct sets (one / two / three id blocks, location array exactly full), key-value
            areas ending exactly at / just before / just behind 8192 bytes (headers straddling a block), out-of-line values
            whose first copy lies in a later (compressed) block, values of a whole block of equal bytes, seeded random sets.
  oracle  : the property on the IMPLEMENTATION's bytes: the extracted validator clauses xattr_tail (location words = the
            consecutive id block starts, blocks tile the areas) and v_xattr (every lookup entry resolves and its pairs end
            `size` bytes later) and the extracted reader specification read back through them, compared with the sets that
            were recorded (last value per key).
  real    : gensquashfs -A images with more than 512 distinct sets (real compressors): extracted valid_image (image driver) +
            v_xattr + v_xattr_inodes + sets of sampled inodes read from the image bytes by the reader specification, compared
            with the xattr file.
"""
import os
import random
import subprocess
import sys
import time
from concurrent.futures import ThreadPoolExecutor

ENV = dict(os.environ, ASAN_OPTIONS="detect_leaks=0")
NOIDX = 0xFFFFFFFF
PFX = ["user.", "user.", "trusted.", "security."]


def hx(b):
    return b.hex() if b else "-"


def set_text(s):
    return ",".join(hx(k) + ":" + hx(v) for k, v in s) if s else "-"


def line(mode, size0, sets):
    return "X %d %d %s" % (mode, size0, ";".join(set_text(s) for s in sets))


def parse_line(l):
    p = l.split(" ", 3)
    sets = []
    for st in p[3].split(";"):
        if st == "-":
            sets.append([])
        else:
            sets.append([tuple(bytes.fromhex(x) if x != "-" else b"" for x in kv.split(":")) for kv in st.split(",")])
    return int(p[1]), int(p[2]), sets


def meaning(s):
    """the set a sequence of add_kv calls records: last value per key"""
    d = {}
    for k, v in s:
        d[k] = v
    return d


# --------------------------------------------------------------------------
# cases
# --------------------------------------------------------------------------

def many_sets(cnt, shared_every=3, tag=b"n"):
    sets = []
    for i in range(cnt):
        s = [(b"user." + tag, b"%05d" % i)]
        if shared_every and i % shared_every == 0:
            s.append((b"trusted.shared", b"S" * 40))
        sets.append(s)
    return sets


def gen_random(rnd, n_sets):
    keys = [(rnd.choice(PFX) + rnd.choice(["a", "b", "k%d" % rnd.randrange(30), "x" * rnd.choice([1, 40, 255])])).encode()
            for _ in range(6)]
    vals = [bytes(rnd.choice([0, 0, 65, rnd.randrange(256)]) for _ in range(rnd.choice([0, 1, 7, 8, 9, 10, 16, 100, 300, 3000])))
            for _ in range(6)]
    sets = []
    for _ in range(n_sets):
        r = rnd.random()
        if r < 0.1:
            sets.append([])
            continue
        if r < 0.3 and sets:
            s = list(rnd.choice(sets))
            rnd.shuffle(s)
            sets.append(s)
            continue
        s = []
        for _ in range(rnd.choice([1, 1, 2, 3, 5])):
            s.append((rnd.choice(keys), rnd.choice(vals)))
            if rnd.random() < 0.15:
                s.append((s[-1][0], rnd.choice(vals)))
        sets.append(s)
    return sets


def gen_cases(rnd, tier):
    quick = tier == "quick"
    out = []

    def add(label, mode, size0, sets):
        out.append((label, line(mode, size0, sets)))

    base = [[(b"user.a", b"1")], [], [(b"user.a", b"1")], [(b"trusted.b", b"L" * 20), (b"user.c", b"")], [(b"security.x", b"L" * 20)]]
    add("basic-store", 0, 96, base)
    add("basic-zrle", 3, 100, base)
    add("empty", 0, 0, [[], []])
    add("one", 3, 4096, [[(b"user.k", b"v")]])
    # number of distinct sets around the 512-descriptors-per-block border (location array; the reset between the areas)
    counts = [511, 512, 513, 1025] if quick else [1, 2, 3, 510, 511, 512, 513, 514, 1023, 1024, 1025, 1026, 1536, 2048, 2049]
    for cnt in counts:
        sets = many_sets(cnt)
        sets += [sets[0], sets[cnt // 2], list(reversed(sets[cnt - 1]))]
        for mode in ((0, 3) if (not quick or cnt in (513, 1025)) else (3,)):
            add("count-%d-m%d" % (cnt, mode), mode, 4096 + cnt, sets)
    if quick:
        add("count-1024-m0", 0, 96, many_sets(1024, shared_every=0))
    # key-value area against the 8192 byte block border: one pair is 4 + 1 + 4 + len(v) bytes
    for d in ((-1, 0, 1, 4) if quick else (-9, -8, -5, -4, -3, -2, -1, 0, 1, 2, 3, 4, 5, 8, 9, 13)):
        v = b"\x00" * (8192 - 9 + d)
        for mode in ((3,) if quick else (0, 3)):
            add("border%+d-m%d" % (d, mode), mode, 96, [[(b"user.a", v)], [(b"user.b", b"tail" * 3)], [(b"user.c", v)]])
    # out-of-line values: first copy in the second / third block, compressed blocks before it
    big = b"\x00" * 6000
    ool = b"shared-value-stored-once"
    add("ool-late-m3", 3, 96, [[(b"user.p", big)], [(b"user.q", big + b"x"), (b"user.s", ool)], [(b"user.t", ool)], [(b"trusted.u", ool), (b"user.p", big)]])
    add("ool-late-m0", 0, 1000, [[(b"user.p", big)], [(b"user.q", big + b"x"), (b"user.s", ool)], [(b"user.t", ool)], [(b"trusted.u", ool), (b"user.p", big)]])
    add("ool-8-9", 3, 96, [[(b"user.a", b"v" * 8)], [(b"user.b", b"v" * 8)], [(b"user.c", b"w" * 9)], [(b"user.d", b"w" * 9)]])
    # whole blocks of equal bytes (RLE compressor), values longer than a block
    add("rle-blocks", 1, 96, [[(b"user.k%d" % i, b"A" * 20000)] for i in range(3)])
    add("long-values-m3", 3, 96, [[(b"user.p%d" % i, bytes([i]) * 3000) for i in range(9)], [(b"user.q", bytes([3]) * 3000)]])
    n = 6 if quick else 120
    for i in range(n):
        add("random-%d" % i, rnd.choice([0, 1, 3, 3]), rnd.choice([0, 96, 4096, 70000]), gen_random(rnd, rnd.choice([1, 2, 3, 5, 8, 20, 60])))
    return out


# --------------------------------------------------------------------------
# running
# --------------------------------------------------------------------------

def _run(exe, text, env=None):
    r = subprocess.run([exe], input=text.encode(), stdout=subprocess.PIPE, stderr=subprocess.PIPE, env=env)
    return r.returncode, r.stdout.decode("utf-8", "replace").split("\n"), r.stderr.decode("utf-8", "replace")


def run_parallel(exe, lines, nproc=8, env=None):
    """one output line per input line; lines are distributed by size"""
    order = sorted(range(len(lines)), key=lambda i: -len(lines[i]))
    buckets = [[] for _ in range(nproc)]
    load = [0] * nproc
    for i in order:
        k = load.index(min(load))
        buckets[k].append(i)
        load[k] += len(lines[i]) ** 1.3
    res = [None] * len(lines)
    errs = []

    def work(idx):
        if not idx:
            return
        rc, out, err = _run(exe, "\n".join(lines[i] for i in idx) + "\n", env)
        for k, i in enumerate(idx):
            res[i] = out[k] if k < len(out) and out[k] != "" else None
        if rc != 0:
            errs.append((rc, err[-800:], idx))

    with ThreadPoolExecutor(max_workers=nproc) as ex:
        list(ex.map(work, buckets))
    return res, errs


def fields(l):
    d = {}
    for w in l.split(" ")[1:]:
        if "=" in w:
            k, v = w.split("=", 1)
            d[k] = v
    return d


def sample_idx(idxs):
    real = sorted({i for i in idxs if i != NOIDX})
    if len(real) <= 24:
        return real
    want = {real[0], real[1], real[-1], real[-2], real[len(real) // 2]}
    for b in (510, 511, 512, 513, 1023, 1024, 1025, 1535, 1536, 2047, 2048):
        if b < len(real):
            want.add(real[b])
    step = max(1, len(real) // 8)
    want.update(real[::step])
    return sorted(want)


def oracle_on_impl(case_line, c_out, v_out):
    """the property, evaluated on what the C code wrote; returns a list of problems"""
    mode, size0, sets = parse_line(case_line)
    f = fields(c_out)
    bad = []
    if f.get("flush") != "0" or f.get("add") != "0":
        return ["flush/add failed on a legal input: %s" % c_out[:120]]
    idxs = [int(x) for x in f["idx"].split(",")]
    want = [meaning(s) for s in sets]
    distinct = []
    for m in want:
        if m and m not in distinct:
            distinct.append(m)
    if f["start"] == "none":
        if distinct:
            bad.append("no xattr table written although %d non-empty sets were recorded" % len(distinct))
        if f["noxattr"] != "1":
            bad.append("no xattr table written but the NO_XATTRS flag is not set")
        return bad
    if f["noxattr"] != "0":
        bad.append("xattr table written but NO_XATTRS is still set")
    if not distinct:
        bad.append("xattr table written for empty sets only")
    v = fields(v_out) if v_out else {}
    if v.get("tail") != "1":
        bad.append("the section fails the validator's xattr_tail check (header / location words = id block starts / "
                   "blocks tile the two areas / ends at the end of the file)")
    if v.get("vx") != "1":
        bad.append("a lookup table entry does not resolve (validator clause v_xattr: reference -> key-value block, pairs parse, "
                   "end `size` bytes later)")
    if v.get("count") != str(len(distinct)):
        bad.append("lookup table count %s, %d distinct non-empty sets recorded" % (v.get("count"), len(distinct)))
    for i, (m, ix) in enumerate(zip(want, idxs)):
        if (ix == NOIDX) != (not m):
            bad.append("set %d: index %d returned for %s" % (i, ix, "no pairs" if not m else "%d pairs" % len(m)))
    got = {}
    for ent in (v.get("sets") or "").split(";"):
        if "=" in ent:
            k, r = ent.split("=", 1)
            got[int(k)] = r
    for i, (m, ix) in enumerate(zip(want, idxs)):
        if ix == NOIDX or ix not in got:
            continue
        rc, _, body = got[ix].partition("/")
        if rc != "0":
            bad.append("set %d (index %d) cannot be read from the bytes: rc %s" % (i, ix, rc))
            continue
        pairs = {}
        if body and body != "-":
            for kv in body.split(","):
                k, vv = kv.split(":")
                pairs[bytes.fromhex(k) if k != "-" else b""] = bytes.fromhex(vv) if vv != "-" else b""
        if pairs != m:
            bad.append("set %d (index %d) reads back as %d pairs %s..., recorded %s..." % (i, ix, len(pairs), repr(sorted(pairs.items())[:2])[:90], repr(sorted(m.items())[:2])[:90]))
    return bad


def exact_tie(ctx, h, drv, cases):
    t0 = time.time()
    lines = [c[1] for c in cases]
    c_res, c_err = run_parallel(h, lines, nproc=4, env=ENV)
    m_res, m_err = run_parallel(drv, lines, nproc=10)
    # the validator / reader specification on the C bytes
    vlines = []
    for l, co in zip(lines, c_res):
        mode, size0, _ = parse_line(l)
        f = fields(co) if co else {}
        if f.get("start") and f.get("bytes"):
            idxs = sample_idx([int(x) for x in f["idx"].split(",")]) if f.get("idx") else []
            vlines.append("V %d %d %s %s %s" % (mode, size0, f["start"], f["bytes"], ",".join(map(str, idxs)) or "-"))
        else:
            vlines.append("PARSE")
    v_res, v_err = run_parallel(drv, vlines, nproc=10)
    st = dict(cases=len(cases), exact_equal=0, tie_mismatches=0, property_failures=0, with_table=0, two_or_more_id_blocks=0,
              kv_multi_block=0, max_sets=0, compressed_sections=0, wall_s=0.0)
    for rc, err, idx in c_err:
        # find the line of the chunk on which the harness dies
        culprit, cerr = lines[idx[0]], err
        for i in idx:
            rc1, out1, err1 = _run(h, lines[i] + "\n", ENV)
            if rc1 != 0:
                culprit, cerr = lines[i], err1
                break
        head = next((x for x in cerr.split("\n") if "ERROR" in x or "runtime error" in x), cerr[-300:])
        lab = next((c[0] for c in cases if c[1] == culprit), "?")
        ctx.violation("xattr-harness-crash", "sqfs_xattr_writer_flush crashes the harness on case %s (rc=%d): %s" % (lab, rc, head[:300]),
                      dict(kind="xattr-lines", lines=[culprit], label=lab, stderr=cerr[-3000:]), no_input=False)
    for rc, err, idx in m_err + v_err:
        ctx.violation("xattr-model-driver-crash", "xattr model driver died (rc=%d): %s" % (rc, err[-300:]),
                      dict(kind="xattr-lines", lines=[lines[idx[0]]]), no_input=True)
    prop_bad, tie_bad = [], []
    for (lab, l), co, mo, vo in zip(cases, c_res, m_res, v_res):
        if co is None:
            continue
        f = fields(co)
        if f.get("start") not in (None, "none"):
            st["with_table"] += 1
            nb = len(f["bytes"]) // 2
            cnt = int(fields(vo).get("count", "0")) if vo else 0
            st["max_sets"] = max(st["max_sets"], cnt)
            st["two_or_more_id_blocks"] += cnt > 512
            st["kv_multi_block"] += nb > 8194 + cnt * 16 + 40
            st["compressed_sections"] += l.split(" ")[1] != "0"
        try:
            pr = oracle_on_impl(l, co, vo)
        except Exception as e:  # the oracle could not decode the output
            pr = ["oracle could not decode the implementation's output: %r" % (e,)]
        if pr:
            prop_bad.append((lab, l, pr))
        if co == mo:
            st["exact_equal"] += 1
        else:
            k = next((j for j in range(min(len(co), len(mo or ""))) if co[j] != (mo or "")[j]), min(len(co), len(mo or "")))
            tie_bad.append((lab, l, k, co[max(0, k - 40):k + 60], (mo or "<none>")[max(0, k - 40):k + 60]))
    st["tie_mismatches"] = len(tie_bad)
    st["property_failures"] = len(prop_bad)
    def code(msg):
        for key, c in (("xattr_tail", "tail"), ("does not resolve", "entry-unresolved"), ("lookup table count", "count"),
                       ("reads back", "readback"), ("cannot be read", "readback"), ("index", "index"), ("NO_XATTRS", "flag"),
                       ("no xattr table", "missing-table"), ("flush/add failed", "refused"), ("oracle could not", "undecodable")):
            if key in msg:
                return c
        return "other"

    seen_codes = set()
    for lab, l, pr in prop_bad:
        if code(pr[0]) in seen_codes or len(seen_codes) >= 3:
            continue
        seen_codes.add(code(pr[0]))
        ctx.violation("xattr-section:%s" % code(pr[0]),
                      "C03 violated by sqfs_xattr_writer_flush on case %s (%d sets): %s" % (lab, len(parse_line(l)[2]), "; ".join(pr[:3])),
                      dict(kind="xattr-lines", lines=[l], label=lab, problems=pr[:10]))
    if tie_bad and not prop_bad:
        lab, l, k, a, b = tie_bad[0]
        ctx.violation("tie-xattr-flush",
                      "correspondence FlushModel.xflush vs sqfs_xattr_writer_flush broken on case %s at output char %d: impl=..%s.. "
                      "model=..%s.. (the property oracle holds on the implementation output of all %d cases)" % (lab, k, a, b, len(cases)),
                      dict(kind="xattr-lines", lines=[l], label=lab, char=k, impl=a, model=b, other_mismatches=len(tie_bad),
                           correspondence="coq/ImgXattr/FlushModel.v xflush = lib/sqfs/src/xattr/xattr_writer_flush.c (exact bytes, toy compressors)"),
                      no_input=True)
    st["wall_s"] = round(time.time() - t0, 1)
    return st


# --------------------------------------------------------------------------
# real images
# --------------------------------------------------------------------------

def real_spec(rnd, comp, nsets, bs=131072):
    ents = [dict(path="x", type="dir", mode=0o755, uid=0, gid=0, xattrs={"user.dir": "on the directory"})]
    for i in range(nsets):
        xa = {"user.n": "%05d" % i}
        if i % 4 == 0:
            xa["trusted.shared"] = "S" * 40
        if i % 97 == 0:
            xa["security.big"] = "%d-" % i + "z" * 300
        typ = "fifo" if i % 2 else "slink"
        ents.append(dict(path="x/f%04d" % i, type=typ, mode=0o644, uid=0, gid=0, target="t", xattrs=xa))
    ents.append(dict(path="x/same1", type="fifo", mode=0o644, uid=0, gid=0, xattrs={"user.n": "00003"}))
    ents.append(dict(path="plain", type="fifo", mode=0o644, uid=0, gid=0))
    return dict(tool="gensquashfs", comp=comp, bs=bs, exportable=bool(rnd.getrandbits(1)), notail=False, devblk=4096,
                shape="xattrs-%d" % nsets, entries=ents)


def real_one(args):
    import shutil
    spec, tools, drv_image, drv, d, toolgen = args
    from vlib import sqfsimg as S
    t0 = time.time()
    out = dict(bad=[], sets=0, t=0.0)
    rc, err, data = toolgen.run_spec(spec, tools, d)
    if rc != 0 or data is None:
        out["bad"] = ["%s failed (rc=%d): %s" % (spec["tool"], rc, err[-300:])]
        shutil.rmtree(d, ignore_errors=True)
        return out
    path = os.path.join(d, "out.sqfs")
    pyerr = None
    try:
        img = S.Image(data)
        nodes = img.walk()
    except Exception as e:  # noqa: the extracted validator still gives its verdict below
        pyerr = "python decoder cannot read the image: %r" % (e,)
        nodes = None
    want = {}
    for e in (spec["entries"] if nodes is not None else []):
        n = nodes.get(e["path"].encode())
        if n is None:
            out["bad"].append("entry %s missing" % e["path"])
            continue
        xi = n.xattr_idx if n.xattr_idx is not None else NOIDX
        if e.get("xattrs"):
            want.setdefault(xi, (e["path"], {k.encode(): v.encode() for k, v in e["xattrs"].items()}))
            if xi == NOIDX:
                out["bad"].append("%s has xattrs in the input but index 0xFFFFFFFF" % e["path"])
        elif xi != NOIDX:
            out["bad"].append("%s has no xattrs in the input but index %d" % (e["path"], xi))
    idxs = sample_idx(list(want))
    with ThreadPoolExecutor(max_workers=2) as ex:
        fa = ex.submit(_run, drv_image, "R %s %d 0\n" % (path, spec["devblk"]))
        fb = ex.submit(_run, drv, "R %s %s\n" % (path, ",".join(map(str, idxs)) or "-"))
        rc1, l1, e1 = fa.result()
        rc2, l2, e2 = fb.result()
    v = [x for x in l1 if x.startswith("V ")]
    if rc1 != 0 or not v:
        out["bad"].append("extracted reader driver failed (rc=%s): %s" % (rc1, e1[-200:]))
    elif v[0].split()[1] != "1":
        out["bad"].append("extracted valid_image rejects the image (first failing clause %s; 6 = v_chain incl. the xattr tail)" % v[0].split()[2])
    f = fields(l2[0]) if l2 and l2[0].startswith("R ") else {}
    if rc2 != 0 or not f:
        out["bad"].append("xattr driver failed (rc=%s): %s %s" % (rc2, e2[-200:], l2[:1]))
    else:
        if f.get("vx") != "1":
            out["bad"].append("a lookup table entry of the real image does not resolve (v_xattr)")
        if f.get("vi") != "1":
            out["bad"].append("an inode's xattr index is outside the lookup table (v_xattr_inodes)")
        real = {i for i in want if i != NOIDX}
        if nodes is not None and f.get("count") != str(len(real)):
            out["bad"].append("lookup table count %s, %d distinct sets in the input" % (f.get("count"), len(real)))
        out["sets"] = len(real)
        got = {}
        for ent in (f.get("sets") or "").split(";"):
            if "=" in ent:
                k, r = ent.split("=", 1)
                got[int(k)] = r
        for ix in idxs:
            p, m = want[ix]
            rcx, _, body = got.get(ix, "?/").partition("/")
            pairs = {}
            if rcx == "0" and body and body != "-":
                for kv in body.split(","):
                    k, vv = kv.split(":")
                    pairs[bytes.fromhex(k) if k != "-" else b""] = bytes.fromhex(vv) if vv != "-" else b""
            if rcx != "0" or pairs != m:
                out["bad"].append("xattrs of %s (index %d) read from the image: rc %s, %s; input %s" % (p, ix, rcx, repr(sorted(pairs.items())[:2])[:90], repr(sorted(m.items())[:2])[:90]))
    if pyerr:
        out["bad"].append(pyerr)
    shutil.rmtree(d, ignore_errors=True)
    out["t"] = time.time() - t0
    return out


def real_images(ctx, tools, drv_image, drv, toolgen, specs):
    t0 = time.time()
    jobs = [(s, tools, drv_image, drv, os.path.join(ctx.scratch, "ximg%03d" % i), toolgen) for i, s in enumerate(specs)]
    with ThreadPoolExecutor(max_workers=max(1, min(6, len(jobs)))) as ex:
        res = list(ex.map(real_one, jobs))
    st = dict(images=len(specs), ok=0, max_sets=0, wall_s=0.0)
    seen = set()
    for s, r in zip(specs, res):
        st["max_sets"] = max(st["max_sets"], r["sets"])
        if not r["bad"]:
            st["ok"] += 1
            continue
        sig = "xattr-real-image:%s:%s" % (s["comp"], r["bad"][0].split("(")[0].strip()[:50].replace(" ", "-"))
        if sig in seen:
            continue
        seen.add(sig)
        ctx.violation(sig, "gensquashfs -c %s -A with %d xattr sets: %s" % (s["comp"], len(s["entries"]) - 2, "; ".join(r["bad"][:3])),
                      dict(kind="xattr-real", spec=s, problems=r["bad"][:10]))
    st["wall_s"] = round(time.time() - t0, 1)
    return st


def build(B, core, info_asan, here):
    h = B.compile_harness(info_asan, [os.path.join(here, "h_xattr_flush.c")], "c03_h_xattr_flush")
    drv = core.build_model_driver("C03xattr", "ExtractC03Xattr.v", os.path.join(here, "xattr_driver.ml"),
                                  stubs_c=os.path.join(here, "image_stubs.c"), cclibs=["-lz", "-llzma", "-llz4", "-lzstd"])
    return h, drv


def stage(ctx, h, drv, drv_image, tools, toolgen, seed, tier):
    rnd = random.Random(seed * 7919 + 3)
    cases = gen_cases(rnd, tier)
    specs = [real_spec(rnd, "gzip", 620), real_spec(rnd, "zstd", 1100, bs=4096)] if tier == "quick" else \
            [real_spec(rnd, c, n, bs) for c, n, bs in (("gzip", 513, 4096), ("xz", 620, 131072), ("lzma", 1025, 8192),
                                                          ("lz4", 1100, 131072), ("zstd", 2100, 1048576), ("gzip", 5000, 131072))]
    with ThreadPoolExecutor(max_workers=2) as ex:
        fr = ex.submit(real_images, ctx, tools, drv_image, drv, toolgen, specs) if drv_image else None
        ex_st = exact_tie(ctx, h, drv, cases)
        re_st = fr.result() if fr else dict(images=0, ok=0, max_sets=0, wall_s=0.0)
    return dict(exact=ex_st, real=re_st)
