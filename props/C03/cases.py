"""C03 component cases (command scripts for h_dirmeta.c / driver.ml) and an independent Python evaluation of
the property on the *C* output of a case (the component-level search oracle)."""
import struct

META = 8192
S_IFMT = 0o170000
MODES = {"sock": 0o140644, "lnk": 0o120777, "reg": 0o100644, "blk": 0o060600, "dir": 0o040755,
         "chr": 0o020600, "fifo": 0o010644}
TYPE_OF = {0o140000: 7, 0o120000: 3, 0o100000: 2, 0o060000: 4, 0o040000: 1, 0o020000: 5, 0o010000: 6}


def hx(b):
    return b.hex() if b else "-"


class Case:
    def __init__(self, kind, cmds, meta=None):
        self.kind = kind          # "meta" | "dir" | "table" | "super"
        self.cmds = cmds          # list of command lines
        self.meta = meta or {}    # what the oracle needs (entries, prefill, ...)

    def to_json(self):
        return dict(kind=self.kind, cmds=self.cmds, meta=self.meta)

    @staticmethod
    def from_json(d):
        return Case(d["kind"], d["cmds"], d.get("meta") or {})


def data_bytes(rnd, n, kind):
    if kind == "same":
        return bytes([rnd.randrange(256)]) * n
    if kind == "zero":
        return b"\0" * n
    return bytes(rnd.getrandbits(8) for _ in range(n))


# --------------------------------------------------------------------------
# meta writer cases
# --------------------------------------------------------------------------

def meta_cases(rnd, tier):
    cases = []
    edge = [1, 2, 63, 64, 65, 4096, 8189, 8190, 8191, 8192, 8193, 8194, 16383, 16384, 16385, 24576, 24577]
    # systematic: (first append, second append) around the block boundary, with / without a flush between
    for keep in (0, 1):
        for mode in (0, 1, 2):
            for a in edge:
                for kind in ("same", "rand"):
                    if mode == 0 and kind == "same" and a not in (8191, 8192, 8193):
                        continue
                    cmds = ["M %d %d" % (keep, mode), "a " + hx(data_bytes(rnd, a, kind)),
                            "a " + hx(data_bytes(rnd, rnd.choice([1, 7, 8192 - (a % 8192), 8192, 9000]), kind)),
                            "f", "a " + hx(data_bytes(rnd, rnd.choice([1, 4, 5, 6, 100]), "same")), "f"]
                    if keep:
                        cmds.append("w")
                    cmds.append("o")
                    cases.append(Case("meta", cmds))
    nrand = 60 if tier == "quick" else 1500
    for _ in range(nrand):
        keep = rnd.randrange(2)
        mode = rnd.choice([0, 1, 1, 1, 2])
        cmds = ["M %d %d" % (keep, mode)]
        for _ in range(rnd.randint(1, 12)):
            r = rnd.random()
            if r < 0.15:
                cmds.append("f")
            elif r < 0.2 and keep:
                cmds.append("w")
            else:
                n = rnd.choice([0, 1, 2, 5, 12, 63, 64, 100, 1000, 4000, 8191, 8192, 8193, rnd.randint(1, 20000)])
                cmds.append("a " + hx(data_bytes(rnd, n, rnd.choice(["same", "same", "rand", "zero"]))))
        cmds.append("f")
        if keep:
            cmds.append("w")
        cmds.append("o")
        cases.append(Case("meta", cmds))
    return cases


# --------------------------------------------------------------------------
# directory writer cases
# --------------------------------------------------------------------------

def _name(rnd, n, i):
    """n bytes, no NUL, made distinct by the index"""
    tag = ("%06d" % i).encode()
    if n <= len(tag):
        return bytes(1 + ((i * 7 + k * 13) % 255) for k in range(n)) if n else b""
    body = bytes(rnd.choice(b"abcdefghijklmnopqrstuvwxyz._-\xc3\xa4 ") for _ in range(n - len(tag)))
    return tag + body


def make_dir(rnd, n, name_len, start_num=1, ref_block=0, ref_off=0, breaks=(), types=None):
    """entries: list of dict(name, inum, iref, mode). `breaks`: {index: (what, value)} injected discontinuities."""
    ents = []
    num = start_num
    blk = ref_block
    off = ref_off
    breaks = dict(breaks)
    for i in range(n):
        ln = name_len(i) if callable(name_len) else name_len
        b = breaks.get(i)
        if b:
            what, val = b
            if what == "blk":
                blk = val
                off = 0
            elif what == "num":
                num = val
            elif what == "dnum":
                num = (num + val) & 0xFFFFFFFF
        mode = MODES[(types or ["reg"])[i % len(types or ["reg"])]]
        ents.append(dict(name=_name(rnd, ln, i), inum=num & 0xFFFFFFFF, iref=((blk << 16) | (off & 0xFFFF)), mode=mode))
        num = (num + 1) & 0xFFFFFFFF
        off = (off + 32) % 8192
        if off < 32 and not breaks:
            pass
    return ents


def dir_script(ents, hl=0, xattr=0xFFFFFFFF, parent=7):
    cmds = ["b"]
    for e in ents:
        cmds.append("n %s %d %d %d" % (hx(e["name"]), e["inum"], e["iref"], e["mode"]))
    cmds.append("E")
    cmds.append("i %d %d %d" % (hl, xattr, parent))
    return cmds


def dir_case(rnd, dirs, mode=1, prefill=0, export=0, root=None, prefill_kind="rand"):
    """dirs: list of (ents, hl, xattr, parent)"""
    cmds = ["M 1 %d" % mode]
    if prefill:
        cmds.append("a " + hx(data_bytes(rnd, prefill, prefill_kind)))
    cmds.append("D %d" % export)
    for ents, hl, xa, pa in dirs:
        cmds += dir_script(ents, hl, xa, pa)
    cmds += ["f", "w", "o"]
    if export and root is not None:
        cmds += ["x %d %d" % root, "o"]
    meta = dict(mode=mode, prefill=prefill, export=export,
                dirs=[[dict(name=e["name"].hex(), inum=e["inum"], iref=e["iref"], mode=e["mode"]) for e in ents]
                      for ents, _, _, _ in dirs], root=list(root) if root else None)
    return Case("dir", cmds, meta)


def dir_cases(rnd, tier):
    cases = []
    allt = ["reg", "dir", "lnk", "chr", "blk", "fifo", "sock"]
    # entry counts around the 256-entry header limit and the 256-entry index threshold
    for n in (0, 1, 2, 3, 254, 255, 256, 257, 258, 511, 512, 513, 700):
        for nl in (1, 9):
            cases.append(dir_case(rnd, [(make_dir(rnd, n, nl, types=allt), 0, 0xFFFFFFFF, 3)], mode=rnd.choice([0, 1])))
    # name lengths up to the limit
    for nl in (1, 2, 254, 255, 256):
        cases.append(dir_case(rnd, [(make_dir(rnd, 40, nl), 0, 0xFFFFFFFF, 3)]))
    # inode-number deltas at the signed 16 bit limits, both directions, and u32 wrap-around
    for d in (32766, 32767, 32768, 32769, 65535, 65536, -32766, -32767, -32768, -32769, -65536, 0x7FFFFFFF, 0x80000000):
        for start in (100000, 1, 0xFFFFFFF0, 0x80000000):
            ents = make_dir(rnd, 6, 5, start_num=start, breaks={3: ("dnum", d - 1)})
            cases.append(dir_case(rnd, [(ents, 0, 0xFFFFFFFF, 3)], mode=0))
    # inode block changes (also beyond 32 bit block numbers: start_block truncation)
    for blk in (1, 8194, 0xFFFFFFFF, 0x100000000, 0xFFFFFFFFFFFF):
        ents = make_dir(rnd, 8, 4, breaks={2: ("blk", blk), 5: ("blk", 0)})
        cases.append(dir_case(rnd, [(ents, 0, 0xFFFFFFFF, 3)], mode=0))
    # header straddling / starting right at a metadata block boundary
    for pre in (8170, 8179, 8180, 8181, 8185, 8191, 8192, 8193, 16384 - 12, 16384 - 11):
        cases.append(dir_case(rnd, [(make_dir(rnd, 5, 10), 0, 0xFFFFFFFF, 3)], prefill=pre, mode=rnd.choice([0, 1])))
    # the "size > SQFS_META_BLOCK_SIZE" break: entries of 8+100 bytes, total hitting 8192 exactly +-2
    for k in (1, 2, 30, 75):
        for delta in (-2, -1, 0, 1, 2):
            pre = (8192 - 12 - 108 * k + delta) % 8192
            cases.append(dir_case(rnd, [(make_dir(rnd, k + 3, 100), 0, 0xFFFFFFFF, 3)], prefill=pre, mode=0))
    # a single entry that itself crosses the boundary
    for pre in (8192 - 12 - 8 - 3, 8192 - 12 - 8, 8192 - 12 - 1):
        cases.append(dir_case(rnd, [(make_dir(rnd, 4, 200), 0, 0xFFFFFFFF, 3)], prefill=pre, mode=0))
    # basic/extended by listing size: < 256 entries, size around 65532
    # (adj 68..79 gives listing sizes 65528..65551, every value from 65528 to 65536 included)
    for adj in range(68, 80):
        ents = make_dir(rnd, 255, lambda i, adj=adj: 248 + (1 if i < adj % 255 else 0) + (adj // 255))
        cases.append(dir_case(rnd, [(ents, 0, 0xFFFFFFFF, 3)], mode=0))
    # extended by xattr / hard link count / parent values
    for xa in (0, 5, 0xFFFFFFFE):
        cases.append(dir_case(rnd, [(make_dir(rnd, 3, 6), 4, xa, 0xFFFFFFFF)], mode=1))
    # refused entries: bad mode, empty name, inode number 0
    bad = make_dir(rnd, 4, 5)
    bad[1]["mode"] = 0o644
    bad[2]["name"] = b""
    bad[3]["inum"] = 0
    cases.append(dir_case(rnd, [(bad, 0, 0xFFFFFFFF, 3)], mode=0))
    # several directories on one stream, compressible names, export table
    for ex in (0, 1):
        dirs = []
        num = 1
        for j in range(6):
            n = rnd.choice([0, 1, 5, 40, 300])
            ents = make_dir(rnd, n, rnd.choice([3, 20, 120]), start_num=num, ref_block=rnd.choice([0, 4000, 9000]))
            num += n
            dirs.append((ents, 0, 0xFFFFFFFF, j + 2))
        cases.append(dir_case(rnd, dirs, mode=1, export=ex, root=(num, 0x1234560010) if ex else None))
    # export table sizes around 1024 entries per block
    for n in (1, 1023, 1024, 1025, 2049):
        ents = make_dir(rnd, n, 4, start_num=1)
        rnd.shuffle(ents)
        cases.append(dir_case(rnd, [(ents[:n], 0, 0xFFFFFFFF, 3)], mode=0, export=1, root=(n + 1, 77 << 16)))
    # sparse export table (unset slots stay 0xFF..FF)
    ents = make_dir(rnd, 5, 4, start_num=10, breaks={2: ("num", 3000)})
    cases.append(dir_case(rnd, [(ents, 0, 0xFFFFFFFF, 3)], mode=1, export=1, root=(5000, 99)))
    # root inode number 0 is refused by add_export_table_entry: the error is returned, nothing is written
    ents = make_dir(rnd, 3, 4, start_num=1)
    c = dir_case(rnd, [(ents, 0, 0xFFFFFFFF, 3)], mode=0, export=1, root=(0, 99))
    c.meta["root"] = None
    cases.append(c)
    nrand = 40 if tier == "quick" else 1200
    for _ in range(nrand):
        n = rnd.choice([0, 1, 2, 10, 60, 255, 256, 257, 400])
        lens = rnd.choice([[1], [3, 8, 20], [100, 200, 256], [1, 256]])
        breaks = {}
        for _ in range(rnd.randint(0, 4)):
            if n > 1:
                i = rnd.randrange(1, n)
                breaks[i] = rnd.choice([("blk", rnd.choice([0, 1, 8194, 20000])),
                                        ("dnum", rnd.choice([32766, 32767, 32768, -32768, -32769, -40000, 70000])),
                                        ("num", rnd.choice([1, 2, 0xFFFFFFFF, 0x80000000]))])
        ents = make_dir(rnd, n, lambda i: rnd.choice(lens), start_num=rnd.choice([1, 50000, 0xFFFFFF00]),
                        ref_block=rnd.choice([0, 8194]), ref_off=rnd.randrange(8192), breaks=breaks, types=allt)
        cases.append(dir_case(rnd, [(ents, rnd.randrange(3), rnd.choice([0xFFFFFFFF, 0xFFFFFFFF, 1]), rnd.randrange(1, 100))],
                              mode=rnd.choice([0, 1, 2]), prefill=rnd.choice([0, 0, 100, 8000, 8185, 8192, 12345]),
                              prefill_kind=rnd.choice(["rand", "same"])))
    return cases


def table_cases(rnd, tier):
    cases = []
    for mode in (0, 1, 2):
        for n in (0, 1, 4, 63, 64, 8191, 8192, 8193, 16384, 16385, 24576):
            for kind in ("same", "rand"):
                cmds = ["M 0 %d" % mode]
                pre = rnd.choice([0, 96, 5000])
                if pre:
                    cmds += ["a " + hx(data_bytes(rnd, pre, "rand")), "f"]
                cmds += ["t " + hx(data_bytes(rnd, n, kind)), "o"]
                cases.append(Case("table", cmds, dict(n=n, pre=pre, mode=mode)))
    return cases


def super_cases(rnd, tier):
    cmds = []
    sizes = set([0, 1, 3, 4095, 4097, 12288, 131072 + 4096, 1 << 32, (1 << 32) + 4096])
    for k in range(0, 26):
        sizes |= {1 << k, (1 << k) - 1, (1 << k) + 1}
    for bs in sorted(sizes):
        cmds.append("S %d %d %d" % (bs, rnd.getrandbits(32), rnd.randint(1, 6)))
    return [Case("super", cmds)]


def all_cases(rnd, tier):
    return meta_cases(rnd, tier) + dir_cases(rnd, tier) + table_cases(rnd, tier) + super_cases(rnd, tier)


# --------------------------------------------------------------------------
# independent evaluation of the property on the implementation's output of a case
# --------------------------------------------------------------------------

def toy_uncompress(mode, raw):
    if mode == 1:
        if len(raw) != 4:
            raise ValueError("toy rle block of %d bytes" % len(raw))
        return bytes([raw[0]]) * (raw[1] | raw[2] << 8 | raw[3] << 16)
    if mode == 2:
        if raw[:2] != b"\xee\xee":
            raise ValueError("toy mode 2 prefix")
        return raw[2:]
    raise ValueError("compressed block with toy mode 0")


def parse_meta_area(data, mode, problems, contract=True):
    """returns list of (disk offset, content)"""
    pos = 0
    out = []
    while pos < len(data):
        if pos + 2 > len(data):
            problems.append("stray byte at %d" % pos)
            break
        h = struct.unpack_from("<H", data, pos)[0]
        sz = h & 0x7FFF
        raw = data[pos + 2:pos + 2 + sz]
        if sz > META:
            problems.append("metadata block stored size %d > 8192" % sz)
            break
        if len(raw) != sz:
            problems.append("metadata block at %d truncated" % pos)
            break
        if h & 0x8000:
            content = raw
        else:
            try:
                content = toy_uncompress(mode, raw)
            except ValueError as e:
                problems.append("block at %d: %s" % (pos, e))
                break
            if contract and sz > len(content):
                problems.append("compressed block at %d larger than its data (%d > %d)" % (pos, sz, len(content)))
        if len(content) > META or len(content) == 0:
            problems.append("metadata block at %d holds %d bytes" % (pos, len(content)))
        out.append((pos, content))
        pos += 2 + sz
    return out


def eval_meta_case(case, out_lines):
    """property on the C output: file = well-formed blocks whose contents are the appended bytes in order;
    every recorded position reads back what was appended after it."""
    problems = []
    mode = int(case.cmds[0].split()[2])
    keep = int(case.cmds[0].split()[1])
    appended = b""
    positions = []      # (blk, off, logical offset)
    for c, o in zip(case.cmds, out_lines):
        if c[0] == "a":
            appended += bytes.fromhex(c[2:]) if c[2:] != "-" else b""
        if c[0] in "af":
            p = o.split()
            if p[1] != "0":
                problems.append("%s returned %s" % (c[:1], p[1]))
            positions.append((int(p[2]), int(p[3]), len(appended)))
    last = out_lines[len(case.cmds) - 1].split()
    if last[0] != "o":
        return ["no file dump"]
    data = bytes.fromhex(last[2]) if last[2] != "-" else b""
    blocks = parse_meta_area(data, mode, problems, contract=(mode != 2))
    stream = b"".join(b for _, b in blocks)
    if stream != appended:
        problems.append("decoded stream (%d bytes) differs from the appended bytes (%d)" % (len(stream), len(appended)))
    offs = {}
    lo = 0
    for pos, content in blocks:
        offs[pos] = (lo, len(content))
        lo += len(content)
    offs[len(data)] = (lo, 0)
    for blk, off, L in positions:
        if blk not in offs:
            problems.append("recorded position block %d is not a block start" % blk)
        elif offs[blk][0] + off != L:
            problems.append("recorded position (%d,%d) denotes stream offset %d, expected %d" % (blk, off, offs[blk][0] + off, L))
    return problems


def eval_dir_case(case, out_lines):
    problems = []
    m = case.meta
    mode = m["mode"]
    # find outputs
    idx = 0
    recs = []
    cur = None
    for c, o in zip(case.cmds, out_lines):
        if c[0] == "b":
            cur = dict(ref=int(o.split()[2]), adds=[], E=None, i=None)
            recs.append(cur)
        elif c[0] == "n":
            cur["adds"].append(int(o.split()[1]))
        elif c[0] == "E":
            cur["E"] = o.split()
        elif c[0] == "i":
            cur["i"] = o.split()
    dumps = [o for c, o in zip(case.cmds, out_lines) if c == "o"]
    if not dumps:
        return ["no dump"]
    first = dumps[0].split()
    data = bytes.fromhex(first[2]) if first[2] != "-" else b""
    blocks = parse_meta_area(data, mode, problems, contract=(mode != 2))
    stream = b"".join(b for _, b in blocks)
    blkpos = {}
    lo = 0
    for pos, content in blocks:
        blkpos[pos] = lo
        lo += len(content)
    blkpos[len(data)] = lo
    for b in blocks[:-1]:
        if len(b[1]) != META:
            problems.append("non-final directory metadata block holds %d bytes" % len(b[1]))
    for d, rec in zip(m["dirs"], recs):
        accepted = []
        for e, r in zip(d, rec["adds"]):
            nm = bytes.fromhex(e["name"])
            ok = (e["mode"] & S_IFMT) in TYPE_OF and len(nm) > 0 and e["inum"] >= 1
            if ok != (r == 0):
                problems.append("add_entry(%r, inum %d, mode %o) returned %d" % (nm[:10], e["inum"], e["mode"], r))
            if r == 0:
                accepted.append((nm, e["iref"], TYPE_OF.get(e["mode"] & S_IFMT), e["inum"]))
        if rec["E"][1] != "0":
            problems.append("dir_writer_end returned " + rec["E"][1])
            continue
        size = int(rec["E"][2])
        blk, off = rec["ref"] >> 16, rec["ref"] & 0xFFFF
        if blk not in blkpos:
            problems.append("dir_ref block %d is not a metadata block start" % blk)
            continue
        base = blkpos[blk] + off
        lst = stream[base:base + size]
        if len(lst) != size:
            problems.append("listing of %d bytes not in the stream" % size)
            continue
        # parse
        p = 0
        got = []
        hdrs = []
        while p < size:
            cnt, start, ino = struct.unpack_from("<III", lst, p)
            hp = p
            p += 12
            cnt += 1
            if cnt > 256:
                problems.append("header with %d entries" % cnt)
                break
            run = []
            for _ in range(cnt):
                eoff, diff, typ, nsz = struct.unpack_from("<HhHH", lst, p)
                nm = lst[p + 8:p + 8 + nsz + 1]
                p += 8 + nsz + 1
                run.append((nm, (start << 16) | eoff, typ, (ino + diff) & 0xFFFFFFFF, diff))
            hdrs.append((hp, start, ino, run))
            got += run
        if p != size:
            problems.append("listing parse ended at %d, size %d" % (p, size))
        exp = [(nm, ref & 0xFFFFFFFFFFFF, t, num) for nm, ref, t, num in accepted]
        if [(a, b, c, d_) for a, b, c, d_, _ in got] != exp:
            # refs with a block part >= 2^32 cannot be represented in a header: not counted as a violation
            if all((ref >> 16) < (1 << 32) for _, ref, _, _ in accepted):
                problems.append("listing does not read back as the entries added (%d read, %d added)" % (len(got), len(exp)))
            elif [(a, b & 0xFFFFFFFFFFFF, c, d_) for a, b, c, d_, _ in got] != [(a, b & 0xFFFFFFFFFFFF, c, d_) for a, b, c, d_ in exp]:
                pass
        # run limits against the *input* entries
        k = 0
        for hp, start, ino, run in hdrs:
            src = accepted[k:k + len(run)]
            k += len(run)
            if len({r[1] >> 16 for r in src}) > 1:
                problems.append("entries of one header come from different inode blocks")
            for (nm, ref, t, num), r in zip(src, run):
                dd = num - src[0][3]
                dd = (dd + (1 << 31)) % (1 << 32) - (1 << 31)
                if not -32768 <= dd <= 32767:
                    problems.append("inode number delta %d does not fit 16 bit" % dd)
        # inode
        it = rec["i"]
        typ, nlink, isz, istart, ioff, ipar, ixa, icount = [int(x) for x in it[1:9]]
        if isz != (size + 3) & (0xFFFF if typ == 1 else 0xFFFFFFFF) or (typ == 1 and size + 3 > 0xFFFF):
            problems.append("inode size field %d for a listing of %d bytes (type %d)" % (isz, size, typ))
        if (istart, ioff) != (blk & 0xFFFFFFFF, off):
            problems.append("inode start/offset %d/%d, directory began at %d/%d" % (istart, ioff, blk, off))
        if typ == 1 and len(accepted) >= 256:
            problems.append("basic directory inode for %d entries" % len(accepted))
        if typ == 8:
            if icount != len(hdrs) & 0xFFFF:
                problems.append("index count %d, %d headers" % (icount, len(hdrs)))
            hp_map = {h[0]: h for h in hdrs}
            for w in it[9:]:
                ix, sb, sz, nmh = w.split(",")
                ix, sb, sz = int(ix), int(sb), int(sz)
                nm = bytes.fromhex(nmh)
                h = hp_map.get(ix)
                if h is None:
                    problems.append("index entry points at listing offset %d: not a header" % ix)
                    continue
                if h[3][0][0] != nm or sz != len(nm) - 1:
                    problems.append("index entry name is not the first name of its header")
                if sb not in blkpos:
                    problems.append("index start_block %d is not a metadata block" % sb)
                    continue
                want = base + ix
                if blkpos[sb] + (off + ix) % META != want:
                    problems.append("index entry (%d,%d): kernel would look at stream offset %d, header is at %d"
                                    % (ix, sb, blkpos[sb] + (off + ix) % META, want))
    # export table
    if m.get("export") and m.get("root") and len(dumps) > 1:
        xl = [o for c, o in zip(case.cmds, out_lines) if c[0] == "x"][0].split()
        d2 = dumps[1].split()
        data2 = bytes.fromhex(d2[2])
        if xl[1] != "0":
            problems.append("write_export_table returned " + xl[1])
        else:
            start = int(xl[2])
            exp = {}
            for d, rec in zip(m["dirs"], recs):
                for e, r in zip(d, rec["adds"]):
                    if r == 0:
                        exp[e["inum"]] = e["iref"]
            exp[m["root"][0]] = m["root"][1]
            n = max(exp)
            nblk = (n * 8 + META - 1) // META
            locs = struct.unpack_from("<%dQ" % nblk, data2, start)
            if start + 8 * nblk != len(data2):
                problems.append("export table location list does not end the file")
            raw = b""
            for i, l in enumerate(locs):
                h = struct.unpack_from("<H", data2, l)[0]
                body = data2[l + 2:l + 2 + (h & 0x7FFF)]
                if not h & 0x8000:
                    body = toy_uncompress(mode, body)
                raw += body
            vals = struct.unpack("<%dQ" % (len(raw) // 8), raw) if len(raw) % 8 == 0 else ()
            if len(vals) != n:
                problems.append("export table has %d entries, highest inode number %d" % (len(vals), n))
            else:
                for i, v in enumerate(vals, 1):
                    if v != exp.get(i, 0xFFFFFFFFFFFFFFFF):
                        problems.append("export table entry %d = %#x, expected %#x" % (i, v, exp.get(i, 0xFFFFFFFFFFFFFFFF)))
                        break
    return problems


def eval_table_case(case, out_lines):
    problems = []
    mode = case.meta["mode"]
    tcmd = [c for c in case.cmds if c[0] == "t"][0]
    payload = bytes.fromhex(tcmd[2:]) if tcmd[2:] != "-" else b""
    tl = [o for c, o in zip(case.cmds, out_lines) if c[0] == "t"][0].split()
    dump = [o for c, o in zip(case.cmds, out_lines) if c == "o"][0].split()
    data = bytes.fromhex(dump[2]) if dump[2] != "-" else b""
    if tl[1] != "0":
        return ["sqfs_write_table returned " + tl[1]]
    start = int(tl[2])
    nblk = (len(payload) + META - 1) // META
    if start + 8 * nblk != len(data):
        problems.append("location list (%d blocks) at %d does not end the file of %d bytes" % (nblk, start, len(data)))
        return problems
    locs = struct.unpack_from("<%dQ" % nblk, data, start) if nblk else ()
    raw = b""
    nxt = None
    for i, l in enumerate(locs):
        if nxt is not None and l != nxt:
            problems.append("table blocks not contiguous")
        h = struct.unpack_from("<H", data, l)[0]
        sz = h & 0x7FFF
        body = data[l + 2:l + 2 + sz]
        if not h & 0x8000:
            body2 = toy_uncompress(mode, body)
            if mode != 2 and sz > len(body2):
                problems.append("compressed table block larger than its data")
            body = body2
        if i < nblk - 1 and len(body) != META:
            problems.append("non-final table block holds %d bytes" % len(body))
        raw += body
        nxt = l + 2 + sz
    if nblk and nxt != start:
        problems.append("location list does not follow the last block")
    if raw != payload:
        problems.append("table does not read back")
    return problems


def eval_super_case(case, out_lines):
    problems = []
    for c, o in zip(case.cmds, out_lines):
        _, bs, mt, co = c.split()
        bs, mt, co = int(bs), int(mt), int(co)
        p = o.split()
        valid = 4096 <= bs <= (1 << 20) and bs & (bs - 1) == 0
        if valid != (p[1] == "0"):
            problems.append("sqfs_super_init(block size %d) returned %s" % (bs, p[1]))
            continue
        if not valid:
            continue
        raw = bytes.fromhex(p[2])
        if len(raw) != 96:
            problems.append("super block of %d bytes" % len(raw))
            continue
        f = struct.unpack("<IIIIIHHHHHHQQQQQQQQ", raw)
        if f[0] != 0x73717368 or f[3] != bs or (1 << f[6]) != bs or f[2] != mt or f[5] != co or (f[9], f[10]) != (4, 0):
            problems.append("super block fields wrong for block size %d: %r" % (bs, f))
        if f[12] != 96 or any(x != 0xFFFFFFFFFFFFFFFF for x in f[13:]):
            problems.append("initial bytes_used / table starts wrong")
    return problems


EVAL = {"meta": eval_meta_case, "dir": eval_dir_case, "table": eval_table_case, "super": eval_super_case}
