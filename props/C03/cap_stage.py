"""C03 -- field capacity boundaries (strengthening after seed C03-8).

Narrow on-disk count / index fields the writers fill are driven to limit-1, limit, limit+1 of what the field can hold,
and C03's oracle is applied to whatever the implementation produces: every table / image that is written (return code
0 / exit status 0) must be valid -- the count field describes the table, every index stored in an inode is below the
announced count -- and an input that does not fit must be refused.

  library leg   props/C03/h_cap.c: the real sqfs_id_table_id_to_index with up to 70000 distinct ids, and the real
                sqfs_id_table_write (sqfs_write_table, meta writer) at 1, 2, 2047..2049 (meta block boundary),
                65534, 65535, 65536, 65537 accepted ids; the written bytes are decoded here, independently of the
                library: id_count (16 bit) must equal the number of accepted ids, the last index handed out must be
                count - 1, the location list + meta blocks must hold exactly the ids offered.
                The number of ids the table accepts is the constant c_id_table_accepts of coq/C03/GenC03Cap.v
                (regen below): Properties_C03.id_limit_fits_16_bits / id_count_fits_16_bits are re-checked against it.
  tool leg      real gensquashfs (pack file) and tar2sqfs (ustar stream) on inputs with exactly 65535 / 65536 / 65537
                distinct numeric uid + gid values (the 16-bit id_count / uid_idx / gid_idx boundary) spread over
                sub-directories of 255 / 256 / 257 entries (the 256-entries-per-header boundary of the directory
                writer); every image produced with exit status 0 goes through validate_ext (vlib.sqfsimg
                Image.validate + props/C03/validate_ext.py) and the id census: id_count == number of distinct ids of
                the input, every inode's uid / gid reads back through the table.

Nothing is assumed about WHERE the limit is: a tree that accepts more ids is fine as long as what it writes is valid.
"""
import os
import random
import re
import shutil
import struct
import subprocess
import sys
import tempfile
import time
from concurrent.futures import ProcessPoolExecutor

from vlib import build as B

ENV = dict(os.environ, ASAN_OPTIONS="detect_leaks=0")
CAP_V = os.path.join(B.VERIF, "coq", "C03", "GenC03Cap.v")
CHECKPOINTS = [1, 2, 255, 256, 257, 2047, 2048, 2049, 4096, 65534, 65535, 65536, 65537, 69999]
PROBE_CAP = 70000                      # "no limit" for the probe


def build(info, here):
    return B.compile_harness(info, [os.path.join(here, "h_cap.c")], "c03_h_cap")


# ----------------------------------------------------------------------------------------------------------------------
# library leg
# ----------------------------------------------------------------------------------------------------------------------

def decode_table(data, start, nbytes):
    """independent decoder of a lookup table written by sqfs_write_table: location list at `start`, meta blocks before it"""
    nblk = (nbytes + 8191) // 8192
    if start + 8 * nblk > len(data):
        raise ValueError("location list [%d, +%d) outside the file of %d bytes" % (start, 8 * nblk, len(data)))
    locs = struct.unpack_from("<%dQ" % nblk, data, start) if nblk else ()
    out = b""
    for k, p in enumerate(locs):
        if p + 2 > start:
            raise ValueError("meta block %d at %d not before the location list at %d" % (k, p, start))
        h, = struct.unpack_from("<H", data, p)
        if not h & 0x8000:
            raise ValueError("meta block %d is marked compressed although the compressor never compresses" % k)
        size = h & 0x7FFF
        want = min(8192, nbytes - 8192 * k)
        if size != want:
            raise ValueError("meta block %d holds %d bytes, expected %d" % (k, size, want))
        out += data[p + 2:p + 2 + size]
    return out


def lib_run(h_cap, id0, stride, maxn=PROBE_CAP, checkpoints=CHECKPOINTS):
    r = subprocess.run([h_cap, str(id0), str(stride), str(maxn)] + [str(c) for c in checkpoints],
                       stdout=subprocess.PIPE, stderr=subprocess.PIPE, env=ENV, timeout=170)
    return r.returncode, r.stdout.decode("ascii", "replace").split("\n"), r.stderr.decode("utf-8", "replace")


def lib_eval(lines, id0, stride):
    """-> (problems per dump [(accepted, [text])], accepted, ret_refused, widths, dumps)"""
    bad = []
    accepted = None
    refused = None
    widths = None
    dumps = 0
    for l in lines:
        p = l.split()
        if not p:
            continue
        if p[0] == "Z":
            widths = (int(p[1]), int(p[2]), int(p[3]))
        elif p[0] == "L":
            accepted, refused = int(p[1]), int(p[2])
        elif p[0] == "W":
            n, last_idx, ret, count, start, size = (int(x) for x in p[1:7])
            dumps += 1
            pr = []
            if ret != 0:
                continue                 # the writer refused: nothing was produced
            if count != n:
                pr.append("sqfs_id_table_write stored id_count = %d for a table of %d ids (the field is 16 bit wide)" % (count, n))
            if last_idx != n - 1:
                pr.append("the id accepted as number %d got index %d" % (n, last_idx))
            if last_idx >= count:
                pr.append("index %d handed to an inode is not below the stored id_count %d" % (last_idx, count))
            try:
                data = bytes.fromhex(p[7]) if p[7] != "-" else b""
                if len(data) != size:
                    pr.append("harness dump truncated")
                raw = decode_table(data, start, 4 * n)
                ids = struct.unpack("<%dI" % n, raw)
                exp = tuple((id0 + k * stride) & 0xFFFFFFFF for k in range(n))
                if ids != exp:
                    k = next(i for i in range(n) if ids[i] != exp[i])
                    pr.append("written table differs from the ids offered at entry %d: %d instead of %d" % (k, ids[k], exp[k]))
            except Exception as e:  # noqa
                pr.append("written id table does not decode: %s" % (e,))
            if pr:
                bad.append((n, pr))
    return bad, accepted, refused, widths, dumps


def regen(accepted, widths):
    """coq/C03/GenC03Cap.v from the probe; returns (changed, saved) -- saved = previous file set for restore()"""
    txt = ("(* GENERATED from the working tree by props/C03/cap_stage.py (probe: props/C03/h_cap.c) -- do not edit *)\n"
           "From Coq Require Import NArith.\nLocal Open Scope N_scope.\n"
           "Definition c_id_table_accepts : N := %d.\n"
           "Definition c_id_count_field_bits : N := %d.\n"
           "Definition c_id_index_field_bits : N := %d.\n" % (accepted, 8 * widths[0], 8 * min(widths[1], widths[2])))
    old = open(CAP_V).read() if os.path.exists(CAP_V) else None
    if old == txt:
        return False, None
    saved = {}
    stem = CAP_V[:-2]
    for ext in (".v", ".vo", ".vos", ".vok", ".glob"):
        if os.path.exists(stem + ext):
            saved[ext] = (open(stem + ext, "rb").read(), os.stat(stem + ext))
    open(CAP_V, "w").write(txt)
    return True, saved


def restore(saved):
    """put the previous GenC03Cap.{v,vo,...} back (a run against a scratch tree must not leave its constants behind in the
    shared coq/ directory: the next check of anybody else would rebuild / fail on them)"""
    stem = CAP_V[:-2]
    for ext, (data, st) in saved.items():
        open(stem + ext, "wb").write(data)
        os.utime(stem + ext, ns=(st.st_atime_ns, st.st_mtime_ns))


def lib_leg(ctx, h_cap, seed):
    rnd = random.Random(seed * 7919 + 3)
    id0 = rnd.choice([0, 1, 7, 1000, 65530, 0x7FFF0000, 0xFFFE0000])
    stride = rnd.choice([1, 1, 2, 3, 17])
    t0 = time.time()
    res = dict(id0=id0, stride=stride, wall_s=None, accepted=None, dumps=0, problems=0)
    try:
        rc, lines, err = lib_run(h_cap, id0, stride)
    except subprocess.TimeoutExpired:           # machine overloaded: no verdict (recorded in the coverage), never a violation
        ctx.log("field capacity: h_cap timed out (machine load), library leg skipped")
        res["timed_out"] = True
        return res
    if rc != 0:
        ctx.violation("field-capacity:harness-crash", "h_cap died (rc=%d) while filling the id table: %s" % (rc, err[-500:]),
                      dict(kind="cap-lib", id0=id0, stride=stride, stderr=err[-2000:]))
        return res
    bad, accepted, refused, widths, dumps = lib_eval(lines, id0, stride)
    res.update(wall_s=round(time.time() - t0, 2), accepted=accepted, refused_with=refused, widths=widths, dumps=dumps,
               problems=len(bad))
    if bad:
        n, pr = bad[0]
        ctx.violation("field-capacity:id_count:library",
                      "id table of %d distinct ids (ids %d, %d, ... stride %d) is accepted by sqfs_id_table_id_to_index and written "
                      "by sqfs_id_table_write with return code 0, but the result is invalid: %s (%d of %d written tables invalid; "
                      "the table accepts %s ids)" % (n, id0, (id0 + stride) & 0xFFFFFFFF, stride, "; ".join(pr[:3]), len(bad), dumps,
                                                  accepted if accepted < PROBE_CAP else ">= %d" % PROBE_CAP),
                      dict(kind="cap-lib", id0=id0, stride=stride, ids=n, problems=pr[:5],
                           replay_cmd="h_cap %d %d %d %d" % (id0, stride, n, n)))
    return res


# ----------------------------------------------------------------------------------------------------------------------
# tool leg
# ----------------------------------------------------------------------------------------------------------------------

def plan_ids(nids, seed, per_dir):
    """entries (dir index, name, uid, gid) whose uids + gids + the 0 of the implicit directories are exactly `nids` values"""
    rnd = random.Random(seed * 104729 + nids)
    ubase = rnd.choice([1, 1000, 100000])
    gbase = ubase + 1000000
    pairs = (nids - 1) // 2
    ent = []
    for i in range(pairs):
        ent.append((i // per_dir, "s%05d" % i, ubase + i, gbase + i))
    if (nids - 1) % 2:
        ent.append((pairs // per_dir, "s%05d" % pairs, ubase + pairs, 0))
    ids = {0}
    for _, _, u, g in ent:
        ids.add(u)
        ids.add(g)
    assert len(ids) == nids
    return ent, ids


def _tar_header(name, mode, uid, gid, typ):
    h = bytearray(512)
    nb = name.encode()
    h[0:len(nb)] = nb
    h[100:108] = b"%07o\0" % mode
    h[108:116] = b"%07o\0" % uid
    h[116:124] = b"%07o\0" % gid
    h[124:136] = b"%011o\0" % 0
    h[136:148] = b"%011o\0" % 1000000000
    h[148:156] = b" " * 8
    h[156:157] = typ
    h[257:263] = b"ustar\0"
    h[263:265] = b"00"
    h[148:156] = b"%06o\0 " % sum(h)
    return bytes(h)


def tool_case(tools, scratch, tool, nids, seed, per_dir):
    os.makedirs(scratch, exist_ok=True)
    d = tempfile.mkdtemp(prefix="cap-%s-%d-" % (tool, nids), dir=scratch)
    ent, ids = plan_ids(nids, seed, per_dir)
    out = os.path.join(d, "out.sqfs")
    t0 = time.time()
    try:
        if tool == "gensquashfs":
            lst = os.path.join(d, "list.txt")
            with open(lst, "w") as f:
                f.write("".join("sock d%03d/%s 0644 %d %d\n" % e for e in ent))
            r = subprocess.run([tools["gensquashfs"], "-q", "-c", "gzip", "-F", lst, out], stdin=subprocess.DEVNULL,
                               stdout=subprocess.PIPE, stderr=subprocess.PIPE, timeout=170)
        else:
            blob = b"".join(_tar_header("d%03d/%s" % (e[0], e[1]), 0o644, e[2], e[3], b"0") for e in ent) + bytes(1024)
            r = subprocess.run([tools["tar2sqfs"], "-q", "-c", "gzip", out], input=blob,
                               stdout=subprocess.PIPE, stderr=subprocess.PIPE, timeout=170)
        rc, err = r.returncode, r.stderr.decode("utf-8", "replace")
    except subprocess.TimeoutExpired:
        rc, err = 124, "timeout"
    res = dict(tool=tool, nids=nids, per_dir=per_dir, entries=len(ent), rc=rc, err=err[-200:], bad=[], pack_s=round(time.time() - t0, 2))
    if rc == 0:
        from vlib import sqfsimg as S
        ve = sys.modules["c03_validate_ext"]
        try:
            data = open(out, "rb").read()
            if data[26:28] != struct.pack("<H", nids & 0xFFFF) or nids > 0xFFFF:
                res["bad"].append("super block announces id_count = %d for an input with %d distinct uid / gid values"
                                  % (struct.unpack("<H", data[26:28])[0], nids))
            img = S.Image(data)
            res["bad"] += ve.validate_ext(img, 4096)
            if not any(b.startswith("walk:") for b in res["bad"]):
                seen = set()
                nodes = img.walk()
                for n in nodes.values():
                    seen.add(n.uid)
                    seen.add(n.gid)
                if seen != ids:
                    res["bad"].append("uid / gid values read back through the id table differ from the input: %d values, %d expected, "
                                      "e.g. %s" % (len(seen), len(ids), sorted(seen ^ ids)[:4]))
                if len(img.ids) != len(ids):
                    res["bad"].append("id table holds %d ids, the input has %d distinct ones" % (len(img.ids), len(ids)))
                if len(nodes) != len(ent) + len({e[0] for e in ent}) + 1:
                    res["bad"].append("image has %d inodes, the input describes %d" % (len(nodes), len(ent) + len({e[0] for e in ent}) + 1))
        except S.ParseError as e:
            res["bad"].append("image does not parse: %s" % e)
        except Exception as e:  # noqa
            res["bad"].append("validator failed on the image: %r" % (e,))
    res["wall_s"] = round(time.time() - t0, 2)
    shutil.rmtree(d, ignore_errors=True)
    return res


def _tool_job(args):
    return tool_case(*args)


def tool_leg(ctx, tools, seed, tier, only=None):
    jobs = []
    per = {65535: 255, 65536: 256, 65537: 257}
    if seed % 2:
        per = {65535: 257, 65536: 255, 65537: 256}
    for tool in ("gensquashfs", "tar2sqfs"):
        for nids in (65535, 65536, 65537) + ((65534, 70000) if tier != "quick" else ()):
            jobs.append((tool, nids, per.get(nids, 200)))
    if only:
        jobs = [only]
    t0 = time.time()
    # worker processes (as toolgen.job): the Python validator must not compete for the GIL with the other stages
    with ProcessPoolExecutor(max_workers=6) as ex:
        results = list(ex.map(_tool_job, [(tools, ctx.scratch, j[0], j[1], seed, j[2]) for j in jobs], chunksize=1))
    seen = set()
    for r in results:
        if r["bad"] and r["tool"] not in seen:
            seen.add(r["tool"])
            what = "id_count" if any("id" in b.split(":")[0] or "id index" in b or "id table" in b for b in r["bad"][:2]) else \
                re.sub(r"[^A-Za-z]+", "-", re.sub(r"[0-9]+", "N", r["bad"][0]))[:50].strip("-")
            ctx.violation("field-capacity:%s:%s" % (what, r["tool"]),
                          "%s (exit status 0) on an input with exactly %d distinct numeric uid / gid values (%d entries in "
                          "sub-directories of %d) wrote an invalid image: %s"
                          % (r["tool"], r["nids"], r["entries"], r["per_dir"], "; ".join(r["bad"][:3])),
                          dict(kind="cap-tool", tool=r["tool"], nids=r["nids"], per_dir=r["per_dir"], seed=seed, violations=r["bad"][:10]))
    return dict(runs=len(results), accepted=sum(1 for r in results if r["rc"] == 0), refused=sum(1 for r in results if r["rc"] != 0),
                invalid=sum(1 for r in results if r["bad"]), wall_s=round(time.time() - t0, 2),
                cases=[dict(tool=r["tool"], nids=r["nids"], per_dir=r["per_dir"], rc=r["rc"], wall_s=r["wall_s"],
                            message=r["err"].strip()[-80:]) for r in results])


def stage(ctx, h_cap, tools, seed, tier):
    lib = lib_leg(ctx, h_cap, seed)
    tool = tool_leg(ctx, tools, seed, tier)
    return dict(library=lib, tool=tool)
