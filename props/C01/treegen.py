"""C01 search oracle, tool level: tree generator, materialisation (pack file / pack dir / glob), expected
tree after the documented normalisation, read-back through the independent reader (vlib.sqfsimg) and through
rdsquashfs, comparison.  Everything is seeded from the rnd object handed in."""
import hashlib
import os
import re
import shutil
import stat
import subprocess

from vlib import sqfsimg as S

KINDS = ("dir", "file", "slink", "hlink", "bdev", "cdev", "fifo", "sock")
U32 = 0xFFFFFFFF


class TNode:
    __slots__ = ("path", "kind", "perm", "uid", "gid", "mtime", "data", "target", "dev", "xattrs", "link_to",
                 "implicit", "src")

    def __init__(self, path, kind, perm=0o644, uid=0, gid=0, mtime=0, data=None, target=None, dev=None,
                 xattrs=None, link_to=None):
        self.path = path          # bytes, relative, no leading slash, b"" = root
        self.kind = kind
        self.perm = perm
        self.uid = uid
        self.gid = gid
        self.mtime = mtime
        self.data = data          # Content
        self.target = target
        self.dev = dev            # (major, minor)
        self.xattrs = xattrs or {}
        self.link_to = link_to
        self.implicit = False     # pack file: directory not named by a line
        self.src = None           # pack file: name of the content file below the pack dir


class Content:
    """file contents as a list of runs: ('z', n) zeros / hole, ('b', bytes)"""

    def __init__(self, runs):
        self.runs = [r for r in runs if (r[1] if r[0] == 'z' else len(r[1])) > 0]

    @property
    def size(self):
        return sum(r[1] if r[0] == 'z' else len(r[1]) for r in self.runs)

    def sha(self):
        h = hashlib.sha256()
        zero = b"\0" * (1 << 20)
        for t, v in self.runs:
            if t == 'z':
                n = v
                while n > 0:
                    c = min(n, len(zero))
                    h.update(zero[:c])
                    n -= c
            else:
                h.update(v)
        return h.hexdigest()

    def write(self, path):
        with open(path, "wb") as f:
            pos = 0
            for t, v in self.runs:
                if t == 'z':
                    pos += v
                    f.seek(pos)
                else:
                    f.write(v)
                    pos += len(v)
            f.truncate(pos)

    def bytes(self):
        return b"".join((b"\0" * v) if t == 'z' else v for t, v in self.runs)


# --------------------------------------------------------------------------
# generator
# --------------------------------------------------------------------------

NAME_ALPHABETS = {
    "plain": [b"a", b"b", b"c", b"X", b"0", b"7", b"_", b"-", b".", b"~"],
    "odd": [b" ", b'"', b"\\", b"'", b"$", b"*", b"?", b"[", b"]", b"#", b"=", b",", b";", b"&", b"|", b"(", b"%",
            b"a", b"Z", b"1", b".", b"\xc3\xa4", b"\xe2\x82\xac", b"\xff", b"\x80", b"\xfe\xfd", b"\x7f", b"\x01", b"\t"],
}


def gen_name(rnd, used, style, maxlen=24):
    for _ in range(100):
        if style == "long":
            n = rnd.choice([200, 255, 254, 128])
            nm = bytes(rnd.choice(b"abcdefghijklmnopqrstuvwxyz0123456789") for _ in range(n))
        else:
            alpha = NAME_ALPHABETS["odd" if style == "odd" else "plain"]
            k = rnd.randint(1, 6 if style == "odd" else 4)
            nm = b"".join(rnd.choice(alpha) for _ in range(k))[:maxlen]
            if style != "odd":
                nm += b"%d" % rnd.randint(0, 999)
            if used and rnd.random() < 0.2:
                # a sibling that is a proper prefix / extension of an existing name (lib, lib64, lib6): name lookups
                # must compare whole names
                sib = rnd.choice(sorted(used))
                nm = sib[:rnd.randint(1, len(sib) - 1)] if (len(sib) > 1 and rnd.random() < 0.5) else sib + rnd.choice([b"64", b"-", b"0", b"a", b".d"])
        if nm in (b".", b"..", b"") or b"/" in nm or b"\n" in nm or b"\0" in nm:
            continue
        if nm in used:
            continue
        # the description-file reader left-trims lines and cuts at the first blank of an unquoted word; names are
        # always quoted when needed (see quote()); a name consisting of blanks only is fine inside quotes
        used.add(nm)
        return nm
    nm = b"n%d" % len(used)
    used.add(nm)
    return nm


def gen_content(rnd, bs, kind=None, pool=None):
    kind = kind or rnd.choice(["rand", "rand", "zero", "sparse", "dup", "tail", "text", "empty", "small"])
    sizes = [0, 1, bs - 1, bs, bs + 1, 2 * bs - 1, 2 * bs, 2 * bs + 1, 3 * bs + 7, bs // 2, 17]
    size = rnd.choice(sizes)
    if kind == "empty":
        return Content([])
    if kind == "small":
        return Content([('b', bytes(rnd.getrandbits(8) for _ in range(rnd.randint(1, 40))))])
    if kind == "zero":
        return Content([('z', size)])
    if kind == "rand":
        return Content([('b', rnd.randbytes(size))])
    if kind == "text":
        return Content([('b', (b"the quick brown fox %d\n" % rnd.randint(0, 9)) * (size // 22 + 1))][:1]) if size else Content([])
    if kind == "sparse":
        runs = []
        for _ in range(rnd.randint(1, 4)):
            runs.append(('z', rnd.choice([bs, 2 * bs, bs // 2, bs + 5, 1])))
            runs.append(('b', rnd.randbytes(rnd.choice([1, bs, bs - 1, 100]))))
        if rnd.random() < 0.5:
            runs.append(('z', rnd.choice([bs, 3, 2 * bs + 1])))
        return Content(runs)
    if kind == "dup" and pool:
        return rnd.choice(pool)
    if kind == "tail" and pool:
        # same tail (fragment) as an earlier file, different or equal full blocks
        base = rnd.choice(pool).bytes()
        t = len(base) % bs
        tail = base[len(base) - t:] if t else rnd.randbytes(9)
        return Content([('b', rnd.randbytes(bs * rnd.randint(0, 2)) + tail)])
    return Content([('b', rnd.randbytes(size))])


def gen_xattrs(rnd, pool):
    if rnd.random() < 0.6 and pool["sets"]:
        return dict(rnd.choice(pool["sets"]))
    n = rnd.choice([1, 1, 2, 3, 5])
    d = {}
    for _ in range(n):
        pfx = rnd.choice(["user.", "user.", "trusted.", "security."])
        key = pfx + rnd.choice(["a", "b", "mime_type", "k%d" % rnd.randint(0, 30), "x" * rnd.choice([1, 60, 200])])
        r = rnd.random()
        if r < 0.3 and pool["vals"]:
            val = rnd.choice(pool["vals"])
        elif r < 0.4:
            val = b""
        else:
            val = rnd.randbytes(rnd.choice([1, 7, 8, 9, 16, 100, 1000]))
            pool["vals"].append(val)
        d[key] = val
    pool["sets"].append(d)
    return d


def gen_tree(rnd, profile, bs):
    """list of TNode, parents first; root (path b'') included."""
    ids = profile.get("ids") or [0, 1, 2, 1000, 65534, 65535, 65536, 0x7FFFFFFF, 0xFFFFFFFE, U32]
    style = profile.get("names", "plain")
    nodes = [TNode(b"", "dir", perm=profile.get("root_perm", 0o755), uid=rnd.choice(ids), gid=rnd.choice(ids))]
    dirs = [nodes[0]]
    used = {b"": set()}
    files = []
    linkable = []
    pool = dict(sets=[], vals=[])
    want = profile.get("count", 20)
    kinds = profile.get("kinds", ["dir", "file", "file", "file", "slink", "hlink", "bdev", "cdev", "fifo", "sock"])
    with_x = profile.get("xattr_p", 0.0)
    mt_choices = profile.get("mtimes", [0, 1, 1600000000, 0x7FFFFFFF, 0x80000000, 0xFFFFFFFE, U32])

    def add(parent, kind, name_style=None):
        nm = gen_name(rnd, used[parent.path], name_style or (rnd.choice(["plain", "odd"]) if style == "mixed" else style))
        p = (parent.path + b"/" + nm) if parent.path else nm
        n = TNode(p, kind, perm=rnd.choice([0o644, 0o755, 0o600, 0o7777, 0, 0o4755, 0o1777, 0o444]),
                  uid=rnd.choice(ids), gid=rnd.choice(ids), mtime=rnd.choice(mt_choices))
        if kind == "dir":
            used[p] = set()
            dirs.append(n)
        elif kind == "file":
            n.data = gen_content(rnd, bs, profile.get("content"), files)
            files.append(n.data)
            linkable.append(n)
        elif kind == "slink":
            n.target = rnd.choice([b"target", b"../x/y", b"/abs/path", b"a b", b"\xc3\xa4\xff", b"t" * rnd.choice([1, 255, 1000, 4095]),
                                   b'q"uote', b"back\\slash"])
            n.perm = 0o777
            linkable.append(n)
        elif kind in ("bdev", "cdev"):
            n.dev = (rnd.choice([0, 1, 8, 255, 256, 4095]), rnd.choice([0, 1, 255, 256, 65535, 1048575]))
            linkable.append(n)
        else:
            linkable.append(n)
        if rnd.random() < with_x:
            n.xattrs = gen_xattrs(rnd, pool)
        nodes.append(n)
        return n

    for _ in range(want):
        kind = rnd.choice(kinds)
        parent = rnd.choice(dirs[-6:]) if rnd.random() < 0.7 else rnd.choice(dirs)
        if kind == "hlink":
            if not linkable:
                continue
            tgt = rnd.choice(linkable)
            n = add(parent, "hlink")
            n.link_to = tgt.path
            n.xattrs = {}
            continue
        add(parent, kind)
    # special directories
    for spec in profile.get("bigdirs", []):
        d = add(nodes[0], "dir", "plain")
        cnt, nstyle = spec
        for i in range(cnt):
            c = add(d, rnd.choice(["file", "fifo", "dir", "slink"]) if i % 7 == 0 else "fifo", nstyle)
            if c.kind == "file":
                c.data = Content([('b', b"x" * (i % 3))])
    if rnd.random() < with_x:
        nodes[0].xattrs = gen_xattrs(rnd, pool)
    return nodes


# --------------------------------------------------------------------------
# materialisation
# --------------------------------------------------------------------------

def needs_quote(b):
    return any(c in b for c in b' \t"') or b == b""


def quote(b):
    """a word of a description file (split_line): quoted when it contains a separator or a quote;
    inside quotes only \\" and \\\\ are escapes (and a backslash must be escaped)."""
    if not needs_quote(b):
        return b
    return b'"' + b.replace(b"\\", b"\\\\").replace(b'"', b'\\"') + b'"'


def packfile_ok_name(path):
    # an unquoted word keeps backslashes literally; a quoted one unescapes them - both handled by quote().
    # Not expressible: newline; a path starting with '#' is fine (only the first word of a line is looked at).
    return b"\n" not in path and b"\r" not in path


def hexval(v):
    return "0x" + v.hex() if v else ""


def write_xattr_file(nodes, path):
    with open(path, "wb") as f:
        for n in nodes:
            if not n.xattrs:
                continue
            f.write(b"# file: /" + n.path + b"\n")
            for k, v in n.xattrs.items():
                f.write(k.encode() + b"=" + hexval(v).encode() + b"\n")
            f.write(b"\n")


def xattr_file_ok(nodes):
    """the map file is line based and its lines are trimmed on both sides: a path that ends in white space or
    contains a line break cannot be named in it"""
    for n in nodes:
        if n.xattrs:
            p = n.path
            if b"\n" in p or b"\r" in p or (p and p[-1:] in b" \t\x0b\x0c"):
                return False
    return True


def write_packfile(nodes, packdir, pf_path, explicit_root, implicit_p, rnd):
    """content files go to packdir/cNNNN; returns nothing, marks nodes implicit/src."""
    os.makedirs(packdir, exist_ok=True)
    lines = []
    have_children = set()
    for n in nodes:
        if n.path:
            have_children.add(n.path.rsplit(b"/", 1)[0] if b"/" in n.path else b"")
    k = 0
    for n in nodes:
        p = b"/" + n.path
        if n.kind == "dir":
            if n.path == b"":
                if explicit_root:
                    lines.append(b"dir / 0%o %d %d" % (n.perm, n.uid, n.gid))
                else:
                    n.implicit = True
                continue
            if n.path in have_children and rnd.random() < implicit_p and not n.xattrs:
                n.implicit = True
                continue
            lines.append(b"dir %s 0%o %d %d" % (quote(p), n.perm, n.uid, n.gid))
        elif n.kind == "file":
            n.src = b"c%04d" % k
            k += 1
            n.data.write(os.path.join(packdir, n.src.decode()))
            lines.append(b"file %s 0%o %d %d %s" % (quote(p), n.perm, n.uid, n.gid, n.src))
        elif n.kind == "slink":
            lines.append(b"slink %s 0%o %d %d %s" % (quote(p), n.perm, n.uid, n.gid, quote(n.target)))
        elif n.kind == "hlink":
            lines.append(b"link %s 0%o %d %d %s" % (quote(p), 0o777, 0, 0, quote(b"/" + n.link_to)))
        elif n.kind in ("bdev", "cdev"):
            lines.append(b"nod %s 0%o %d %d %s %d %d" % (quote(p), n.perm, n.uid, n.gid, b"b" if n.kind == "bdev" else b"c",
                                                         n.dev[0], n.dev[1]))
        elif n.kind == "fifo":
            lines.append(b"pipe %s 0%o %d %d" % (quote(p), n.perm, n.uid, n.gid))
        elif n.kind == "sock":
            lines.append(b"sock %s 0%o %d %d" % (quote(p), n.perm, n.uid, n.gid))
    if rnd.random() < 0.5:
        # the order of the lines is free: a directory named by a later line was created implicitly first and takes
        # its attributes from its own line; hard link targets are resolved at the end
        rnd.shuffle(lines)
    with open(pf_path, "wb") as f:
        f.write(b"# generated\n" + b"\n".join(lines) + b"\n")


def materialize_dir(nodes, root, set_xattr=False):
    """create the tree on disk below root (needs root privileges for devices / owners)."""
    os.makedirs(root, exist_ok=True)
    if set_xattr and nodes and nodes[0].path == b"" and nodes[0].xattrs:
        for k, v in nodes[0].xattrs.items():      # --keep-xattr reads the pack directory itself for the root inode
            os.setxattr(root, k, v)
    later = []
    for n in nodes:
        if n.path == b"":
            continue
        p = os.path.join(os.fsencode(root), n.path)
        if n.kind == "dir":
            os.mkdir(p)
        elif n.kind == "file":
            n.data.write(p)
        elif n.kind == "slink":
            os.symlink(n.target, p)
        elif n.kind == "hlink":
            os.link(os.path.join(os.fsencode(root), n.link_to), p, follow_symlinks=False)
            continue
        elif n.kind == "bdev":
            os.mknod(p, 0o600 | stat.S_IFBLK, os.makedev(*n.dev))
        elif n.kind == "cdev":
            os.mknod(p, 0o600 | stat.S_IFCHR, os.makedev(*n.dev))
        elif n.kind == "fifo":
            os.mkfifo(p)
        elif n.kind == "sock":
            os.mknod(p, 0o600 | stat.S_IFSOCK)
        later.append((n, p))
    # attributes (children first so that directory mtimes stick)
    for n, p in reversed(later):
        os.chown(p, n.uid, n.gid, follow_symlinks=False)
        if n.kind != "slink":
            os.chmod(p, n.perm)
        if set_xattr and n.xattrs:
            for k, v in n.xattrs.items():
                os.setxattr(p, k, v, follow_symlinks=False)
        mt = n.mtime
        os.utime(p, (mt, mt), follow_symlinks=False)


# --------------------------------------------------------------------------
# expected tree
# --------------------------------------------------------------------------

def clamp_time(t):
    return 0 if t < 0 else (U32 if t > U32 else t)


def expected_tree(nodes, mode, opts):
    """mode: packfile | packdir | glob.  opts: dict(set_uid, set_gid, keep_time, def_uid, def_gid, def_mode,
    def_mtime, keep_xattr, xattr_file).  Returns {path: dict} with hard links resolved into groups."""
    out = {}
    dm = opts.get("def_mtime", 0)
    by_path = {n.path: n for n in nodes}

    def resolve(n):
        seen = set()
        while n.kind == "hlink":
            if n.path in seen:
                return None
            seen.add(n.path)
            n = by_path[n.link_to]
        return n

    for n in nodes:
        tgt = resolve(n)
        e = {}
        src = tgt
        e["primary"] = src.path
        kind = src.kind
        e["type"] = {"dir": "dir", "file": "file", "slink": "slink", "bdev": "bdev", "cdev": "cdev", "fifo": "fifo",
                     "sock": "sock"}[kind]
        implicit = (src.implicit and mode == "packfile") or (src.path == b"" and mode in ("packdir", "glob") and not opts.get("explicit_root"))
        if implicit:
            e["perm"] = opts.get("def_mode", 0o755)
            e["uid"] = opts.get("def_uid", 0)
            e["gid"] = opts.get("def_gid", 0)
        else:
            e["perm"] = 0o777 if kind == "slink" else src.perm
            e["uid"] = src.uid if opts.get("set_uid") is None else opts["set_uid"]
            e["gid"] = src.gid if opts.get("set_gid") is None else opts["set_gid"]
        if mode == "packdir" and opts.get("keep_time") and src.path != b"":
            e["mtime"] = clamp_time(src.mtime)
        else:
            e["mtime"] = dm
        if kind == "slink":
            e["target"] = src.target
        if kind in ("bdev", "cdev"):
            e["dev"] = src.dev
        if kind == "file":
            e["size"] = src.data.size
            e["sha"] = src.data.sha()
        x = {}
        if opts.get("xattr_file") or (mode == "packdir" and opts.get("keep_xattr")):
            x = {k: v.hex() for k, v in src.xattrs.items()}
        e["xattrs"] = x
        out[n.path] = e
    groups = {}
    for p, e in out.items():
        groups.setdefault(e["primary"], set()).add(p)
    for p, e in out.items():
        e["group"] = frozenset(groups[e["primary"]])
        del e["primary"]
    return out


# --------------------------------------------------------------------------
# read back
# --------------------------------------------------------------------------

TYPE_NAMES = {1: "dir", 2: "file", 3: "slink", 4: "bdev", 5: "cdev", 6: "fifo", 7: "sock"}


def split_dev(d):
    # kernel new_decode_dev
    return ((d & 0xfff00) >> 8, (d & 0xff) | ((d >> 12) & 0xfff00))


def read_independent(image_bytes, with_data=True):
    img = S.Image(image_bytes)
    t = img.walk()
    out = {}
    by_ino = {}
    sha_cache = {}
    for p, n in t.items():
        e = dict(type=TYPE_NAMES.get(n.type, "?"), perm=n.mode & 0o7777, uid=n.uid, gid=n.gid, mtime=n.mtime,
                 nlink=n.nlink, ino=n.ino, xattrs=dict(n.xattrs or {}))
        if n.mode & ~0o7777:
            e["perm"] = n.mode  # on-disk mode must hold permission bits only
        if n.type == S.T_SLINK:
            e["target"] = n.target
        if n.type in (S.T_BDEV, S.T_CDEV):
            e["dev"] = split_dev(n.dev)
            e["rawdev"] = n.dev
        if n.type == S.T_FILE:
            e["size"] = n.size
            if with_data:
                if n.ref not in sha_cache:
                    h = hashlib.sha256()
                    h.update(img.read_file(n))
                    sha_cache[n.ref] = h.hexdigest()
                e["sha"] = sha_cache[n.ref]
        by_ino.setdefault(n.ino, set()).add(p)
        out[p] = e
    for p, e in out.items():
        e["group"] = frozenset(by_ino[e["ino"]])
    return out, img


def compare_trees(exp, got, what, check_nlink=True, skip=()):
    """list of difference strings (empty = equal)"""
    diffs = []
    for p in exp:
        if p not in got:
            diffs.append("%s: missing path %r" % (what, p))
    for p in got:
        if p not in exp:
            diffs.append("%s: extra path %r" % (what, p))
    for p, e in exp.items():
        g = got.get(p)
        if g is None:
            continue
        for k in ("type", "perm", "uid", "gid", "mtime", "target", "dev", "size", "sha", "xattrs", "group"):
            if k in skip or k not in e or (k not in g and k in ("mtime", "xattrs", "group", "sha")):
                continue
            if g.get(k) != e[k]:
                ev, gv = e[k], g.get(k)
                if k == "group":
                    ev, gv = sorted(ev), sorted(gv or [])
                diffs.append("%s: %r %s: expected %r got %r" % (what, p, k, ev, gv))
        if check_nlink and e["type"] != "dir" and "nlink" in g and g["nlink"] != len(e["group"]):
            diffs.append("%s: %r nlink: expected %d got %r" % (what, p, len(e["group"]), g["nlink"]))
    return diffs


# ---- rdsquashfs views ----

def run(cmd, timeout=120, env=None, cwd=None, inp=None):
    try:
        r = subprocess.run(cmd, stdout=subprocess.PIPE, stderr=subprocess.PIPE, timeout=timeout, env=env, cwd=cwd, input=inp)
        return r.returncode, r.stdout, r.stderr
    except subprocess.TimeoutExpired as e:
        return 124, e.stdout or b"", (e.stderr or b"") + b"\n[timeout]"


SAN_RE = re.compile(rb"AddressSanitizer|UndefinedBehaviorSanitizer|runtime error:|LeakSanitizer|Assertion .* failed|==ABORTING")


def sanitizer_hit(rc, err):
    return rc < 0 or rc in (134, 139, 124) or bool(SAN_RE.search(err))


def token_renderings(tok):
    """acceptable ways rdsquashfs -d may print one token: verbatim, or quoted with the quote character escaped,
    or quoted with quote and backslash escaped (what split_line undoes).  Verbatim is only acceptable when the
    description-file parser would read it back as the same single word."""
    r = {b'"' + tok.replace(b'"', b'\\"') + b'"', b'"' + tok.replace(b"\\", b"\\\\").replace(b'"', b'\\"') + b'"'}
    if tok and not any(c in tok for c in b' "'):
        r.add(tok)
    return r


def expected_describe_lines(exp):
    """for every path the set of acceptable -d lines (the root line is optional: older versions do not print it)"""
    out = []
    for p, e in exp.items():
        kw = {"dir": b"dir", "file": b"file", "slink": b"slink", "bdev": b"nod", "cdev": b"nod", "fifo": b"pipe", "sock": b"sock"}[e["type"]]
        tail = b" 0%o %d %d" % (e["perm"], e["uid"], e["gid"])
        extras = {b""}
        if e["type"] == "slink":
            extras = {b" " + t for t in token_renderings(e["target"])} | {b" " + e["target"]}
        elif e["type"] in ("bdev", "cdev"):
            extras = {b" %s %d %d" % (b"b" if e["type"] == "bdev" else b"c", e["dev"][0], e["dev"][1])}
        alts = set()
        names = token_renderings(p) if p else {b"/"}
        for nm in names:
            for x in extras:
                alts.add(kw + b" " + nm + tail + x)
        out.append((p, alts))
    return out


def describe_safe(exp):
    for p, e in exp.items():
        if any(c in p for c in b"\n\r"):
            return False
        if e["type"] == "slink" and any(c in e["target"] for c in b"\n\r"):
            return False
    return True


def check_describe(exp, out_bytes):
    lines = out_bytes.split(b"\n")
    if lines and lines[-1] == b"":
        lines.pop()
    pool = {}
    for l in lines:
        pool[l] = pool.get(l, 0) + 1
    diffs = []
    for p, alts in expected_describe_lines(exp):
        hit = None
        for a in alts:
            if pool.get(a, 0) > 0:
                hit = a
                break
        if hit is None:
            if p == b"":
                continue      # versions that do not describe the root directory
            diffs.append("describe: no line for %r (expected one of %r)" % (p, sorted(alts)[:2]))
        else:
            pool[hit] -= 1
    left = [l for l, c in pool.items() if c > 0]
    if left:
        diffs.append("describe: unexpected line(s) %r" % left[:3])
    return diffs


STAT_RE = {
    "type": re.compile(rb"^Inode type: (.*)$", re.M),
    "ino": re.compile(rb"^Inode number: (\d+)$", re.M),
    "perm": re.compile(rb"^Access: 0?([0-7]+)$", re.M),
    "uid": re.compile(rb"^UID: (\d+)", re.M),
    "gid": re.compile(rb"^GID: (\d+)", re.M),
    "mtime": re.compile(rb"^Last modified: .*\((\d+)\)$", re.M),
    "nlink": re.compile(rb"^Hard link count: (\d+)$", re.M),
    "size": re.compile(rb"^File size: (\d+)$", re.M),
    "target": re.compile(rb"^Link target: (.*)$", re.M | re.S),
    "dev": re.compile(rb"^Device number: (\d+):(\d+)", re.M),
}
STAT_TYPES = {b"directory": "dir", b"extended directory": "dir", b"file": "file", b"extended file": "file",
              b"symbolic link": "slink", b"extended symbolic link": "slink", b"block device": "bdev",
              b"extended block device": "bdev", b"character device": "cdev", b"extended character device": "cdev",
              b"named pipe": "fifo", b"extended named pipe": "fifo", b"socket": "sock", b"extended socket": "sock"}


def parse_stat(out):
    e = {}
    for k, rx in STAT_RE.items():
        m = rx.search(out)
        if not m:
            continue
        if k == "type":
            e[k] = STAT_TYPES.get(m.group(1).strip(), m.group(1).decode("latin-1"))
        elif k == "perm":
            e[k] = int(m.group(1), 8)
        elif k == "dev":
            e[k] = (int(m.group(1)), int(m.group(2)))
        elif k == "target":
            pass
        else:
            e[k] = int(m.group(1))
    return e


def unpack_scan(root):
    """lstat view of an unpacked tree: {path: dict}"""
    out = {}
    rootb = os.fsencode(root)
    by_ino = {}

    def rec(dpath, rel):
        st = os.lstat(dpath)
        add(dpath, rel, st)
        for nm in sorted(os.listdir(dpath)):
            p = os.path.join(dpath, nm)
            r = (rel + b"/" + nm) if rel else nm
            s = os.lstat(p)
            if stat.S_ISDIR(s.st_mode):
                rec(p, r)
            else:
                add(p, r, s)

    def add(p, rel, st):
        m = st.st_mode
        t = ("dir" if stat.S_ISDIR(m) else "file" if stat.S_ISREG(m) else "slink" if stat.S_ISLNK(m) else
             "bdev" if stat.S_ISBLK(m) else "cdev" if stat.S_ISCHR(m) else "fifo" if stat.S_ISFIFO(m) else
             "sock" if stat.S_ISSOCK(m) else "?")
        e = dict(type=t, perm=m & 0o7777, uid=st.st_uid, gid=st.st_gid, mtime=int(st.st_mtime), nlink=st.st_nlink)
        if t == "slink":
            e["target"] = os.readlink(p)
            e["perm"] = 0o777
        if t in ("bdev", "cdev"):
            e["dev"] = (os.major(st.st_rdev), os.minor(st.st_rdev))
        if t == "file":
            e["size"] = st.st_size
            h = hashlib.sha256()
            with open(p, "rb") as f:
                while True:
                    b = f.read(1 << 20)
                    if not b:
                        break
                    h.update(b)
            e["sha"] = h.hexdigest()
        try:
            e["xattrs"] = {k: os.getxattr(p, k, follow_symlinks=False).hex() for k in os.listxattr(p, follow_symlinks=False)}
        except OSError:
            pass
        if t != "dir":
            by_ino.setdefault((st.st_dev, st.st_ino), set()).add(rel)
        e["_ino"] = (st.st_dev, st.st_ino)
        out[rel] = e

    rec(rootb, b"")
    for rel, e in out.items():
        if e["type"] != "dir":
            e["group"] = frozenset(by_ino[e["_ino"]])
        del e["_ino"]
    return out
