/* C01 component harness: inode codec (write_inode.c / read_inode.c), inode.c mutators and
 * serialize_tree_node (serialize_fstree.c, reached by #include) of the working tree.
 *
 * stdin: one command per line, stdout: one line per command "<model input> | <result>".
 *   enc <bs> I                 -> "<rc> <hex>" (encoder) + " ; " + decoder verdict on the encoder's bytes
 *   dec <bs> <hex>             -> "<rc> I'"
 *   mut I op...                -> "<rc,rc,...> I'"   ops: X make_extended, B make_basic, x<n> set_xattr_index,
 *                                                   s<n> set_file_size, l<n> set_file_block_start, f<i>:<o> set_frag_location
 *   ser <ids> <mode> <uid> <gid> <mtime> <ino> <nlink> <xattr> <kind...>
 *        kinds: kfile I | kslink <hex> | kdev <b|c> <devno> | kipc <f|s>
 *               dir <parent_ino> <dm_prefill> <nchildren> <namelen> <ino0> <inostep> <blk0> <per_blk> [<lastlen>]
 *        -> model input (dir is echoed as "kdir <dir_ref> <dir_size> <ent_count> <parent> <index>") | "<rc> <ids> <hex>"
 *   idt <n> <probe ids>        -> "acc=<k> <rc:idx>... write=<rc> count=<id_count> read=<rc> same=<0|1>"
 * I = <type> <mode> <uid_idx> <gid_idx> <mtime> <ino> <fields...> <payload>  (see props/C01/NOTES.md) */
#include "h_common.h"
#include "lib/common/src/writer/serialize_fstree.c"

static memfile_t mf, mf2;
static sqfs_compressor_t store;

static int nfields(int type)
{
	switch (type) {
	case SQFS_INODE_DIR: return 5;
	case SQFS_INODE_FILE: return 4;
	case SQFS_INODE_SLINK: return 1;
	case SQFS_INODE_BDEV: case SQFS_INODE_CDEV: return 2;
	case SQFS_INODE_FIFO: case SQFS_INODE_SOCKET: return 2;
	case SQFS_INODE_EXT_DIR: return 7;
	case SQFS_INODE_EXT_FILE: return 7;
	case SQFS_INODE_EXT_SLINK: return 2;
	case SQFS_INODE_EXT_BDEV: case SQFS_INODE_EXT_CDEV: return 3;
	case SQFS_INODE_EXT_FIFO: case SQFS_INODE_EXT_SOCKET: return 2;
	}
	return -1;
}

static char *tok(void) { return strtok(NULL, " \n"); }
static unsigned long long num(void) { char *t = tok(); return t ? strtoull(t, NULL, 10) : 0; }

/* parse I from the token stream; returns malloc'ed inode (with 64 KiB + payload spare room) */
static sqfs_inode_generic_t *parse_inode(void)
{
	int type = (int)num(), nf, i;
	unsigned long long f[8];
	sqfs_inode_generic_t *n;
	char *pl;
	size_t pllen;

	nf = nfields(type);
	if (nf < 0) return NULL;
	unsigned mode = num(), uidx = num(), gidx = num(), mtime = num(), ino = num();
	for (i = 0; i < nf; ++i) f[i] = num();
	pl = tok();
	if (!pl) return NULL;
	pllen = strlen(pl);
	n = calloc(1, sizeof(*n) + pllen * 4 + 65536);
	n->base.type = type; n->base.mode = mode; n->base.uid_idx = uidx; n->base.gid_idx = gidx;
	n->base.mod_time = mtime; n->base.inode_number = ino;
	n->payload_bytes_available = pllen * 4 + 65536;
	switch (type) {
	case SQFS_INODE_DIR:
		n->data.dir.start_block = f[0]; n->data.dir.nlink = f[1]; n->data.dir.size = f[2];
		n->data.dir.offset = f[3]; n->data.dir.parent_inode = f[4];
		break;
	case SQFS_INODE_FILE:
		n->data.file.blocks_start = f[0]; n->data.file.fragment_index = f[1];
		n->data.file.fragment_offset = f[2]; n->data.file.file_size = f[3];
		break;
	case SQFS_INODE_SLINK:
		n->data.slink.nlink = f[0];
		break;
	case SQFS_INODE_BDEV: case SQFS_INODE_CDEV:
		n->data.dev.nlink = f[0]; n->data.dev.devno = f[1];
		break;
	case SQFS_INODE_FIFO: case SQFS_INODE_SOCKET:
		n->data.ipc.nlink = f[0]; n->data.ipc_ext.xattr_idx = f[1];   /* slack */
		break;
	case SQFS_INODE_EXT_DIR:
		n->data.dir_ext.nlink = f[0]; n->data.dir_ext.size = f[1]; n->data.dir_ext.start_block = f[2];
		n->data.dir_ext.parent_inode = f[3]; n->data.dir_ext.inodex_count = f[4];
		n->data.dir_ext.offset = f[5]; n->data.dir_ext.xattr_idx = f[6];
		break;
	case SQFS_INODE_EXT_FILE:
		n->data.file_ext.blocks_start = f[0]; n->data.file_ext.file_size = f[1]; n->data.file_ext.sparse = f[2];
		n->data.file_ext.nlink = f[3]; n->data.file_ext.fragment_idx = f[4];
		n->data.file_ext.fragment_offset = f[5]; n->data.file_ext.xattr_idx = f[6];
		break;
	case SQFS_INODE_EXT_SLINK:
		n->data.slink_ext.nlink = f[0]; n->data.slink_ext.xattr_idx = f[1];
		break;
	case SQFS_INODE_EXT_BDEV: case SQFS_INODE_EXT_CDEV:
		n->data.dev_ext.nlink = f[0]; n->data.dev_ext.devno = f[1]; n->data.dev_ext.xattr_idx = f[2];
		break;
	case SQFS_INODE_EXT_FIFO: case SQFS_INODE_EXT_SOCKET:
		n->data.ipc_ext.nlink = f[0]; n->data.ipc_ext.xattr_idx = f[1];
		break;
	}
	/* payload */
	if (type == SQFS_INODE_FILE || type == SQFS_INODE_EXT_FILE) {
		size_t k = 0;
		if (strcmp(pl, "-") != 0) {
			char *p = pl;
			while (*p) {
				n->extra[k++] = (sqfs_u32)strtoull(p, &p, 10);
				if (*p == ',') ++p;
			}
		}
		n->payload_bytes_used = k * 4;
	} else if (type == SQFS_INODE_SLINK || type == SQFS_INODE_EXT_SLINK) {
		size_t l = unhex(pl, (sqfs_u8 *)n->extra);
		n->data.slink.target_size = l;
		n->payload_bytes_used = l;
	} else if (type == SQFS_INODE_EXT_DIR) {
		sqfs_u8 *dst = (sqfs_u8 *)n->extra;
		size_t used = 0;
		if (strcmp(pl, "-") != 0) {
			char *p = pl;
			while (*p) {
				sqfs_dir_index_t ent;
				char *q;
				size_t l;
				memset(&ent, 0, sizeof(ent));
				ent.index = (sqfs_u32)strtoull(p, &p, 10); ++p;
				ent.start_block = (sqfs_u32)strtoull(p, &p, 10); ++p;
				q = p;
				while (*q && *q != ',') ++q;
				{ char save = *q; *q = 0; l = unhex(p, dst + used + sizeof(ent)); *q = save; }
				ent.size = (sqfs_u32)(l - 1);
				memcpy(dst + used, &ent, sizeof(ent));
				used += sizeof(ent) + l;
				p = q;
				if (*p == ',') ++p;
			}
		}
		n->payload_bytes_used = used;
	}
	return n;
}

static void print_inode(const sqfs_inode_generic_t *n)
{
	size_t i;
	printf("%u %u %u %u %u %u", n->base.type, n->base.mode, n->base.uid_idx, n->base.gid_idx,
	       n->base.mod_time, n->base.inode_number);
	switch (n->base.type) {
	case SQFS_INODE_DIR:
		printf(" %u %u %u %u %u -", n->data.dir.start_block, n->data.dir.nlink, n->data.dir.size,
		       n->data.dir.offset, n->data.dir.parent_inode);
		break;
	case SQFS_INODE_FILE:
		printf(" %u %u %u %u ", n->data.file.blocks_start, n->data.file.fragment_index,
		       n->data.file.fragment_offset, n->data.file.file_size);
		goto blocks;
	case SQFS_INODE_SLINK:
		printf(" %u ", n->data.slink.nlink);
		puthex((const sqfs_u8 *)n->extra, n->data.slink.target_size);
		break;
	case SQFS_INODE_BDEV: case SQFS_INODE_CDEV:
		printf(" %u %u -", n->data.dev.nlink, n->data.dev.devno);
		break;
	case SQFS_INODE_FIFO: case SQFS_INODE_SOCKET:
		printf(" %u %u -", n->data.ipc.nlink, n->data.ipc_ext.xattr_idx);
		break;
	case SQFS_INODE_EXT_DIR: {
		const sqfs_u8 *p = (const sqfs_u8 *)n->extra;
		size_t off = 0, k = 0;
		printf(" %u %u %u %u %u %u %u ", n->data.dir_ext.nlink, n->data.dir_ext.size,
		       n->data.dir_ext.start_block, n->data.dir_ext.parent_inode, n->data.dir_ext.inodex_count,
		       n->data.dir_ext.offset, n->data.dir_ext.xattr_idx);
		if (n->payload_bytes_used == 0) fputs("-", stdout);
		while (off + sizeof(sqfs_dir_index_t) <= n->payload_bytes_used) {
			sqfs_dir_index_t ent;
			memcpy(&ent, p + off, sizeof(ent));
			printf("%s%u:%u:", k++ ? "," : "", ent.index, ent.start_block);
			puthex(p + off + sizeof(ent), (size_t)ent.size + 1);
			off += sizeof(ent) + ent.size + 1;
		}
		break;
	}
	case SQFS_INODE_EXT_FILE:
		printf(" %llu %llu %llu %u %u %u %u ", (unsigned long long)n->data.file_ext.blocks_start,
		       (unsigned long long)n->data.file_ext.file_size, (unsigned long long)n->data.file_ext.sparse,
		       n->data.file_ext.nlink, n->data.file_ext.fragment_idx, n->data.file_ext.fragment_offset,
		       n->data.file_ext.xattr_idx);
	blocks:
		if (n->payload_bytes_used < 4) fputs("-", stdout);
		for (i = 0; i < n->payload_bytes_used / 4; ++i) printf("%s%u", i ? "," : "", n->extra[i]);
		break;
	case SQFS_INODE_EXT_SLINK:
		printf(" %u %u ", n->data.slink_ext.nlink, n->data.slink_ext.xattr_idx);
		puthex((const sqfs_u8 *)n->extra, n->data.slink_ext.target_size);
		break;
	case SQFS_INODE_EXT_BDEV: case SQFS_INODE_EXT_CDEV:
		printf(" %u %u %u -", n->data.dev_ext.nlink, n->data.dev_ext.devno, n->data.dev_ext.xattr_idx);
		break;
	case SQFS_INODE_EXT_FIFO: case SQFS_INODE_EXT_SOCKET:
		printf(" %u %u -", n->data.ipc_ext.nlink, n->data.ipc_ext.xattr_idx);
		break;
	default:
		printf(" ?");
	}
}

/* logical bytes -> uncompressed metadata blocks in mf2, then read one inode at (0,0) */
static void decode_bytes(const sqfs_u8 *b, size_t len, size_t bs)
{
	sqfs_inode_generic_t *out = NULL;
	sqfs_meta_reader_t *ir;
	sqfs_super_t super;
	size_t pos = 0;
	int rc;

	memfile_reset(&mf2);
	while (pos < len) {
		size_t c = len - pos > 8192 ? 8192 : len - pos;
		sqfs_u8 hdr[2] = { c & 0xFF, ((c >> 8) & 0x7F) | 0x80 };
		mf_write_at(&mf2.base, mf2.used, hdr, 2);
		mf_write_at(&mf2.base, mf2.used, b + pos, c);
		pos += c;
	}
	memset(&super, 0, sizeof(super));
	super.block_size = bs;
	super.inode_table_start = 0;
	ir = sqfs_meta_reader_create(&mf2.base, &store, 0, mf2.used);
	rc = sqfs_meta_reader_read_inode(ir, &super, 0, 0, &out);
	printf("%d", rc);
	if (rc == 0) {
		putchar(' ');
		print_inode(out);
		free(out);
	}
	sqfs_drop(ir);
}

static sqfs_u8 bytebuf[1 << 22];

static void cmd_enc(void)
{
	size_t bs = num(), len;
	sqfs_inode_generic_t *n = parse_inode();
	sqfs_meta_writer_t *mw;
	sqfs_u8 *flat;
	int rc;

	if (!n) { puts("PARSE"); return; }
	memfile_reset(&mf);
	mw = sqfs_meta_writer_create(&mf.base, &store, 0);
	rc = sqfs_meta_writer_write_inode(mw, n);
	sqfs_meta_writer_flush(mw);
	sqfs_drop(mw);
	flat = dechunk(mf.data, 0, mf.used, &len, NULL, NULL);
	printf("%d ", rc);
	if (rc == 0) puthex(flat, len); else fputs("-", stdout);
	fputs(" ; ", stdout);
	if (rc == 0) decode_bytes(flat, len, bs); else fputs("-", stdout);
	putchar('\n');
	free(flat);
	free(n);
}

static void cmd_dec(void)
{
	size_t bs = num(), len;
	char *h = tok();
	if (!h) { puts("PARSE"); return; }
	len = unhex(h, bytebuf);
	decode_bytes(bytebuf, len, bs);
	putchar('\n');
}

static void cmd_mut(void)
{
	sqfs_inode_generic_t *n = parse_inode();
	char *op;
	int first = 1;
	if (!n) { puts("PARSE"); return; }
	while ((op = tok()) != NULL) {
		int rc = 0;
		switch (op[0]) {
		case 'X': rc = sqfs_inode_make_extended(n); break;
		case 'B': rc = sqfs_inode_make_basic(n); break;
		case 'x': rc = sqfs_inode_set_xattr_index(n, (sqfs_u32)strtoull(op + 1, NULL, 10)); break;
		case 's': rc = sqfs_inode_set_file_size(n, strtoull(op + 1, NULL, 10)); break;
		case 'l': rc = sqfs_inode_set_file_block_start(n, strtoull(op + 1, NULL, 10)); break;
		case 'f': {
			char *p;
			unsigned long long i = strtoull(op + 1, &p, 10), o = strtoull(p + 1, NULL, 10);
			rc = sqfs_inode_set_frag_location(n, (sqfs_u32)i, (sqfs_u32)o);
			break;
		}
		default: rc = 999;
		}
		printf("%s%d", first ? "" : ",", rc);
		first = 0;
	}
	if (first) fputs("-", stdout);
	putchar(' ');
	print_inode(n);
	putchar('\n');
	free(n);
}

/* ---- serialize_tree_node ---- */

static tree_node_t *mknode_raw(const char *name, size_t extra)
{
	tree_node_t *n = calloc(1, sizeof(*n) + strlen(name) + 1 + extra + 1);
	n->name = (char *)n->payload;
	strcpy(n->name, name);
	n->xattr_idx = 0xFFFFFFFF;
	return n;
}

static void print_ids(sqfs_id_table_t *tbl)
{
	sqfs_u32 id;
	unsigned k;
	int first = 1;
	for (k = 0; k < 0x10000 && sqfs_id_table_index_to_id(tbl, (sqfs_u16)k, &id) == 0; ++k) {
		printf("%s%u", first ? "" : ",", id);
		first = 0;
	}
	if (first) fputs("-", stdout);
}

static void cmd_ser(void)
{
	char *ids = tok();
	sqfs_writer_t wr;
	sqfs_meta_writer_t *im, *dm;
	tree_node_t *n, *parent = NULL, *kids = NULL, *last = NULL;
	unsigned long long mode, uid, gid, mtime, ino, nlink, xattr, par = 0;
	char *kind;
	size_t len, i;
	sqfs_u8 *flat;
	int rc, isdir = 0;

	if (!ids) { puts("PARSE"); return; }
	memset(&wr, 0, sizeof(wr));
	wr.idtbl = sqfs_id_table_create(0);
	if (strcmp(ids, "-") != 0) {
		char *p = ids;
		while (*p) {
			sqfs_u16 idx;
			sqfs_id_table_id_to_index(wr.idtbl, (sqfs_u32)strtoull(p, &p, 10), &idx);
			if (*p == ',') ++p;
		}
	}
	mode = num(); uid = num(); gid = num(); mtime = num(); ino = num(); nlink = num(); xattr = num();
	kind = tok();
	if (!kind) { puts("PARSE"); return; }
	memfile_reset(&mf);
	memfile_reset(&mf2);
	im = sqfs_meta_writer_create(&mf.base, &store, 0);
	dm = sqfs_meta_writer_create(&mf2.base, &store, 0);
	wr.im = im; wr.dm = dm;
	wr.dirwr = sqfs_dir_writer_create(dm, 0);

	printf("ser ");
	print_ids(wr.idtbl);
	printf(" %llu %llu %llu %llu %llu %llu %llu ", mode, uid, gid, mtime, ino, nlink, xattr);
	if (!strcmp(kind, "kfile")) {
		sqfs_inode_generic_t *in = parse_inode();
		if (!in) { puts("PARSE"); return; }
		n = mknode_raw("f", 0);
		n->data.file.inode = in;
		fputs("kfile ", stdout); print_inode(in);
	} else if (!strcmp(kind, "kslink")) {
		char *h = tok();
		size_t l = unhex(h, bytebuf);
		n = mknode_raw("l", l);
		n->data.target = n->name + 2;
		memcpy(n->data.target, bytebuf, l);
		n->data.target[l] = 0;
		printf("kslink %s", h);
	} else if (!strcmp(kind, "kdev")) {
		char *t = tok();
		n = mknode_raw("d", 0);
		n->data.devno = num();
		printf("kdev %s %u", t, n->data.devno);
	} else if (!strcmp(kind, "kipc")) {
		char *t = tok();
		n = mknode_raw("p", 0);
		printf("kipc %s", t);
	} else if (!strcmp(kind, "dir")) {
		unsigned long long prefill, nch, nlen, ino0, istep, blk0, perblk, lastlen;
		par = num(); prefill = num(); nch = num(); nlen = num(); ino0 = num();
		istep = num(); blk0 = num(); perblk = num(); lastlen = num();   /* lastlen: 0 = like the others */
		isdir = 1;
		n = mknode_raw("dir", 0);
		if (par != 0) {
			parent = mknode_raw("par", 0);
			parent->inode_num = par;
			n->parent = parent;
		}
		while (prefill > 0) {
			size_t c = prefill > sizeof(bytebuf) ? sizeof(bytebuf) : prefill;
			memset(bytebuf, 0x5a, c);
			sqfs_meta_writer_append(dm, bytebuf, c);
			prefill -= c;
		}
		for (i = 0; i < nch; ++i) {
			char nm[600];
			tree_node_t *c;
			size_t l = (lastlen && i + 1 == nch) ? lastlen : nlen;
			l = l < 8 ? 8 : (l > 500 ? 500 : l);
			memset(nm, 'n', l);
			nm[l] = 0;
			snprintf(nm, 9, "%08zu", i);
			nm[8] = l > 8 ? 'n' : 0;
			c = mknode_raw(nm, 0);
			c->mode = S_IFREG | 0644;
			c->inode_num = (sqfs_u32)(ino0 + i * istep);
			c->inode_ref = ((blk0 + (perblk ? i / perblk : 0) * 100) << 16) | ((i * 32) % 8192);
			if (last) last->next = c; else kids = c;
			last = c;
		}
		n->data.children = kids;
	} else {
		puts("PARSE");
		return;
	}
	n->mode = mode; n->uid = uid; n->gid = gid; n->mod_time = mtime; n->inode_num = ino;
	n->link_count = nlink; n->xattr_idx = xattr;
	rc = serialize_tree_node("mem", &wr, n);
	if (isdir) {
		/* the dir writer keeps the state of the listing it has just written: that is the model's input */
		sqfs_inode_generic_t *x = sqfs_dir_writer_create_inode(wr.dirwr, 0, 0, 0);
		const sqfs_u8 *p = (const sqfs_u8 *)x->extra;
		size_t off = 0, k = 0;
		printf("kdir %llu %zu %zu %llu ", (unsigned long long)sqfs_dir_writer_get_dir_reference(wr.dirwr),
		       sqfs_dir_writer_get_size(wr.dirwr), sqfs_dir_writer_get_entry_count(wr.dirwr), par);
		if (x->payload_bytes_used == 0) fputs("-", stdout);
		while (off + sizeof(sqfs_dir_index_t) <= x->payload_bytes_used) {
			sqfs_dir_index_t ent;
			memcpy(&ent, p + off, sizeof(ent));
			printf("%s%u:%u:", k++ ? "," : "", ent.index, ent.start_block);
			puthex(p + off + sizeof(ent), (size_t)ent.size + 1);
			off += sizeof(ent) + ent.size + 1;
		}
		free(x);
	}
	sqfs_meta_writer_flush(im);
	flat = dechunk(mf.data, 0, mf.used, &len, NULL, NULL);
	printf(" | %d ", rc);
	if (rc == 0) print_ids(wr.idtbl); else fputs("-", stdout);
	putchar(' ');
	if (rc == 0) puthex(flat, len); else fputs("-", stdout);
	putchar('\n');
	free(flat);
	while (kids) { tree_node_t *c = kids; kids = kids->next; free(c); }
	free(parent);
	free(n);
	sqfs_drop(wr.dirwr);
	sqfs_drop(im);
	sqfs_drop(dm);
	sqfs_drop(wr.idtbl);
}

/* idt <n> <probe ids>: ids 0..n-1 are added to a fresh table, then the probes are looked up, then the table is
 * written (sqfs_id_table_write) and read back (sqfs_id_table_read) */
static void cmd_idt(void)
{
	unsigned long long n = num(), i, acc = 0;
	char *probes = tok();
	sqfs_id_table_t *tbl = sqfs_id_table_create(0), *tbl2 = sqfs_id_table_create(0);
	sqfs_super_t super;
	sqfs_u16 idx;
	int rc, same = 1;

	for (i = 0; i < n; ++i) {
		if (sqfs_id_table_id_to_index(tbl, (sqfs_u32)i, &idx) != 0)
			break;
		++acc;
	}
	printf("acc=%llu", acc);
	if (probes && strcmp(probes, "-") != 0) {
		char *p = probes;
		while (*p) {
			sqfs_u32 id = (sqfs_u32)strtoull(p, &p, 10);
			idx = 0;
			rc = sqfs_id_table_id_to_index(tbl, id, &idx);
			printf(" %d:%u", rc, rc ? 0 : idx);
			if (*p == ',') ++p;
		}
	}
	memset(&super, 0, sizeof(super));
	memfile_reset(&mf);
	{ sqfs_u8 pad[96] = { 0 }; mf_write_at(&mf.base, 0, pad, sizeof(pad)); }
	super.directory_table_start = 96;
	super.fragment_table_start = 0xFFFFFFFFFFFFFFFFULL;
	super.export_table_start = 0xFFFFFFFFFFFFFFFFULL;
	rc = sqfs_id_table_write(tbl, &mf.base, &super, &store);
	super.bytes_used = mf.used;
	printf(" write=%d count=%u", rc, super.id_count);
	rc = sqfs_id_table_read(tbl2, &mf.base, &super, &store);
	if (rc == 0) {
		sqfs_u32 a, b;
		for (i = 0; i < 0x10000; ++i) {
			int ra = sqfs_id_table_index_to_id(tbl, (sqfs_u16)i, &a);
			int rb = sqfs_id_table_index_to_id(tbl2, (sqfs_u16)i, &b);
			if ((ra == 0) != (rb == 0) || (ra == 0 && a != b)) { same = 0; break; }
		}
	} else {
		same = 0;
	}
	printf(" read=%d same=%d\n", rc, same);
	sqfs_drop(tbl);
	sqfs_drop(tbl2);
}

int main(void)
{
	static char line[1 << 22];
	memfile_init(&mf);
	memfile_init(&mf2);
	compressor_init(&store, store_block);
	while (fgets(line, sizeof(line), stdin)) {
		char *cmd;
		size_t l = strlen(line);
		while (l > 0 && (line[l - 1] == '\n' || line[l - 1] == '\r')) line[--l] = 0;
		if (strncmp(line, "ser ", 4) != 0) printf("%s | ", line);   /* ser echoes a derived model input itself */
		cmd = strtok(line, " \n");
		if (!cmd) { puts("PARSE"); continue; }
		if (!strcmp(cmd, "enc")) { cmd_enc(); }
		else if (!strcmp(cmd, "dec")) { cmd_dec(); }
		else if (!strcmp(cmd, "mut")) { cmd_mut(); }
		else if (!strcmp(cmd, "ser")) { cmd_ser(); }
		else if (!strcmp(cmd, "idt")) { cmd_idt(); }
		else puts("PARSE");
		fflush(stdout);
	}
	return 0;
}
