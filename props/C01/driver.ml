(* C01 model driver: same line protocol as props/C01/h_inode.c and h_xattr.c (see those files).
   Input: the "model input" part of a harness line; output: the "result" part. *)
open C01_model

(* ---------- number conversion (N is the extracted inductive type) ---------- *)
let rec pos_of_int i = if i = 1 then XH else if i land 1 = 1 then XI (pos_of_int (i lsr 1)) else XO (pos_of_int (i lsr 1))
let n_of_int i = if i = 0 then N0 else Npos (pos_of_int i)
let rec int_of_pos = function XH -> 1 | XO p -> 2 * int_of_pos p | XI p -> 2 * int_of_pos p + 1
let int_of_n = function N0 -> 0 | Npos p -> int_of_pos p
let rec pos_bits = function XH -> 1 | XO p | XI p -> 1 + pos_bits p
let n10 = n_of_int 10

let n_of_string s =
  if String.length s <= 17 then n_of_int (int_of_string s)
  else begin
    let r = ref N0 in
    String.iter (fun c -> r := N.add (N.mul !r n10) (n_of_int (Char.code c - 48))) s;
    !r
  end

let string_of_n n =
  match n with
  | N0 -> "0"
  | Npos p when pos_bits p <= 61 -> string_of_int (int_of_pos p)
  | _ ->
    let b = Buffer.create 24 in
    let rec go n acc = match n with
      | N0 -> acc
      | _ -> let (q, r) = N.div_eucl n n10 in go q (Char.chr (48 + int_of_n r) :: acc) in
    List.iter (Buffer.add_char b) (go n []);
    Buffer.contents b

let int_of_z = function Z0 -> 0 | Zpos p -> int_of_pos p | Zneg p -> - (int_of_pos p)

let unhex s =
  if s = "-" then [] else
  List.init (String.length s / 2) (fun i -> n_of_int (int_of_string ("0x" ^ String.sub s (2*i) 2)))
let hex l =
  match l with
  | [] -> "-"
  | _ ->
    let b = Buffer.create 64 in
    List.iter (fun c -> Buffer.add_string b (Printf.sprintf "%02x" (int_of_n c))) l;
    Buffer.contents b

let split_on c s = if s = "-" || s = "" then [] else String.split_on_char c s

(* ---------- inode text <-> record ---------- *)
let nfields = function
  | 1 -> 5 | 2 -> 4 | 3 -> 1 | 4 | 5 -> 2 | 6 | 7 -> 2 | 8 -> 7 | 9 -> 7 | 10 -> 2 | 11 | 12 -> 3 | 13 | 14 -> 2
  | _ -> -1

let parse_idx s =
  List.map (fun e -> match String.split_on_char ':' e with
      | [i; st; nm] -> { dx_index = n_of_string i; dx_start = n_of_string st; dx_name = unhex nm }
      | _ -> failwith "idx") (split_on ',' s)

(* consumes tokens; returns (inode, rest) *)
let parse_inode toks =
  match toks with
  | ty :: mode :: u :: g :: mt :: ino :: rest ->
    let ty = int_of_string ty in
    let nf = nfields ty in
    if nf < 0 then failwith "type";
    let rec takef k l acc = if k = 0 then (List.rev acc, l) else match l with x :: r -> takef (k-1) r (n_of_string x :: acc) | [] -> failwith "fields" in
    let (f, rest) = takef nf rest [] in
    let (pl, rest) = match rest with p :: r -> (p, r) | [] -> failwith "payload" in
    let f i = List.nth f i in
    let words () = List.map n_of_string (split_on ',' pl) in
    let body = match ty with
      | 1 -> BDir (f 0, f 1, f 2, f 3, f 4)
      | 2 -> BFile (f 0, f 1, f 2, f 3, words ())
      | 3 -> BSlink (f 0, unhex pl)
      | 4 -> BDev (false, f 0, f 1) | 5 -> BDev (true, f 0, f 1)
      | 6 -> BIpc (false, f 0, f 1) | 7 -> BIpc (true, f 0, f 1)
      | 8 -> BDirX (f 0, f 1, f 2, f 3, f 4, f 5, f 6, parse_idx pl)
      | 9 -> BFileX (f 0, f 1, f 2, f 3, f 4, f 5, f 6, words ())
      | 10 -> BSlinkX (f 0, unhex pl, f 1)
      | 11 -> BDevX (false, f 0, f 1, f 2) | 12 -> BDevX (true, f 0, f 1, f 2)
      | 13 -> BIpcX (false, f 0, f 1) | 14 -> BIpcX (true, f 0, f 1)
      | _ -> failwith "type" in
    ({ i_base = { ib_mode = n_of_string mode; ib_uid = n_of_string u; ib_gid = n_of_string g;
                  ib_mtime = n_of_string mt; ib_ino = n_of_string ino }; i_body = body }, rest)
  | _ -> failwith "inode"

let sn = string_of_n
let words_s l = match l with [] -> "-" | _ -> String.concat "," (List.map sn l)
let idx_s l = match l with [] -> "-" | _ ->
  String.concat "," (List.map (fun e -> Printf.sprintf "%s:%s:%s" (sn e.dx_index) (sn e.dx_start) (hex e.dx_name)) l)

let inode_s i =
  let b = i.i_base in
  let hd = Printf.sprintf "%s %s %s %s %s %s" (sn (type_of i.i_body)) (sn b.ib_mode) (sn b.ib_uid) (sn b.ib_gid) (sn b.ib_mtime) (sn b.ib_ino) in
  let j l = String.concat " " (List.map sn l) in
  match i.i_body with
  | BDir (a, b, c, d, e) -> Printf.sprintf "%s %s -" hd (j [a; b; c; d; e])
  | BFile (a, b, c, d, bl) -> Printf.sprintf "%s %s %s" hd (j [a; b; c; d]) (words_s bl)
  | BSlink (nl, t) -> Printf.sprintf "%s %s %s" hd (sn nl) (hex t)
  | BDev (_, nl, d) -> Printf.sprintf "%s %s -" hd (j [nl; d])
  | BIpc (_, nl, sl) -> Printf.sprintf "%s %s -" hd (j [nl; sl])
  | BDirX (a, b, c, d, e, f, g, ix) -> Printf.sprintf "%s %s %s" hd (j [a; b; c; d; e; f; g]) (idx_s ix)
  | BFileX (a, b, c, d, e, f, g, bl) -> Printf.sprintf "%s %s %s" hd (j [a; b; c; d; e; f; g]) (words_s bl)
  | BSlinkX (nl, t, xa) -> Printf.sprintf "%s %s %s" hd (j [nl; xa]) (hex t)
  | BDevX (_, nl, d, xa) -> Printf.sprintf "%s %s -" hd (j [nl; d; xa])
  | BIpcX (_, nl, xa) -> Printf.sprintf "%s %s -" hd (j [nl; xa])

let rc_s = function
  | Ok _ -> "0" | Err e -> string_of_int (int_of_z e) | Crash -> "CRASH" | OutOfFuel -> "FUEL"

(* ---------- commands ---------- *)
let dec_s bs bytes =
  match decode bs bytes with
  | Ok (i, _) -> "0 " ^ inode_s i
  | r -> rc_s r

let cmd_enc toks =
  match toks with
  | bs :: rest ->
    let bs = n_of_string bs in
    let (i, _) = parse_inode rest in
    let wf = if inode_wfb bs i then "wf" else "nwf" in
    (match encode i with
     | Ok bytes -> Printf.sprintf "0 %s ; %s" (hex bytes) (dec_s bs bytes), wf
     | r -> Printf.sprintf "%s - ; -" (rc_s r), wf)
  | _ -> failwith "enc"

let cmd_dec toks =
  match toks with
  | [bs; h] -> dec_s (n_of_string bs) (unhex h)
  | _ -> failwith "dec"

let cmd_mut toks =
  let (i, ops) = parse_inode toks in
  let body = ref i.i_body in
  let rcs = List.map (fun op ->
      let arg = String.sub op 1 (String.length op - 1) in
      let app r = (match r with Ok b -> body := b | _ -> ()); rc_s r in
      match op.[0] with
      | 'X' -> body := make_extended !body; "0"
      | 'B' -> body := make_basic !body; "0"
      | 'x' -> body := set_xattr_index !body (n_of_string arg); "0"
      | 's' -> app (set_file_size !body (n_of_string arg))
      | 'l' -> app (set_file_block_start !body (n_of_string arg))
      | 'f' -> (match String.split_on_char ':' arg with
          | [a; b] -> app (set_frag_location !body (n_of_string a) (n_of_string b))
          | _ -> failwith "f")
      | _ -> "999") ops in
  Printf.sprintf "%s %s" (if rcs = [] then "-" else String.concat "," rcs) (inode_s { i with i_body = !body })

let cmd_ser toks =
  match toks with
  | ids :: mode :: uid :: gid :: mt :: ino :: nl :: xa :: kind :: rest ->
    let tbl = List.map n_of_string (split_on ',' ids) in
    let k = match kind, rest with
      | "kfile", r -> let (i, _) = parse_inode r in KFile i.i_body
      | "kslink", [h] -> KSlink (unhex h)
      | "kdev", [t; d] -> KDev (t = "c", n_of_string d)
      | "kipc", [t] -> KIpc (t = "s")
      | "kdir", [r; s; c; par; ix] -> KDir (n_of_string r, n_of_string s, n_of_string c, parse_idx ix, n_of_string par)
      | _ -> failwith "kind" in
    let n = { tn_mode = n_of_string mode; tn_uid = n_of_string uid; tn_gid = n_of_string gid; tn_mtime = n_of_string mt;
              tn_ino = n_of_string ino; tn_nlink = n_of_string nl; tn_xattr = n_of_string xa; tn_kind = k } in
    (match serialize c_id_table_limit tbl n with
     | Ok (t, i) ->
       (match encode i with
        | Ok bytes -> Printf.sprintf "0 %s %s" (words_s t) (hex bytes)
        | r -> Printf.sprintf "%s - -" (rc_s r))
     | r -> Printf.sprintf "%s - -" (rc_s r))
  | _ -> failwith "ser"

let cmd_idt toks =
  match toks with
  | [n; probes] ->
    let n = int_of_string n in
    let lim = int_of_n c_id_table_limit in
    let acc = min n lim in
    (* adding 0..n-1 to an empty table yields [0..min n limit-1] (IdProofs.id_run_fresh) *)
    let tbl = ref (List.init acc n_of_int) in
    let b = Buffer.create 64 in
    Buffer.add_string b (Printf.sprintf "acc=%d" acc);
    List.iter (fun p ->
        match id_to_index c_id_table_limit !tbl (n_of_string p) with
        | Ok (t, i) -> tbl := t; Buffer.add_string b (Printf.sprintf " 0:%s" (sn i))
        | r -> Buffer.add_string b (Printf.sprintf " %s:0" (rc_s r))) (split_on ',' probes);
    let cnt = id_count_field !tbl in
    let rd = id_table_read cnt (id_table_bytes !tbl) in
    let same = match rd with Ok t -> t = !tbl | _ -> false in
    Buffer.add_string b (Printf.sprintf " write=0 count=%s read=%s same=%d" (sn cnt) (rc_s rd) (if same then 1 else 0));
    Buffer.contents b
  | _ -> failwith "idt"

(* ---------- xattr writer / reader ---------- *)
let parse_sets s =
  List.map (fun set ->
      if set = "-" then [] else
      List.map (fun kv -> match String.split_on_char ':' kv with
          | [k; v] -> (unhex k, unhex v)
          | _ -> failwith "kv") (String.split_on_char ',' set))
    (String.split_on_char ';' s)

let starts_fun s =
  (* block starts as reported by the harness; blocks beyond the list do not exist (far away offset) *)
  let a = Array.of_list (List.map n_of_string (split_on ',' s)) in
  let bs k = let i = int_of_n k in if i < Array.length a then a.(i) else n_of_int (max_int / 4 + i) in
  let bidx off =
    let r = ref None in
    Array.iteri (fun i v -> if !r = None && v = off then r := Some (n_of_int i)) a; !r in
  (bs, bidx)

let cmd_xw toks =
  match toks with
  | [sets; k; t] ->
    let strip p s = if String.length s > 2 && String.sub s 0 2 = p then String.sub s 2 (String.length s - 2) else failwith "starts" in
    let (bsK, bidxK) = starts_fun (strip "K=" k) and (bsT, bidxT) = starts_fun (strip "T=" t) in
    let adderr = ref 0 in
    let w = ref xw_empty in
    let idxs = List.map (fun set ->
        w := xw_begin !w;
        List.iter (fun (key, v) -> match xw_add_kv !w key v with
            | Ok w' -> w := w'
            | Err e -> if !adderr = 0 then adderr := int_of_z e
            | _ -> if !adderr = 0 then adderr := 12345) set;
        let (w', i) = xw_end !w in
        w := w'; i) (parse_sets sets) in
    let idx_s = String.concat "," (List.map sn idxs) in
    (match flush bsK bsT true !w with
     | Ok None -> Printf.sprintf "idx=%s add=%d flush=0 none" idx_s !adderr
     | Ok (Some img) ->
       let rd = String.concat ";" (List.map (fun i ->
           match rd_all bidxK bidxT img i with
           | Ok l -> "0/" ^ String.concat "," (List.map (fun (k, v) -> hex k ^ ":" ^ hex v) l)
           | r -> rc_s r ^ "/") idxs) in
       Printf.sprintf "idx=%s add=%d flush=0 kv=%s ids=%s num=%s locs=%s load=0 rd=%s" idx_s !adderr
         (hex img.xi_kv) (hex img.xi_ids) (sn img.xi_num) (String.concat "," (List.map sn img.xi_locs)) rd
     | r -> Printf.sprintf "idx=%s add=%d flush=%s" idx_s !adderr (rc_s r))
  | _ -> failwith "xw"

let () =
  (try
    while true do
      let line = input_line stdin in
      let toks = List.filter (fun s -> s <> "") (String.split_on_char ' ' line) in
      (try
        (match toks with
         | "enc" :: r -> let (s, wf) = cmd_enc r in Printf.printf "%s # %s\n" s wf
         | "dec" :: r -> print_endline (cmd_dec r)
         | "mut" :: r -> print_endline (cmd_mut r)
         | "ser" :: r -> print_endline (cmd_ser r)
         | "idt" :: r -> print_endline (cmd_idt r)
         | "xw" :: r -> print_endline (cmd_xw r)
         | _ -> print_endline "PARSE")
      with Failure m -> print_endline ("PARSE " ^ m))
    done
  with End_of_file -> ())
