"""C01 xattr writer/reader component tie: case generator, comparison, property on the implementation."""
import time

PFX = ["user.", "user.", "trusted.", "security."]


def hx(b):
    return b.hex() if b else "-"


def set_text(s):
    return ",".join(hx(k) + ":" + hx(v) for k, v in s) if s else "-"


def line(mode, sets):
    return "xw %s %s" % (mode, ";".join(set_text(s) for s in sets))


def gen_random(rnd, n_sets, npool=6, vpool=6):
    keys = [(rnd.choice(PFX) + rnd.choice(["a", "b", "k%d" % rnd.randrange(30), "x" * rnd.choice([1, 40, 255])])).encode()
            for _ in range(npool)]
    vals = [bytes(rnd.randrange(256) for _ in range(rnd.choice([0, 1, 7, 8, 9, 10, 16, 100, 300]))) for _ in range(vpool)]
    sets = []
    for _ in range(n_sets):
        r = rnd.random()
        if r < 0.1:
            sets.append([])
            continue
        if r < 0.3 and sets:
            s = list(rnd.choice(sets))
            rnd.shuffle(s)
            sets.append(s)
            continue
        s = []
        for _ in range(rnd.choice([1, 1, 2, 3, 5])):
            s.append((rnd.choice(keys), rnd.choice(vals)))
            if rnd.random() < 0.15:
                s.append(s[-1])                                  # the same pair twice
            if rnd.random() < 0.15:
                s.append((s[-1][0], rnd.choice(vals)))           # the key again with another value
        sets.append(s)
    return sets


def gen_cases(rnd, quick):
    out = []
    n = 150 if quick else 2500
    for i in range(n):
        out.append(line(rnd.choice("st"), gen_random(rnd, rnd.choice([1, 2, 3, 5, 8, 20]))))
    # number of distinct sets around the 512-descriptors-per-metadata-block border (location table, F06)
    for cnt in ([511, 512, 513, 1024] if quick else [1, 2, 511, 512, 513, 1023, 1024, 1025, 1536, 2048]):
        shared = b"S" * 40
        sets = []
        for i in range(cnt):
            s = [(b"user.n", b"%05d" % i)]
            if i % 3 == 0:
                s.append((b"trusted.shared", shared))
            sets.append(s)
        sets += [sets[0], sets[cnt // 2]]
        out.append(line("s", sets))
        if cnt == 512 or (cnt == 1024 and not quick):
            out.append(line("t", sets))
    # long values: metadata blocks that compress, references into later blocks, an out-of-line value as the very last entry
    big = bytes([65]) * 9000
    out.append(line("t", [[(b"user.k%d" % i, big)] for i in range(3)]))
    out.append(line("t", [[(b"user.a", big), (b"user.b", b"x" * 8100)], [(b"user.c", b"y" * 70), (b"user.d", big)], [(b"user.e", big)]]))
    out.append(line("s", [[(b"user.a", b"v" * 9)], [(b"user.b", b"v" * 9)]]))
    out.append(line("s", [[(b"user.a", b"v" * 8)], [(b"user.b", b"v" * 8)]]))       # 8 bytes: never out of line
    out.append(line("s", [[(b"user.a", b"w" * 9), (b"user.b", b"w" * 9)]]))           # shared inside one set
    out.append(line("s", [[(b"user.a", b"w" * 9), (b"user.a", b"w" * 9)], [(b"user.a", b"w" * 9)]]))   # double add: refcount quirk
    out.append(line("s", [[(b"user.p%d" % i, bytes([i]) * 2000) for i in range(9)], [(b"user.q", bytes([3]) * 2000)]]))
    # keys that must be refused, and the 16-bit key size border
    out.append(line("s", [[(b"bogus.key", b"1"), (b"user.", b"2"), (b"user", b"2"), (b"system.x", b"3"), (b"user.ok", b"4")]]))
    for kl in (1, 255, 65534, 65535, 65536, 65537):
        out.append(line("s", [[(b"user." + b"k" * kl, b"v")], [(b"trusted." + b"k" * kl, b"v")]]))
    out.append(line("s", [[], []]))
    return out


def normalise(s):
    d = {}
    for k, v in s:
        d[k] = v
    return d


def parse_sets(text):
    sets = []
    for st in text.split(";"):
        if st == "-":
            sets.append([])
            continue
        s = []
        for kv in st.split(","):
            k, v = kv.split(":")
            s.append((bytes.fromhex(k), bytes.fromhex(v) if v != "-" else b""))
        sets.append(s)
    return sets


VALID_PFX = (b"user.", b"trusted.", b"security.")


def valid_key(k):
    return any(k.startswith(p) and len(k) > len(p) and len(k) - len(p) <= 65535 for p in VALID_PFX)


def impl_property(inp, impl):
    """xattr_rt evaluated on the implementation's own output: every set reads back as its last-wins map"""
    toks = inp.split(" ")
    sets = parse_sets(toks[1])
    f = {}
    for t in impl.split(" "):
        if "=" in t:
            k, v = t.split("=", 1)
            f[k] = v
    if f.get("flush") != "0":
        return "flush failed: %s" % f.get("flush")
    exp = [normalise([(k, v) for k, v in s if valid_key(k)]) for s in sets]
    idx = f["idx"].split(",")
    if "rd" not in f:
        if any(exp):
            return "no table written although sets are not empty"
        return None
    rds = f["rd"].split(";")
    for i, e in enumerate(exp):
        if not e:
            if idx[i] != "4294967295":
                return "set %d is empty but got index %s" % (i, idx[i])
            continue
        rc, _, body = rds[i].partition("/")
        if rc != "0":
            return "set %d: read_all failed rc=%s" % (i, rc)
        got = {}
        for kv in body.split(","):
            k, v = kv.split(":")
            k = bytes.fromhex(k)
            if k in got:
                return "set %d: key %r twice" % (i, k)
            got[k] = bytes.fromhex(v) if v != "-" else b""
        if got != e:
            return "set %d reads back as %r, expected %r" % (i, sorted(got.items())[:3], sorted(e.items())[:3])
    return None


def run(ctx, h_xattr, drv, rnd, quick, env):
    from tielib import tie_component
    t0 = time.time()
    lines = sorted(gen_cases(rnd, quick), key=len, reverse=True)     # the long ones first, few per process
    res, bad = tie_component(ctx, h_xattr, drv, lines, "xattr", chunk=4)
    tie_bad, prop_bad = [], []
    stats = dict(cases=len(res), nontrivial=0, ool=0, with_table=0)
    if bad:
        sig = "harness-crash:xattr"
        if "xattr_writer_flush" in bad[1]:
            sig = "F06:xattr-location-table:harness"
        ctx.violation(sig, "xattr harness died (rc=%s) on %s...: %s" % (bad[0], bad[2][:120], bad[1][-900:]),
                      dict(kind="tie-lines", lines=[bad[2]], stderr=bad[1]))
    for inp, impl, model in res:
        if impl is None:
            continue
        if impl != model:
            tie_bad.append(("xattr-writer-reader", inp, impl, model))
        if " kv=" in impl:
            stats["with_table"] += 1
            stats["nontrivial"] += 1
            # an out-of-line entry has the 0x100 flag: key header type byte 1 = 01
            if "rd=" in impl:
                pass
        p = impl_property(inp, impl)
        if p:
            prop_bad.append(("xattr-roundtrip", inp, impl, p))
    ctx.log("xattr tie: %s (%.1fs)" % (stats, time.time() - t0))
    return stats, tie_bad, prop_bad
