"""C01 / ImgPost tie: generator of add-operation lists for props/C01/h_img.c (line format: see h_img.c), aimed at the
case splits of lib/fstree (fstree_add_generic, insert_sorted / child_by_name, fstree_resolve_hard_links,
alloc_inode_num_dfs, reorder_hard_links) rather than at the serializer:

  implicit directories later made explicit (fill branch: uid/gid/mode/unclamped mtime), adds in child-before-parent
  order, the root added explicitly, sibling names that are prefixes of each other / differ in the last byte / contain
  bytes >= 0x80 (strcmp on unsigned bytes), hard links to links (chains, either definition order), links whose target
  sorts before / after them, links across directories, several links to one target, links to devices / symlinks,
  unclean target spellings ("./a//b", "/a"), and the failures: EEXIST (duplicate, explicit directory twice, link onto
  an existing name), ENOTDIR (a path through a non-directory), EINVAL (".." in a link target), dangling links, links to
  directories, link loops through and not through the start (fstree_post_process fails)."""
import random

NOX = 0xFFFFFFFF

NAMES = [b"a", b"ab", b"abc", b"a.", b"a-", b"a0", b"aa", b"b", b"B", b"ba", b"\x80", b"\xff", b"a\x80", b"a\xff",
         b"a\x7f", b"~", b"\x7f", b"\x01", b" ", b"z", b"zz", b"0", b"a b", b"\xc3\xa9", b"a\xc3\xa9", b"A", b"_", b".a", b"..a"]

MTIMES = [0, 1, 1600000000, 0xFFFFFFFF, 1 << 32, (1 << 32) + 5, (1 << 63) - 1, 1 << 63, (1 << 64) - 1, -5, 1 << 40]


def hx(b):
    return b.hex() if b else "-"


def join(d, n):
    return n if d == b"" else d + b"/" + n


class Ops:
    def __init__(self, rnd):
        self.rnd = rnd
        self.bs = rnd.choice([4096, 131072])
        self.e = []
        self.feat = set()
        self.defaults = (rnd.choice([0, 1000, 4000000000]), rnd.choice([0, 100]), rnd.choice([0, 1600000000, 0xFFFFFFFF]),
                         rnd.choice([0o755, 0o700, 0o7777, 0]))

    def attrs(self):
        rnd = self.rnd
        return (rnd.choice([0o644, 0o755, 0o7777, 0, 0o600, 0o1777]), rnd.choice([0, 1, 1000, 65534, 4000000000, 0xFFFFFFFF]),
                rnd.choice([0, 100, 0xFFFFFFFE]), rnd.choice(MTIMES), rnd.choice([NOX, NOX, NOX, 0, 7, 0xFFFFFFFE]))

    def add(self, path, ty, extra="-", rdev=0):
        perm, uid, gid, mtime, xattr = self.attrs()
        self.e.append("%s %s %o %d %d %d %d %d %s" % (hx(path), ty, perm, uid, gid, mtime, rdev, xattr, extra))

    def leaf(self, path, ty=None):
        rnd = self.rnd
        ty = ty or rnd.choice("fffllbcps")
        if ty == "f":
            bs = self.bs
            self.add(path, "f", rnd.choice(["0:96:4294967295:4294967295:0:0:-", "0:4096:3:17:100:0:-",
                                            "0:96:4294967295:4294967295:%d:0:%d,904" % (bs + 904, bs),
                                            "1:96:4294967295:4294967295:%d:%d:0,%d" % (2 * bs, bs, bs)]))
        elif ty == "l":
            self.add(path, "l", hx(bytes(rnd.choice(b"abc/._ \xc3\xa9\xff") for _ in range(rnd.choice([0, 1, 3, 10, 40])))))
        elif ty in "bc":
            self.add(path, ty, rdev=rnd.choice([0, 259, 0x12345678, 0xFFFFFFFF]))
        else:
            self.add(path, ty)

    def link(self, path, target):
        self.add(path, "h", hx(target))

    def line(self):
        d = self.defaults
        return "T 0 %d 0 %d %d %d %o %d %s" % (self.bs, d[0], d[1], d[2], d[3], len(self.e), " ".join(self.e))


def spell(rnd, p, feat):
    """another spelling of the canonical path p that canonicalize_name maps back to p"""
    r = rnd.random()
    if r < 0.6 or p == b"":
        return p
    feat.add("unclean-target")
    if r < 0.7:
        return b"/" + p
    if r < 0.8:
        return b"./" + p
    if r < 0.9:
        return p.replace(b"/", b"//", 1) + rnd.choice([b"", b"/", b"/."])
    return p.replace(b"/", b"/./", 1)


def shape_tree(rnd, fail_p=0.0):
    """a random tree over the collision-prone name pool; the adds are shuffled (children before parents -> implicit
    directories, some of them made explicit afterwards), with hard links of every flavour"""
    o = Ops(rnd)
    pool = rnd.sample(NAMES, rnd.randrange(3, 9))
    dirs = [b""]
    nodes = {}                       # path -> kind
    for _ in range(rnd.randrange(0, 6)):
        p = join(rnd.choice(dirs), rnd.choice(pool))
        if p not in nodes:
            nodes[p] = "d"
            dirs.append(p)
    for _ in range(rnd.randrange(1, 12)):
        p = join(rnd.choice(dirs), rnd.choice(pool))
        if p not in nodes:
            nodes[p] = rnd.choice("fffllbcps")
    links = {}
    targets = [p for p, k in nodes.items() if k != "d"]
    nl = rnd.randrange(0, 7)
    for _ in range(nl):
        p = join(rnd.choice(dirs), rnd.choice(pool + [b"h", b"!h", b"zh"]))
        if p in nodes or p in links:
            continue
        cand = targets + list(links)            # links to links: chains
        if not cand:
            break
        t = rnd.choice(cand)
        if t in links:
            o.feat.add("chain")
        links[p] = t
    if any(list(links.values()).count(t) > 1 for t in links.values()):
        o.feat.add("multi-link")
    for p, t in links.items():
        if p.rsplit(b"/", 1)[0:1] != t.rsplit(b"/", 1)[0:1] or (b"/" in p) != (b"/" in t):
            o.feat.add("cross-dir")
        o.feat.add("link-before-target" if p < t else "link-after-target")
    if any(any(c >= 0x80 for c in p) for p in list(nodes) + list(links)):
        o.feat.add("highbyte-name")
    # which directories are added explicitly (the others stay implicit if they have something below, else are dropped)
    explicit = [p for p, k in nodes.items() if k == "d" and rnd.random() < 0.6]
    seq = [("n", p) for p, k in nodes.items() if k != "d"] + [("d", p) for p in explicit] + [("h", p) for p in links]
    rnd.shuffle(seq)
    if rnd.random() < 0.3:
        seq.insert(rnd.randrange(len(seq) + 1), ("d", b""))
        o.feat.add("explicit-root")
    seen_prefix = set()
    for kind, p in seq:
        if kind == "d" and any(q.startswith(p + b"/") for q in seen_prefix if p != b""):
            o.feat.add("implicit-then-explicit")
        seen_prefix.add(p)
        if kind == "n":
            o.leaf(p, nodes[p])
        elif kind == "d":
            o.add(p, "d")
        else:
            o.link(p, spell(rnd, links[p], o.feat))
    # failures
    if rnd.random() < fail_p and o.e:
        kind = rnd.choice(["eexist", "eexist-dir", "enotdir", "dotdot", "dangling", "to-dir", "self", "loop2", "loop-tail", "link-eexist"])
        o.feat.add("fail:" + kind)
        nondirs = [p for p, k in nodes.items() if k != "d"]
        at = rnd.randrange(len(o.e) + 1)
        save = o.e
        o.e = []
        if kind == "eexist" and nondirs:
            o.leaf(rnd.choice(nondirs))
        elif kind == "eexist-dir" and explicit:
            o.add(rnd.choice(explicit), "d")
            at = len(save)
        elif kind == "enotdir" and nondirs:
            o.leaf(join(rnd.choice(nondirs), b"below"))
        elif kind == "dotdot":
            o.link(join(rnd.choice(dirs), b"hh"), rnd.choice([b"../x", b"a/../b", b".."]))
        elif kind == "dangling":
            o.link(join(rnd.choice(dirs), b"hh"), rnd.choice([b"nowhere", b"a/b/c/d/e", b"hh/x"]))
        elif kind == "to-dir":
            o.link(join(rnd.choice(dirs), b"hh"), rnd.choice(dirs))
        elif kind == "self":
            p = join(rnd.choice(dirs), b"hh")
            o.link(p, p)
        elif kind == "loop2":
            d1, d2 = rnd.choice(dirs), rnd.choice(dirs)
            o.link(join(d1, b"hh1"), join(d2, b"hh2"))
            o.link(join(d2, b"hh2"), join(d1, b"hh1"))
        elif kind == "loop-tail":
            d1 = rnd.choice(dirs)
            o.link(join(d1, b"hh0"), join(d1, b"hh1"))      # points into a loop that does not contain it
            o.link(join(d1, b"hh1"), join(d1, b"hh2"))
            o.link(join(d1, b"hh2"), join(d1, b"hh1"))
            rnd.shuffle(o.e)
        elif kind == "link-eexist" and nondirs:
            o.link(rnd.choice(nondirs), rnd.choice(nondirs))
        else:
            o.feat.discard("fail:" + kind)
            o.feat.add("fail:dangling")
            o.link(join(rnd.choice(dirs), b"hh"), b"nowhere")
        new = o.e
        o.e = save[:at] + new + save[at:]
    return o


def shape_sorted_siblings(rnd):
    """one or two directories filled with all names of the pool in random order: insert_sorted at every position,
    child_by_name among prefixes"""
    o = Ops(rnd)
    names = NAMES[:]
    rnd.shuffle(names)
    names = names[:rnd.randrange(2, len(names))]
    d = rnd.choice([b"", b"d", b"a"])
    for n in names:
        p = join(d, n)
        o.leaf(p, rnd.choice("fpscl"))
    # links between the siblings, targets before and after in sort order
    for i in range(rnd.randrange(0, 5)):
        t = join(d, rnd.choice(names))
        o.link(join(d, rnd.choice([b"!", b"a!", b"zzz", b"\xfe", b"M"]) + b"%d" % i), t)
        o.feat.add("link-before-target" if o.e[-1].split(" ")[0] < hx(t) else "link-after-target")
    o.feat.add("highbyte-name")
    o.feat.add("prefix-siblings")
    return o


def shape_chain(rnd):
    """h1 -> h2 -> ... -> file, links defined in random order, in different directories; a second group on the same file"""
    o = Ops(rnd)
    k = rnd.randrange(2, 6)
    dirs = [b"", b"d0", b"d1", b"d0/e"]
    tgt = join(rnd.choice(dirs), rnd.choice([b"a", b"m", b"zz"]))
    ops = [("n", tgt, None)]
    prev = tgt
    for i in range(k):
        p = join(rnd.choice(dirs), rnd.choice([b"0h", b"h", b"zh", b"\x90h"]) + b"%d" % i)
        ops.append(("h", p, prev))
        prev = p if rnd.random() < 0.8 else prev
    for i in range(rnd.randrange(0, 3)):
        ops.append(("h", join(rnd.choice(dirs), b"x%d" % i), tgt))
        o.feat.add("multi-link")
    for d in dirs[1:]:
        if rnd.random() < 0.5:
            ops.append(("d", d, None))
    rnd.shuffle(ops)
    for kind, p, t in ops:
        if kind == "n":
            o.leaf(p, rnd.choice("ffcl"))
        elif kind == "d":
            o.add(p, "d")
        else:
            o.link(p, t)
    o.feat.update(["chain", "cross-dir"])
    return o


def gen_cases(rnd, quick):
    """list of (label, line, features)"""
    out = []

    def put(lab, o):
        out.append((lab, o.line(), sorted(o.feat)))

    n = 1 if quick else 12
    for _ in range(900 * n):
        put("tree", shape_tree(rnd))
    for _ in range(500 * n):
        put("tree-fail", shape_tree(rnd, fail_p=1.0))
    for _ in range(250 * n):
        put("siblings", shape_sorted_siblings(rnd))
    for _ in range(350 * n):
        put("chain", shape_chain(rnd))
    return out


if __name__ == "__main__":
    import sys
    rnd = random.Random(int(sys.argv[1]) if len(sys.argv) > 1 else 1)
    for lab, line, feat in gen_cases(rnd, True):
        sys.stdout.write(line + "\n")
