"""C01 — packing fidelity.
Theorems: coq/Properties_C01.v (inode codec round trip for all 14 types, basic/extended choice, id table,
xattr writer/reader).  Tie: exact (encoders, mutators, serialize_tree_node, xattr writer) and verdict+payload
(decoders) against component harnesses compiled from the working tree.  Search oracle: ASan/UBSan gensquashfs
on generated trees x configurations, image read back with the independent reader vlib.sqfsimg and with
rdsquashfs -d/-l/-s/-x/-c/-u, compared with the input tree after the documented normalisation; plus the
refusal oracle for unrepresentable input."""
import hashlib
import json
import os
import random
import shutil
import subprocess
import sys
import time
from concurrent.futures import ThreadPoolExecutor

from vlib import build as B
from vlib import core

HERE = os.path.dirname(os.path.abspath(__file__))
if HERE not in sys.path:
    sys.path.insert(0, HERE)
import cases as C          # noqa: E402
from tielib import ENV, tie_component, run_proc   # noqa: E402
import treegen as T        # noqa: E402
import toolcheck as TC     # noqa: E402
import img_tie as IMG      # noqa: E402
import imgpost_tie as IMGP  # noqa: E402
import e2e_tie as E2E     # noqa: E402
import xreal_tie as XR    # noqa: E402

LEVEL = "proof"

# --------------------------------------------------------------------------
# generated constants (coq/C01/GenC01.v)
# --------------------------------------------------------------------------

from genc01 import regen_gen, regen_genc01   # noqa: E402,F401  (stand-alone module: also loaded by vlib.core.prepare_proofs)


# --------------------------------------------------------------------------
# component tie
# --------------------------------------------------------------------------

def norm_inode_text(t):
    """inode text with the slack of a basic FIFO/socket cleared (decode cannot know it)"""
    p = t.split(" ")
    if p and p[0] in ("6", "7") and len(p) >= 9:
        p[7] = "0"
    return " ".join(p)


def check_inode_tie(ctx, h_inode, h_inode_plain, drv, rnd, quick):
    t0 = time.time()
    n_enc = 30 if quick else 400
    enc = C.enc_cases(rnd, n_enc)
    res_enc, bad = tie_component(ctx, h_inode, drv, enc, "enc")
    stats = dict(enc=len(res_enc), enc_wf=0, dec=0, dec_ok=0, mut=0, ser=0, ser_ok=0, idt=0)
    tie_bad = []
    prop_bad = []
    enc_hex = []
    types_seen = set()
    for inp, impl, model in res_enc:
        m, _, wf = model.partition(" # ")
        if impl is None:
            continue
        if impl != m:
            tie_bad.append(("inode-encode", inp, impl, m))
        parts = impl.split(" ; ")
        toks = inp.split(" ")
        if wf == "wf":
            stats["enc_wf"] += 1
            types_seen.add(toks[2])
            # the property on the implementation: decode (encode i) = i
            want = "0 " + norm_inode_text(" ".join(toks[2:]))
            if len(parts) != 2 or not parts[0].startswith("0 ") or parts[1] != want:
                prop_bad.append(("inode-roundtrip", inp, impl, want))
        if parts and parts[0].startswith("0 "):
            enc_hex.append((int(toks[1]), parts[0].split(" ")[1]))
    if bad:
        ctx.violation("harness-crash:inode-enc", "inode harness died (rc=%s) on %r: %s" % (bad[0], bad[2][:200], bad[1][-600:]),
                      dict(kind="tie-lines", lines=[bad[2]], stderr=bad[1]))
    # decoder: verdict + payload
    dec = C.dec_cases(rnd, enc_hex[:: (1 if not quick else 2)], 2000 if quick else 40000)
    # (the decoder runs in the un-instrumented build: hostile size fields make the reader calloc up to terabytes, which
    #  ASan turns into minutes of shadow-memory work; memory safety of the readers is C05's subject)
    res_dec, bad = tie_component(ctx, h_inode_plain, drv, dec, "dec")
    stats["dec"] = len(res_dec)
    for inp, impl, model in res_dec:
        if impl is None:
            continue
        iok, mok = impl.startswith("0 "), model.startswith("0 ")
        if iok:
            stats["dec_ok"] += 1
        if iok != mok or (iok and impl != model) or model.startswith("CRASH") or model.startswith("PARSE"):
            tie_bad.append(("inode-decode", inp, impl, model))
    if bad:
        ctx.violation("harness-crash:inode-dec", "inode decoder harness died (rc=%s) on %r: %s" % (bad[0], bad[2][:200], bad[1][-600:]),
                      dict(kind="tie-lines", lines=[bad[2]], stderr=bad[1]))
    # mutators + serialize + id table
    other = C.mut_cases(rnd, 400 if quick else 6000) + C.ser_cases(rnd, 250 if quick else 4000)
    res_o, bad = tie_component(ctx, h_inode, drv, other, "mut/ser", chunk=300)
    for inp, impl, model in res_o:
        if impl is None:
            continue
        k = inp.split(" ", 1)[0]
        stats["mut" if k == "mut" else "ser"] += 1
        if k == "ser" and impl.startswith("0 "):
            stats["ser_ok"] += 1
        if impl != model:
            tie_bad.append(("inode-" + ("mutators" if k == "mut" else "serialize"), inp, impl, model))
    if bad:
        ctx.violation("harness-crash:inode-ser", "inode harness died (rc=%s) on %r: %s" % (bad[0], bad[2][:200], bad[1][-600:]),
                      dict(kind="tie-lines", lines=[bad[2]], stderr=bad[1]))
    ctx.log("inode tie: %s  (%.1fs)" % (stats, time.time() - t0))
    return stats, tie_bad, prop_bad, types_seen


def check_idt(ctx, h_inode, drv):
    lines = ["idt 0 -", "idt 1 0,0,1", "idt 2047 5,9999,9998", "idt 2048 1,99999", "idt 2049 7,99999,99998"]
    big = ["idt 65534 1,70000,70001,70002", "idt 65537 5,99999"]
    out = []

    def one(ls):
        return tie_component(ctx, h_inode, drv, ls, "idt", chunk=10)

    with ThreadPoolExecutor(max_workers=3) as ex:
        for res, bad in ex.map(one, [lines, big[:1], big[1:]]):
            out.append((res, bad))
    tie_bad, prop_bad, n = [], [], 0
    for res, bad in out:
        if bad:
            ctx.violation("harness-crash:idt", "id table harness died (rc=%s): %s" % (bad[0], bad[1][-600:]),
                          dict(kind="tie-lines", lines=[bad[2]], stderr=bad[1]))
        for inp, impl, model in res:
            n += 1
            if impl != model:
                tie_bad.append(("id-table", inp, impl, model))
            # property on the implementation: whatever was accepted reads back
            f = dict(x.split("=") for x in (impl or "").split(" ") if "=" in x)
            if f and int(f.get("acc", "0")) > 0 and not (f.get("read") == "0" and f.get("same") == "1"):
                prop_bad.append(("id-table-readback", inp, impl, "read=0 same=1"))
    return n, tie_bad, prop_bad


# --------------------------------------------------------------------------

def run(ctx):
    quick = ctx.tier == "quick"
    asan = B.build("asan")
    plain = B.build("plain")
    changed, err = regen_gen(plain)
    if err:
        ctx.proof_broken.append("C01/GenC01.v: " + err)
    if changed:
        ctx.log("GenC01.v changed -> re-checking proofs")
        ctx.proof_broken = [b for b in ctx.proof_broken if not b.startswith("theorem")]
        core.prepare_proofs(ctx)
    inc = ["-I" + HERE]
    h_inode = B.compile_harness(asan, [os.path.join(HERE, "h_inode.c")], "c01_h_inode", extra=inc)
    h_inode_plain = B.compile_harness(plain, [os.path.join(HERE, "h_inode.c")], "c01_h_inode", extra=inc)
    h_xattr = B.compile_harness(asan, [os.path.join(HERE, "h_xattr.c")], "c01_h_xattr", extra=inc) \
        if os.path.exists(os.path.join(HERE, "h_xattr.c")) else None
    drv = core.build_model_driver("C01", "ExtractC01.v", os.path.join(HERE, "driver.ml"))
    # composition stage (coq/Img): sqfs_serialize_fstree against Img.TreeModel.serialize_fstree, read-back oracle
    h_img = B.compile_harness(asan, [os.path.join(HERE, "h_img.c")], "c01_h_img", extra=inc)
    drv_img = core.build_model_driver("C01img", "ExtractImg.v", os.path.join(HERE, "img_driver.ml"))
    # reader leg (coq/ImgReader): the C05 reader model on the whole image the library wrote
    drv_rd = core.build_model_driver("C01reader", "ExtractC01Reader.v", os.path.join(HERE, "reader_driver.ml"))
    # lib/fstree stage (coq/ImgPost): fstree_add_generic + fstree_post_process against C11.fs_add / post_process + to_img
    drv_imgpost = core.build_model_driver("C01imgpost", "ExtractImgPost.v", os.path.join(HERE, "imgpost_driver.ml"))
    # composed packer / reader (coq/ImgE2E): pack_all against the real gensquashfs main() with a toy compressor, read_all on its images
    h_e2e = E2E.build_harness(asan, HERE)
    drv_e2e = E2E.driver(core, HERE)
    # section 8 (coq/ImgXattrReader): read_all_real / xattr_session of the C05 xattr reader model on real images, vs input and rdsquashfs -x
    drv_xreal = XR.driver(core, HERE)
    ctx.trusted += ["props/C01/xreal_driver.ml, xreal_tie.py (real images of the e2e stage + a 700 node image -> extracted read_all_real and "
                    "xattr_session; dump_xattrs.c's printing re-implemented in Python to compare the model's ordered pair lists with the "
                    "stdout of rdsquashfs -x byte for byte); coq/C05/Xattr.v itself is tied to xattr_reader.c by C05's check"]
    ctx.trusted += ["props/C01/h_e2e.c (bin/gensquashfs/src/*.c of the working tree with main renamed and sqfs_compressor_create redirected "
                    "by the linker to a toy compressor), props/C01/e2e_driver.ml (xxHash32 re-implemented in OCaml, parsing / printing, "
                    "toy compressors of coq/ImgE2E/DriverDefs.v), e2e_stubs.c (system zlib / liblzma / liblz4 / libzstd as decompressor "
                    "oracle for real images), e2e_tie.py (generator; plain-Python reading of pack file + xattr map file = the expected "
                    "tree, incl. filemap_xattr.c's reverse application order)",
                    "coq/ImgE2E/PackAll.v: pack_all is a hand-written composition (which model output feeds which model input: file "
                    "order = fs->files, apply_dfs order = pre-order incl. hard link entries, the flush offset); its check is the "
                    "byte-exact tie against the real main()",
                    "the xattr reader inside read_all is the reader SPECIFICATION of coq/ImgXattr (doc/format.adoc); read_all_real "
                    "(section 8) uses the C05 model of xattr_reader.c instead and is proved equal to read_all on every run of pack_all"]
    ctx.trusted += ["props/C01/imgpost_driver.ml, imgpost_cases.py, imgpost_tie.py (add-operation lists -> extracted C11 fs_add/post_process "
                    "+ ImgPost.Bridge.to_img, compared exactly with h_img.c's dump of fs->inodes)"]
    ctx.trusted += ["props/C01/reader_driver.ml (whole image bytes -> extracted ReadImage.read_image_c05, listing of the tree), the W "
                    "command of h_img.c (sqfs_super_init / sqfs_id_table_write / sqfs_super_write around sqfs_serialize_fstree, the toy "
                    "decompressor, the listing of libsquashfs's own sqfs_dir_reader_get_full_hierarchy result)",
                    "coq/C05: the model of the libsquashfs readers is tied to the library by C05's / C10's checks; here it is run on "
                    "serializer output only"]
    ctx.trusted += ["props/C01/h_img.c (fstree built with fstree_add_generic + fstree_post_process, dumped as the model's input; "
                    "in-memory sqfs_file_t; toy compressors), props/C01/img_driver.ml, img_cases.py, img_tie.py",
                    "coq/Img/TreeModel.v: hand-written model of serialize_fstree.c and the reader specification (read_tree) "
                    "that states the round trip"]
    ctx.trusted += ["props/C01/h_inode.c, h_xattr.c, h_common.h (in-memory file, text protocol), props/C01/driver.ml",
                    "props/C01/gen_c01.c: translator working tree -> coq/C01/GenC01.v (mode bits, xattr prefixes, id-table limit by probe)",
                    "vlib/sqfsimg.py (independent SquashFS reader) and props/C01/treegen.py, toolcheck.py (tree generator, expected tree, comparison)",
                    "ASan/UBSan verdict on gensquashfs / rdsquashfs / harness runs; system zlib/lzma/lz4/zstd for the independent reader",
                    "the metadata block layer (meta_writer.c / meta_reader.c, C03's model) is abstracted in the xattr theorems as a logical stream with an injective block-start function"]
    ctx.assumptions += ["file inodes: the relation 'number of block-size words = get_block_count(size, block size, fragment)' is a hypothesis of node_rt (established by the block processor, C02/C08); checked on every real image by the search oracle",
                        "directory inodes: listing location < 2^32, listing size + 3 < 2^32, fewer than 65536 index entries are hypotheses (a > 4 GiB directory table is not refused by the code; unreachable in practice)"]

    if ctx.replay:
        return replay(ctx, asan, plain, h_inode, h_xattr, drv)

    rnd = random.Random(ctx.seed * 7919 + 1)
    tie_bad, prop_bad = [], []
    with ThreadPoolExecutor(max_workers=7) as ex:
        f_imgpost = ex.submit(IMGP.stage, ctx, h_img, drv_imgpost, drv_img, random.Random(ctx.seed * 7919 + 6), quick,
                              random.Random(ctx.seed * 7919 + 5))
        f_inode = ex.submit(check_inode_tie, ctx, h_inode, h_inode_plain, drv, random.Random(ctx.seed * 7919 + 2), quick)
        f_idt = ex.submit(check_idt, ctx, h_inode, drv)
        f_xattr = ex.submit(TC.check_xattr_tie, ctx, h_xattr, drv, random.Random(ctx.seed * 7919 + 3), quick, ENV) if h_xattr else None
        f_tool = ex.submit(TC.tool_oracle, ctx, asan, plain, random.Random(ctx.seed * 7919 + 4), quick, ENV)
        f_img = ex.submit(IMG.stage, ctx, h_img, drv_img, random.Random(ctx.seed * 7919 + 5), quick, drv_rd)
        rnd_x = random.Random(ctx.seed * 7919 + 8)
        f_e2e = ex.submit(E2E.stage, ctx, h_e2e, drv_e2e, random.Random(ctx.seed * 7919 + 7), quick, asan["tools"]["gensquashfs"],
                          lambda real, work: XR.leg(ctx, drv_xreal, asan["tools"]["gensquashfs"], asan["tools"]["rdsquashfs"], real,
                                                    work, rnd_x, quick))
        stats, tb, pb, types_seen = f_inode.result()
        tie_bad += tb
        prop_bad += pb
        nidt, tb, pb = f_idt.result()
        tie_bad += tb
        prop_bad += pb
        xstats = None
        if f_xattr:
            xstats, tb, pb = f_xattr.result()
            tie_bad += tb
            prop_bad += pb
        tstats = f_tool.result()
        istats = f_img.result()      # reports its own violations (tie:serialize-fstree, img-readback:*)
        pstats = f_imgpost.result()  # reports its own violations (tie:fstree-post, imgpost-property:*)
        estats = f_e2e.result()      # reports its own violations (tie:e2e-pack-all, e2e-readback:*, e2e-readback-real:*)
    ctx.log("composition stage (serialize_fstree): %s" % istats)
    ctx.log("lib/fstree stage (add operations -> post-processed tree): %s" % pstats)
    ctx.log("e2e stage (pack_all vs the real gensquashfs main(), read_all on its images): %s" % estats)

    xr = estats.get("xreal") or {}
    evals = xr.get("images", 0) + xr.get("rdsquashfs_x", 0) + estats["cases"] + estats.get("real_images", 0) + pstats["cases"] + istats["cases"] + istats.get("whole_images", 0) + stats["enc"] + stats["dec"] + stats["mut"] + stats["ser"] + nidt + (xstats or {}).get("cases", 0) + tstats["images"]
    ctx.coverage["evaluations"] = evals
    ctx.coverage["distinct_nontrivial"] = xr.get("readback_ok", 0) + xr.get("rdsquashfs_x_same", 0) + estats["exact"] + estats.get("real_readback_ok", 0) + pstats["built"] + istats["impl_readback_ok"] + istats.get("c05_model_ok", 0) + stats["enc_wf"] + stats["dec_ok"] + stats["ser_ok"] + (xstats or {}).get("nontrivial", 0) + tstats["images_ok"]
    ctx.coverage["traces_validated_against_impl"] = evals
    ctx.coverage["exhaustive"] = False
    ctx.coverage["rule"] = (
        "component tie: inodes of all 14 types with every field drawn from boundary sets {0,1,2^8-1,2^8,2^13-1,2^13,2^16-2,2^16-1,"
        "2^31-1,2^31,2^32-2,2^32-1,2^32,2^32+1,2^40,2^63,2^64-1} and uniform values, file sizes {0,1,kB-1,kB,kB+1,2^32-1,2^32,2^32+1} "
        "x fragment states, symlink targets 0..9000 bytes, directory indexes 0..40 entries (names 1..300 bytes); decoder inputs = every "
        "prefix / type rewrite / bit flip of encoder outputs + random strings; inode.c mutator sequences (length 1..8) over threshold "
        "values; serialize_tree_node over kinds x link counts {1,2,3,2^32-1} x xattr {none,0,7,2^32-2} x id-table states, directories "
        "with 0..300 entries, listing sizes 65527..65538 bytes, entry counts 254..257; id tables of 0,1,2047,2048,2049,65534,65537 ids; "
        "xattr writer/reader: see xattr section; composition (sqfs_serialize_fstree vs Img.TreeModel, exact bytes + read-back of the "
        "C output through the reader specification): generated fstrees with every inode type, directories of 0/1/254..258/300/511..513 "
        "entries, listings ending at 8192 -20..+2 entries' worth around the metadata block border, 280..450 inodes (several inode "
        "blocks), nesting 10..90, hard links incl. to later-numbered files and link chains, names 1..1000 and 65536/65537 bytes, "
        "long targets / block lists, 300..1000 owner ids, toy compressors store / RLE / zero-RLE / contract-breaking; reader leg: every "
        "such tree also written as a whole image by the library (super block, inode / directory / id table) and read by the extracted C05 "
        "reader model and by libsquashfs, both compared field by field with the input tree; lib/fstree "
        "(fstree_add_generic + fstree_post_process vs C11 model + ImgPost.to_img, exact dump of fs->inodes, verdicts on failure): "
        "shuffled add lists over a collision-prone name pool (prefix siblings, bytes >= 0x80), implicit directories made explicit, "
        "hard link chains / several links per target / links before and after their target and across directories, unclean target "
        "spellings, EEXIST / ENOTDIR / EINVAL adds, dangling, directory and looping links, plus all trees of the composition stage; "
        "e2e (pack_all vs the real gensquashfs main() with a toy compressor, every byte of the image; read_all on the C image and on "
        "real-compressor images vs the input): pack files with 1..5 directories (explicit / implicit / made explicit later, shuffled "
        "line order), 2..7 regular files (0..3 blocks of random / zero / repeated / zero-run data + tails of 1..bs-1 bytes, duplicates, "
        "shared tails), symlinks, devices, fifos, sockets, 0..3 hard links (to files, non-files and links, before their target), "
        "xattr map files with 0..5 sections (repeated keys, empty / shared long values, the same set on several nodes, sections "
        "for hard links), block size 4096 / 8192, -e, -T, -j 1 / 4, toy modes store / run-length / zero-run-length; section 8 leg: the "
        "real-compressor images of the e2e stage and a 700 (thorough: also 1100) node image with as many distinct xattr sets (two / three id "
        "blocks, key-value stream over several metadata blocks, values shared by reference across blocks) read by read_all_real, a second "
        "reader object on the permuted index sequence, rdsquashfs -x on 5 (14) paths per image; tool level: %d generated trees x configurations (seed %d). "
        "non-trivial = well-formed encoder case / decoder case accepted by the implementation / serialize case that succeeded / "
        "image that gensquashfs produced and that was compared completely" % (tstats["images"], ctx.seed))
    ctx.coverage["distribution"] = dict(e2e=estats, imgpost=pstats, img=istats, inode=stats, inode_types_wf=sorted(types_seen, key=int), idt=nidt, xattr=xstats, tool=tstats)
    for k in ("samples",):
        pass
    ctx.add_samples([dict(kind=k, input=i[:200], impl=(a or "")[:200], model=m[:200]) for k, i, a, m in []])

    # ---- report ----
    for kind, inp, impl, want in prop_bad[:3]:
        ctx.violation("component-property:" + kind, "C implementation violates C01 at component level (%s): input %s: got %s, expected %s"
                      % (kind, inp[:300], (impl or "")[:300], want[:300]),
                      dict(kind="tie-lines", lines=[inp], impl=impl, expected=want))
    if tie_bad:
        kinds = sorted(set(k for k, _, _, _ in tie_bad))
        # tie broke => search: the tool-level oracle and the component properties have run on the same build;
        # concrete failures are already reported above / by tool_oracle. Report the correspondence itself.
        concrete = any(not v["no_input"] for v in ctx.violations)
        for kind in kinds[:4]:
            k, inp, impl, model = [t for t in tie_bad if t[0] == kind][0]
            ctx.violation("tie:" + kind, "correspondence %s broken: input %s: impl=%s model=%s (%d disagreeing cases; %s)"
                          % (kind, inp[:300], (impl or "")[:200], model[:200], len([t for t in tie_bad if t[0] == kind]),
                             "a concrete property failure was found, see other violation" if concrete else
                             "component round trip and %d tool-level images show no property failure" % tstats["images_ok"]),
                          dict(kind="tie-lines", lines=[t[1] for t in tie_bad if t[0] == kind][:5], impl=impl, model=model,
                               correspondence="props/C01 " + kind + ": model = C (exact / verdict+payload)"),
                          no_input=True)
    if len(types_seen) < 14:
        ctx.violation("coverage:inode-types", "inode tie exercised only types %s as well-formed" % sorted(types_seen),
                      dict(kind="machinery"), no_input=True)


def replay(ctx, asan, plain, h_inode, h_xattr, drv):
    r = json.load(open(ctx.replay))
    kind = r.get("kind")
    if kind == "tie-lines":
        lines = r.get("lines", [])
        h = h_xattr if (lines and lines[0].startswith("xw")) else h_inode
        res, bad = tie_component(ctx, h, drv, lines, "replay", chunk=50)
        for inp, impl, model in res:
            m = model.partition(" # ")[0]
            ctx.log("replay: %s\n   impl : %s\n   model: %s" % (inp[:300], (impl or "")[:300], m[:300]))
            if impl != m and not (inp.startswith("dec") and not impl.startswith("0 ") and not m.startswith("0 ")):
                ctx.violation(r.get("signature", "tie:replay"), "replayed case still disagrees: impl=%s model=%s" % ((impl or "")[:200], m[:200]),
                              dict(kind="tie-lines", lines=[inp], impl=impl, model=m), no_input=True)
        if bad:
            ctx.violation(r.get("signature", "harness-crash:replay"), "harness died on replay: %s" % bad[1][-500:],
                          dict(kind="tie-lines", lines=lines))
        ctx.coverage["evaluations"] = len(res)
        return
    if kind == "img-lines":
        h_img = B.compile_harness(asan, [os.path.join(HERE, "h_img.c")], "c01_h_img", extra=["-I" + HERE])
        drv_img = core.build_model_driver("C01img", "ExtractImg.v", os.path.join(HERE, "img_driver.ml"))
        drv_rd = core.build_model_driver("C01reader", "ExtractC01Reader.v", os.path.join(HERE, "reader_driver.ml"))
        res = IMG.run_cases(h_img, drv_img, [("replay", l) for l in r.get("lines", [])], IMG.RD_BUDGET["thorough"], drv_rd=drv_rd)
        for x in res:
            ctx.log("replay: impl=%s\n   model=%s\n   readback=%s\n   reader model on the whole image=%s  libsquashfs=%s"
                    % ((x["impl"] or "")[:300], (x["model"] or "")[:300], x["rd"], x["c05"], (x["real"] or "")[:80]))
        IMG.evaluate(ctx, res)
        ctx.coverage["evaluations"] = len(res)
        return
    if kind == "imgpost-lines":
        h_img = B.compile_harness(asan, [os.path.join(HERE, "h_img.c")], "c01_h_img", extra=["-I" + HERE])
        drv_img = core.build_model_driver("C01img", "ExtractImg.v", os.path.join(HERE, "img_driver.ml"))
        drv_imgpost = core.build_model_driver("C01imgpost", "ExtractImgPost.v", os.path.join(HERE, "imgpost_driver.ml"))
        res = IMGP.run_all(h_img, drv_imgpost, [("replay", l, []) for l in r.get("lines", [])])
        for x in res:
            ctx.log("replay: impl =%s\n   model=%s # %s" % ((x["impl"] or "")[:400], (x["model"] or "")[:400], x["flags"]))
        IMGP.evaluate(ctx, res, h_img, drv_img)
        ctx.coverage["evaluations"] = len(res)
        return
    if kind == "e2e":
        st = E2E.replay(ctx, E2E.build_harness(asan, HERE), E2E.driver(core, HERE), asan["tools"]["gensquashfs"], r)
        ctx.coverage["evaluations"] = st["cases"]
        return
    if kind == "xreal":
        st = XR.replay(ctx, XR.driver(core, HERE), asan["tools"]["gensquashfs"], asan["tools"]["rdsquashfs"], r)
        ctx.coverage["evaluations"] = st["images"]
        return
    if kind in ("tool", "targeted"):
        TC.replay_tool(ctx, asan, plain, r, ENV)
        return
    ctx.log("replay file of unknown kind %r: running nothing" % kind)


def setup():
    plain = B.build("plain")
    regen_gen(plain)
    core.build_model_driver("C01", "ExtractC01.v", os.path.join(HERE, "driver.ml"))
    core.build_model_driver("C01img", "ExtractImg.v", os.path.join(HERE, "img_driver.ml"))
    core.build_model_driver("C01imgpost", "ExtractImgPost.v", os.path.join(HERE, "imgpost_driver.ml"))
    core.build_model_driver("C01reader", "ExtractC01Reader.v", os.path.join(HERE, "reader_driver.ml"))
    E2E.driver(core, HERE)
    XR.driver(core, HERE)
