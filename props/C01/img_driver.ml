(* C01 composition: driver of the extracted Img.TreeModel (serialize_fstree and the reader specification).
   Same line protocol as props/C01/h_img.c.
     img <toymode> <bs> <N> <nodes>                                  -> <rc> <root_ref> <refs> <ids> <hex itbl> <hex dtbl> # <flags>
     rd  <toymode> <bs> <N> <nodes> <root_ref> <ids> <itbl> <dtbl>   -> OK <nodes in tree> | MISMATCH ... | NOREAD ...
   flags: r<0|1> representable, f<0|1> trace_fits *)
open Img_model

let rec pos_of_int i = if i = 1 then XH else if i land 1 = 1 then XI (pos_of_int (i lsr 1)) else XO (pos_of_int (i lsr 1))
let n_of_int i = if i = 0 then N0 else Npos (pos_of_int i)
let rec int_of_pos = function XH -> 1 | XO p -> 2 * int_of_pos p | XI p -> 2 * int_of_pos p + 1
let int_of_n = function N0 -> 0 | Npos p -> int_of_pos p
let rec pos_bits = function XH -> 1 | XO p | XI p -> 1 + pos_bits p
let n10 = n_of_int 10

let n_of_string s =
  if String.length s <= 17 then n_of_int (int_of_string s)
  else begin
    let r = ref N0 in
    String.iter (fun c -> r := N.add (N.mul !r n10) (n_of_int (Char.code c - 48))) s;
    !r
  end

let string_of_n n =
  match n with
  | N0 -> "0"
  | Npos p when pos_bits p <= 61 -> string_of_int (int_of_pos p)
  | _ ->
    let rec go n acc = match n with
      | N0 -> acc
      | _ -> let (q, r) = N.div_eucl n n10 in go q (String.make 1 (Char.chr (48 + int_of_n r)) ^ acc) in
    go n ""

let int_of_z = function Z0 -> 0 | Zpos p -> int_of_pos p | Zneg p -> - (int_of_pos p)

let byte_tbl = Array.init 256 n_of_int
let hexv c = if c <= '9' then Char.code c - 48 else (Char.code c lor 32) - 87
let unhex s =
  if s = "-" then [] else begin
    let l = ref [] in
    for i = String.length s / 2 - 1 downto 0 do
      l := byte_tbl.(hexv s.[2*i] * 16 + hexv s.[2*i+1]) :: !l
    done;
    !l
  end
let hex l =
  match l with
  | [] -> "-"
  | _ ->
    let b = Buffer.create 4096 in
    List.iter (fun c -> Buffer.add_string b (Printf.sprintf "%02x" (int_of_n c))) l;
    Buffer.contents b

let nlist s = if s = "-" then [] else List.map n_of_string (String.split_on_char ',' s)
let nlist_s l = match l with [] -> "-" | _ -> String.concat "," (List.map string_of_n l)

(* ---- token stream ---- *)
let toks = ref [||]
let pos = ref 0
let next () = let t = !toks.(!pos) in incr pos; t
let nextn () = n_of_string (next ())

let parse_file spec =
  match String.split_on_char ':' spec with
  | [ext; bs; fi; fo; fs; sp; w] ->
    let n = n_of_string in
    if ext = "1" then BFileX (n bs, n fs, n sp, n_of_int 1, n fi, n fo, n_of_string "4294967295", nlist w)
    else BFile (n bs, n fi, n fo, n fs, nlist w)
  | _ -> failwith "file"

let parse_node () =
  let mode = nextn () in let uid = nextn () in let gid = nextn () in let mtime = nextn () in
  let nlink = nextn () in let xattr = nextn () in
  let k = next () in
  let p = match k with
    | "d" ->
      let par = nextn () in
      let cnt = int_of_string (next ()) in
      let ch = List.init cnt (fun _ -> let nm = unhex (next ()) in let c = nextn () in (nm, c)) in
      PDir (par, ch)
    | "f" -> PFile (parse_file (next ()))
    | "l" -> PSlink (unhex (next ()))
    | "b" -> PDev (false, nextn ())
    | "c" -> PDev (true, nextn ())
    | "p" -> PIpc false
    | "s" -> PIpc true
    | _ -> failwith "kind" in
  { fn_mode = mode; fn_uid = uid; fn_gid = gid; fn_mtime = mtime; fn_nlink = nlink; fn_xattr = xattr; fn_payload = p }

let parse_tree () =
  let cnt = int_of_string (next ()) in
  List.init cnt (fun _ -> parse_node ())

let rec nat_of_int i = if i = 0 then O else S (nat_of_int (i - 1))

let b01 b = if b then "1" else "0"

let rec count_lt (LT (_, ents)) = List.fold_left (fun a (_, s) -> a + count_lt s) 1 ents

let cmd_img () =
  let mode = nextn () in
  let bs = nextn () in
  let t = parse_tree () in
  let r = serialize_fstree (img_compress mode) c_id_table_limit t in
  match r with
  | Ok img ->
    let rep = representable bs t in
    let fit = trace_fits img in
    Printf.printf "0 %s %s %s %s %s # r%s f%s\n" (string_of_n img.si_root) (nlist_s img.si_refs) (nlist_s img.si_ids)
      (hex img.si_itbl) (hex img.si_dtbl) (b01 rep) (b01 fit)
  | Err e -> Printf.printf "%d -\n" (int_of_z e)
  | Crash -> print_string "CRASH -\n"
  | OutOfFuel -> print_string "FUEL -\n"

let rec first_diff path a b =
  match a, b with
  | LT (va, ea), LT (vb, eb) ->
    if va <> vb then Some (path ^ " view(ino " ^ string_of_n va.lv_ino ^ "/" ^ string_of_n vb.lv_ino ^ ")")
    else if List.length ea <> List.length eb then Some (path ^ " entry-count")
    else
      List.fold_left2 (fun acc (na, sa) (nb, sb) ->
          match acc with
          | Some _ -> acc
          | None -> if na <> nb then Some (path ^ " name " ^ hex na ^ "/" ^ hex nb) else first_diff (path ^ "/" ^ hex na) sa sb)
        None ea eb

let cmd_rd () =
  let mode = nextn () in
  let bs = nextn () in
  let t = parse_tree () in
  let root = nextn () in
  let ids = nlist (next ()) in
  let itbl = unhex (next ()) in
  let dtbl = unhex (next ()) in
  let n = List.length t in
  let fuel = nat_of_int n in
  let a = read_tree (img_uncompress mode) bs itbl dtbl ids fuel root in
  let b = spec_tree t fuel (n_of_int n) in
  match a, b with
  | Some x, Some y ->
    if x = y then Printf.printf "OK %d\n" (count_lt x)
    else Printf.printf "MISMATCH %s\n" (match first_diff "" x y with Some d -> d | None -> "?")
  | None, Some _ -> print_string "NOREAD the reader specification rejects the tables\n"
  | _, None -> print_string "NOSPEC\n"

let () =
  try
    while true do
      let line = input_line stdin in
      toks := Array.of_list (List.filter (fun s -> s <> "") (String.split_on_char ' ' line));
      pos := 0;
      (try
         match next () with
         | "img" -> if Array.length !toks >= 2 && !toks.(1) = "-" then print_string "SKIP\n" else cmd_img ()
         | "rd" -> cmd_rd ()
         | _ -> print_string "PARSE\n"
       with Failure m -> Printf.printf "PARSE %s\n" m
          | Invalid_argument m -> Printf.printf "PARSE %s\n" m);
      flush stdout
    done
  with End_of_file -> ()
