"""C01 / ImgPost stage: lib/fstree of the working tree against the extracted C11 model composed with
ImgPost.Bridge.to_img.

The harness h_img.c builds an fstree with fstree_add_generic from an add-operation list, runs fstree_post_process and
dumps fs->inodes[] (mode, uid, gid, mtime, link count, xattr index, per kind: parent inode number + children in list
order as (name, inode number of the node the entry stands for) / file inode / target / device number).  The SAME
add-operation list is given to the extracted  fs_init; fs_add*; post_process; to_img  (imgpost_driver.ml) and the two
texts are compared EXACTLY; when the tree cannot be built the verdicts must agree (index of the failing add, or
"post" = fstree_post_process failed).  Additionally theorem post_tree_representable is evaluated on every built case
(input_okb && attached_okb => representable).

tie broke => search: the failing lines are run through the existing composition stage (img_tie.one_case: real
sqfs_serialize_fstree + the reader specification on the tables it produced, and `representable` of the dumped tree);
a failed read-back / a tree outside the serializer's domain is a concrete property failure, otherwise the violation is
reported as no-failing-input-found."""
import time
from concurrent.futures import ThreadPoolExecutor

from tielib import run_proc
import imgpost_cases
import img_cases
import img_tie as IMG
import imgpost_oracle as ORACLE


def compare_lines(h_img, drv, lines, timeout=600):
    """returns list of dict(line, impl, model, flags, err)"""
    rc, out, err = run_proc(h_img, lines, timeout=timeout)
    out = [o for o in out if o]
    rc2, mout, merr = run_proc(drv, lines, timeout=timeout)
    mout = [o for o in mout if o]
    res = []
    for i, l in enumerate(lines):
        r = dict(line=l, impl=None, model=None, flags="", err=None)
        if i >= len(out) or i >= len(mout):
            r["err"] = "harness rc=%s (%d of %d lines) %s / driver rc=%s (%d lines) %s" % (
                rc, len(out), len(lines), err[-800:], rc2, len(mout), merr[-300:])
            res.append(r)
            continue
        o = out[i]
        r["impl"] = o if o.startswith("img -") else o.split(" | ", 1)[0]
        m, _, flags = mout[i].partition(" # ")
        r["model"], r["flags"] = m, flags
        res.append(r)
    return res


def run_all(h_img, drv, cases, workers=14, chunk=120):
    """cases: list of (label, line, feats) -> same order list of result dicts with label/feats"""
    # big lines alone, small ones in chunks
    big = [c for c in cases if len(c[1]) > 20000]
    small = [c for c in cases if len(c[1]) <= 20000]
    jobs = [[c] for c in big] + [small[i:i + chunk] for i in range(0, len(small), chunk)]

    def one(job):
        rs = compare_lines(h_img, drv, [c[1] for c in job])
        for r, c in zip(rs, job):
            r["label"], r["feats"] = c[0], c[2]
        return rs

    with ThreadPoolExecutor(max_workers=workers) as ex:
        return [r for rs in ex.map(one, jobs) for r in rs]


def evaluate(ctx, res, h_img, drv_img):
    st = dict(cases=len(res), exact_equal=0, built=0, add_failed=0, post_failed=0, inodes=0,
              hardlink_adds=0, representable=0, input_ok=0, theorem_instances=0, reorder_moved=0,
              oracle_checked=0, oracle_ok=0,
              features={}, shapes={})
    bad, thm_bad, orc_bad = [], [], []
    for r in res:
        lab = r["label"].split("-")[0].split(":")[0] if r["label"].startswith("img:") else r["label"]
        st["shapes"][lab] = st["shapes"].get(lab, 0) + 1
        if r["err"]:
            ctx.violation("harness-crash:imgpost", "fstree harness / model driver failed on a %s case: %s" % (r["label"], r["err"][-600:]),
                          dict(kind="imgpost-lines", lines=[r["line"]], stderr=r["err"]))
            continue
        for f in r["feats"]:
            st["features"][f] = st["features"].get(f, 0) + 1
        # search oracle: the implementation's tree against a plain reading of the add list (independent of the model)
        try:
            why = ORACLE.check(r["line"], r["impl"])
        except Exception as e:     # noqa: BLE001 - a malformed dump is itself a finding
            why = "dump not parseable: %r" % (e,)
        st["oracle_checked"] += 1
        if why is None:
            st["oracle_ok"] += 1
        else:
            orc_bad.append((r, why))
        if r["impl"] == r["model"]:
            st["exact_equal"] += 1
        else:
            bad.append(r)
        imp = r["impl"]
        if imp.startswith("img - | -1 build add"):
            st["add_failed"] += 1
        elif imp.startswith("img - | -1 build post"):
            st["post_failed"] += 1
        elif not imp.startswith("img -"):
            st["built"] += 1
            toks = imp.split(" ")
            st["inodes"] += int(toks[3])
        fl = r["flags"].split(" ") if r["flags"] else []
        if fl:
            st["representable"] += "r1" in fl
            st["input_ok"] += "i1" in fl
            if "i1" in fl and "a1" in fl:
                st["theorem_instances"] += 1
                if "r1" not in fl:
                    thm_bad.append(r)
            st["reorder_moved"] += any(f.startswith("m") and f != "m0" for f in fl)
        st["hardlink_adds"] += sum(1 for t in r["line"].split(" ") if t == "h")
    orc_bad.sort(key=lambda x: len(x[0]["line"]))
    for r, why in orc_bad[:2]:
        cls = why.split(":")[0].split(" ")[0]
        ctx.violation("imgpost-oracle:" + (cls if cls.isalpha() else "structure"),
                      "the tree lib/fstree hands to the serializer is not the tree the add operations describe (%d of %d lists; %s case [%s]): %s"
                      % (len(orc_bad), len(res), r["label"], ",".join(r["feats"]), why[:400]),
                      dict(kind="imgpost-lines", lines=[r["line"]], impl=r["impl"][:3000], why=why))
    for r in thm_bad[:1]:
        ctx.violation("imgpost:theorem-instance",
                      "extracted model: input_okb && attached_okb but the post-processed tree is not representable "
                      "(theorem post_tree_representable evaluated on a %s case) - extraction / driver out of step with the proofs" % r["label"],
                      dict(kind="imgpost-lines", lines=[r["line"]], model=r["model"][:2000], flags=r["flags"]), no_input=True)
    if bad:
        bad.sort(key=lambda r: len(r["line"]))     # smallest disagreeing case first
        # search oracle on the implementation around the disagreeing cases
        concrete = None
        for r in ([] if orc_bad else bad[:3]):
            if r["impl"].startswith("img -"):
                continue
            o = IMG.one_case(h_img, drv_img, "imgpost-" + r["label"], r["line"], IMG.RD_BUDGET["thorough"])
            rd = o.get("rd")
            f = o.get("flags") or ""
            if rd is not None and not rd.startswith("OK"):
                concrete = (r, "the real sqfs_serialize_fstree output for this fstree does not read back as the tree (%s)" % rd[:200])
                break
            if o.get("model") not in (None, "SKIP") and "r0" in f and "i1" in r["flags"].split(" "):
                concrete = (r, "the tree fstree_post_process hands to the serializer is outside its domain "
                               "(children not sorted / an entry not numbered before its directory / link count 0) although the input is within bounds")
                break
        r0 = bad[0]
        what = ("correspondence lib/fstree (fstree_add_generic + fstree_post_process) = C11 model + ImgPost.to_img broken on %d of %d "
                "add-operation lists; smallest: %s case [%s]: %s"
                % (len(bad), len(res), r0["label"], ",".join(r0["feats"]), first_diff(r0["impl"], r0["model"])))
        if concrete:
            r, why = concrete
            ctx.violation("imgpost-property:" + ("readback" if "read back" in why else "unrepresentable"),
                          "%s; %s case [%s]" % (why, r["label"], ",".join(r["feats"])),
                          dict(kind="imgpost-lines", lines=[r["line"]], impl=r["impl"][:3000], model=r["model"][:3000]))
        ctx.violation("tie:fstree-post",
                      what + (" (concrete property failure reported separately)" if (concrete or orc_bad) else
                              " (serializing the C tree and reading it back shows no property failure)"),
                      dict(kind="imgpost-lines", lines=[r0["line"]], impl=r0["impl"][:4000], model=r0["model"][:4000],
                           correspondence="props/C01 h_img.c dump of fs->inodes vs extracted C11.fs_add/post_process + ImgPost.Bridge.to_img (exact)"),
                      no_input=True)
    return st


def first_diff(a, b):
    ta, tb = a.split(" "), b.split(" ")
    for i in range(min(len(ta), len(tb))):
        if ta[i] != tb[i]:
            lo = max(0, i - 6)
            return "token %d: impl ...%s | model ...%s" % (i, " ".join(ta[lo:i + 4])[:160], " ".join(tb[lo:i + 4])[:160])
    return "length %d / %d tokens: impl %s | model %s" % (len(ta), len(tb), a[:120], b[:120])


def stage(ctx, h_img, drv_post, drv_img, rnd, quick, img_rnd=None):
    t0 = time.time()
    cases = imgpost_cases.gen_cases(rnd, quick)
    # the trees of the composition stage as well (large directories, deep nesting, thousands of inodes)
    if img_rnd is not None:
        cases += [("img:" + lab, line, []) for lab, line in img_cases.gen_cases(img_rnd, quick)]
    cases.sort(key=lambda c: -len(c[1]))
    res = run_all(h_img, drv_post, cases)
    st = evaluate(ctx, res, h_img, drv_img)
    st["wall_s"] = round(time.time() - t0, 1)
    return st
