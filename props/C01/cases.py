"""C01 component-tie case generators (inode codec, inode.c mutators, serialize_tree_node, id table).
Text protocol: see props/C01/h_inode.c.  All randomness from the rnd handed in."""

NOX = 0xFFFFFFFF
U16 = [0, 1, 255, 256, 8191, 8192, 65534, 65535]
U32 = [0, 1, 2, 65535, 65536, 0x7FFFFFFF, 0x80000000, 0xFFFFFFFE, 0xFFFFFFFF]
U64 = U32 + [0x100000000, 0x100000001, 1 << 40, (1 << 63), (1 << 64) - 1]
FMT = {1: 0o040000, 2: 0o100000, 3: 0o120000, 4: 0o060000, 5: 0o020000, 6: 0o010000, 7: 0o140000}
PERMS = [0, 0o644, 0o755, 0o7777, 0o4755, 0o1000]


def base_of(t):
    return t - 7 if t > 7 else t


def mode_for(rnd, t, wf=True):
    m = rnd.choice(PERMS) | FMT[base_of(t)]
    if not wf:
        m = rnd.choice([rnd.choice(PERMS), m ^ 0o170000, 0xFFFF, rnd.choice(PERMS) | FMT[(base_of(t) % 7) + 1]])
    return m


def block_count(size, bs, fi, fo):
    c = size // bs
    if size % bs and (fi == NOX or fo == NOX):
        c += 1
    return c


def hexs(b):
    return b.hex() if b else "-"


def blocks_s(l):
    return ",".join(str(x) for x in l) if l else "-"


def idx_s(l):
    return ",".join("%d:%d:%s" % (i, s, n.hex()) for i, s, n in l) if l else "-"


def inode_text(t, mode, uidx, gidx, mtime, ino, fields, payload):
    return "%d %d %d %d %d %d %s %s" % (t, mode, uidx, gidx, mtime, ino, " ".join(str(f) for f in fields), payload)


def gen_blocks(rnd, n):
    ch = [0, 1, 100, 4096, (1 << 24) | 4096, (1 << 24) | 1, 0xFFFFFF, 0x1FFFFFF, 0xFFFFFFFF]
    return [rnd.choice(ch) for _ in range(n)]


def gen_index(rnd, n):
    out = []
    for i in range(n):
        ln = rnd.choice([1, 1, 2, 8, 255, 256, 300])
        out.append((rnd.choice(U32), rnd.choice(U32), bytes(rnd.randrange(1, 256) for _ in range(ln))))
    return out


def gen_inode(rnd, t, bs, wf=True, big=False):
    """-> inode text; well-formed (every field in range, block list consistent) when wf"""
    r16 = lambda: rnd.choice(U16 + [rnd.randrange(65536)])
    r32 = lambda: rnd.choice(U32 + [rnd.randrange(1 << 32)])
    r64 = lambda: rnd.choice(U64 + [rnd.randrange(1 << 64)])
    head = (t, mode_for(rnd, t, wf or rnd.random() < 0.5), r16(), r16(), r32(), r32())
    if t == 1:
        return inode_text(*head, [r32(), r32(), r16(), r16(), r32()], "-")
    if t in (2, 9):
        sizes = [0, 1, bs - 1, bs, bs + 1, 2 * bs - 1, 2 * bs, 2 * bs + 1, 5 * bs + 3]
        if big:
            sizes += [0xFFFFFFFF, 0x100000000, 0x100000001] if t == 9 else [0xFFFFFFFF, 0xFFFFFFFE]
        size = rnd.choice(sizes)
        fi, fo = rnd.choice([(NOX, NOX), (0, 0), (3, 100), (NOX, 5), (7, NOX), (0xFFFFFFFE, 0xFFFFFFFE)])
        n = block_count(size, bs, fi, fo)
        if not wf:
            n = max(0, n + rnd.choice([-1, 1, 2]))
        bl = gen_blocks(rnd, n)
        if t == 2:
            return inode_text(*head, [r32(), fi, fo, size], blocks_s(bl))
        return inode_text(*head, [r64(), size, r64(), r32(), fi, fo, r32()], blocks_s(bl))
    if t in (3, 10):
        tl = rnd.choice([0, 1, 2, 100, 255, 256, 4095, 8192, 9000] if wf else [0, 1, 5])
        tgt = bytes(rnd.randrange(1, 256) for _ in range(tl))
        f = [r32()] if t == 3 else [r32(), r32()]
        return inode_text(*head, f, hexs(tgt))
    if t in (4, 5):
        return inode_text(*head, [r32(), r32()], "-")
    if t in (6, 7):
        return inode_text(*head, [r32(), rnd.choice([0, 0, NOX, 5])], "-")
    if t == 8:
        n = rnd.choice([0, 0, 1, 2, 5, 40])
        ix = gen_index(rnd, n)
        size = rnd.choice([3, 4, 300, 65535, 65536, 0xFFFFFFFF] + ([0] if (n == 0 or not wf) else []))
        ic = n if wf else rnd.choice([n, n + 1, 0, 65535])
        return inode_text(*head, [r32(), size, r32(), r32(), ic, r16(), r32()], idx_s(ix))
    if t in (11, 12):
        return inode_text(*head, [r32(), r32(), r32()], "-")
    if t in (13, 14):
        return inode_text(*head, [r32(), r32()], "-")
    raise ValueError(t)


def enc_cases(rnd, n_per_type, thorough=False):
    out = []
    for t in range(1, 15):
        for k in range(n_per_type):
            bs = rnd.choice([4096, 8192, 131072, 1048576])
            big = (k % 5 == 0)
            if big:
                bs = 1048576
            wf = k % 6 != 5
            out.append("enc %d %s" % (bs, gen_inode(rnd, t, bs, wf=wf, big=big)))
    # hand-picked thresholds: file size / block start / nlink / sparse / xattr at the basic-extended borders
    for size in (0xFFFFFFFE, 0xFFFFFFFF):
        bs = 1048576
        n = block_count(size, bs, NOX, NOX)
        out.append("enc %d %s" % (bs, inode_text(2, 0o100644, 1, 2, 3, 4, [0xFFFFFFFF, NOX, NOX, size], blocks_s([1] * n))))
    for size in (0xFFFFFFFF, 0x100000000, 0x100000001):
        bs = 1048576
        n = block_count(size, bs, 2, 5)
        out.append("enc %d %s" % (bs, inode_text(9, 0o100644, 1, 2, 3, 4, [0x100000000, size, 0, 1, 2, 5, NOX], blocks_s([1] * n))))
    return out


def dec_in_domain(b):
    """The decoder tie covers inputs whose directory-index name-size fields are below 2^16.  Beyond that the C reader
    computes `ent.size + 1` in 32 bits and grows its buffer by up to 4 GiB (a 60 byte input makes the harness print
    8 GiB): memory behaviour on hostile inodes is property C05's subject and is modelled there (Inode.v dx_loop,
    alloc_limit), not in C01's codec model."""
    if len(b) < 2 or (b[0] | (b[1] << 8)) != 8 or len(b) < 16 + 24:
        return True
    count = b[16 + 16] | (b[16 + 17] << 8)
    pos = 16 + 24
    for _ in range(count):
        if pos + 12 > len(b):
            return True
        size = int.from_bytes(b[pos + 8:pos + 12], "little")
        if size >= 0x10000:
            return False
        pos += 12 + size + 1
    return True


def dec_cases(rnd, enc_hex, n_random):
    return [c for c in _dec_cases(rnd, enc_hex, n_random) if dec_in_domain(bytes.fromhex(c.split(" ")[2]) if c.split(" ")[2] != "-" else b"")]


def _dec_cases(rnd, enc_hex, n_random):
    """mutations of encoder outputs (every prefix of some, type changes, bit flips) + random strings"""
    out = []
    for i, (bs, h) in enumerate(enc_hex):
        b = bytes.fromhex(h) if h != "-" else b""
        if i % 9 == 0 and len(b) <= 120:
            for k in range(len(b) + 1):
                out.append("dec %d %s" % (bs, hexs(b[:k])))
        else:
            for _ in range(3):
                k = rnd.randrange(len(b) + 1)
                out.append("dec %d %s" % (bs, hexs(b[:k])))
        if b:
            for ty in (0, 15, 255, 256 + 1, rnd.randrange(1, 15)):
                m = bytearray(b)
                m[0] = ty & 0xFF
                m[1] = ty >> 8
                out.append("dec %d %s" % (bs, hexs(bytes(m))))
            for _ in range(3):
                m = bytearray(b)
                p = rnd.randrange(len(m))
                m[p] ^= 1 << rnd.randrange(8)
                if rnd.random() < 0.5:
                    m += bytes(rnd.randrange(256) for _ in range(rnd.randrange(0, 40)))
                out.append("dec %d %s" % (bs, hexs(bytes(m))))
    for _ in range(n_random):
        t = rnd.randrange(0, 16)
        body = bytes(rnd.choice([0, 0, 1, 255, rnd.randrange(256)]) for _ in range(rnd.randrange(0, 90)))
        b = bytes([t, 0]) + bytes(rnd.randrange(256) for _ in range(14)) + body
        out.append("dec %d %s" % (rnd.choice([4096, 131072, 1]), hexs(b[:rnd.randrange(0, len(b) + 1)] if rnd.random() < 0.3 else b)))
    return out


def mut_cases(rnd, n):
    out = []
    vals64 = [0, 1, 0xFFFFFFFE, 0xFFFFFFFF, 0x100000000, 0x100000001, (1 << 64) - 1, 5000]
    xs = [0, 5, 0xFFFFFFFE, NOX]
    for _ in range(n):
        t = rnd.randrange(1, 15)
        ino = gen_inode(rnd, t, 4096, wf=True)
        ops = []
        for _ in range(rnd.randrange(1, 9)):
            o = rnd.choice("XBxxssllf")
            if o in "XB":
                ops.append(o)
            elif o == "x":
                ops.append("x%d" % rnd.choice(xs))
            elif o == "s":
                ops.append("s%d" % rnd.choice(vals64))
            elif o == "l":
                ops.append("l%d" % rnd.choice(vals64))
            else:
                ops.append("f%d:%d" % (rnd.choice(xs), rnd.choice(xs)))
        # make_basic on a directory drops the index in the model (the C code keeps the bytes in memory): keep
        # directories with an index away from B followed by X
        if t == 8 and "B" in ops:
            ops = [o for o in ops if o != "B"] or ["X"]
        out.append("mut %s %s" % (ino, " ".join(ops)))
    # every type through make_extended / make_basic and back
    for t in range(1, 15):
        ino = gen_inode(rnd, t, 4096, wf=True)
        if t == 8:
            out.append("mut %s X x7 x%d" % (ino, NOX))
        else:
            out.append("mut %s X B X x7 B x%d B" % (ino, NOX))
    return out


def ser_cases(rnd, n, thorough=False):
    out = []
    idsets = ["-", "0", "0,5", "7,1000,65536,4294967295", ",".join(str(i) for i in range(300))]
    for _ in range(n):
        ids = rnd.choice(idsets)
        uid = rnd.choice([0, 5, 7, 1000, 4294967295, rnd.randrange(1 << 32)])
        gid = rnd.choice([0, 5, 7, 1000, 4294967294, rnd.randrange(1 << 32)])
        nlink = rnd.choice([1, 1, 2, 3, 0xFFFFFFFF])
        xattr = rnd.choice([NOX, NOX, 0, 7, 0xFFFFFFFE])
        perm = rnd.choice(PERMS)
        kind = rnd.choice(["kfile", "kfile", "kslink", "kdev", "kipc", "dir", "dir"])
        mt = rnd.choice(U32)
        ino = rnd.choice([1, 2, 70000, 0xFFFFFFFF])
        if kind == "kfile":
            t = rnd.choice([2, 2, 9])
            big = rnd.random() < 0.2
            bs = 1048576 if big else 4096
            f = gen_inode(rnd, t, bs, wf=True, big=big)
            out.append("ser %s %d %d %d %d %d %d %d kfile %s" % (ids, perm | FMT[2], uid, gid, mt, ino, nlink, xattr, f))
        elif kind == "kslink":
            tgt = bytes(rnd.randrange(1, 256) for _ in range(rnd.choice([1, 2, 100, 255, 4095])))
            out.append("ser %s %d %d %d %d %d %d %d kslink %s" % (ids, 0o777 | FMT[3], uid, gid, mt, ino, nlink, xattr, tgt.hex()))
        elif kind == "kdev":
            c = rnd.choice("bc")
            out.append("ser %s %d %d %d %d %d %d %d kdev %s %d" % (ids, perm | FMT[5 if c == "c" else 4], uid, gid, mt, ino, nlink, xattr, c, rnd.choice(U32)))
        elif kind == "kipc":
            c = rnd.choice("fs")
            out.append("ser %s %d %d %d %d %d %d %d kipc %s" % (ids, perm | FMT[7 if c == "s" else 6], uid, gid, mt, ino, nlink, xattr, c))
        else:
            par = rnd.choice([0, 1, 5, 0xFFFFFFFF])
            prefill = rnd.choice([0, 0, 100, 8000, 8190, 8192 + 50, 70000])
            nch = rnd.choice([0, 1, 2, 3, 40, 255, 256, 257, 300])
            nlen = rnd.choice([8, 8, 12, 200])
            ino0 = rnd.choice([1, 100, 40000])
            istep = rnd.choice([1, 1, 3, 40000])
            blk0 = rnd.choice([0, 77])
            per = rnd.choice([0, 0, 50, 1])
            out.append("ser %s %d %d %d %d %d %d %d dir %d %d %d %d %d %d %d %d %d" % (
                ids, perm | FMT[1], uid, gid, mt, ino, min(nlink + 1, 0xFFFFFFFF), xattr, par, prefill, nch, nlen,
                ino0, istep, blk0, per, rnd.choice([0, 0, 9, 300])))
    # directory listing size across the 16-bit limit of the basic form (dir_size + 3 <= 65535) with < 256 entries:
    # 232 names of 274 bytes give 65532 bytes of listing; the last name's length moves it by single bytes
    for ll in range(268, 280):
        out.append("ser - %d 0 0 0 9 2 %d dir 1 0 232 274 1 1 0 0 %d" % (FMT[1] | 0o755, NOX, ll))
    # entry count across DIR_INDEX_THRESHOLD
    for nch in (254, 255, 256, 257):
        out.append("ser - %d 0 0 0 9 2 %d dir 1 0 %d 8 1 1 0 0 0" % (FMT[1] | 0o755, NOX, nch))
    return out
