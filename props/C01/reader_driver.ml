(* C01 section 6: driver of the extracted C05 reader model run on a whole image (ImgReader.ReadImage.read_image_out).
   stdin, one case per line (the tree in the format of props/C01/h_img.c's model input):
     c05 <toymode> <bs> <N> <nodes> <hex image>
   stdout:
     <verdict> # r<0|1> f<0|1> a<0|1> | S <listing> | M <listing>
   verdict: OK <nodes> (the tree the reader model returns = spec_tree of the input: boolean equality opt_ltree_eqb and
            the two listings agree) | MISMATCH <first difference> | ERR <code> | CRASH | FUEL | NOSPEC
   flags  : representable / trace_fits / alloc_fits of the MODEL's serializer run on the same tree ("-" = refused)
   listing: pre-order, "<n> { <depth> <hexname|-> <mode> <uid> <gid> <mtime> <ino> <nlink> <xattr> K }*n" with
            K = d <parent> | f <start>:<size>:<sparse>:<frag_idx>:<frag_off>:<w,..|-> | l <hex|-> | b <devno> |
                c <devno> | p | s       (h_img.c prints the same for the tree libsquashfs reads) *)
open C01reader_model

let rec pos_of_int i = if i = 1 then XH else if i land 1 = 1 then XI (pos_of_int (i lsr 1)) else XO (pos_of_int (i lsr 1))
let n_of_int i = if i = 0 then N0 else Npos (pos_of_int i)
let rec int_of_pos = function XH -> 1 | XO p -> 2 * int_of_pos p | XI p -> 2 * int_of_pos p + 1
let int_of_n = function N0 -> 0 | Npos p -> int_of_pos p
let rec pos_bits = function XH -> 1 | XO p | XI p -> 1 + pos_bits p
let n10 = n_of_int 10

let n_of_string s =
  if String.length s <= 17 then n_of_int (int_of_string s)
  else begin
    let r = ref N0 in
    String.iter (fun c -> r := N.add (N.mul !r n10) (n_of_int (Char.code c - 48))) s;
    !r
  end

let string_of_n n =
  match n with
  | N0 -> "0"
  | Npos p when pos_bits p <= 61 -> string_of_int (int_of_pos p)
  | _ ->
    let rec go n acc = match n with
      | N0 -> acc
      | _ -> let (q, r) = N.div_eucl n n10 in go q (String.make 1 (Char.chr (48 + int_of_n r)) ^ acc) in
    go n ""

let int_of_z = function Z0 -> 0 | Zpos p -> int_of_pos p | Zneg p -> - (int_of_pos p)

let byte_tbl = Array.init 256 n_of_int
let hexv c = if c <= '9' then Char.code c - 48 else (Char.code c lor 32) - 87
let unhex s =
  if s = "-" then [] else begin
    let l = ref [] in
    for i = String.length s / 2 - 1 downto 0 do
      l := byte_tbl.(hexv s.[2*i] * 16 + hexv s.[2*i+1]) :: !l
    done;
    !l
  end
let hex_into b l = List.iter (fun c -> Buffer.add_string b (Printf.sprintf "%02x" (int_of_n c))) l
let hex l = match l with [] -> "-" | _ -> let b = Buffer.create 64 in hex_into b l; Buffer.contents b

let nlist s = if s = "-" then [] else List.map n_of_string (String.split_on_char ',' s)
let nlist_s l = match l with [] -> "-" | _ -> String.concat "," (List.map string_of_n l)

(* ---- token stream ---- *)
let toks = ref [||]
let pos = ref 0
let next () = let t = !toks.(!pos) in incr pos; t
let nextn () = n_of_string (next ())

let parse_file spec =
  match String.split_on_char ':' spec with
  | [ext; bs; fi; fo; fs; sp; w] ->
    let n = n_of_string in
    if ext = "1" then BFileX (n bs, n fs, n sp, n_of_int 1, n fi, n fo, n_of_string "4294967295", nlist w)
    else BFile (n bs, n fi, n fo, n fs, nlist w)
  | _ -> failwith "file"

let parse_node () =
  let mode = nextn () in let uid = nextn () in let gid = nextn () in let mtime = nextn () in
  let nlink = nextn () in let xattr = nextn () in
  let k = next () in
  let p = match k with
    | "d" ->
      let par = nextn () in
      let cnt = int_of_string (next ()) in
      let ch = List.init cnt (fun _ -> let nm = unhex (next ()) in let c = nextn () in (nm, c)) in
      PDir (par, ch)
    | "f" -> PFile (parse_file (next ()))
    | "l" -> PSlink (unhex (next ()))
    | "b" -> PDev (false, nextn ())
    | "c" -> PDev (true, nextn ())
    | "p" -> PIpc false
    | "s" -> PIpc true
    | _ -> failwith "kind" in
  { fn_mode = mode; fn_uid = uid; fn_gid = gid; fn_mtime = mtime; fn_nlink = nlink; fn_xattr = xattr; fn_payload = p }

let parse_tree () =
  let cnt = int_of_string (next ()) in
  List.init cnt (fun _ -> parse_node ())

let rec nat_of_int i = let r = ref O in for _ = 1 to i do r := S !r done; !r
let rec int_of_nat = function O -> 0 | S n -> 1 + int_of_nat n

let b01 b = if b then "1" else "0"

(* ---- the listing ---- *)
let opt_s = function Some x -> string_of_n x | None -> "?"

let listing (t : ltree) : string =
  let b = Buffer.create 65536 in
  let cnt = ref 0 in
  let rec go depth name (LT (v, ents)) =
    incr cnt;
    Buffer.add_string b (Printf.sprintf " %d %s %s %s %s %s %s %s %s " depth (hex name) (string_of_n v.lv_mode)
                           (opt_s v.lv_uid) (opt_s v.lv_gid) (string_of_n v.lv_mtime) (string_of_n v.lv_ino)
                           (string_of_n v.lv_nlink) (string_of_n v.lv_xattr));
    (match v.lv_kind with
     | LDir par -> Buffer.add_string b ("d " ^ string_of_n par)
     | LFile (st, sz, sp, fi, fo, w) ->
       Buffer.add_string b (Printf.sprintf "f %s:%s:%s:%s:%s:%s" (string_of_n st) (string_of_n sz) (string_of_n sp)
                              (string_of_n fi) (string_of_n fo) (nlist_s w))
     | LSlink tg -> Buffer.add_string b ("l " ^ hex tg)
     | LDev (chr, d) -> Buffer.add_string b ((if chr then "c " else "b ") ^ string_of_n d)
     | LIpc sock -> Buffer.add_string b (if sock then "s" else "p"));
    List.iter (fun (nm, s) -> go (depth + 1) nm s) ents in
  go 0 [] t;
  string_of_int !cnt ^ Buffer.contents b

let rec count_lt (LT (_, ents)) = List.fold_left (fun a (_, s) -> a + count_lt s) 1 ents

let rec first_diff path a b =
  match a, b with
  | LT (va, ea), LT (vb, eb) ->
    if va <> vb then Some (path ^ " view(ino " ^ string_of_n va.lv_ino ^ "/" ^ string_of_n vb.lv_ino ^ ")")
    else if List.length ea <> List.length eb then Some (path ^ " entry-count")
    else
      List.fold_left2 (fun acc (na, sa) (nb, sb) ->
          match acc with
          | Some _ -> acc
          | None -> if na <> nb then Some (path ^ " name " ^ hex na ^ "/" ^ hex nb) else first_diff (path ^ "/" ^ hex na) sa sb)
        None ea eb

let cmd_c05 () =
  let mode = nextn () in
  let bs = nextn () in
  let t = parse_tree () in
  let img = unhex (next ()) in
  let n = List.length t in
  let depth = nat_of_int n in
  let efuel = S (max_entries t) in
  let fuel = nat_of_int (max 64 (List.length img)) in
  let flags = match hyp_flags (img_compress mode) c_id_table_limit bs t with
    | Some ((r, f), a) -> Printf.sprintf "r%s f%s a%s" (b01 r) (b01 f) (b01 a)
    | None -> "-" in
  let spec = spec_tree t depth (n_of_int n) in
  let out = read_image_out (uc_of (img_uncompress mode)) depth efuel fuel img in
  let sl = match spec with Some y -> listing y | None -> "-" in
  let verdict, ml =
    match out, spec with
    | RTree (s, _, x), Some y ->
      let l = listing x in
      if opt_ltree_eqb (Some x) spec && l = sl && int_of_n s.s_inode_count = n && s.s_block_size = bs
      then (Printf.sprintf "OK %d" (count_lt x), l)
      else ((match first_diff "" x y with
             | Some d -> "MISMATCH " ^ String.concat "_" (String.split_on_char ' ' d)
             | None -> "MISMATCH super-block"), l)
    | RTree (_, _, x), None -> ("NOSPEC", listing x)
    | RErr e, _ -> (Printf.sprintf "ERR %d" (int_of_z e), "-")
    | RCrash, _ -> ("CRASH", "-")
    | RFuel, _ -> ("FUEL", "-") in
  Printf.printf "%s # %s | S %s | M %s\n" verdict flags sl ml

let () =
  try
    while true do
      let line = input_line stdin in
      toks := Array.of_list (List.filter (fun s -> s <> "") (String.split_on_char ' ' line));
      pos := 0;
      (try
         match next () with
         | "c05" -> cmd_c05 ()
         | _ -> print_string "PARSE\n"
       with Failure m -> Printf.printf "PARSE %s\n" m
          | Invalid_argument m -> Printf.printf "PARSE %s\n" m);
      flush stdout
    done
  with End_of_file -> ()
