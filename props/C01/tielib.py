"""C01: running a C harness and the model driver on the same cases (text protocol "<model input> | <result>")."""
import os
import subprocess
from concurrent.futures import ThreadPoolExecutor

ENV = dict(os.environ, ASAN_OPTIONS="detect_leaks=0:abort_on_error=0:allocator_may_return_null=1", UBSAN_OPTIONS="print_stacktrace=1")
ENV.pop("SOURCE_DATE_EPOCH", None)


def run_proc(exe, lines, timeout=600):
    data = ("\n".join(lines) + "\n").encode()
    try:
        r = subprocess.run([exe], input=data, stdout=subprocess.PIPE, stderr=subprocess.PIPE, env=ENV, timeout=timeout)
        return r.returncode, r.stdout.decode("latin-1").split("\n"), r.stderr.decode("latin-1")
    except subprocess.TimeoutExpired as e:
        return 124, (e.stdout or b"").decode("latin-1").split("\n"), "[timeout]"


def split_line(l):
    if " | " not in l:
        return l, None
    a, b = l.split(" | ", 1)
    return a, b


def tie_component(ctx, harness, driver, lines, name, chunk=4000):
    """run harness then model on the harness's echoed model inputs; returns list of (input, impl, model)"""
    results = []
    bad_rc = None
    chunks = [lines[i:i + chunk] for i in range(0, len(lines), chunk)]

    def one(ch):
        rc, out, err = run_proc(harness, ch)
        out = [o for o in out if o != ""]
        ins, res = [], []
        for o in out:
            a, b = split_line(o)
            ins.append(a)
            res.append(b)
        rc2, mout, merr = run_proc(driver, ins)
        mout = [o for o in mout if o != ""]
        return rc, err, ch, ins, res, rc2, mout, merr

    with ThreadPoolExecutor(max_workers=8) as ex:
        for rc, err, ch, ins, res, rc2, mout, merr in ex.map(one, chunks):
            if rc != 0 or len(res) != len(ch):
                k = min(len(res), len(ch) - 1)
                bad_rc = (rc, err[-3000:], ch[k])
            if rc2 != 0:
                bad_rc = bad_rc or (rc2, "model driver died: " + merr[-500:], ins[min(len(mout), len(ins) - 1)] if ins else "")
            for i in range(min(len(ins), len(mout))):
                results.append((ins[i], res[i], mout[i]))
    return results, bad_rc


