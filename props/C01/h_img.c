/* C01 composition harness: sqfs_serialize_fstree (lib/common/src/writer/serialize_fstree.c) of the working tree,
 * driven on an in-memory sqfs_file_t from an fstree built with fstree_add_generic + fstree_post_process.
 *
 * stdin: one case per line
 *   T <toymode> <bs> <prefill> <duid> <dgid> <dmtime> <dperm-oct> <n> { E }*n
 *   E = <hexpath|-> <type f|d|l|b|c|p|s|h> <perm-oct> <uid> <gid> <mtime> <rdev> <xattr> <extra>
 *       extra: l -> hex target; h (hard link) -> hex target path; f -> F; others "-"
 *       F = <ext 0|1>:<blocks_start>:<frag_idx>:<frag_off>:<file_size>:<sparse>:<w,w,..|->   (the inode the block
 *           processor would have left in node->data.file.inode; ext: nlink 1, no xattr)
 * stdout: "<model input> | <result>"
 *   model input = img <toymode> <bs> <N> { <mode> <uid> <gid> <mtime> <nlink> <xattr> K }*N   (fs->inodes[] after
 *                 fstree_post_process, i.e. in inode number order)
 *       K = d <parent_ino> <nch> { <hexname> <target_ino> }*  |  f F  |  l <hex>  |  b <devno>  |  c <devno>  |  p  |  s
 *   result = <rc> <root_ref> <refs,|-> <ids,|-> <hex inode table> <hex directory table>
 *            (rc of sqfs_serialize_fstree; when the tree could not be built: "-1 build add <i>" = fstree_add_generic
 *            number i failed, "-1 build post" = fstree_post_process failed, "-1 build parse" = bad case line;
 *            the ImgPost tie compares these verdicts with the extracted lib/fstree model)
 *
 * W <same fields as T>: whole image.  As T, with at least 96 prefill bytes; the super block is set up by
 *   sqfs_super_init before and, after sqfs_serialize_fstree, the steps of sqfs_writer_finish the tree readers depend
 *   on are performed with the library's own functions: inode_count, sqfs_id_table_write, bytes_used, sqfs_super_write.
 *   The in-memory file then is [super block | rest of the prefill | inode table | directory table | id table].
 * stdout: "<model input> | <result as for T> | <hex of the whole file> | <real reader>"
 *   real reader = what libsquashfs itself reads from that file (sqfs_super_read, sqfs_id_table_read,
 *   sqfs_dir_reader_create, sqfs_dir_reader_get_full_hierarchy; toy decompressor), as a pre-order listing
 *     "R <n> { <depth> <hexname|-> <mode> <uid> <gid> <mtime> <ino> <nlink> <xattr> K }*n"  or  "E <rc> <step>"
 *   K = d <parent_ino> | f <start>:<size>:<sparse>:<frag_idx>:<frag_off>:<w,w,..|-> | l <hex|-> | b <devno> |
 *       c <devno> | p | s      (the same listing props/C01/reader_driver.ml prints for the C05 reader model) */
#include "h_common.h"
#include "simple_writer.h"
#include "common.h"
#include "fstree.h"
#include "dir_tree.h"
#include "sqfs/dir_reader.h"
#include "sqfs/id_table.h"
#include <errno.h>

/* ---- toy compressors: modes 0,1,2 = props/C03/h_dirmeta.c (MetaModel.toy_compress), 3 = zero-run-length
 *      (Img/TreeModel.v zrle_compress) ---- */
typedef struct {
	sqfs_compressor_t base;
	int mode;
} toy_t;

static sqfs_s32 toy_do_block(sqfs_compressor_t *c, const sqfs_u8 *in, sqfs_u32 size, sqfs_u8 *out, sqfs_u32 outsize)
{
	toy_t *t = (toy_t *)c;
	sqfs_u32 i;

	if (t->mode == 0 || size == 0)
		return 0;
	if (t->mode == 1) {
		if (size < 5 || size >= 16777216 || outsize < 4) return 0;
		for (i = 1; i < size; ++i)
			if (in[i] != in[0]) return 0;
		out[0] = in[0];
		out[1] = size & 0xFF; out[2] = (size >> 8) & 0xFF; out[3] = (size >> 16) & 0xFF;
		return 4;
	}
	if (t->mode == 3) {
		sqfs_u32 o = 0, z = 0;
		for (i = 0; i < size; ++i) {
			if (in[i] == 0) {
				if (z == 255) {
					if (o + 2 > outsize) return 0;
					out[o++] = 0; out[o++] = 255;
					z = 1;
				} else {
					++z;
				}
			} else {
				if (z != 0) {
					if (o + 2 > outsize) return 0;
					out[o++] = 0; out[o++] = (sqfs_u8)z;
					z = 0;
				}
				if (o + 1 > outsize) return 0;
				out[o++] = in[i];
			}
		}
		if (z != 0) {
			if (o + 2 > outsize) return 0;
			out[o++] = 0; out[o++] = (sqfs_u8)z;
		}
		return o < size ? (sqfs_s32)o : 0;
	}
	if (size < 64 && outsize >= size + 2) {
		out[0] = 0xEE; out[1] = 0xEE;
		memcpy(out + 2, in, size);
		return size + 2;
	}
	return 0;
}

static toy_t toy;
static memfile_t mf;

/* the inverse direction (Img.TreeModel.img_uncompress): 0 = "does not fit", < 0 = not a compressed block */
static sqfs_s32 toy_undo_block(sqfs_compressor_t *c, const sqfs_u8 *in, sqfs_u32 size, sqfs_u8 *out, sqfs_u32 outsize)
{
	toy_t *t = (toy_t *)c;
	sqfs_u32 i, o = 0, n;

	if (t->mode == 3) {
		for (i = 0; i < size; ) {
			if (in[i] == 0) {
				if (i + 1 >= size || in[i + 1] == 0) return SQFS_ERROR_COMPRESSOR;
				n = in[i + 1];
				if (o + n > outsize) return 0;
				memset(out + o, 0, n);
				o += n;
				i += 2;
			} else {
				if (o + 1 > outsize) return 0;
				out[o++] = in[i++];
			}
		}
		return (sqfs_s32)o;
	}
	if (size != 4) return SQFS_ERROR_COMPRESSOR;
	n = in[1] | (in[2] << 8) | ((sqfs_u32)in[3] << 16);
	if (n > outsize) return 0;
	memset(out, in[0], n);
	return (sqfs_s32)n;
}

static toy_t untoy;

static char *tok(void) { return strtok(NULL, " \n"); }
static unsigned long long num(void) { char *t = tok(); return t ? strtoull(t, NULL, 10) : 0; }
static unsigned long long onum(void) { char *t = tok(); return t ? strtoull(t, NULL, 8) : 0; }

static sqfs_inode_generic_t *parse_file_inode(char *spec)
{
	unsigned long long f[6];
	sqfs_inode_generic_t *n;
	size_t k = 0;
	char *p = spec;
	int i;

	for (i = 0; i < 6; ++i) {
		f[i] = strtoull(p, &p, 10);
		if (*p != ':') return NULL;
		++p;
	}
	n = calloc(1, sizeof(*n) + strlen(p) * 4 + 16);
	n->payload_bytes_available = strlen(p) * 4 + 16;
	if (f[0]) {
		n->base.type = SQFS_INODE_EXT_FILE;
		n->data.file_ext.blocks_start = f[1];
		n->data.file_ext.fragment_idx = f[2];
		n->data.file_ext.fragment_offset = f[3];
		n->data.file_ext.file_size = f[4];
		n->data.file_ext.sparse = f[5];
		n->data.file_ext.nlink = 1;
		n->data.file_ext.xattr_idx = 0xFFFFFFFF;
	} else {
		n->base.type = SQFS_INODE_FILE;
		n->data.file.blocks_start = f[1];
		n->data.file.fragment_index = f[2];
		n->data.file.fragment_offset = f[3];
		n->data.file.file_size = f[4];
	}
	if (strcmp(p, "-") != 0) {
		while (*p) {
			n->extra[k++] = (sqfs_u32)strtoull(p, &p, 10);
			if (*p == ',') ++p;
		}
	}
	n->payload_bytes_used = k * 4;
	return n;
}

static void print_file_inode(const sqfs_inode_generic_t *n)
{
	size_t i, k = n->payload_bytes_used / 4;

	if (n->base.type == SQFS_INODE_EXT_FILE) {
		printf("1:%llu:%u:%u:%llu:%llu:", (unsigned long long)n->data.file_ext.blocks_start,
		       n->data.file_ext.fragment_idx, n->data.file_ext.fragment_offset,
		       (unsigned long long)n->data.file_ext.file_size, (unsigned long long)n->data.file_ext.sparse);
	} else {
		printf("0:%u:%u:%u:%u:0:", n->data.file.blocks_start, n->data.file.fragment_index,
		       n->data.file.fragment_offset, n->data.file.file_size);
	}
	if (k == 0) fputs("-", stdout);
	for (i = 0; i < k; ++i) printf("%s%u", i ? "," : "", n->extra[i]);
}

static unsigned int type_bits(char c)
{
	switch (c) {
	case 'f': return S_IFREG;
	case 'd': return S_IFDIR;
	case 'l': case 'h': return S_IFLNK;
	case 'b': return S_IFBLK;
	case 'c': return S_IFCHR;
	case 'p': return S_IFIFO;
	case 's': return S_IFSOCK;
	}
	return 0;
}

static void dump_node(const tree_node_t *n)
{
	const tree_node_t *it, *tgt;
	size_t cnt = 0;

	printf(" %u %u %u %u %u %u ", (unsigned)n->mode, n->uid, n->gid, n->mod_time, n->link_count, n->xattr_idx);
	switch (n->mode & S_IFMT) {
	case S_IFDIR:
		for (it = n->data.children; it != NULL; it = it->next) ++cnt;
		printf("d %u %zu", n->parent ? n->parent->inode_num : 0, cnt);
		for (it = n->data.children; it != NULL; it = it->next) {
			tgt = (S_ISLNK(it->mode) && (it->flags & FLAG_LINK_IS_HARD)) ? it->data.target_node : it;
			putchar(' ');
			puthex((const sqfs_u8 *)it->name, strlen(it->name));
			printf(" %u", tgt->inode_num);
		}
		break;
	case S_IFREG:
		fputs("f ", stdout);
		print_file_inode(n->data.file.inode);
		break;
	case S_IFLNK:
		fputs("l ", stdout);
		puthex((const sqfs_u8 *)n->data.target, strlen(n->data.target));
		break;
	case S_IFBLK: printf("b %llu", (unsigned long long)n->data.devno); break;
	case S_IFCHR: printf("c %llu", (unsigned long long)n->data.devno); break;
	case S_IFIFO: fputs("p", stdout); break;
	case S_IFSOCK: fputs("s", stdout); break;
	}
}

static char line[1 << 25];
static char pathbuf[1 << 17], extrabuf[1 << 17];

static void free_file_inodes(fstree_t *fs)
{
	size_t i;

	for (i = 0; i < fs->unique_inode_count; ++i) {
		tree_node_t *n = fs->inodes[i];
		if (S_ISREG(n->mode)) {
			free(n->data.file.inode);
			n->data.file.inode = NULL;
		}
	}
}


/* ---- the tree libsquashfs reads back (W) ---- */
static size_t count_nodes(const sqfs_tree_node_t *n)
{
	const sqfs_tree_node_t *it;
	size_t c = 1;

	for (it = n->children; it != NULL; it = it->next) c += count_nodes(it);
	return c;
}

static void dump_words(const sqfs_inode_generic_t *i)
{
	size_t k, cnt = i->payload_bytes_used / sizeof(sqfs_u32);

	if (cnt == 0) fputs("-", stdout);
	for (k = 0; k < cnt; ++k) printf("%s%u", k ? "," : "", i->extra[k]);
}

static void dump_read_node(const sqfs_tree_node_t *n, unsigned depth)
{
	const sqfs_inode_generic_t *i = n->inode;
	const sqfs_tree_node_t *it;
	sqfs_u32 xattr = 0xFFFFFFFF;
	unsigned long long nlink = 1;

	sqfs_inode_get_xattr_index(i, &xattr);
	switch (i->base.type) {
	case SQFS_INODE_DIR: nlink = i->data.dir.nlink; break;
	case SQFS_INODE_EXT_DIR: nlink = i->data.dir_ext.nlink; break;
	case SQFS_INODE_FILE: nlink = 1; break;
	case SQFS_INODE_EXT_FILE: nlink = i->data.file_ext.nlink; break;
	case SQFS_INODE_SLINK: nlink = i->data.slink.nlink; break;
	case SQFS_INODE_EXT_SLINK: nlink = i->data.slink_ext.nlink; break;
	case SQFS_INODE_BDEV: case SQFS_INODE_CDEV: nlink = i->data.dev.nlink; break;
	case SQFS_INODE_EXT_BDEV: case SQFS_INODE_EXT_CDEV: nlink = i->data.dev_ext.nlink; break;
	case SQFS_INODE_FIFO: case SQFS_INODE_SOCKET: nlink = i->data.ipc.nlink; break;
	case SQFS_INODE_EXT_FIFO: case SQFS_INODE_EXT_SOCKET: nlink = i->data.ipc_ext.nlink; break;
	}
	printf(" %u ", depth);
	puthex(n->name, strlen((const char *)n->name));
	printf(" %u %u %u %u %u %llu %u ", (unsigned)i->base.mode, n->uid, n->gid, i->base.mod_time, i->base.inode_number,
	       nlink, xattr);
	switch (i->base.type) {
	case SQFS_INODE_DIR: printf("d %u", i->data.dir.parent_inode); break;
	case SQFS_INODE_EXT_DIR: printf("d %u", i->data.dir_ext.parent_inode); break;
	case SQFS_INODE_FILE:
		printf("f %u:%u:0:%u:%u:", i->data.file.blocks_start, i->data.file.file_size,
		       i->data.file.fragment_index, i->data.file.fragment_offset);
		dump_words(i);
		break;
	case SQFS_INODE_EXT_FILE:
		printf("f %llu:%llu:%llu:%u:%u:", (unsigned long long)i->data.file_ext.blocks_start,
		       (unsigned long long)i->data.file_ext.file_size, (unsigned long long)i->data.file_ext.sparse,
		       i->data.file_ext.fragment_idx, i->data.file_ext.fragment_offset);
		dump_words(i);
		break;
	case SQFS_INODE_SLINK:
		fputs("l ", stdout); puthex((const sqfs_u8 *)i->extra, i->data.slink.target_size); break;
	case SQFS_INODE_EXT_SLINK:
		fputs("l ", stdout); puthex((const sqfs_u8 *)i->extra, i->data.slink_ext.target_size); break;
	case SQFS_INODE_BDEV: printf("b %u", i->data.dev.devno); break;
	case SQFS_INODE_CDEV: printf("c %u", i->data.dev.devno); break;
	case SQFS_INODE_EXT_BDEV: printf("b %u", i->data.dev_ext.devno); break;
	case SQFS_INODE_EXT_CDEV: printf("c %u", i->data.dev_ext.devno); break;
	case SQFS_INODE_FIFO: case SQFS_INODE_EXT_FIFO: fputs("p", stdout); break;
	case SQFS_INODE_SOCKET: case SQFS_INODE_EXT_SOCKET: fputs("s", stdout); break;
	default: printf("? %u", i->base.type); break;
	}
	for (it = n->children; it != NULL; it = it->next) dump_read_node(it, depth + 1);
}

static void real_reader(sqfs_file_t *file, int mode)
{
	sqfs_tree_node_t *root = NULL;
	sqfs_dir_reader_t *dr = NULL;
	sqfs_id_table_t *idt = NULL;
	sqfs_super_t super;
	const char *step = "super";
	int rc;

	untoy.mode = mode;
	rc = sqfs_super_read(&super, file);
	if (rc) goto fail;
	step = "idtbl";
	idt = sqfs_id_table_create(0);
	if (idt == NULL) { rc = SQFS_ERROR_ALLOC; goto fail; }
	rc = sqfs_id_table_read(idt, file, &super, &untoy.base);
	if (rc) goto fail;
	step = "dirreader";
	dr = sqfs_dir_reader_create(&super, &untoy.base, file, 0);
	if (dr == NULL) { rc = SQFS_ERROR_ALLOC; goto fail; }
	step = "hierarchy";
	rc = sqfs_dir_reader_get_full_hierarchy(dr, idt, NULL, 0, &root);
	if (rc) goto fail;
	printf("R %zu", count_nodes(root));
	dump_read_node(root, 0);
	goto out;
fail:
	printf("E %d %s", rc, step);
out:
	sqfs_dir_tree_destroy(root);
	if (dr) sqfs_drop(dr);
	if (idt) sqfs_drop(idt);
}

static void do_case(int whole)
{
	sqfs_writer_t wr;
	fstree_defaults_t def;
	unsigned long long mode, bs, prefill, n, i;
	sqfs_u64 istart, dstart;
	int rc, built = 1;
	const char *why = "parse";
	sqfs_u32 id;
	unsigned k;

	memset(&wr, 0, sizeof(wr));
	mode = num(); bs = num(); prefill = num();
	if (whole && prefill < sizeof(sqfs_super_t)) prefill = sizeof(sqfs_super_t);
	def.uid = num(); def.gid = num(); def.mtime = num(); def.mode = S_IFDIR | onum();
	n = num();
	if (fstree_init(&wr.fs, &def)) { puts("img - | -1 init"); return; }

	for (i = 0; i < n && built; ++i) {
		char *hp = tok(), *ty = tok();
		unsigned long long perm = onum(), uid = num(), gid = num(), mtime = num(), rdev = num(), xattr = num();
		char *ex = tok();
		sqfs_dir_entry_t *ent;
		tree_node_t *node;
		const char *extra = NULL;
		size_t l;

		if (!hp || !ty || !ex) { built = 0; break; }
		l = unhex(hp, (sqfs_u8 *)pathbuf);
		pathbuf[l] = 0;
		ent = calloc(1, sizeof(*ent) + l + 1);
		strcpy(ent->name, pathbuf);
		ent->mode = type_bits(ty[0]) | perm;
		ent->uid = uid; ent->gid = gid; ent->mtime = mtime; ent->rdev = rdev;
		if (ty[0] == 'h') ent->flags |= SQFS_DIR_ENTRY_FLAG_HARD_LINK;
		if (ty[0] == 'l' || ty[0] == 'h') {
			l = unhex(ex, (sqfs_u8 *)extrabuf);
			extrabuf[l] = 0;
			extra = extrabuf;
		}
		node = fstree_add_generic(&wr.fs, ent, extra);
		free(ent);
		if (node == NULL) { built = 0; why = "add"; break; }
		if (ty[0] != 'h') node->xattr_idx = (sqfs_u32)xattr;
		if (ty[0] == 'f') {
			node->data.file.inode = parse_file_inode(ex);
			if (node->data.file.inode == NULL) { built = 0; break; }
		}
	}
	if (built && fstree_post_process(&wr.fs)) { built = 0; why = "post"; }
	if (!built) {
		if (!strcmp(why, "add"))
			printf("img - | -1 build add %llu\n", i);
		else
			printf("img - | -1 build %s\n", why);
		fstree_cleanup(&wr.fs);
		return;
	}

	printf("img %llu %llu %zu", mode, bs, wr.fs.unique_inode_count);
	for (i = 0; i < wr.fs.unique_inode_count; ++i)
		dump_node(wr.fs.inodes[i]);

	memfile_reset(&mf);
	if (prefill) {
		sqfs_u8 *z = calloc(1, prefill);
		memset(z, 0xA5, prefill);
		mf.base.write_at(&mf.base, 0, z, prefill);
		free(z);
	}
	toy.mode = (int)mode;
	wr.filename = "mem";
	wr.outfile = &mf.base;
	wr.cmp = &toy.base;
	wr.idtbl = sqfs_id_table_create(0);
	wr.im = sqfs_meta_writer_create(wr.outfile, wr.cmp, 0);
	wr.dm = sqfs_meta_writer_create(wr.outfile, wr.cmp, SQFS_META_WRITER_KEEP_IN_MEMORY);
	wr.dirwr = sqfs_dir_writer_create(wr.dm, 0);
	wr.super.block_size = (sqfs_u32)bs;
	if (whole) {
		if (sqfs_super_init(&wr.super, bs, 0, SQFS_COMP_GZIP)) whole = 0;     /* block size the format does not allow */
		wr.super.inode_count = wr.fs.unique_inode_count;
	}

	rc = sqfs_serialize_fstree("mem", &wr);

	istart = wr.super.inode_table_start;
	dstart = wr.super.directory_table_start;
	printf(" | %d ", rc);
	if (rc == 0) {
		printf("%llu ", (unsigned long long)wr.super.root_inode_ref);
		for (i = 0; i < wr.fs.unique_inode_count; ++i)
			printf("%s%llu", i ? "," : "", (unsigned long long)wr.fs.inodes[i]->inode_ref);
		putchar(' ');
		for (k = 0; k < 0x10000 && sqfs_id_table_index_to_id(wr.idtbl, (sqfs_u16)k, &id) == 0; ++k)
			printf("%s%u", k ? "," : "", id);
		if (k == 0) fputs("-", stdout);
		putchar(' ');
		if (istart != prefill || dstart < istart || dstart > mf.used) {
			printf("BAD-LAYOUT %llu %llu %zu", (unsigned long long)istart, (unsigned long long)dstart, mf.used);
		} else {
			puthex(mf.data + istart, dstart - istart);
			putchar(' ');
			puthex(mf.data + dstart, mf.used - dstart);
		}
	} else {
		fputs("-", stdout);
	}
	if (whole && rc == 0) {
		int r2 = sqfs_id_table_write(wr.idtbl, wr.outfile, &wr.super, wr.cmp);

		wr.super.bytes_used = wr.outfile->get_size(wr.outfile);
		if (r2 == 0) r2 = sqfs_super_write(&wr.super, wr.outfile);
		fputs(" | ", stdout);
		if (r2) {
			printf("FINISH-FAILED %d | -", r2);
		} else {
			puthex(mf.data, mf.used);
			fputs(" | ", stdout);
			if (mode == 2) fputs("-", stdout); else real_reader(wr.outfile, (int)mode);
		}
	}
	putchar('\n');

	free_file_inodes(&wr.fs);      /* serialize_tree_node takes (and frees) the ones it reached */
	sqfs_drop(wr.dirwr);
	sqfs_drop(wr.dm);
	sqfs_drop(wr.im);
	sqfs_drop(wr.idtbl);
	fstree_cleanup(&wr.fs);
}

int main(void)
{
	memfile_init(&mf);
	memset(&toy, 0, sizeof(toy));
	toy.base.base.refcount = 1 << 20;
	toy.base.base.destroy = cmp_destroy;
	toy.base.do_block = toy_do_block;
	memset(&untoy, 0, sizeof(untoy));
	untoy.base.base.refcount = 1 << 20;
	untoy.base.base.destroy = cmp_destroy;
	untoy.base.do_block = toy_undo_block;

	while (fgets(line, sizeof(line), stdin)) {
		char *cmd = strtok(line, " \n");
		if (!cmd) continue;
		if (!strcmp(cmd, "T")) do_case(0);
		else if (!strcmp(cmd, "W")) do_case(1);
		else puts("img - | PARSE");
		fflush(stdout);
	}
	return 0;
}
