"""C01 / ImgPost search oracle: the property "the tree handed to the serializer is the tree the add operations
describe" evaluated directly on the implementation, independently of the Coq model.

expected(line): a plain-Python reading of the add-operation list (mkdir -p with the defaults for missing components, an
implicitly created directory may be added once more as a directory, everything else that exists is refused; a hard link
stands for the node its target path leads to, through further hard links) -> verdict and  path -> (mode, uid, gid, mtime,
payload), hard-link groups.
actual(dump): the tree h_img.c dumped from fs->inodes after fstree_post_process, walked from the root (last inode) along
the directory entries (name, inode number) -> the same map, groups = paths sharing an inode number.
Compared: verdicts, path sets, per-path attributes, groups, link counts (non-directories: size of the group; directories:
2 + number of entries, which is what lib/fstree maintains), inode numbers 1..N each reachable, entries sorted by bytes and
numbered below their directory."""

S_IF = dict(f=0o100000, d=0o040000, l=0o120000, h=0o120000, b=0o060000, c=0o020000, p=0o010000, s=0o140000)
U32 = 1 << 32


def unhex(s):
    return b"" if s == "-" else bytes.fromhex(s)


def s64(v):
    v &= (1 << 64) - 1
    return v - (1 << 64) if v >= (1 << 63) else v


def clamp(ts):
    return 0 if ts < 0 else (U32 - 1 if ts > U32 - 1 else ts)


def canon(target):
    comps = target.split(b"/")
    if b".." in comps:
        return None
    return tuple(c for c in comps if c not in (b"", b"."))


def expected(line):
    """-> ("add", i) | ("post",) | ("ok", {path: view}, {path: ident}, {path: nchildren})"""
    t = line.split(" ")
    duid, dgid, dmtime, dperm = int(t[4]), int(t[5]), int(t[6]), int(t[7], 8)
    n = int(t[8])
    root = dict(ty="d", perm=dperm & 0o7777, uid=duid, gid=dgid, mtime=dmtime, implicit=True, ch={}, xattr=U32 - 1)
    links = []
    pos = 9
    for i in range(n):
        hp, ty, perm, uid, gid, mtime, rdev, xattr, ex = t[pos:pos + 9]
        pos += 9
        perm, uid, gid, mtime, rdev, xattr = int(perm, 8), int(uid), int(gid), s64(int(mtime)), int(rdev), int(xattr)
        comps = [c for c in unhex(hp).split(b"/") if c != b""]
        node = root
        ok = True
        for c in comps[:-1]:
            if node["ty"] != "d":
                ok = False
                break
            if c not in node["ch"]:
                node["ch"][c] = dict(ty="d", perm=dperm & 0o7777, uid=duid, gid=dgid, mtime=dmtime, implicit=True, ch={}, xattr=U32 - 1)
            node = node["ch"][c]
        if not ok:
            return ("add", i)
        if comps:
            if node["ty"] != "d":
                return ("add", i)
            child = node["ch"].get(comps[-1])
        else:
            child = root
        if child is not None:
            if child["ty"] != "d" or ty != "d" or not child["implicit"]:
                return ("add", i)
            child.update(perm=perm, uid=uid, gid=gid, mtime=mtime % U32, implicit=False, xattr=xattr)
            continue
        new = dict(ty=ty, perm=perm, uid=uid, gid=gid, mtime=clamp(mtime), implicit=False, ch={}, xattr=xattr)
        if ty == "h":
            tgt = canon(unhex(ex))
            if tgt is None:
                return ("add", i)
            new.update(perm=0o777, target=tgt, xattr=U32 - 1)
            links.append(tuple(comps))
        elif ty == "l":
            new.update(perm=0o777, payload=("l", ex))
        elif ty in "bc":
            new["payload"] = (ty, rdev)
        elif ty == "f":
            new["payload"] = ("f", ex)
        node["ch"][comps[-1]] = new

    def lookup(path):
        nd = root
        for c in path:
            if nd["ty"] != "d" or c not in nd["ch"]:
                return None
            nd = nd["ch"][c]
        return nd

    def resolve(path):
        seen = set()
        cur = path
        while True:
            nd = lookup(cur)
            if nd is None:
                return None
            if nd["ty"] != "h":
                return None if nd["ty"] == "d" else cur
            if cur in seen:
                return None
            seen.add(cur)
            cur = nd["target"]

    ident, views, nch = {}, {}, {}
    for l in links:
        if resolve(l) is None:
            return ("post",)

    def walk(path, nd):
        idp = resolve(path) if nd["ty"] == "h" else path
        tn = lookup(idp)
        ident[path] = idp
        views[path] = (S_IF[tn["ty"]] | tn["perm"], tn["uid"] % U32, tn["gid"] % U32, tn["mtime"], tn["xattr"],
                       tn.get("payload", (tn["ty"],)))
        if nd["ty"] == "d":
            nch[path] = len(nd["ch"])
            for c in sorted(nd["ch"]):
                walk(path + (c,), nd["ch"][c])
    walk((), root)
    return ("ok", views, ident, nch)


def actual(dump):
    """dump = "img <mode> <bs> <N> nodes..." -> (views, ino per path, nlink per path, problems)"""
    t = dump.split(" ")
    n = int(t[3])
    pos = 4
    nodes = []
    for _ in range(n):
        mode, uid, gid, mtime, nlink, xattr = (int(x) for x in t[pos:pos + 6])
        k = t[pos + 6]
        pos += 7
        if k == "d":
            par, cnt = int(t[pos]), int(t[pos + 1])
            pos += 2
            ch = [(unhex(t[pos + 2 * j]), int(t[pos + 2 * j + 1])) for j in range(cnt)]
            pos += 2 * cnt
            pl = ("d", par, ch)
        elif k == "f":
            pl = ("f", t[pos])
            pos += 1
        elif k == "l":
            pl = ("l", t[pos])
            pos += 1
        elif k in "bc":
            pl = (k, int(t[pos]))
            pos += 1
        else:
            pl = (k,)
        nodes.append((mode, uid, gid, mtime, nlink, xattr, pl))
    problems = []
    views, inos, nlinks = {}, {}, {}
    seen = set()

    def walk(path, ino, parent):
        if not (1 <= ino <= n):
            problems.append("entry %r names inode %d of %d" % (path, ino, n))
            return
        mode, uid, gid, mtime, nlink, xattr, pl = nodes[ino - 1]
        seen.add(ino)
        inos[path] = ino
        nlinks[path] = nlink
        views[path] = (mode, uid, gid, mtime, xattr, pl if pl[0] != "d" else ("d",))
        if pl[0] == "d":
            if pl[1] != parent:
                problems.append("directory %r: parent inode %d, expected %d" % (path, pl[1], parent))
            names = [c[0] for c in pl[2]]
            if names != sorted(set(names)):
                problems.append("directory %r: entries not strictly sorted: %r" % (path, names[:8]))
            for nm, c in pl[2]:
                if c >= ino:
                    problems.append("entry %r/%r has inode %d >= its directory's %d" % (path, nm, c, ino))
                    if len(path) > 200:
                        return
                else:
                    walk(path + (nm,), c, ino)
    if n < 1 or nodes[-1][6][0] != "d":
        problems.append("the last inode is not a directory")
    else:
        walk((), n, 0)
        if len(seen) != n:
            problems.append("%d of %d inodes are not reachable from the root" % (n - len(seen), n))
    return views, inos, nlinks, problems


def check(line, impl):
    """-> None if the implementation's result is what the adds describe, else a short description"""
    exp = expected(line)
    if impl.startswith("img - | -1 build add"):
        got = ("add", int(impl.split(" ")[-1]))
    elif impl.startswith("img - | -1 build post"):
        got = ("post",)
    elif impl.startswith("img -"):
        return None
    else:
        got = ("ok",)
    if exp[0] != "ok" or got[0] != "ok":
        if exp[:2] != got[:2] and not (exp[0] == got[0] == "post"):
            say = lambda v: {"ok": "a valid tree", "post": "unresolvable hard links (fstree_post_process fails)"}.get(v[0]) or "a failure of add %d" % v[1]
            return "verdict: the adds describe %s, lib/fstree: %s" % (say(exp), say(got))
        return None
    _, views, ident, nch = exp
    aviews, inos, nlinks, problems = actual(impl)
    if problems:
        return "; ".join(problems[:3])
    if set(views) != set(aviews):
        miss = sorted(set(views) - set(aviews))[:3]
        extra = sorted(set(aviews) - set(views))[:3]
        return "paths differ: missing %r, unexpected %r" % (miss, extra)
    for p in sorted(views):
        e, a = views[p], aviews[p]
        if e[5][0] == "f":        # the file inode is attached by the harness, not by lib/fstree: compare the kind only
            e, a = e[:5] + (("f",),), a[:5] + ((a[5][0],),)
        if e != a:
            return "path %r: expected %r, tree has %r" % (p, e, a)
    groups_e, groups_a = {}, {}
    for p in views:
        groups_e.setdefault(ident[p], set()).add(p)
        groups_a.setdefault(inos[p], set()).add(p)
    if sorted(map(sorted, groups_e.values())) != sorted(map(sorted, groups_a.values())):
        return "hard-link groups differ: expected %r, tree has %r" % (sorted(map(sorted, groups_e.values()))[:4], sorted(map(sorted, groups_a.values()))[:4])
    for p in views:
        want = 2 + nch[p] if p in nch else len(groups_e[ident[p]])
        if nlinks[p] != want:
            return "path %r: link count %d, expected %d" % (p, nlinks[p], want)
    return None
