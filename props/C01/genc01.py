"""coq/C01/GenC01.v from the working tree.  Stand-alone (no sibling imports) so that vlib.core.prepare_proofs can load it
from ANY property's check without module-name collisions."""
import os
import subprocess

from vlib import build as B
from vlib import core

HERE = os.path.dirname(os.path.abspath(__file__))


def regen_gen(plain):
    """returns (changed, error)"""
    dst = os.path.join(core.COQ, "C01", "GenC01.v")
    cache = os.path.join(core.CACHE, "C01-gen-%s.v" % plain["tree_hash"][:24])
    if os.path.exists(cache):
        txt = open(cache).read()
    else:
        try:
            exe = B.compile_harness(plain, [os.path.join(HERE, "gen_c01.c")], "gen_c01")
        except B.BuildError as e:
            return False, "gen_c01.c does not compile against the working tree: %s" % str(e)[-1500:]
        r = subprocess.run([exe], stdout=subprocess.PIPE, stderr=subprocess.PIPE, timeout=120)
        if r.returncode != 0:
            return False, "gen_c01 failed: %s" % r.stderr.decode()[-500:]
        txt = r.stdout.decode()
        os.makedirs(core.CACHE, exist_ok=True)
        open(cache, "w").write(txt)
    old = open(dst).read() if os.path.exists(dst) else None
    if old != txt:
        open(dst, "w").write(txt)
        return True, None
    return False, None


def regen_genc01():
    """Entry point for vlib.core.prepare_proofs (every property whose closure contains C01/GenC01.v, C01 included):
    regenerate the constants from the working tree BEFORE any .vo is built, so that a value left behind by a run
    against another tree (VERIF_REPO) is never compiled into the proofs of this one.  Returns (changed, error)."""
    return regen_gen(B.build("plain"))
