/* C01 component harness: xattr writer (record + flush) and xattr reader of the working tree.
 *
 * stdin : xw <s|t> <set>;<set>;...     set = <hexkey>:<hexvalue>,...  or "-" (no pairs);  s = store-only
 *                                      compressor, t = toy compressor (runs of one byte shrink to 6 bytes)
 * stdout: xw <sets> K=<block starts of the key/value stream> T=<block starts of the id stream>
 *           | idx=<index per set> add=<first add_kv error or 0> flush=<rc> kv=<hex> ids=<hex> num=<n> locs=<relative> rd=<set;set;...>
 *         where rd holds for every returned index what sqfs_xattr_reader_read_all delivers (<rc>/<hexkey>:<hexvalue>,...) */
#include "h_common.h"
#include "sqfs/xattr_writer.h"
#include "sqfs/xattr_reader.h"
#include "sqfs/xattr.h"

static memfile_t mf;
static sqfs_compressor_t cw_store, cw_toy, cr_toy;
static sqfs_u8 kbuf[1 << 20], vbuf[1 << 22];

static void print_starts(const char *tag, sqfs_u64 *st, size_t n)
{
	size_t i;
	printf(" %s=", tag);
	if (n == 0) fputs("-", stdout);
	for (i = 0; i < n; ++i) printf("%s%llu", i ? "," : "", (unsigned long long)st[i]);
}

int main(void)
{
	static char line[1 << 24];
	static sqfs_u32 idx[1 << 16];
	static sqfs_u64 kst[1 << 16], tst[1 << 16];

	memfile_init(&mf);
	compressor_init(&cw_store, store_block);
	compressor_init(&cw_toy, toy_block);
	compressor_init(&cr_toy, toy_unblock);

	while (fgets(line, sizeof(line), stdin)) {
		size_t l = strlen(line), nsets = 0, i, klen, tlen, nk = 0, nt = 0;
		char *mode, *sets, *p;
		sqfs_xattr_writer_t *xwr;
		sqfs_xattr_reader_t *xr = NULL;
		sqfs_compressor_t *cw;
		sqfs_super_t super;
		sqfs_u8 *kflat = NULL, *tflat = NULL;
		int adderr = 0, frc, lrc = 0;

		while (l > 0 && (line[l - 1] == '\n' || line[l - 1] == '\r')) line[--l] = 0;
		if (strncmp(line, "xw ", 3) != 0) { puts("PARSE"); continue; }
		mode = line + 3;
		sets = strchr(mode, ' ');
		if (!sets) { puts("PARSE"); continue; }
		*sets++ = 0;
		cw = (mode[0] == 't') ? &cw_toy : &cw_store;
		printf("xw %s", sets);

		xwr = sqfs_xattr_writer_create(0);
		p = sets;
		while (*p) {
			char *end = strchr(p, ';');
			if (end) *end = 0;
			sqfs_xattr_writer_begin(xwr, 0);
			if (strcmp(p, "-") != 0) {
				char *q = p;
				while (*q) {
					char *c = strchr(q, ','), *colon;
					size_t kl, vl;
					int rc;
					if (c) *c = 0;
					colon = strchr(q, ':');
					if (!colon) break;
					*colon = 0;
					kl = unhex(q, kbuf);
					kbuf[kl] = 0;
					vl = unhex(colon + 1, vbuf);
					rc = sqfs_xattr_writer_add_kv(xwr, (const char *)kbuf, vbuf, vl);
					if (rc != 0 && adderr == 0) adderr = rc;
					if (!c) break;
					q = c + 1;
				}
			}
			idx[nsets] = 0;
			sqfs_xattr_writer_end(xwr, &idx[nsets]);
			++nsets;
			if (!end) break;
			p = end + 1;
		}

		memfile_reset(&mf);
		{ sqfs_u8 pad[96] = { 0 }; mf_write_at(&mf.base, 0, pad, sizeof(pad)); }
		memset(&super, 0, sizeof(super));
		frc = sqfs_xattr_writer_flush(xwr, &mf.base, &super, cw);
		super.bytes_used = mf.used;
		super.id_table_start = 0;

		if (frc == 0 && super.xattr_id_table_start != 0xFFFFFFFFFFFFFFFFULL) {
			sqfs_xattr_id_table_t hdr;
			sqfs_u64 kv_start, id_start, loc0;
			size_t nloc;
			memcpy(&hdr, mf.data + super.xattr_id_table_start, sizeof(hdr));
			kv_start = le64toh(hdr.xattr_table_start);
			memcpy(&loc0, mf.data + super.xattr_id_table_start + sizeof(hdr), 8);
			id_start = le64toh(loc0);
			kflat = dechunk(mf.data, kv_start, id_start, &klen, kst, &nk);
			tflat = dechunk(mf.data, id_start, super.xattr_id_table_start, &tlen, tst, &nt);
			print_starts("K", kst, nk);
			print_starts("T", tst, nt);
			printf(" | idx=");
			for (i = 0; i < nsets; ++i) printf("%s%u", i ? "," : "", idx[i]);
			printf(" add=%d flush=%d kv=", adderr, frc);
			puthex(kflat, klen);
			printf(" ids=");
			puthex(tflat, tlen);
			printf(" num=%u locs=", le32toh(hdr.xattr_ids));
			nloc = (mf.used - super.xattr_id_table_start - sizeof(hdr)) / 8;
			for (i = 0; i < nloc; ++i) {
				sqfs_u64 v;
				memcpy(&v, mf.data + super.xattr_id_table_start + sizeof(hdr) + 8 * i, 8);
				printf("%s%llu", i ? "," : "", (unsigned long long)(le64toh(v) - id_start));
			}
			/* read back through the library reader */
			xr = sqfs_xattr_reader_create(0);
			lrc = sqfs_xattr_reader_load(xr, &super, &mf.base, &cr_toy);
			printf(" load=%d rd=", lrc);
			for (i = 0; i < nsets; ++i) {
				sqfs_xattr_t *list = NULL, *it;
				int rc = lrc ? lrc : sqfs_xattr_reader_read_all(xr, idx[i], &list);
				int first = 1;
				printf("%s%d/", i ? ";" : "", rc);
				if (rc == 0) {
					for (it = list; it != NULL; it = it->next) {
						if (!first) putchar(',');
						first = 0;
						puthex((const sqfs_u8 *)it->key, strlen(it->key));
						putchar(':');
						puthex(it->value, it->value_len);
					}
					sqfs_xattr_list_free(list);
				}
				if (first) fputs("", stdout);
			}
			putchar('\n');
			sqfs_drop(xr);
		} else {
			printf(" K=- T=- | idx=");
			for (i = 0; i < nsets; ++i) printf("%s%u", i ? "," : "", idx[i]);
			printf(" add=%d flush=%d none\n", adderr, frc);
		}
		free(kflat);
		free(tflat);
		sqfs_drop(xwr);
		fflush(stdout);
	}
	return 0;
}
