/* C01 section 7 harness: the working tree's REAL gensquashfs — bin/gensquashfs/src/mkfs.c main() with options.c,
 * fstree_from_file.c, apply_xattr.c, filemap_xattr.c, glob.c, sort_by_file.c, selinux.c, linked against the libraries of
 * the working tree — with ONE change: every sqfs_compressor_create call (init.c makes two: compressor and uncompressor)
 * is redirected by the linker (-Wl,--wrap=sqfs_compressor_create) to a toy compressor, so that the extracted Gallina
 * model (coq/ImgE2E/PackAll.v pack_all) can predict every byte of the image.
 *
 * usage: E2E_TOYMODE=<0|1|3> h_e2e <gensquashfs arguments>
 *   mode 0 store, 1 run-length (>= 5 equal bytes -> byte, le24 length), 3 zero-run-length (Img/TreeModel.v zrle);
 *   the same functions as props/C03/h_image.c and coq/ImgE2E/DriverDefs.v.
 * mkfs.c is compiled with -Dmain=gensquashfs_main (the only change to the sources). */
#include "config.h"
#include "compat.h"
#include "sqfs/compressor.h"
#include "sqfs/error.h"
#include "sqfs/io.h"
#include "sqfs/block.h"
#include <stdio.h>
#include <stdlib.h>
#include <string.h>

#undef main

typedef struct {
	sqfs_compressor_t base;
	int mode;
	int uncompress;
} toy_t;

static int g_mode;

static sqfs_s32 toy_compress(const toy_t *t, const sqfs_u8 *in, sqfs_u32 size, sqfs_u8 *out, sqfs_u32 outsize)
{
	sqfs_u32 i;

	if (t->mode == 0 || size == 0)
		return 0;
	if (t->mode == 1) {
		if (size < 5 || size >= 16777216 || outsize < 4) return 0;
		for (i = 1; i < size; ++i)
			if (in[i] != in[0]) return 0;
		out[0] = in[0];
		out[1] = size & 0xFF; out[2] = (size >> 8) & 0xFF; out[3] = (size >> 16) & 0xFF;
		return 4;
	}
	{
		sqfs_u32 o = 0, z = 0;
		for (i = 0; i < size; ++i) {
			if (in[i] == 0) {
				if (z == 255) {
					if (o + 2 > outsize) return 0;
					out[o++] = 0; out[o++] = 255;
					z = 1;
				} else {
					++z;
				}
			} else {
				if (z != 0) {
					if (o + 2 > outsize) return 0;
					out[o++] = 0; out[o++] = (sqfs_u8)z;
					z = 0;
				}
				if (o + 1 > outsize) return 0;
				out[o++] = in[i];
			}
		}
		if (z != 0) {
			if (o + 2 > outsize) return 0;
			out[o++] = 0; out[o++] = (sqfs_u8)z;
		}
		return o < size ? (sqfs_s32)o : 0;
	}
}

static sqfs_s32 toy_uncompress(const toy_t *t, const sqfs_u8 *in, sqfs_u32 size, sqfs_u8 *out, sqfs_u32 outsize)
{
	sqfs_u32 i, o = 0;

	if (t->mode == 1) {
		sqfs_u32 n;
		if (size != 4) return SQFS_ERROR_COMPRESSOR;
		n = in[1] | (in[2] << 8) | ((sqfs_u32)in[3] << 16);
		if (n > outsize) return SQFS_ERROR_COMPRESSOR;
		memset(out, in[0], n);
		return n;
	}
	if (t->mode == 3) {
		for (i = 0; i < size; ++i) {
			if (in[i] == 0) {
				if (i + 1 >= size || in[i + 1] == 0 || o + in[i + 1] > outsize) return SQFS_ERROR_COMPRESSOR;
				memset(out + o, 0, in[i + 1]);
				o += in[i + 1];
				++i;
			} else {
				if (o + 1 > outsize) return SQFS_ERROR_COMPRESSOR;
				out[o++] = in[i];
			}
		}
		return o;
	}
	return SQFS_ERROR_COMPRESSOR;
}

static sqfs_s32 toy_do_block(sqfs_compressor_t *c, const sqfs_u8 *in, sqfs_u32 size, sqfs_u8 *out, sqfs_u32 outsize)
{
	const toy_t *t = (const toy_t *)c;
	return t->uncompress ? toy_uncompress(t, in, size, out, outsize) : toy_compress(t, in, size, out, outsize);
}

static int toy_write_options(sqfs_compressor_t *c, sqfs_file_t *file) { (void)c; (void)file; return 0; }
static int toy_read_options(sqfs_compressor_t *c, sqfs_file_t *file) { (void)c; (void)file; return 0; }
static void toy_get_configuration(const sqfs_compressor_t *c, sqfs_compressor_config_t *cfg)
{
	(void)c;
	memset(cfg, 0, sizeof(*cfg));
	cfg->id = SQFS_COMP_GZIP;
}

static void toy_destroy(sqfs_object_t *o) { free(o); }

static sqfs_object_t *toy_copy(const sqfs_object_t *o)
{
	toy_t *n = malloc(sizeof(*n));
	if (n) memcpy(n, o, sizeof(*n));
	return (sqfs_object_t *)n;
}

int __wrap_sqfs_compressor_create(const sqfs_compressor_config_t *cfg, sqfs_compressor_t **out)
{
	toy_t *t = calloc(1, sizeof(*t));
	if (t == NULL) return SQFS_ERROR_ALLOC;
	t->base.base.refcount = 1;
	t->base.base.destroy = toy_destroy;
	t->base.base.copy = toy_copy;
	t->base.do_block = toy_do_block;
	t->base.write_options = toy_write_options;
	t->base.read_options = toy_read_options;
	t->base.get_configuration = toy_get_configuration;
	t->mode = g_mode;
	t->uncompress = (cfg->flags & SQFS_COMP_FLAG_UNCOMPRESS) != 0;
	*out = &t->base;
	return 0;
}

int gensquashfs_main(int argc, char **argv);

int main(int argc, char **argv)
{
	const char *m = getenv("E2E_TOYMODE");

	g_mode = m ? atoi(m) : 0;
	return gensquashfs_main(argc, argv);
}
