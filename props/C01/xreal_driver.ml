(* C01 section 8: driver of the extracted read_all_real (every reader = model of the real reader; the xattr reader is the
   C05 model of xattr_reader.c, ONE reader object threaded through all paths) and of xattr_session (load + read_all on an
   arbitrary index sequence).

   stdin, one case per line:
     X <image path> <comp id> <depth> <efuel>
       a REAL image (any compressor of the build); metadata / data decompressor = the system codec library through
       e2e_stubs.c
   stdout per case:
     A OK <entries> | ERR <code> | CRASH | FUEL                   read_all_real
     N <hexpath> <mode> <uid> <gid> <mtime> <ino> <kind> <datalen|-> <datamd5|-> <hexk=hexv;..|->   per entry, in order
     X <hexpath> <xattr index>                                    per entry, in order
     S OK <n> | ERR <code> | CRASH | FUEL                         xattr_session on ks = rev(distinct indices) @ distinct
                                                                  indices @ [0xFFFFFFFF] (a second reader object, other order)
     K <index> <hexk=hexv;..|->                                   per element of ks, in order
     END
     Q <image path> <comp id> <efuel> <k1,k2,...>
       xattr_session only (sqfs_super_read, sqfs_xattr_reader_load, read_all per index on the one reader object): S / K lines,
       END *)
open C01xreal_model

external c_uncompress : int -> string -> int -> int * string = "c01e2e_uncompress"

let rec pos_of_int i = if i = 1 then XH else if i land 1 = 1 then XI (pos_of_int (i lsr 1)) else XO (pos_of_int (i lsr 1))
let n_of_int i = if i = 0 then N0 else Npos (pos_of_int i)
let rec int_of_pos = function XH -> 1 | XO p -> 2 * int_of_pos p | XI p -> 2 * int_of_pos p + 1
let int_of_n = function N0 -> 0 | Npos p -> int_of_pos p
let rec pos_bits = function XH -> 1 | XO p | XI p -> 1 + pos_bits p
let n10 = n_of_int 10
let string_of_n n =
  match n with
  | N0 -> "0"
  | Npos p when pos_bits p <= 61 -> string_of_int (int_of_pos p)
  | _ ->
    let rec go n acc = match n with
      | N0 -> acc
      | _ -> let (q, r) = N.div_eucl n n10 in go q (String.make 1 (Char.chr (48 + int_of_n r)) ^ acc) in
    go n ""
let int_of_z = function Z0 -> 0 | Zpos p -> int_of_pos p | Zneg p -> - (int_of_pos p)
let nat_of_int i = let rec go acc k = if k <= 0 then acc else go (S acc) (k - 1) in go O i
let int_of_nat n = let rec go acc = function O -> acc | S m -> go (acc + 1) m in go 0 n

let byte_tbl = Array.init 256 n_of_int
let list_of_string s =
  let l = ref [] in
  for i = String.length s - 1 downto 0 do l := byte_tbl.(Char.code s.[i]) :: !l done;
  !l
let string_of_list l =
  let b = Buffer.create 8192 in
  List.iter (fun c -> Buffer.add_char b (Char.chr (int_of_n c land 255))) l;
  Buffer.contents b
let hex_s s =
  if s = "" then "-" else begin
    let b = Buffer.create 16 in
    String.iter (fun c -> Buffer.add_string b (Printf.sprintf "%02x" (Char.code c))) s;
    Buffer.contents b
  end
let read_whole path =
  let ic = open_in_bin path in
  let n = in_channel_length ic in
  let s = really_input_string ic n in
  close_in ic;
  s

let toks = ref [||]
let pos = ref 0
let next () = let t = !toks.(!pos) in incr pos; t
let num () = int_of_string (next ())

let join_path (p : n list list) : string = String.concat "/" (List.map string_of_list p)

let kind_s (k : lkind) =
  match k with
  | LDir _ -> "d"
  | LFile _ -> "f"
  | LSlink t -> "l:" ^ hex_s (string_of_list t)
  | LDev (c, d) -> (if c then "c:" else "b:") ^ string_of_n d
  | LIpc s -> if s then "s" else "p"

let optn = function Some x -> string_of_n x | None -> "?"

let pairs_s = function
  | [] -> "-"
  | l -> String.concat ";" (List.map (fun (k, v) ->
      (let h = hex_s (string_of_list k) in if h = "-" then "" else h) ^ "=" ^
      (let h = hex_s (string_of_list v) in if h = "-" then "" else h)) l)

let print_entries l =
  Printf.printf "A OK %d\n" (List.length l);
  List.iter (fun e ->
      let v = e.re_view in
      let (dl, dm) = match e.re_data with
        | Some d -> let s = string_of_list d in (string_of_int (String.length s), Digest.to_hex (Digest.string s))
        | None -> ("-", "-") in
      Printf.printf "N %s %s %s %s %s %s %s %s %s %s\n" (hex_s (join_path e.re_path)) (string_of_n v.pv_mode)
        (optn v.pv_uid) (optn v.pv_gid) (string_of_n v.pv_mtime) (string_of_n e.re_ino) (kind_s v.pv_kind) dl dm
        (pairs_s e.re_xattrs)) l;
  List.iter (fun e -> Printf.printf "X %s %s\n" (hex_s (join_path e.re_path)) (string_of_n e.re_view.pv_xattr)) l

let memo : (string, n list option) Hashtbl.t = Hashtbl.create 1024
let real_meta id (c : n list) : n list option =
  let s = string_of_list c in
  match Hashtbl.find_opt memo s with
  | Some r -> r
  | None ->
    let (ret, out) = c_uncompress id s 8192 in
    let r = if ret > 0 then Some (list_of_string out) else None in
    Hashtbl.replace memo s r;
    r
let real_data id (c : n list) (cap : nat) : n list option =
  let (ret, out) = c_uncompress id (string_of_list c) (int_of_nat cap) in
  if ret > 0 then Some (list_of_string out) else None

let noidx = 0xFFFFFFFF

let do_real () =
  Hashtbl.reset memo;
  let path = next () in
  let id = num () in
  let depth = num () in
  let efuel = num () in
  let s = read_whole path in
  let img = list_of_string s in
  let fuel = nat_of_int (max 64 (String.length s)) in
  let t0 = Unix.gettimeofday () in
  let timing = Sys.getenv_opt "XREAL_TIMING" <> None in
  (match read_all_real_out (real_meta id) (real_data id) img (nat_of_int depth) (nat_of_int efuel) fuel with
   | RAOk l ->
     if timing then Printf.eprintf "read_all_real %.2fs\n%!" (Unix.gettimeofday () -. t0);
     print_entries l;
     let seen = Hashtbl.create 64 in
     let distinct = List.filter (fun i -> i <> noidx && (if Hashtbl.mem seen i then false else (Hashtbl.add seen i (); true)))
         (List.map (fun e -> int_of_n e.re_view.pv_xattr) l) in
     let ks = List.rev distinct @ distinct @ [noidx] in
     let t1 = Unix.gettimeofday () in
     (match xsession_out (real_meta id) img (nat_of_int efuel) fuel (List.map n_of_int ks) with
      | XSOk ls ->
        if timing then Printf.eprintf "session %.2fs\n%!" (Unix.gettimeofday () -. t1);
        Printf.printf "S OK %d\n" (List.length ls);
        List.iter2 (fun k l -> Printf.printf "K %d %s\n" k (pairs_s l)) ks ls
      | XSErr e -> Printf.printf "S ERR %d\n" (int_of_z e)
      | XSCrash -> print_string "S CRASH\n"
      | XSFuel -> print_string "S FUEL\n")
   | RAErr e -> Printf.printf "A ERR %d\n" (int_of_z e)
   | RACrash -> print_string "A CRASH\n"
   | RAFuel -> print_string "A FUEL\n");
  print_string "END\n"

let do_session () =
  Hashtbl.reset memo;
  let path = next () in
  let id = num () in
  let efuel = num () in
  let ks = List.map int_of_string (String.split_on_char ',' (next ())) in
  let s = read_whole path in
  let img = list_of_string s in
  let fuel = nat_of_int (max 64 (String.length s)) in
  (match xsession_out (real_meta id) img (nat_of_int efuel) fuel (List.map n_of_int ks) with
   | XSOk ls ->
     Printf.printf "S OK %d\n" (List.length ls);
     List.iter2 (fun k l -> Printf.printf "K %d %s\n" k (pairs_s l)) ks ls
   | XSErr e -> Printf.printf "S ERR %d\n" (int_of_z e)
   | XSCrash -> print_string "S CRASH\n"
   | XSFuel -> print_string "S FUEL\n");
  print_string "END\n"

let () =
  try
    while true do
      let line = input_line stdin in
      if String.length line > 0 then begin
        toks := Array.of_list (List.filter (fun s -> s <> "") (String.split_on_char ' ' line));
        pos := 0;
        (match next () with
         | "X" -> (try do_real () with e -> Printf.printf "PARSE %s\nEND\n" (Printexc.to_string e))
         | "Q" -> (try do_session () with e -> Printf.printf "PARSE %s\nEND\n" (Printexc.to_string e))
         | t -> Printf.printf "PARSE unknown command %s\nEND\n" t);
        flush stdout
      end
    done
  with End_of_file -> ()
