"""C01 composition tie: generator of fstree descriptions for props/C01/h_img.c (line format: see h_img.c).

Shapes are aimed at the case splits of coq/Img/*: every inode type, basic/extended forms (xattr, link count,
sizes), directories of 0/1/254..258 entries (DIR_INDEX_THRESHOLD, 256 entries per header), listings that end /
cross at the 8 KiB metadata block border (directory table), inode tables of several blocks (entries of one
directory in different inode blocks -> several headers), deep nesting, hard links (several per file, to files that
are numbered later -> reorder_hard_links), long names and targets, many owner ids."""
import random

NOX = 0xFFFFFFFF


def hx(b):
    return b.hex() if b else "-"


class TB:
    def __init__(self, rnd, mode=None, bs=None, prefill=None, defaults=None):
        self.rnd = rnd
        self.mode = rnd.choice([0, 1, 3, 3, 3]) if mode is None else mode
        self.bs = rnd.choice([4096, 8192, 65536, 131072, 1 << 20]) if bs is None else bs
        self.prefill = rnd.choice([0, 96, 96, 137, 4096]) if prefill is None else prefill
        self.defaults = defaults or (rnd.choice([0, 0, 1000]), rnd.choice([0, 0, 100]), rnd.choice([0, 1600000000]), 0o755)
        self.e = []
        self.paths = set()
        self.files = []        # paths of regular files (hard link targets)
        self.nonfile = []      # paths of other non-directories
        self.dirs = [b""]
        self.kinds = {}

    def has(self, p):
        return p in self.paths

    def add(self, path, ty, perm=0o644, uid=0, gid=0, mtime=0, rdev=0, xattr=NOX, extra="-"):
        if path in self.paths:
            return False
        self.paths.add(path)
        self.e.append("%s %s %o %d %d %d %d %d %s" % (hx(path), ty, perm, uid, gid, mtime, rdev, xattr, extra))
        self.kinds[ty] = self.kinds.get(ty, 0) + 1
        if ty == "f":
            self.files.append(path)
        elif ty == "d":
            self.dirs.append(path)
        elif ty != "h":
            self.nonfile.append(path)
        return True

    def fspec(self, kind=None):
        """the inode the block processor leaves: consistent block count"""
        rnd, bs = self.rnd, self.bs
        kind = kind or rnd.choice(["empty", "frag", "frag", "frag", "blocks", "blocks+frag", "blocks", "blocks+frag", "sparse", "ext-small"])
        if kind == "blocks" and rnd.random() < 0.02:
            kind = "big"
        nofrag = (NOX, NOX)
        start = rnd.choice([96, 4096, rnd.randrange(1 << 30)])
        if kind == "empty":
            size, frag = 0, nofrag
        elif kind == "frag":
            size, frag = rnd.randrange(1, bs), (rnd.randrange(0, 40), rnd.randrange(0, bs))
        elif kind == "blocks":
            size, frag = rnd.choice([bs, 2 * bs, bs + 1, 3 * bs - 1, rnd.randrange(bs, 6 * bs)]), nofrag
        elif kind == "blocks+frag":
            size, frag = rnd.randrange(bs + 1, 5 * bs), (rnd.randrange(0, 40), rnd.randrange(0, bs))
            if size % bs == 0:
                size += 1
        elif kind == "big":
            size, frag = (1 << 32) + rnd.randrange(0, 3 * bs), nofrag
            if (size // bs) > 3000:
                size, frag = 2999 * bs + 5, nofrag
        elif kind == "sparse":
            size, frag = rnd.randrange(bs, 8 * bs), nofrag
        elif kind == "longlist":
            size, frag = rnd.randrange(2100, 2600) * bs + 17, nofrag
        else:
            size, frag = rnd.randrange(0, bs), (rnd.randrange(0, 9), rnd.randrange(0, bs)) if rnd.random() < 0.5 else nofrag
        nblk = size // bs + (1 if (size % bs and (frag[0] == NOX or frag[1] == NOX)) else 0)
        words = [rnd.choice([0, rnd.randrange(1, bs), (1 << 24) | bs, bs]) for _ in range(nblk)]
        sparse = 0
        if kind == "sparse":
            sparse = sum(bs for w in words if w == 0)
        if kind == "big" and rnd.random() < 0.5:
            start = (1 << 32) + rnd.randrange(1 << 20)
        ext = 1 if (size >= NOX or start >= NOX or sparse > 0 or kind == "ext-small") else 0
        return "%d:%d:%d:%d:%d:%d:%s" % (ext, start, frag[0], frag[1], size, sparse, ",".join(map(str, words)) or "-")

    def leaf(self, path, ty=None, ids=None, xattr_p=0.15):
        rnd = self.rnd
        ty = ty or rnd.choice("ffffllbcps")
        ids = ids or [0, 0, 1, 1000, 65534, 4000000000]
        uid, gid = rnd.choice(ids), rnd.choice(ids)
        mtime = rnd.choice([0, 1, 1600000000, 0xFFFFFFFF, -5, 1 << 33])
        xattr = rnd.choice([0, 7, 0xFFFFFFFE]) if rnd.random() < xattr_p else NOX
        perm = rnd.choice([0o644, 0o755, 0o7777, 0, 0o600])
        if ty == "f":
            return self.add(path, "f", perm, uid, gid, mtime, 0, xattr, self.fspec())
        if ty == "l":
            n = rnd.choice([1, 1, 5, 30, 255, 256, 1000])
            tgt = bytes(rnd.choice(b"abc/._ \xc3\xa9") for _ in range(n))
            return self.add(path, "l", 0o777, uid, gid, mtime, 0, xattr, hx(tgt))
        if ty in "bc":
            return self.add(path, ty, perm, uid, gid, mtime, rnd.choice([0, 259, 0x12345678, 0xFFFFFFFF]), xattr)
        return self.add(path, ty, perm, uid, gid, mtime, 0, xattr)

    def mkdir(self, path, xattr_p=0.1):
        rnd = self.rnd
        xattr = rnd.choice([0, 3]) if rnd.random() < xattr_p else NOX
        return self.add(path, "d", rnd.choice([0o755, 0o700, 0o1777]), rnd.choice([0, 1000]), rnd.choice([0, 100]),
                        rnd.choice([0, 1600000000]), 0, xattr)

    def hardlink(self, path, target):
        return self.add(path, "h", 0, 0, 0, 0, 0, 0, hx(target))

    def line(self):
        d = self.defaults
        return "T %d %d %d %d %d %d %o %d %s" % (self.mode, self.bs, self.prefill, d[0], d[1], d[2], d[3], len(self.e), " ".join(self.e))


def name_of(rnd, i, ln):
    base = b"%06d" % i
    if ln <= len(base):
        return base[-ln:] if ln > 0 else b"x"
    fill = rnd.choice([b"n", b"-", b" ", b"\xe9"])
    return base + fill * (ln - len(base))


def join(d, n):
    return n if d == b"" else d + b"/" + n


def flat_dir(tb, d, count, namelen, types="p", start=0):
    """count children of directory d; types cycled"""
    for i in range(count):
        ty = types[i % len(types)]
        tb.leaf(join(d, name_of(tb.rnd, start + i, namelen)), ty, xattr_p=0.02)


# ---------------------------------------------------------------------------
# shapes
# ---------------------------------------------------------------------------

def shape_small(rnd):
    tb = TB(rnd)
    nd = rnd.randrange(0, 5)
    for i in range(nd):
        tb.mkdir(join(rnd.choice(tb.dirs), b"d%d" % i))
    for i in range(rnd.randrange(1, 25)):
        tb.leaf(join(rnd.choice(tb.dirs), rnd.choice([b"f%d" % i, b"sp ace%d" % i, b"q\"uote'%d" % i, b"\xff\xfe%d" % i, b"back\\slash%d" % i])))
    for i in range(rnd.randrange(0, 6)):
        if tb.files:
            tb.hardlink(join(rnd.choice(tb.dirs), b"hl%d" % i), rnd.choice(tb.files))
    if rnd.random() < 0.3:
        tb.add(b"", "d", 0o750, 7, 8, 99, 0, rnd.choice([NOX, 2]))     # explicit root
    return "small", tb


def shape_types(rnd):
    tb = TB(rnd)
    for x in (NOX, 5):
        d = b"x%d" % (x & 0xF)
        tb.add(d, "d", 0o755, 1, 2, 3, 0, x)
        for ty in "flbcps":
            tb.leaf(join(d, ty.encode() + b"1"), ty, xattr_p=1.0 if x != NOX else 0.0)
        for k in ("empty", "frag", "blocks", "blocks+frag", "big", "sparse", "ext-small"):
            tb.add(join(d, b"file-" + k.encode()), "f", 0o644, 0, 0, 0, 0, x, tb.fspec(k))
        tb.hardlink(join(d, b"link-to-frag"), join(d, b"file-frag"))
        tb.hardlink(join(d, b"link2-to-frag"), join(d, b"file-frag"))
        tb.hardlink(join(d, b"link-to-dev"), join(d, b"c1"))
    return "types", tb


def shape_dirsize(rnd, count=None):
    """directories around 256 entries (header limit, index threshold)"""
    tb = TB(rnd)
    count = count if count is not None else rnd.choice([0, 1, 2, 254, 255, 256, 257, 258, 300, 511, 512, 513])
    tb.mkdir(b"big")
    flat_dir(tb, b"big", count, rnd.choice([6, 7, 12, 20]), rnd.choice(["p", "pf", "plcs"]))
    tb.mkdir(b"after")
    flat_dir(tb, b"after", rnd.randrange(0, 4), 8, "f")
    return "dirsize-%d" % count, tb


def shape_listing_border(rnd):
    """listings whose end / header positions fall around the 8 KiB border of the directory table"""
    tb = TB(rnd, mode=rnd.choice([0, 3]))
    ln = rnd.choice([16, 24, 31, 40])
    per = 8 + ln
    target = 8192 + rnd.choice([-per - 12, -12, -1, 0, 1, 12, per, 2 * per])
    first = max(1, min(255, (target - 12) // per))
    tb.mkdir(b"a")
    flat_dir(tb, b"a", first, ln, "p")
    extra = (target - 12 - first * per)
    if 1 <= extra - 8 <= 250:
        tb.leaf(join(b"a", b"z" * (extra - 8)), "p", xattr_p=0)
    for k in range(rnd.randrange(1, 4)):
        d = b"b%d" % k
        tb.mkdir(d)
        flat_dir(tb, d, rnd.choice([1, 3, 100, 255, 256, 270]), rnd.choice([8, ln, 60]), rnd.choice(["p", "p", "ps", "pf"]))
    return "listing-border", tb


def shape_inode_blocks(rnd, n=None):
    """many inodes: the inode table has several blocks, children of one directory lie in different blocks"""
    tb = TB(rnd, mode=rnd.choice([0, 3, 3]))
    nd = rnd.randrange(2, 7)
    for i in range(nd):
        tb.mkdir(b"d%02d" % i)
    n = n or rnd.choice([280, 350, 450])
    for i in range(n):
        d = b"d%02d" % rnd.randrange(nd)
        tb.leaf(join(d, name_of(rnd, i, rnd.choice([6, 9, 14]))), rnd.choice("pppsfclb"), xattr_p=0.05)
    for i in range(rnd.randrange(0, 10)):
        if tb.files:
            tb.hardlink(join(b"d%02d" % rnd.randrange(nd), b"zz-link%d" % i), rnd.choice(tb.files))
    return "inode-blocks-%d" % n, tb


def shape_deep(rnd):
    tb = TB(rnd)
    depth = rnd.choice([10, 40, 90])
    p = b""
    for i in range(depth):
        p = join(p, rnd.choice([b"d", b"dir%d" % i, b"a b"]))
        tb.mkdir(p)
        if rnd.random() < 0.5:
            tb.leaf(join(p, b"leaf%d" % i))
    tb.leaf(join(p, b"bottom"), "f")
    if tb.files:
        tb.hardlink(b"top-link", tb.files[-1])
        tb.hardlink(join(p, b"bottom-link"), tb.files[0])
    return "deep-%d" % depth, tb


def shape_hardlinks(rnd):
    tb = TB(rnd)
    for i in range(4):
        tb.mkdir(b"d%d" % i)
    for i in range(6):
        tb.leaf(join(b"d3", b"t%d" % i), rnd.choice("fffcp"), xattr_p=0.3)
    tb.leaf(b"zlast", "f")
    targets = tb.files + tb.nonfile
    k = 0
    for d in (b"", b"d0", b"d1", b"d0", b"d2"):
        for _ in range(rnd.randrange(1, 5)):
            tb.hardlink(join(d, b"h%02d" % k), rnd.choice(targets))
            k += 1
    # a chain: link to a link
    tb.hardlink(b"d1/chain", b"d0/h%02d" % 1) if tb.has(b"d0/h01") else None
    return "hardlinks", tb


def shape_longnames(rnd, huge=None):
    tb = TB(rnd)
    tb.mkdir(b"n")
    for ln in (1, 2, 254, 255, 256, 257, 1000):
        tb.leaf(join(b"n", bytes([97 + (ln % 26)]) * ln), rnd.choice("fpl"))
    if huge:
        tb.leaf(join(b"n", b"H" * huge), "p")
    tb.add(b"n/long-target", "l", 0o777, 0, 0, 0, 0, NOX, hx(b"t" * rnd.choice([8000, 9000, 20000])))
    tb.add(b"n/long-blocklist", "f", 0o644, 0, 0, 0, 0, NOX, tb.fspec("longlist"))
    return "longnames%s" % ("-%d" % huge if huge else ""), tb


def shape_ids(rnd, n=None):
    tb = TB(rnd, mode=0)
    n = n or rnd.choice([300, 1000])
    tb.mkdir(b"ids")
    for i in range(n):
        tb.add(join(b"ids", b"%06d" % i), "p", 0o600, 10 + i, 10 + (i * 7) % n if i % 3 else 5, 0, 0, NOX)
    return "ids-%d" % n, tb


def shape_random(rnd, maxn=400):
    tb = TB(rnd)
    n = rnd.randrange(2, maxn)
    for i in range(n):
        r = rnd.random()
        d = rnd.choice(tb.dirs[-8:] if rnd.random() < 0.6 else tb.dirs)
        if r < 0.12:
            tb.mkdir(join(d, b"D%d" % i))
        elif r < 0.2 and (tb.files or tb.nonfile):
            tb.hardlink(join(d, b"L%d" % i), rnd.choice(tb.files + tb.nonfile))
        else:
            tb.leaf(join(d, name_of(rnd, i, rnd.choice([3, 7, 15, 40]))))
    return "random-%d" % n, tb


def shape_contract_breaking(rnd):
    lab, tb = shape_small(rnd)
    tb.mode = 2
    return "mode2-" + lab, tb


def gen_cases(rnd, quick):
    """list of (label, line)"""
    out = []

    def put(x):
        lab, tb = x
        out.append((lab, tb.line()))

    put(shape_types(rnd))
    for c in (0, 1, 255, 256, 257):
        put(shape_dirsize(rnd, c))
    for _ in range(3 if quick else 30):
        put(shape_dirsize(rnd))
    for _ in range(8 if quick else 60):
        put(shape_listing_border(rnd))
    for _ in range(3 if quick else 25):
        put(shape_inode_blocks(rnd))
    for _ in range(2 if quick else 10):
        put(shape_deep(rnd))
    for _ in range(4 if quick else 30):
        put(shape_hardlinks(rnd))
    put(shape_longnames(rnd))
    put(shape_longnames(rnd, 65536))
    put(shape_longnames(rnd, 65537))
    put(shape_ids(rnd))
    if not quick:
        put(shape_ids(rnd, 3000))      # (the 65535 id limit itself: existing `idt` tie; the list-based model is quadratic)
        for _ in range(4):
            put(shape_random(rnd, 3000))
        for n in (900, 1400, 3000):
            put(shape_inode_blocks(rnd, n))
    for _ in range(25 if quick else 300):
        put(shape_small(rnd))
    for _ in range(6 if quick else 60):
        put(shape_random(rnd))
    for _ in range(2 if quick else 10):
        put(shape_contract_breaking(rnd))
    return out


if __name__ == "__main__":
    import sys
    rnd = random.Random(int(sys.argv[1]) if len(sys.argv) > 1 else 1)
    for lab, line in gen_cases(rnd, True):
        sys.stdout.write(line + "\n")
