/* C01 harness helpers: growable in-memory sqfs_file_t, store-only and shrinking toy compressors,
 * de-chunking of a metadata stream, hex/number token parsing. */
#ifndef C01_H_COMMON_H
#define C01_H_COMMON_H
#include "config.h"
#include "compat.h"
#include "sqfs/meta_writer.h"
#include "sqfs/meta_reader.h"
#include "sqfs/compressor.h"
#include "sqfs/error.h"
#include "sqfs/super.h"
#include "sqfs/inode.h"
#include "sqfs/block.h"
#include "sqfs/io.h"
#include <stdio.h>
#include <stdlib.h>
#include <string.h>
#include <stdint.h>

typedef struct {
	sqfs_file_t base;
	sqfs_u8 *data;
	size_t used, cap;
} memfile_t;

static int mf_read_at(sqfs_file_t *f, sqfs_u64 off, void *buf, size_t size)
{
	memfile_t *m = (memfile_t *)f;
	if (off > m->used || size > m->used - off)
		return SQFS_ERROR_OUT_OF_BOUNDS;
	memcpy(buf, m->data + off, size);
	return 0;
}

static int mf_write_at(sqfs_file_t *f, sqfs_u64 off, const void *buf, size_t size)
{
	memfile_t *m = (memfile_t *)f;
	size_t end = off + size;
	if (end > m->cap) {
		size_t nc = m->cap ? m->cap : 4096;
		while (nc < end) nc *= 2;
		m->data = realloc(m->data, nc);
		if (!m->data) abort();
		memset(m->data + m->cap, 0, nc - m->cap);
		m->cap = nc;
	}
	if (off > m->used)
		memset(m->data + m->used, 0, off - m->used);
	memcpy(m->data + off, buf, size);
	if (end > m->used) m->used = end;
	return 0;
}

static sqfs_u64 mf_get_size(const sqfs_file_t *f) { return ((const memfile_t *)f)->used; }
static int mf_truncate(sqfs_file_t *f, sqfs_u64 size) { ((memfile_t *)f)->used = size; return 0; }
static const char *mf_get_filename(sqfs_file_t *f) { (void)f; return "mem"; }
static void mf_destroy(sqfs_object_t *o) { (void)o; }

static void memfile_init(memfile_t *m)
{
	memset(m, 0, sizeof(*m));
	m->base.base.refcount = 1 << 20;
	m->base.base.destroy = mf_destroy;
	m->base.read_at = mf_read_at;
	m->base.write_at = mf_write_at;
	m->base.get_size = mf_get_size;
	m->base.truncate = mf_truncate;
	m->base.get_filename = mf_get_filename;
}

static void memfile_reset(memfile_t *m) { m->used = 0; }

/* store-only compressor: do_block returns 0 = "did not shrink" */
static sqfs_s32 store_block(sqfs_compressor_t *c, const sqfs_u8 *in, sqfs_u32 size, sqfs_u8 *out, sqfs_u32 outsize)
{
	(void)c; (void)in; (void)size; (void)out; (void)outsize;
	return 0;
}

/* toy compressor / uncompressor pair: a block consisting of one repeated byte b of length n >= 8 becomes
 * [0xAB, b, n as le16... le32]; everything else is "does not shrink".  Gives metadata blocks whose on-disk
 * size differs from 8192+2, so that block start offsets are exercised. */
static sqfs_s32 toy_block(sqfs_compressor_t *c, const sqfs_u8 *in, sqfs_u32 size, sqfs_u8 *out, sqfs_u32 outsize)
{
	sqfs_u32 i;
	(void)c;
	if (size < 8 || outsize < 6) return 0;
	for (i = 1; i < size; ++i)
		if (in[i] != in[0]) return 0;
	out[0] = 0xAB; out[1] = in[0];
	out[2] = size & 0xFF; out[3] = (size >> 8) & 0xFF; out[4] = (size >> 16) & 0xFF; out[5] = (size >> 24) & 0xFF;
	return 6;
}

static sqfs_s32 toy_unblock(sqfs_compressor_t *c, const sqfs_u8 *in, sqfs_u32 size, sqfs_u8 *out, sqfs_u32 outsize)
{
	sqfs_u32 n;
	(void)c;
	if (size != 6 || in[0] != 0xAB) return SQFS_ERROR_COMPRESSOR;
	n = in[2] | (in[3] << 8) | (in[4] << 16) | ((sqfs_u32)in[5] << 24);
	if (n > outsize) return SQFS_ERROR_COMPRESSOR;
	memset(out, in[1], n);
	return n;
}

static void cmp_destroy(sqfs_object_t *o) { (void)o; }

static void compressor_init(sqfs_compressor_t *c, sqfs_s32 (*fn)(sqfs_compressor_t *, const sqfs_u8 *, sqfs_u32, sqfs_u8 *, sqfs_u32))
{
	memset(c, 0, sizeof(*c));
	c->base.refcount = 1 << 20;
	c->base.destroy = cmp_destroy;
	c->do_block = fn;
}

/* concatenate the uncompressed contents of the metadata blocks in data[from..to); returns malloc'ed buffer.
 * starts[] (if not NULL) receives the offset (relative to `from`) of every block; *nblk their number. */
static sqfs_u8 *dechunk(const sqfs_u8 *data, size_t from, size_t to, size_t *out_len, sqfs_u64 *starts, size_t *nblk)
{
	sqfs_u8 *out = malloc((to - from) * 1400 + 16);   /* the toy codec expands at most 8192/6 times */
	size_t pos = from, len = 0, k = 0;
	while (pos + 2 <= to) {
		unsigned hdr = data[pos] | (data[pos + 1] << 8);
		size_t sz = hdr & 0x7FFF;
		if (pos + 2 + sz > to) break;
		if (starts) starts[k] = pos - from;
		++k;
		if (hdr & 0x8000) {
			memcpy(out + len, data + pos + 2, sz);
			len += sz;
		} else {
			sqfs_s32 r = toy_unblock(NULL, data + pos + 2, sz, out + len, 8192);
			if (r < 0) break;
			len += r;
		}
		pos += 2 + sz;
	}
	*out_len = len;
	if (nblk) *nblk = k;
	return out;
}

static int hexval(int c) { return c <= '9' ? c - '0' : (c | 32) - 'a' + 10; }

/* "-" = empty */
static size_t unhex(const char *s, sqfs_u8 *out)
{
	size_t n = 0;
	if (s[0] == '-' && s[1] == 0) return 0;
	for (; s[0] && s[1]; s += 2) out[n++] = (sqfs_u8)(hexval(s[0]) * 16 + hexval(s[1]));
	return n;
}

static void puthex(const sqfs_u8 *p, size_t n)
{
	size_t i;
	if (n == 0) { fputs("-", stdout); return; }
	for (i = 0; i < n; ++i) printf("%02x", p[i]);
}

#endif
