"""C01 composition stage: sqfs_serialize_fstree of the working tree (h_img.c) against the extracted
Img.TreeModel.serialize_fstree (exact: inode table, directory table, root reference, all inode references, id
table), plus the search oracle: the reader specification Img.TreeModel.read_tree run on the tables the C code
produced must yield spec_tree of the dumped tree (= theorem tree_roundtrip evaluated on the implementation).

Reader leg (Properties_C01.v section 6, coq/ImgReader): the same tree is written as a WHOLE image by the library
(h_img.c command W: sqfs_super_init, sqfs_serialize_fstree, sqfs_id_table_write, sqfs_super_write) and the file is
read by (a) the extracted C05 reader model (ReadImage.read_image_c05: super block, id table, full hierarchy;
reader_driver.ml) and (b) libsquashfs itself inside the harness (sqfs_super_read, sqfs_id_table_read,
sqfs_dir_reader_get_full_hierarchy).  Both results are compared exactly, as pre-order listings of every field a
reader reports, with spec_tree of the dumped input tree: (a) = theorem reader_model_reads_written_image /
reader_model_reads_id_table_and_tree evaluated on the implementation's bytes, (b) = the property itself evaluated
on the implementation (writer and reader of the library), which decides what a disagreement of (a) means."""
import os
import time
from concurrent.futures import ThreadPoolExecutor

from tielib import run_proc
import img_cases

# inodes x inode table bytes the reader specification may cost per case (it re-parses the metadata blocks behind a
# reference for every inode: about 1 s per 1.3e6)
RD_BUDGET = dict(quick=14_000_000, thorough=80_000_000)


def one_case(h_img, drv, lab, line, budget, drv_rd=None):
    """returns dict(label, line, model_in, impl, model, flags, rd, err, c05, c05_flags, spec_l, model_l, real)"""
    r = dict(label=lab, line=line, model_in=None, impl=None, model=None, flags="", rd=None, err=None,
             c05=None, c05_flags="", spec_l=None, model_l=None, real=None)
    lines = [line] + (["W" + line[1:]] if drv_rd and line.startswith("T ") else [])
    rc, out, err = run_proc(h_img, lines, timeout=300)
    out = [o for o in out if o]
    if rc != 0 or len(out) != len(lines) or " | " not in out[0]:
        r["err"] = "harness rc=%s: %s" % (rc, err[-2000:])
        return r
    mi, impl = out[0].split(" | ", 1)
    whole = out[1].split(" | ") if len(out) > 1 else []
    r["model_in"], r["impl"] = mi, impl
    if mi == "img -":
        r["model"] = "SKIP"
        return r
    rc2, mout, merr = run_proc(drv, [mi], timeout=300)
    mout = [o for o in mout if o]
    if rc2 != 0 or len(mout) != 1:
        r["err"] = "model driver rc=%s: %s" % (rc2, merr[-500:])
        return r
    m, _, flags = mout[0].partition(" # ")
    r["model"], r["flags"] = m, flags
    # search oracle on the C output
    p = impl.split(" ")
    toks = mi.split(" ")
    if p[0] == "0" and len(p) == 6 and toks[1] in ("0", "1", "3"):
        n = int(toks[3])
        if n * (len(p[4]) // 2) <= budget:
            rd_in = "rd " + " ".join(toks[1:]) + " " + " ".join([p[1], p[3], p[4], p[5]])
            rc3, rout, rerr = run_proc(drv, [rd_in], timeout=300)
            rout = [o for o in rout if o]
            r["rd"] = rout[0] if (rc3 == 0 and rout) else "DRIVER-FAILED rc=%s %s" % (rc3, rerr[-300:])
    # reader leg: the whole image the library wrote, read by the C05 reader model and by libsquashfs
    if len(whole) == 4 and whole[0] == mi and whole[1].startswith("0 ") and toks[1] in ("0", "1", "3") \
            and not whole[2].startswith("FINISH-FAILED"):
        r["real"] = whole[3]
        rc4, cout, cerr = run_proc(drv_rd, ["c05 " + mi[4:] + " " + whole[2]], timeout=600)
        cout = [o for o in cout if o]
        if rc4 != 0 or len(cout) != 1 or cout[0].count(" | ") != 2:
            r["c05"] = "DRIVER-FAILED rc=%s %s" % (rc4, (cerr or (cout[0] if cout else ""))[-300:])
        else:
            v, sl, ml = cout[0].split(" | ")
            r["c05"], _, r["c05_flags"] = v.partition(" # ")
            r["spec_l"], r["model_l"] = sl[2:], ml[2:]
    elif len(whole) >= 3 and whole[1].startswith("0 ") and len(whole) == 4 and whole[2].startswith("FINISH-FAILED"):
        r["real"] = "E " + whole[2]
    return r


def run_cases(h_img, drv, cases, budget, workers=14, drv_rd=None):
    with ThreadPoolExecutor(max_workers=workers) as ex:
        return list(ex.map(lambda c: one_case(h_img, drv, c[0], c[1], budget, drv_rd), cases))


def stage(ctx, h_img, drv, rnd, quick, drv_rd=None):
    """runs the stage; reports violations through ctx; returns the statistics dict"""
    t0 = time.time()
    cases = img_cases.gen_cases(rnd, quick)
    # big cases first so that the pool drains evenly
    order = sorted(range(len(cases)), key=lambda i: -len(cases[i][1]))
    res = run_cases(h_img, drv, [cases[i] for i in order], RD_BUDGET["quick" if quick else "thorough"], drv_rd=drv_rd)
    st = evaluate(ctx, res)
    st["wall_s"] = round(time.time() - t0, 1)
    return st


def _first_diff(a, b):
    n = min(len(a), len(b))
    for i in range(n):
        if a[i] != b[i]:
            return i
    return n


def _around(a, b):
    i = _first_diff(a, b)
    lo = max(0, a.rfind(" ", 0, max(0, i - 40)))
    return a[lo:i + 60], b[lo:i + 60]


def evaluate(ctx, res):
    st = dict(cases=len(res), exact_equal=0, rc0=0, refused=0, build_failed=0, representable=0, trace_fits=0,
              impl_readback_ok=0, impl_readback_skipped=0, inodes=0, max_inodes=0,
              itbl_blocks_gt1=0, dtbl_blocks_gt1=0, compressed_blocks=0, shapes={}, toymode={},
              whole_images=0, c05_model_ok=0, c05_hyps=0, libread_ok=0, c05_nodes=0)
    tie_bad, prop_bad = [], []
    c05_bad, lib_bad = [], []
    for r in res:
        lab = r["label"].split("-")[0]
        st["shapes"][lab] = st["shapes"].get(lab, 0) + 1
        if r["err"]:
            ctx.violation("harness-crash:img", "serialize_fstree harness/driver failed on a %s tree: %s" % (r["label"], r["err"][-600:]),
                          dict(kind="img-lines", lines=[r["line"]], stderr=r["err"]))
            continue
        if r["model"] == "SKIP":
            st["build_failed"] += 1
            continue
        toks = r["model_in"].split(" ", 4)
        st["toymode"][toks[1]] = st["toymode"].get(toks[1], 0) + 1
        n = int(toks[3])
        st["inodes"] += n
        st["max_inodes"] = max(st["max_inodes"], n)
        if r["impl"] == r["model"]:
            st["exact_equal"] += 1
        else:
            tie_bad.append(r)
        p = r["impl"].split(" ")
        if p[0] == "0" and len(p) == 6:
            st["rc0"] += 1
            st["itbl_blocks_gt1"] += len(p[4]) // 2 > 8194
            st["dtbl_blocks_gt1"] += len(p[5]) // 2 > 8194
            hdr = int(p[4][2:4] + p[4][0:2], 16) if len(p[4]) >= 4 else 0x8000
            st["compressed_blocks"] += hdr < 0x8000
        else:
            st["refused"] += 1
        f = r["flags"]
        st["representable"] += "r1" in f
        st["trace_fits"] += "f1" in f
        if r["rd"] is None:
            st["impl_readback_skipped"] += 1
        elif r["rd"].startswith("OK"):
            st["impl_readback_ok"] += 1
        elif "r1" in f and "f1" in f:
            prop_bad.append(r)
        # reader leg
        if r["c05"] is not None:
            st["whole_images"] += 1
            hyps = r["c05_flags"] == "r1 f1 a1"
            st["c05_hyps"] += hyps
            lib_ok = r["real"] is not None and r["real"].startswith("R ") and r["real"][2:] == r["spec_l"]
            st["libread_ok"] += lib_ok
            if r["c05"].startswith("OK ") and r["model_l"] == r["spec_l"]:
                st["c05_model_ok"] += 1
                st["c05_nodes"] += int(r["c05"].split(" ")[1])
            elif hyps:
                c05_bad.append(r)
            if hyps and not lib_ok:
                lib_bad.append(r)
    for r in lib_bad[:2]:
        real = r["real"] or "-"
        what = ("libsquashfs fails with %s" % real[:60]) if not real.startswith("R ") else \
            ("first difference at listing offset %d: read %r, packed %r"
             % (_first_diff(real[2:], r["spec_l"]), _around(real[2:], r["spec_l"])[0], _around(real[2:], r["spec_l"])[1]))
        ctx.violation("img-libread:" + ("error" if not real.startswith("R ") else "mismatch"),
                      "what sqfs_serialize_fstree + sqfs_id_table_write + sqfs_super_write wrote does not read back through "
                      "sqfs_dir_reader_get_full_hierarchy as the tree that was packed (%s tree, %s inodes): %s; the C05 reader "
                      "model on the same bytes says %s"
                      % (r["label"], r["model_in"].split(" ")[3], what, (r["c05"] or "-")[:80]),
                      dict(kind="img-lines", lines=[r["line"]], real=real[:3000], expected=(r["spec_l"] or "")[:3000],
                           model_reader=(r["c05"] or "")[:300]))
    if c05_bad:
        r = c05_bad[0]
        concrete = bool(lib_bad or prop_bad)
        ctx.violation("tie:c05-reader-on-image",
                      "theorem reader_model_reads_written_image does not hold of the implementation's bytes: the C05 reader model "
                      "run on the image the library wrote answers %s on %d of %d images whose tree meets the hypotheses (first: %s tree, "
                      "%s inodes; %s)"
                      % (r["c05"][:120], len(c05_bad), st["c05_hyps"], r["label"], r["model_in"].split(" ")[3],
                         "libsquashfs / the reader specification fail on the same bytes, see other violation" if concrete else
                         "libsquashfs itself reads the packed tree back from the same bytes: no property failure found"),
                      dict(kind="img-lines", lines=[r["line"]], model_reader=r["c05"][:300],
                           correspondence="real writer bytes -> ReadImage.read_image_c05 = spec_tree (Properties_C01.v section 6)"),
                      no_input=True)
    for r in prop_bad[:2]:
        ctx.violation("img-readback:" + r["rd"].split(" ")[0],
                      "sqfs_serialize_fstree output does not read back as the tree that was serialized (%s tree, %s inodes): %s"
                      % (r["label"], r["model_in"].split(" ")[3], r["rd"][:300]),
                      dict(kind="img-lines", lines=[r["line"]], readback=r["rd"], impl=r["impl"][:2000]))
    if tie_bad:
        r = tie_bad[0]
        a, b = r["impl"].split(" "), r["model"].split(" ")
        names = ["rc", "root_ref", "refs", "ids", "inode table", "directory table"]
        diff = [names[i] for i in range(min(len(a), len(b), 6)) if a[i] != b[i]] or ["shape of the result"]
        ctx.violation("tie:serialize-fstree",
                      "correspondence sqfs_serialize_fstree = Img.TreeModel.serialize_fstree broken on %d of %d trees; first: %s tree, differs in %s: impl=%s model=%s (%s)"
                      % (len(tie_bad), len(res), r["label"], ", ".join(diff), r["impl"][:120], r["model"][:120],
                         "the C output fails the read-back, see other violation" if prop_bad else
                         "read-back of the C output through the reader specification shows no property failure"),
                      dict(kind="img-lines", lines=[r["line"]], impl=r["impl"][:4000], model=r["model"][:4000],
                           correspondence="props/C01 h_img.c vs Img.TreeModel.serialize_fstree (exact)"),
                      no_input=True)
    return st
