"""C01 composition stage: sqfs_serialize_fstree of the working tree (h_img.c) against the extracted
Img.TreeModel.serialize_fstree (exact: inode table, directory table, root reference, all inode references, id
table), plus the search oracle: the reader specification Img.TreeModel.read_tree run on the tables the C code
produced must yield spec_tree of the dumped tree (= theorem tree_roundtrip evaluated on the implementation)."""
import os
import time
from concurrent.futures import ThreadPoolExecutor

from tielib import run_proc
import img_cases

# inodes x inode table bytes the reader specification may cost per case (it re-parses the metadata blocks behind a
# reference for every inode: about 1 s per 1.3e6)
RD_BUDGET = dict(quick=14_000_000, thorough=80_000_000)


def one_case(h_img, drv, lab, line, budget):
    """returns dict(label, line, model_in, impl, model, flags, rd, err)"""
    r = dict(label=lab, line=line, model_in=None, impl=None, model=None, flags="", rd=None, err=None)
    rc, out, err = run_proc(h_img, [line], timeout=300)
    out = [o for o in out if o]
    if rc != 0 or len(out) != 1 or " | " not in out[0]:
        r["err"] = "harness rc=%s: %s" % (rc, err[-2000:])
        return r
    mi, impl = out[0].split(" | ", 1)
    r["model_in"], r["impl"] = mi, impl
    if mi == "img -":
        r["model"] = "SKIP"
        return r
    rc2, mout, merr = run_proc(drv, [mi], timeout=300)
    mout = [o for o in mout if o]
    if rc2 != 0 or len(mout) != 1:
        r["err"] = "model driver rc=%s: %s" % (rc2, merr[-500:])
        return r
    m, _, flags = mout[0].partition(" # ")
    r["model"], r["flags"] = m, flags
    # search oracle on the C output
    p = impl.split(" ")
    toks = mi.split(" ")
    if p[0] == "0" and len(p) == 6 and toks[1] in ("0", "1", "3"):
        n = int(toks[3])
        if n * (len(p[4]) // 2) <= budget:
            rd_in = "rd " + " ".join(toks[1:]) + " " + " ".join([p[1], p[3], p[4], p[5]])
            rc3, rout, rerr = run_proc(drv, [rd_in], timeout=300)
            rout = [o for o in rout if o]
            r["rd"] = rout[0] if (rc3 == 0 and rout) else "DRIVER-FAILED rc=%s %s" % (rc3, rerr[-300:])
    return r


def run_cases(h_img, drv, cases, budget, workers=14):
    with ThreadPoolExecutor(max_workers=workers) as ex:
        return list(ex.map(lambda c: one_case(h_img, drv, c[0], c[1], budget), cases))


def stage(ctx, h_img, drv, rnd, quick):
    """runs the stage; reports violations through ctx; returns the statistics dict"""
    t0 = time.time()
    cases = img_cases.gen_cases(rnd, quick)
    # big cases first so that the pool drains evenly
    order = sorted(range(len(cases)), key=lambda i: -len(cases[i][1]))
    res = run_cases(h_img, drv, [cases[i] for i in order], RD_BUDGET["quick" if quick else "thorough"])
    st = evaluate(ctx, res)
    st["wall_s"] = round(time.time() - t0, 1)
    return st


def evaluate(ctx, res):
    st = dict(cases=len(res), exact_equal=0, rc0=0, refused=0, build_failed=0, representable=0, trace_fits=0,
              impl_readback_ok=0, impl_readback_skipped=0, inodes=0, max_inodes=0,
              itbl_blocks_gt1=0, dtbl_blocks_gt1=0, compressed_blocks=0, shapes={}, toymode={})
    tie_bad, prop_bad = [], []
    for r in res:
        lab = r["label"].split("-")[0]
        st["shapes"][lab] = st["shapes"].get(lab, 0) + 1
        if r["err"]:
            ctx.violation("harness-crash:img", "serialize_fstree harness/driver failed on a %s tree: %s" % (r["label"], r["err"][-600:]),
                          dict(kind="img-lines", lines=[r["line"]], stderr=r["err"]))
            continue
        if r["model"] == "SKIP":
            st["build_failed"] += 1
            continue
        toks = r["model_in"].split(" ", 4)
        st["toymode"][toks[1]] = st["toymode"].get(toks[1], 0) + 1
        n = int(toks[3])
        st["inodes"] += n
        st["max_inodes"] = max(st["max_inodes"], n)
        if r["impl"] == r["model"]:
            st["exact_equal"] += 1
        else:
            tie_bad.append(r)
        p = r["impl"].split(" ")
        if p[0] == "0" and len(p) == 6:
            st["rc0"] += 1
            st["itbl_blocks_gt1"] += len(p[4]) // 2 > 8194
            st["dtbl_blocks_gt1"] += len(p[5]) // 2 > 8194
            hdr = int(p[4][2:4] + p[4][0:2], 16) if len(p[4]) >= 4 else 0x8000
            st["compressed_blocks"] += hdr < 0x8000
        else:
            st["refused"] += 1
        f = r["flags"]
        st["representable"] += "r1" in f
        st["trace_fits"] += "f1" in f
        if r["rd"] is None:
            st["impl_readback_skipped"] += 1
        elif r["rd"].startswith("OK"):
            st["impl_readback_ok"] += 1
        elif "r1" in f and "f1" in f:
            prop_bad.append(r)
    for r in prop_bad[:2]:
        ctx.violation("img-readback:" + r["rd"].split(" ")[0],
                      "sqfs_serialize_fstree output does not read back as the tree that was serialized (%s tree, %s inodes): %s"
                      % (r["label"], r["model_in"].split(" ")[3], r["rd"][:300]),
                      dict(kind="img-lines", lines=[r["line"]], readback=r["rd"], impl=r["impl"][:2000]))
    if tie_bad:
        r = tie_bad[0]
        a, b = r["impl"].split(" "), r["model"].split(" ")
        names = ["rc", "root_ref", "refs", "ids", "inode table", "directory table"]
        diff = [names[i] for i in range(min(len(a), len(b), 6)) if a[i] != b[i]] or ["shape of the result"]
        ctx.violation("tie:serialize-fstree",
                      "correspondence sqfs_serialize_fstree = Img.TreeModel.serialize_fstree broken on %d of %d trees; first: %s tree, differs in %s: impl=%s model=%s (%s)"
                      % (len(tie_bad), len(res), r["label"], ", ".join(diff), r["impl"][:120], r["model"][:120],
                         "the C output fails the read-back, see other violation" if prop_bad else
                         "read-back of the C output through the reader specification shows no property failure"),
                      dict(kind="img-lines", lines=[r["line"]], impl=r["impl"][:4000], model=r["model"][:4000],
                           correspondence="props/C01 h_img.c vs Img.TreeModel.serialize_fstree (exact)"),
                      no_input=True)
    return st
