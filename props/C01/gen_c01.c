/* C01: translator working tree -> coq/C01/GenC01.v.
 * Constants the C01 models rely on that are not in coq/Gen/Constants.v:
 * mode bits (system S_IF* used by read_inode.c / serialize_fstree.c and the SQFS_INODE_MODE_* copies used by
 * write_inode.c), xattr prefix table and flags (by calling sqfs_get_xattr_prefix), DIR_INDEX_THRESHOLD
 * (static in dir_writer.c, reached by #include), field widths of the on-disk structs (sizeof of the members),
 * and the id-table limit obtained by a *probe*: ids 0,1,2,... are added to a fresh table until
 * sqfs_id_table_id_to_index refuses; the number accepted is printed. */
#include "config.h"
#include "lib/sqfs/src/dir_writer.c"
#include "sqfs/id_table.h"
#include "sqfs/xattr.h"
#include "sqfs/inode.h"
#include "sqfs/super.h"
#include <sys/stat.h>
#include <stdio.h>
#include <stddef.h>

#define N(name, val) printf("Definition c_%s : N := %llu.\n", #name, (unsigned long long)(val))
#define W(st, f) printf("Definition width_%s_%s : N := %llu.\n", #st, #f, (unsigned long long)sizeof(((st *)0)->f))
#define O(st, f) printf("Definition off_%s_%s : N := %llu.\n", #st, #f, (unsigned long long)offsetof(st, f))

static void str(const char *name, const char *s)
{
	printf("Definition c_%s : list N := [", name);
	for (size_t i = 0; s != NULL && s[i]; ++i)
		printf("%s%u", i ? "; " : "", (unsigned char)s[i]);
	printf("].\n");
}

int main(void)
{
	puts("(* GENERATED from the working tree by props/C01/gen_c01.c -- do not edit *)");
	puts("From Coq Require Import NArith List.");
	puts("Import ListNotations.");
	puts("Local Open Scope N_scope.");
	N(S_IFMT, S_IFMT); N(S_IFSOCK, S_IFSOCK); N(S_IFLNK, S_IFLNK); N(S_IFREG, S_IFREG);
	N(S_IFBLK, S_IFBLK); N(S_IFDIR, S_IFDIR); N(S_IFCHR, S_IFCHR); N(S_IFIFO, S_IFIFO);
	N(SQFS_INODE_MODE_MASK, SQFS_INODE_MODE_MASK);
	N(SQFS_XATTR_USER, SQFS_XATTR_USER); N(SQFS_XATTR_TRUSTED, SQFS_XATTR_TRUSTED);
	N(SQFS_XATTR_SECURITY, SQFS_XATTR_SECURITY);
	N(SQFS_XATTR_FLAG_OOL, SQFS_XATTR_FLAG_OOL); N(SQFS_XATTR_PREFIX_MASK, SQFS_XATTR_PREFIX_MASK);
	str("xattr_prefix_user", sqfs_get_xattr_prefix(SQFS_XATTR_USER));
	str("xattr_prefix_trusted", sqfs_get_xattr_prefix(SQFS_XATTR_TRUSTED));
	str("xattr_prefix_security", sqfs_get_xattr_prefix(SQFS_XATTR_SECURITY));
	N(DIR_INDEX_THRESHOLD, DIR_INDEX_THRESHOLD);
	/* widths (bytes) of the fields whose range the serialisation theorems talk about */
	W(sqfs_inode_t, type); W(sqfs_inode_t, mode); W(sqfs_inode_t, uid_idx); W(sqfs_inode_t, gid_idx);
	W(sqfs_inode_t, mod_time); W(sqfs_inode_t, inode_number);
	W(sqfs_inode_dir_t, start_block); W(sqfs_inode_dir_t, nlink); W(sqfs_inode_dir_t, size);
	W(sqfs_inode_dir_t, offset); W(sqfs_inode_dir_t, parent_inode);
	W(sqfs_inode_dir_ext_t, nlink); W(sqfs_inode_dir_ext_t, size); W(sqfs_inode_dir_ext_t, start_block);
	W(sqfs_inode_dir_ext_t, parent_inode); W(sqfs_inode_dir_ext_t, inodex_count);
	W(sqfs_inode_dir_ext_t, offset); W(sqfs_inode_dir_ext_t, xattr_idx);
	W(sqfs_inode_file_t, blocks_start); W(sqfs_inode_file_t, fragment_index);
	W(sqfs_inode_file_t, fragment_offset); W(sqfs_inode_file_t, file_size);
	W(sqfs_inode_file_ext_t, blocks_start); W(sqfs_inode_file_ext_t, file_size); W(sqfs_inode_file_ext_t, sparse);
	W(sqfs_inode_file_ext_t, nlink); W(sqfs_inode_file_ext_t, fragment_idx);
	W(sqfs_inode_file_ext_t, fragment_offset); W(sqfs_inode_file_ext_t, xattr_idx);
	W(sqfs_inode_slink_t, nlink); W(sqfs_inode_slink_t, target_size);
	W(sqfs_inode_dev_t, nlink); W(sqfs_inode_dev_t, devno); W(sqfs_inode_dev_ext_t, xattr_idx);
	W(sqfs_inode_ipc_t, nlink); W(sqfs_inode_ipc_ext_t, xattr_idx);
	W(sqfs_super_t, id_count); W(sqfs_super_t, inode_count);
	W(sqfs_dir_node_t, size);
	W(sqfs_xattr_entry_t, type); W(sqfs_xattr_entry_t, size); W(sqfs_xattr_value_t, size);
	W(sqfs_xattr_id_t, xattr); W(sqfs_xattr_id_t, count); W(sqfs_xattr_id_t, size);
	/* union offsets that make_extended touches for FIFO/socket inodes (dev_ext.xattr_idx vs ipc_ext.xattr_idx) */
	O(sqfs_inode_ipc_ext_t, xattr_idx); O(sqfs_inode_dev_ext_t, xattr_idx); O(sqfs_inode_slink_ext_t, xattr_idx);
	{
		/* probe: how many distinct ids does the id table accept? (cap 70000 = "no limit") */
		sqfs_id_table_t *tbl = sqfs_id_table_create(0);
		unsigned long n = 0;
		sqfs_u16 idx;
		while (n < 70000 && sqfs_id_table_id_to_index(tbl, (sqfs_u32)(n + 7), &idx) == 0)
			++n;
		N(id_table_limit, n);
		sqfs_drop(tbl);
	}
	return 0;
}
