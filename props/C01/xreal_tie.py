"""C01 section 8 leg (coq/ImgXattrReader): the extracted read_all_real — tree, fragment table, contents AND extended
attributes read by models of the REAL readers; the xattr reader is the C05 model of lib/sqfs/src/xattr/xattr_reader.c with
one reader object threaded through all paths — on images written by the real gensquashfs binary with real compressors.

  (a) search oracle = pack_all_reads_back_real evaluated on the implementation: what read_all_real returns for the image
      equals the input (paths, stat view, hard-link groups, contents, key/value sets) — same comparison as the e2e stage.
  (b) tie of the xattr reader model at tool level: for sampled paths the ORDERED pair list the model returned, printed the
      way bin/rdsquashfs/src/dump_xattrs.c prints it, equals the stdout of `rdsquashfs -x <path>` byte for byte
      (rdsquashfs -x = sqfs_xattr_reader_load + sqfs_xattr_reader_read_all of the real library).
  (c) history independence (theorem xattr_reader_model_refines_spec quantifies over every index sequence): a second reader
      object asked for the distinct indices in reverse order, then forward, then 0xFFFFFFFF, returns the same lists.
Images: the real-compressor images of the e2e stage (all of (a)-(c)) + one image of 700 nodes with 700 distinct sets (two id
blocks, a key-value stream of several metadata blocks, shared values stored once and referenced from later blocks).  On the
large image the quick tier runs xattr_session only — on ~60 indices (0, 511, 512, 513, the last, every kind of set, a
shuffled sample, then the same in reverse) found through the independent reader vlib.sqfsimg — and compares each list with
the input set of that node and with rdsquashfs -x; the thorough tier also runs read_all_real on it (the extracted byte-list
model needs ~10 ms per set)."""
import os
import random
import subprocess
import tempfile
import time
from concurrent.futures import ThreadPoolExecutor

import e2e_tie as E2E
from vlib import sqfsimg

NOIDX = 0xFFFFFFFF


def gen_xbig(seed, n=700):
    rnd = random.Random(seed)
    spec = dict(seed=seed, shape="xreal", bs=4096, mode=0, exportable=rnd.random() < 0.5, notail=False, jobs=1,
                duid=0, dgid=0, dmtime=1600000000, dperm=0o755)
    shared = [rnd.randbytes(40), rnd.randbytes(9), b"s" * 300, rnd.randbytes(rnd.choice([10, 100, 2000]))]
    ents, secs = [], []
    for i in range(n):
        p = "x/n%04d" % i
        ents.append((p, "p", 0o644, i % 7, 0, 0, None))
        kv = [("user.n", b"%d" % i)]                         # every set differs: n lookup table entries
        if i % 3 == 0:
            kv.append(("trusted.s", shared[0]))
        if i % 7 == 0:
            kv.append(("security.selinux", shared[2]))
        if i % 5 == 0:
            kv.append(("user.k" + "x" * 40, shared[1] if i % 10 else b""))
        if i % 97 == 0:
            kv.append(("user.big", shared[3]))
        if rnd.random() < 0.3:
            rnd.shuffle(kv)
        secs.append((p, kv))
    spec["ents"] = ents
    spec["xsecs"] = secs
    return spec


def is_printable(b):
    """bin/rdsquashfs/src/dump_xattrs.c is_printable"""
    cont = 0
    n = len(b)
    i = 0
    while i < n:
        x = b[i]
        i += 1
        rem = n - i
        if cont > 0:
            if (x & 0xC0) != 0x80:
                return False
            cont -= 1
        else:
            if x < 0x80:
                if x < 0x20:
                    if 0x07 <= x <= 0x0D or x == 0:
                        continue
                    return False
                if x == 0x7F:
                    return False
            if (x & 0xE0) == 0xC0:
                cont = 1
            elif (x & 0xF0) == 0xE0:
                cont = 2
            elif (x & 0xF8) == 0xF0:
                cont = 3
            elif (x & 0xFC) == 0xF8:
                cont = 4
            elif (x & 0xFE) == 0xFC:
                cont = 5
            if cont > 0 and rem < cont:
                return False
    return True


def dump_xattrs_text(pairs):
    """what dump_xattrs prints for the list sqfs_xattr_reader_read_all returned"""
    out = b""
    for k, v in pairs:
        out += (k + b"=") if is_printable(k) else (b"0x" + k.hex().upper().encode())
        if is_printable(v):
            out += v.split(b"\0", 1)[0] + b"\n"              # printf("%s\n", value)
        else:
            out += b"0x" + v.hex().upper().encode() + b"\n"
    return out


def parse_pairs(tok):
    if tok == "-":
        return []
    out = []
    for kv in tok.split(";"):
        k, _, v = kv.partition("=")
        out.append((bytes.fromhex(k), bytes.fromhex(v)))
    return out


def parse(lines):
    a = E2E.parse_answer(lines)
    a["X"], a["S"], a["K"] = {}, None, []
    for l in lines:
        t = l.split(" ")
        if t[0] == "X":
            a["X"]["" if t[1] == "-" else bytes.fromhex(t[1]).decode()] = int(t[2])
        elif t[0] == "S":
            a["S"] = t[1:]
        elif t[0] == "K":
            a["K"].append((int(t[1]), parse_pairs(t[2])))
    return a


def run(drv, items):
    """items: (spec, comp, img) -> answers"""
    text = ""
    for sp, comp, img in items:
        n = len(sp["ents"]) + 8
        text += "X %s %d %d %d\n" % (img, E2E.COMP_ID[comp], n, n)
    out, err = E2E.run_driver(drv, text)
    outs, cur = [], []
    for l in out.split("\n"):
        if l == "END":
            outs.append(parse(cur))
            cur = []
        elif l:
            cur.append(l)
    outs += [None] * (len(items) - len(outs))
    return outs, err


def evaluate(ctx, rdsquashfs, items, answers, rnd, st):
    jobs = []
    for (sp, comp, img), a in zip(items, answers):
        tag = "seed=%d %s%s" % (sp["seed"], comp, " shape=" + sp["shape"] if "shape" in sp else "")
        rp = dict(E2E.spec_replay(sp), kind="xreal", comp=comp)
        st["images"] += 1
        if a is None or a.get("err") or not a["A"]:
            ctx.violation("tie:xreal-driver", "the extracted read_all_real gave no answer for a real image (%s): %s" % (tag, (a or {}).get("err")),
                          rp, no_input=True)
            continue
        bad = ["read_all_real does not read the image: %s" % " ".join(a["A"])] if a["A"][0] != "OK" else E2E.compare_readback(sp, a)
        if bad:
            ctx.violation("e2e-readback-xreal:" + ("unreadable" if "does not read" in bad[0] else "mismatch"),
                          "what the extracted read_all_real (models of the real readers only; xattrs by the C05 model of xattr_reader.c) "
                          "returns for the image gensquashfs wrote differs from the input (%s): %s" % (tag, bad[:4]), rp)
            continue
        st["readback_ok"] += 1
        per_path = {}
        for f in a["N"]:
            per_path["" if f[0] == "-" else bytes.fromhex(f[0]).decode()] = parse_pairs(f[9])
        st["xattr_nodes"] += sum(1 for v in per_path.values() if v)
        st["ool_images"] += 1 if len({v for ps in per_path.values() for _, v in ps if len(v) > 8}) < \
            sum(1 for ps in per_path.values() for _, v in ps if len(v) > 8) else 0
        # (c) the second reader object, other order
        by_idx = {}
        for p, i in a["X"].items():
            by_idx.setdefault(i, per_path[p])
        if not a["S"] or a["S"][0] != "OK":
            ctx.violation("tie:xattr-session-order", "the xattr reader model fails on a permuted index sequence (%s): %s" % (tag, a["S"]),
                          rp, no_input=True)
        else:
            st["session_reads"] += len(a["K"])
            for i, pairs in a["K"]:
                if pairs != by_idx.get(i, []):
                    ctx.violation("tie:xattr-session-order", "the xattr reader model returns a different list for index %d when the "
                                  "sets are read in another order (%s): %s vs %s" % (i, tag, pairs[:2], by_idx.get(i, [])[:2]),
                                  rp, no_input=True)
                    break
        st["distinct_sets"] = max(st["distinct_sets"], len([i for i in by_idx if i != NOIDX]))
        # (b) rdsquashfs -x
        withx = sorted(p for p, v in per_path.items() if v and "\n" not in p)
        nonex = sorted(p for p, v in per_path.items() if not v and "\n" not in p)
        k = 14 if sp.get("shape") == "xreal" else 5
        for p in rnd.sample(withx, min(k, len(withx))) + rnd.sample(nonex, min(1, len(nonex))):
            jobs.append((sp, comp, img, p, per_path[p], rp, tag))

    def one(j):
        return rds_x(rdsquashfs, j[2], j[3])

    with ThreadPoolExecutor(max_workers=8) as ex:
        outs = list(ex.map(one, jobs))
    for (sp, comp, img, p, pairs, rp, tag), (rc, out, err) in zip(jobs, outs):
        st["rdsquashfs_x"] += 1
        want = dump_xattrs_text(pairs)
        if rc == 0 and out == want:
            st["rdsquashfs_x_same"] += 1
            continue
        report_tool(ctx, sp, p, rc, out, err, want, rp, tag)


def new_stats():
    return dict(images=0, readback_ok=0, xattr_nodes=0, ool_images=0, session_reads=0, distinct_sets=0, rdsquashfs_x=0,
                rdsquashfs_x_same=0)


def report_tool(ctx, sp, p, rc, out, err, want_text, rp, tag):
    """rdsquashfs -x printed something else than the model's list: which side disagrees with the input?  The input fixes the
    key/value SET of the node (not the order of the pairs)."""
    exp = E2E.expected(sp)[p]["xattrs"]
    exp_lines = sorted(dump_xattrs_text([(k.encode(), v) for k, v in exp.items()]).split(b"\n"))
    if rc != 0 or sorted(out.split(b"\n")) != exp_lines:
        ctx.violation("e2e-xattr-tool:mismatch", "rdsquashfs -x /%s on the image gensquashfs wrote (%s) does not show the input set: rc=%d "
                      "stdout %r stderr %s; input %s" % (p, tag, rc, out[:200], err[-200:], sorted(exp.items())[:3]), dict(rp, path=p))
    else:
        ctx.violation("tie:xattr-model-vs-rdsquashfs", "the pair list of the extracted xattr reader model, printed as dump_xattrs.c "
                      "prints it, differs from rdsquashfs -x /%s (%s): model %r, tool %r (the same set of pairs as the input: no "
                      "property failure)" % (p, tag, want_text[:200], out[:200]), dict(rp, path=p), no_input=True)


def rds_x(rdsquashfs, img, p):
    try:
        r = subprocess.run([rdsquashfs, "-x", "/" + p, img], stdout=subprocess.PIPE, stderr=subprocess.PIPE, env=E2E.ENV, timeout=60)
        return r.returncode, r.stdout, r.stderr.decode("utf-8", "replace")[-400:]
    except subprocess.TimeoutExpired:
        return -99, b"", "timeout"


def big_image(ctx, drv, gensquashfs, rdsquashfs, sp, comp, img, rnd, st, nsample=60):
    """xattr_session of the C05 reader model on sampled indices of a large image: vs the input set of the node, vs
    rdsquashfs -x, and repeated reads in another order"""
    tag = "seed=%d %s shape=xreal nodes=%d" % (sp["seed"], comp, len(sp["ents"]))
    rp = dict(E2E.spec_replay(sp), kind="xreal", comp=comp)
    st["images"] += 1
    try:
        nodes = sqfsimg.Image(open(img, "rb").read()).walk()
    except Exception as e:      # the independent reader cannot read the image: the tool oracle / read_all_real report that
        ctx.violation("tie:xreal-sqfsimg", "vlib.sqfsimg cannot walk the large image (%s): %r" % (tag, e), rp, no_input=True)
        return
    idx_of = {}
    for p, nd in nodes.items():
        q = p.decode() if isinstance(p, bytes) else p
        idx_of[q.lstrip("/")] = nd.xattr_idx
    exp = E2E.expected(sp)
    paths = sorted(p for p in exp if exp[p]["xattrs"] and p in idx_of and idx_of[p] != NOIDX)
    by_idx = {}
    for p in paths:
        by_idx.setdefault(idx_of[p], p)
    n = len(by_idx)
    st["distinct_sets"] = max(st["distinct_sets"], n)
    want = [i for i in (0, 1, 510, 511, 512, 513, 514, 1023, 1024, 1025, n - 2, n - 1) if i in by_idx]
    pool = [i for i in by_idx if i not in want]
    want += rnd.sample(pool, min(max(0, nsample // 2 - len(want)), len(pool)))
    fwd = list(want)
    rnd.shuffle(fwd)
    ks = fwd + [NOIDX] + fwd[::-1]
    out, err = E2E.run_driver(drv, "Q %s %d %d %s\n" % (img, E2E.COMP_ID[comp], 16, ",".join(str(k) for k in ks)))
    a = parse([l for l in out.split("\n") if l and l != "END"])
    if not a["S"] or a["S"][0] != "OK" or len(a["K"]) != len(ks):
        ctx.violation("e2e-readback-xreal:unreadable", "the extracted model of the real xattr reader (load + read_all on %d indices of "
                      "one reader object) fails on the image gensquashfs wrote (%s): %s %s" % (len(ks), tag, a["S"], (a.get("err") or err)[:200]), rp)
        return
    first = {}
    ok = True
    for i, pairs in a["K"]:
        st["session_reads"] += 1
        if i == NOIDX:
            if pairs:
                ctx.violation("tie:xattr-session-order", "index 0xFFFFFFFF yields pairs (%s)" % tag, rp, no_input=True)
            continue
        p = by_idx[i]
        if i in first and first[i] != pairs:
            ctx.violation("tie:xattr-session-order", "the xattr reader model returns a different list for index %d the second time, "
                          "after reads of other sets (%s): %s vs %s" % (i, tag, pairs[:2], first[i][:2]), rp, no_input=True)
            ok = False
            break
        first[i] = pairs
        got = {}
        for k, v in pairs:
            got[k.decode("latin-1")] = v
        if len(got) != len(pairs) or got != exp[p]["xattrs"]:
            ctx.violation("e2e-readback-xreal:mismatch", "set %d (node /%s) read by the extracted model of the real xattr reader from the image "
                          "gensquashfs wrote differs from the input (%s): %s, input %s" % (i, p, tag, sorted(got.items())[:3],
                                                                                          sorted(exp[p]["xattrs"].items())[:3]), dict(rp, path=p))
            ok = False
            break
    if not ok:
        return
    st["readback_ok"] += 1
    st["xattr_nodes"] += len(first)
    st["ool_images"] += 1
    sample = fwd[:14]
    with ThreadPoolExecutor(max_workers=8) as ex:
        outs = list(ex.map(lambda i: rds_x(rdsquashfs, img, by_idx[i]), sample))
    for i, (rc, out, err) in zip(sample, outs):
        st["rdsquashfs_x"] += 1
        p = by_idx[i]
        want_text = dump_xattrs_text(first[i])
        if rc == 0 and out == want_text:
            st["rdsquashfs_x_same"] += 1
        else:
            report_tool(ctx, sp, p, rc, out, err, want_text, rp, tag)
            break


def pack_big(ctx, gensquashfs, sp, comp, work):
    d = tempfile.mkdtemp(dir=work)
    argv, _, img = E2E.materialise(sp, d)
    argv[argv.index("-c") + 1] = comp
    try:
        r = subprocess.run([gensquashfs] + argv, stdout=subprocess.PIPE, stderr=subprocess.PIPE, env=E2E.ENV, timeout=300)
        rc, err = r.returncode, r.stderr.decode("utf-8", "replace")[-500:]
    except subprocess.TimeoutExpired:
        rc, err = -99, "timeout"
    if rc != 0:
        ctx.violation("e2e-pack:refused", "gensquashfs fails on a valid input (%d nodes with distinct xattr sets, %s): rc=%d %s"
                      % (len(sp["ents"]), comp, rc, err[-300:]), dict(E2E.spec_replay(sp), kind="xreal", comp=comp))
        return None
    return img


def leg(ctx, drv, gensquashfs, rdsquashfs, real, work, rnd, quick):
    """real: the results of E2E.run_real (dicts with spec, comp, rc, img)"""
    t0 = time.time()
    st = new_stats()
    items = [(x["spec"], x["comp"], x["img"]) for x in real if x["rc"] == 0 and x.get("img")]
    if not quick:
        items = items[:60]
    bigs = []
    for i in range(1 if quick else 4):
        sp = gen_xbig(rnd.randrange(1 << 40), 700 if i % 2 == 0 else 1100)
        comp = ["gzip", "zstd", "xz", "lz4"][(ctx.seed + i) % 4]
        img = pack_big(ctx, gensquashfs, sp, comp, work)
        if img:
            bigs.append((sp, comp, img))
    if not quick:
        items += bigs[:2]                                     # whole read_all_real on large images as well

    def small():
        answers, _ = run(drv, items)
        return answers

    with ThreadPoolExecutor(max_workers=2) as ex:
        f = ex.submit(small)
        for sp, comp, img in bigs:
            big_image(ctx, drv, gensquashfs, rdsquashfs, sp, comp, img, rnd, st)
        answers = f.result()
    evaluate(ctx, rdsquashfs, items, answers, rnd, st)
    st["seconds"] = round(time.time() - t0, 1)
    return st


def replay(ctx, drv, gensquashfs, rdsquashfs, r):
    sp = E2E.spec_from_replay(r)
    work = tempfile.mkdtemp(dir=ctx.scratch)
    st = new_stats()
    try:
        d = tempfile.mkdtemp(dir=work)
        argv, _, img = E2E.materialise(sp, d)
        comp = r.get("comp", "gzip")
        argv[argv.index("-c") + 1] = comp
        pr = subprocess.run([gensquashfs] + argv, stdout=subprocess.PIPE, stderr=subprocess.PIPE, env=E2E.ENV, timeout=300)
        ctx.log("replay xreal seed=%s %s: gensquashfs rc=%d" % (sp.get("seed"), comp, pr.returncode))
        if pr.returncode != 0:
            ctx.violation("e2e-pack:refused", "gensquashfs fails on the replayed input: %s" % pr.stderr.decode("utf-8", "replace")[-300:],
                          dict(E2E.spec_replay(sp), kind="xreal", comp=comp))
            return st
        items = [(sp, comp, img)]
        if sp.get("shape") == "xreal":
            big_image(ctx, drv, gensquashfs, rdsquashfs, sp, comp, img, random.Random(1), st, nsample=200)
        answers, _ = run(drv, items)
        evaluate(ctx, rdsquashfs, items, answers, random.Random(1), st)
        ctx.log("replay xreal: %s" % st)
        return st
    finally:
        import shutil
        shutil.rmtree(work, ignore_errors=True)


def driver(core, here):
    return core.build_model_driver("C01xreal", "ExtractC01XReal.v", os.path.join(here, "xreal_driver.ml"),
                                   stubs_c=os.path.join(here, "e2e_stubs.c"), cclibs=["-lz", "-llzma", "-llz4", "-lzstd"])
