"""C01 search oracle (tool level) and the xattr component tie driver.  See check.py."""
import hashlib
import json
import os
import random
import shutil
import stat
import subprocess
import time
from concurrent.futures import ThreadPoolExecutor

import treegen as T

NOX = 0xFFFFFFFF
COMPRESSORS = ["gzip", "xz", "lz4", "zstd", "lzma"]
EXTRA = {
    "gzip": [None, "level=1", "level=6,window=9", "filtered,huffman", "rle", "fixed,default"],
    "xz": [None, "level=0", "dictsize=8192", "x86,arm", "lc=1,lp=2,pb=0", "extreme,level=1"],
    "lz4": [None, "hc"],
    "zstd": [None, "level=1", "level=19"],
    "lzma": [None, "level=1", "dictsize=8K", "lc=0,lp=1,pb=4"],
}
BLOCK_SIZES = [4096, 8192, 32768, 65536, 131072, 262144, 1048576]


def caps(scratch):
    c = dict(root=(os.geteuid() == 0), xattr=False, trusted=False)
    p = os.path.join(scratch, "capprobe")
    open(p, "w").close()
    try:
        os.setxattr(p, "user.c01", b"1")
        c["xattr"] = True
        if c["root"]:
            os.setxattr(p, "trusted.c01", b"1")
            c["trusted"] = True
    except OSError:
        pass
    os.unlink(p)
    return c


PROFILES = [
    dict(name="mixed-odd-names", count=28, names="mixed", xattr_p=0.4),
    dict(name="mixed-packdir", count=28, names="mixed", xattr_p=0.4, mode="packdir"),
    dict(name="file-sizes", count=26, names="plain", kinds=["file", "file", "file", "dir"], xattr_p=0.0),
    dict(name="dir-sizes", count=6, names="plain", bigdirs=[(255, "plain"), (256, "plain"), (257, "plain"), (300, "long")],
         kinds=["dir", "file", "fifo"]),
    dict(name="many-ids", count=330, names="plain", ids=list(range(0, 3000, 9)) + [65535, 65536, NOX], kinds=["fifo", "dir", "cdev", "file"],
         content="small"),
    dict(name="hard-links", count=40, names="mixed", kinds=["file", "hlink", "hlink", "dir", "slink", "fifo", "cdev", "hlink"], content="small"),
    dict(name="glob", count=25, names="mixed", mode="glob", xattr_p=0.0),
    dict(name="packdir-set-ids", count=25, names="mixed", mode="packdir", force_ids=True),
    dict(name="export-notail-jobs", count=24, names="plain", kinds=["file", "file", "dir", "slink"], opts=["-e", "-T", "-j", "4", "-Q", "3"]),
    dict(name="xattr-sets-512", count=8, names="plain", xattr_sets=True),
    dict(name="big-blocks", count=7, names="plain", kinds=["file", "file", "dir"], bs=1048576),
    dict(name="defaults-implicit", count=30, names="mixed", implicit_p=0.8, defaults=True, xattr_p=0.2),
    dict(name="meta-8k", count=10, names="plain", bigdirs=[(340, "plain"), (1030, "plain")], kinds=["dir", "fifo"]),
    dict(name="dups-tails", count=30, names="plain", kinds=["file"], content=None, dup_heavy=True),
]


def make_case(seed, idx, quick, cap):
    rnd = random.Random((seed << 20) ^ (idx * 2654435761 & 0xFFFFFFFF))
    prof = dict(PROFILES[idx % len(PROFILES)])
    comp = COMPRESSORS[(idx // len(PROFILES) + idx) % len(COMPRESSORS)]
    bs = prof.get("bs") or rnd.choice(BLOCK_SIZES[:5] if quick else BLOCK_SIZES)
    if prof["name"] in ("file-sizes", "dups-tails") and quick:
        bs = rnd.choice([4096, 8192, 32768])
    mode = prof.get("mode", "packfile")
    if mode in ("packdir", "glob") and not cap["root"]:
        mode = "packfile"
    if prof.get("dup_heavy"):
        prof["kinds"] = ["file"]
    if mode in ("packdir", "glob") and not prof.get("ids"):
        # chown(-1) means "leave unchanged": 2^32-1 cannot be given to a file of the host
        prof["ids"] = [0, 1, 2, 1000, 65534, 65535, 65536, 0x7FFFFFFF, 0xFFFFFFFE]
    nodes = T.gen_tree(rnd, prof, bs)
    if prof.get("dup_heavy"):
        files = [n for n in nodes if n.kind == "file"]
        for n in files[len(files) // 2:]:
            n.data = T.gen_content(rnd, bs, rnd.choice(["dup", "tail"]), [f.data for f in files[:len(files) // 2]])
    if prof.get("xattr_sets"):
        # 505..520 nodes with pairwise distinct xattr sets (crosses the 512-entries-per-metadata-block border of
        # the xattr id table), plus shared long values and a few duplicates of sets
        n_sets = rnd.choice([511, 512, 513, 1024] if not quick else [511, 512, 513])
        d = T.TNode(b"x", "dir", perm=0o755)
        nodes.append(d)
        shared = rnd.randbytes(40)
        for i in range(n_sets):
            n = T.TNode(b"x/n%04d" % i, "fifo", perm=0o644, uid=i % 7, gid=0)
            n.xattrs = {"user.k": b"%04d" % i}
            if i % 3 == 0:
                n.xattrs["user.shared"] = shared
            if i % 50 == 0:
                n.xattrs["trusted.long"] = bytes([i % 256]) * 300
            nodes.append(n)
        for i in range(5):
            n = T.TNode(b"x/dup%d" % i, "fifo", perm=0o600)
            n.xattrs = dict(nodes[-(10 + i * 3)].xattrs)
            nodes.append(n)
    opts = dict(def_mtime=0, def_uid=0, def_gid=0, def_mode=0o755, set_uid=None, set_gid=None, keep_time=False,
                keep_xattr=False, xattr_file=False, explicit_root=False)
    args = ["-q", "-f", "-c", comp, "-b", str(bs)]
    x = rnd.choice(EXTRA[comp])
    if x:
        args += ["-X", x]
    args += prof.get("opts", [])
    if "-j" not in args and rnd.random() < 0.4:
        args += ["-j", str(rnd.choice([1, 2, 4, 8]))]
    if rnd.random() < 0.3 and "-e" not in args:
        args += ["-e"]
    if rnd.random() < 0.2 and "-T" not in args:
        args += ["-T"]
    if rnd.random() < 0.2:
        args += ["-B", str(rnd.choice([1024, 4096, 65536]))]
    if prof.get("defaults") or rnd.random() < 0.4:
        opts["def_mtime"] = rnd.choice([0, 1, 1234567890, 0xFFFFFFFF, 0x80000000])
        opts["def_uid"] = rnd.choice([0, 77, 65536])
        opts["def_gid"] = rnd.choice([0, 88])
        opts["def_mode"] = rnd.choice([0o755, 0o700, 0o1777])
        args += ["-d", "mtime=%d,uid=%d,gid=%d,mode=0%o" % (opts["def_mtime"], opts["def_uid"], opts["def_gid"], opts["def_mode"])]
    if prof.get("force_ids") or rnd.random() < 0.15:
        r = rnd.random()
        if r < 0.3:
            args += ["--all-root"]
            opts["set_uid"], opts["set_gid"] = 0, 0
        else:
            opts["set_uid"] = rnd.choice([0, 1000, 65536, 0x7FFFFFFF])
            args += ["--set-uid", str(opts["set_uid"])]
            if rnd.random() < 0.7:
                opts["set_gid"] = rnd.choice([0, 100, 70000])
                args += ["--set-gid", str(opts["set_gid"])]
    any_x = any(n.xattrs for n in nodes)
    if mode == "packfile":
        opts["explicit_root"] = rnd.random() < 0.6
        if any_x and T.xattr_file_ok(nodes):
            opts["xattr_file"] = True
        else:
            for n in nodes:
                n.xattrs = {}
        # forced ids apply to the lines of the description file only: implicit directories keep the defaults (C17's
        # subject); keep this oracle on what C01 fixes by not mixing the two
        if opts["set_uid"] is not None or opts["set_gid"] is not None:
            prof["implicit_p"] = 0.0
            opts["explicit_root"] = True
    else:
        if mode == "packdir":
            opts["keep_time"] = rnd.random() < 0.6
            if opts["keep_time"]:
                args += ["-k"]
            if any_x and cap["xattr"] and cap["trusted"] and rnd.random() < 0.8:
                opts["keep_xattr"] = True
                args += ["-x"]
        if not opts["keep_xattr"]:
            for n in nodes:
                n.xattrs = {}
        else:
            for n in nodes:
                if n.kind not in ("file", "dir"):
                    n.xattrs = {k: v for k, v in n.xattrs.items() if not k.startswith("user.")}
        for n in nodes:
            # host limits: names up to 255 bytes, symlink targets < 4096, mtime within what the fs stores
            if n.kind == "slink" and len(n.target) > 4000:
                n.target = n.target[:4000]
    return dict(profile=prof, mode=mode, comp=comp, bs=bs, args=args, opts=opts, nodes=nodes, rnd=rnd)


def sig_of(diff):
    # "<what>: <path> <field>: expected..." -> "<what>:<field>"
    try:
        what, rest = diff.split(": ", 1)
        if rest.startswith("missing path"):
            return what + ":missing-path"
        if rest.startswith("extra path"):
            return what + ":extra-path"
        fld = rest.split(": expected", 1)[0].rsplit(" ", 1)[1]
        return what + ":" + fld
    except Exception:
        return "readback:diff"


def build_image(case, work, tools, env, timeout=300):
    """materialise the input and run gensquashfs; returns (rc, stdout, stderr, image path, description text)"""
    nodes, mode, opts = case["nodes"], case["mode"], case["opts"]
    rnd = case["rnd"]
    img = os.path.join(work, "out.sqfs")
    desc = ""
    cmd = [tools["gensquashfs"]] + case["args"]
    if mode == "packfile":
        pd = os.path.join(work, "pd")
        pf = os.path.join(work, "pack.txt")
        T.write_packfile(nodes, pd, pf, opts["explicit_root"], case["profile"].get("implicit_p", 0.25), rnd)
        cmd += ["-D", pd, "-F", pf]
        desc = open(pf, "rb").read()[:20000].decode("latin-1")
        if opts["xattr_file"]:
            xf = os.path.join(work, "xattr.txt")
            T.write_xattr_file(nodes, xf)
            cmd += ["-A", xf]
    elif mode == "packdir":
        pd = os.path.join(work, "tree")
        T.materialize_dir(nodes, pd, set_xattr=opts["keep_xattr"])
        cmd += ["-D", pd]
    else:
        pd = os.path.join(work, "base")
        T.materialize_dir(nodes, os.path.join(pd, "src"))
        pf = os.path.join(work, "pack.txt")
        root = nodes[0]
        lines = []
        if opts["explicit_root"]:
            lines.append("dir / 0%o %d %d" % (root.perm, root.uid, root.gid))
        lines.append("glob / * * * src")
        open(pf, "w").write("\n".join(lines) + "\n")
        desc = "\n".join(lines)
        cmd += ["-D", pd, "-F", pf]
    cmd.append(img)
    rc, out, err = T.run(cmd, timeout=timeout, env=env)
    return rc, out, err, img, desc, cmd


def compare_all(case, img, tools, env, work, cap, thorough):
    """all read-back views; returns list of diff strings, dict of counts"""
    nodes, mode, opts = case["nodes"], case["mode"], case["opts"]
    rnd = random.Random(1234)
    exp = T.expected_tree(nodes, mode, opts)
    diffs = []
    counts = dict(paths=len(exp), cat=0, stat=0, xattr=0, ls=0, unpack=0)
    data = open(img, "rb").read()
    try:
        got, image = T.read_independent(data)
        diffs += T.compare_trees(exp, got, "independent-reader")
    except Exception as e:   # ParseError, or a decompressor error on a damaged metadata block
        diffs.append("independent-reader: image unreadable: %r" % (e,))
        return diffs, counts
    rd = tools["rdsquashfs"]
    san = []

    def rds(args, timeout=120):
        rc, out, err = T.run([rd] + args + [img], timeout=timeout, env=env)
        if T.sanitizer_hit(rc, err):
            san.append((args, rc, err[-1500:].decode("latin-1")))
        return rc, out, err

    # -d
    if T.describe_safe(exp):
        rc, out, err = rds(["-d"])
        if rc != 0:
            diffs.append("describe: rdsquashfs -d failed rc=%d: %s" % (rc, err[-200:].decode("latin-1")))
        else:
            diffs += T.check_describe(exp, out)
    paths = sorted(exp)
    files = [p for p in paths if exp[p]["type"] == "file"]
    # -c on a sample of files (all in the thorough tier)
    for p in (files if thorough else rnd.sample(files, min(6, len(files)))):
        rc, out, err = rds(["-c", b"/" + p])
        counts["cat"] += 1
        if rc != 0:
            diffs.append("cat: %r rdsquashfs -c failed rc=%d: %s" % (p, rc, err[-200:].decode("latin-1")))
        elif hashlib.sha256(out).hexdigest() != exp[p]["sha"]:
            diffs.append("cat: %r sha: expected %s got %s (len %d vs %d)" % (p, exp[p]["sha"][:16], hashlib.sha256(out).hexdigest()[:16], exp[p]["size"], len(out)))
    # -s on hard-link members and a sample
    multi = [p for p in paths if len(exp[p]["group"]) > 1]
    sample = set(rnd.sample(multi, min(6, len(multi))) + rnd.sample(paths, min(5, len(paths))) + [b""])
    if thorough:
        sample = set(paths)
    inos = {}
    for p in sorted(sample):
        if any(c in p for c in b"\n"):
            continue
        rc, out, err = rds(["-s", b"/" + p])
        counts["stat"] += 1
        if rc != 0:
            diffs.append("stat: %r rdsquashfs -s failed rc=%d: %s" % (p, rc, err[-200:].decode("latin-1")))
            continue
        g = T.parse_stat(out)
        e = exp[p]
        for k in ("type", "perm", "uid", "gid", "mtime", "size", "dev"):
            if k in e and k in g and g[k] != e[k]:
                diffs.append("stat: %r %s: expected %r got %r" % (p, k, e[k], g[k]))
        if e["type"] != "dir" and "nlink" in g and g["nlink"] != len(e["group"]):
            diffs.append("stat: %r nlink: expected %d got %d" % (p, len(e["group"]), g["nlink"]))
        if "ino" in g:
            inos[p] = g["ino"]
    for p, i in inos.items():
        for q, j in inos.items():
            same = exp[q]["group"] == exp[p]["group"]
            if (i == j) != same:
                diffs.append("stat: %r group: inode numbers of %r and %r are %s but the paths are %s" % (
                    p, p, q, "equal" if i == j else "different", "one hard-link group" if same else "different files"))
    # -x
    withx = [p for p in paths if exp[p]["xattrs"]]
    for p in rnd.sample(withx, min(5, len(withx))) + rnd.sample(paths, min(2, len(paths))):
        if any(c in p for c in b"\n"):
            continue
        rc, out, err = rds(["-x", b"/" + p])
        counts["xattr"] += 1
        if rc != 0:
            diffs.append("xattr: %r rdsquashfs -x failed rc=%d: %s" % (p, rc, err[-200:].decode("latin-1")))
            continue
        keys = set()
        for l in out.split(b"\n"):
            if b"=" in l:
                keys.add(l.split(b"=", 1)[0].decode("latin-1"))
        # values are printed raw or as hex depending on their bytes: the key set and, for hex-printed values, the value are compared
        if keys != set(exp[p]["xattrs"]) and not any(b"\n" in bytes.fromhex(v) for v in exp[p]["xattrs"].values()):
            diffs.append("xattr: %r xattrs: expected keys %r got %r" % (p, sorted(exp[p]["xattrs"]), sorted(keys)))
        for l in out.split(b"\n"):
            if b"=0x" in l:
                k, v = l.split(b"=0x", 1)
                k = k.decode("latin-1")
                if k in exp[p]["xattrs"] and exp[p]["xattrs"][k].lower() != v.decode("latin-1").lower():
                    diffs.append("xattr: %r xattrs: %s expected %s got %s" % (p, k, exp[p]["xattrs"][k][:40], v[:40]))
    # -l on some directories
    dirs = [p for p in paths if exp[p]["type"] == "dir" and not any(c in p for c in b"\n")]
    for d in rnd.sample(dirs, min(3, len(dirs))):
        rc, out, err = rds(["-l", b"/" + d])
        counts["ls"] += 1
        kids = [p for p in paths if p and (p.rsplit(b"/", 1)[0] if b"/" in p else b"") == d]
        if rc != 0:
            diffs.append("list: %r rdsquashfs -l failed rc=%d: %s" % (d, rc, err[-200:].decode("latin-1")))
            continue
        lines = [l for l in out.split(b"\n") if l]
        if len(lines) != len(kids) and not any(b"\n" in k for k in kids):
            diffs.append("list: %r entries: expected %d got %d" % (d, len(kids), len(lines)))
        for k in kids:
            nm = k.rsplit(b"/", 1)[-1]
            if not any(l.endswith(b" " + nm) or (b" " + nm + b" -> ") in l for l in lines):
                diffs.append("list: %r entries: name %r not listed" % (d, nm))
                break
    # -u
    if cap["root"] and (thorough or len(paths) <= 80):
        up = os.path.join(work, "unpacked")
        flags = ["-q", "-T", "-C", "-O"]
        # the host refuses user.* attributes on symlinks and special files: restore xattrs only when none is needed there
        restore_x = cap["trusted"] and not any(k.startswith("user.") for p, e in exp.items() if e["type"] not in ("file", "dir")
                                               for k in e["xattrs"])
        if restore_x:
            flags.append("-X")
        rc, out, err = T.run([rd] + flags + ["-u", "/", "-p", up, img], timeout=300, env=env)
        counts["unpack"] += 1
        if T.sanitizer_hit(rc, err):
            san.append((["-u"], rc, err[-1500:].decode("latin-1")))
        if rc != 0:
            diffs.append("unpack: rdsquashfs -u failed rc=%d: %s" % (rc, err[-300:].decode("latin-1")))
        else:
            try:
                gotu = T.unpack_scan(up)
                skip = ["group"]
                if not restore_x:
                    skip.append("xattrs")
                # user.* xattrs cannot be set on symlinks / special files by the host: compare them on files and dirs only
                expu = {}
                for p, e in exp.items():
                    e2 = dict(e)
                    if e["type"] not in ("file", "dir"):
                        e2["xattrs"] = {k: v for k, v in e["xattrs"].items() if not k.startswith("user.")}
                        if p in gotu and "xattrs" in gotu[p]:
                            gotu[p]["xattrs"] = {k: v for k, v in gotu[p]["xattrs"].items() if not k.startswith("user.")}
                    expu[p] = e2
                # chown(-1) means "leave unchanged": an owner id of 2^32-1 cannot be restored by the host
                for p, e in expu.items():
                    for k in ("uid", "gid"):
                        if e.get(k) == NOX and p in gotu:
                            gotu[p][k] = NOX
                # the unpack root itself is created by mkdir: only its children are restored
                expu.pop(b"", None)
                gotu.pop(b"", None)
                # directory mtimes: restored after the children; sockets cannot be given times on some kernels
                diffs += T.compare_trees(expu, gotu, "unpack", check_nlink=False, skip=skip)
            except OSError as e:
                diffs.append("unpack: scanning the unpacked tree failed: %s" % e)
        shutil.rmtree(up, ignore_errors=True)
    for args, rc, err in san:
        diffs.append("sanitizer: rdsquashfs %r died rc=%s: %s" % (args, rc, err[-400:]))
    return diffs, counts


try:
    from vlib.sqfsimg import ParseError as S_ParseError
except Exception:  # pragma: no cover
    class S_ParseError(Exception):
        pass


def run_tool_case(seed, idx, quick, tools, scratch, env, cap):
    work = os.path.join(scratch, "case%d" % idx)
    os.makedirs(work, exist_ok=True)
    res = dict(idx=idx, status="ok", diffs=[], counts={}, profile=None)
    try:
        case = make_case(seed, idx, quick, cap)
        res["profile"] = case["profile"]["name"]
        res["mode"] = case["mode"]
        res["comp"] = case["comp"]
        res["bs"] = case["bs"]
        res["args"] = case["args"]
        rc, out, err, img, desc, cmd = build_image(case, work, tools, env)
        res["cmd"] = " ".join(cmd)
        res["desc"] = desc[:6000]
        if T.sanitizer_hit(rc, err):
            res["status"] = "sanitizer"
            res["diffs"] = ["sanitizer: gensquashfs died rc=%s: %s" % (rc, err[-2500:].decode("latin-1"))]
            return res
        if rc != 0:
            res["status"] = "refused"
            res["diffs"] = ["gensquashfs refused a representable tree rc=%d: %s" % (rc, err[-400:].decode("latin-1"))]
            return res
        diffs, counts = compare_all(case, img, tools, env, work, cap, not quick)
        res["counts"] = counts
        if diffs:
            res["status"] = "diff"
            res["diffs"] = diffs[:12]
    except Exception as e:  # machinery failure
        import traceback
        res["status"] = "machinery"
        res["diffs"] = ["machinery: %r\n%s" % (e, traceback.format_exc()[-1500:])]
    finally:
        shutil.rmtree(work, ignore_errors=True)
    return res


# --------------------------------------------------------------------------
# targeted: unrepresentable input must be refused (or read back exactly); known defect triggers
# --------------------------------------------------------------------------

def gens(tools, env, args, timeout=300):
    return T.run([tools["gensquashfs"], "-q", "-f"] + args, timeout=timeout, env=env)


def image_reads_back(tools, env, img, check):
    """check(walk dict) -> error string or None; both readers"""
    try:
        got, _ = T.read_independent(open(img, "rb").read(), with_data=False)
    except Exception as e:   # ParseError, or a decompressor error on a damaged metadata block
        return "independent reader: %r" % (e,)
    r = check(got)
    if r:
        return r
    rc, out, err = T.run([tools["rdsquashfs"], "-d", img], env=env)
    if rc != 0:
        return "rdsquashfs -d failed: %s" % err[-200:].decode("latin-1")
    return None


def targeted_cases(quick, cap):
    t = []
    # --- ids: 65535 fit, 65536 and more do not (F04)
    for n in (65535, 65536, 65537):
        t.append(dict(name="ids-%d" % n, kind="ids", n=n))
    # --- hard link directive (F05)
    t.append(dict(name="link-directive", kind="link"))
    # --- xattr sets at the 512-per-block border (F06)
    for n in (511, 512, 513, 1024):
        t.append(dict(name="xattr-sets-%d" % n, kind="xsets", n=n))
    # --- names longer than the 16-bit size field (F22)
    for n in (256, 257, 65536, 65537, 70000):
        t.append(dict(name="name-len-%d" % n, kind="namelen", n=n))
    # --- device numbers beyond 12 bit major / 20 bit minor (F24)
    for maj, mnr in ((4095, 1048575), (4096, 1), (1, 1048576), (5000, 1), (0xFFFFFFFF, 0xFFFFFFFF)):
        t.append(dict(name="devno-%d-%d" % (maj, mnr), kind="devno", maj=maj, mnr=mnr))
    # --- xattr key longer than the 16-bit size field
    for n in (255, 65535, 65536, 65541):
        t.append(dict(name="xattr-keylen-%d" % n, kind="xkeylen", n=n))
    # --- empty xattr value from the host (F25)
    if cap["xattr"]:
        t.append(dict(name="host-xattr-empty", kind="hostx"))
    # --- directory listing size at the basic/extended directory inode border: the basic inode stores
    #     listing size + 3 in 16 bits (one header of 12 bytes, 8 bytes per entry, the name bytes)
    for listing in range(65526, 65542) if quick else range(65500, 65580):
        t.append(dict(name="dir-listing-%d" % listing, kind="dirsize", listing=listing))
    if not quick:
        # --- block list of a huge file on the stack (F23): 9 GiB hole, 4 KiB blocks
        t.append(dict(name="huge-sparse-4k", kind="hugesparse", gib=9))
    return t


def run_targeted(tc, tools_asan, tools_plain, scratch, env):
    work = os.path.join(scratch, "t-" + tc["name"])
    os.makedirs(work, exist_ok=True)
    img = os.path.join(work, "o.sqfs")
    pf = os.path.join(work, "p.txt")
    res = dict(name=tc["name"], status="ok", what="", replay=dict(kind="targeted", case=tc))
    tools = tools_asan

    def fail(sig, what):
        res["status"] = "violation"
        res["sig"] = sig
        res["what"] = what

    try:
        k = tc["kind"]
        if k == "ids":
            n = tc["n"]
            ids = list(range(1, n))
            with open(pf, "w") as f:
                j = 0
                i = 0
                while i < len(ids):
                    u = ids[i]
                    g = ids[i + 1] if i + 1 < len(ids) else 0
                    if j % 256 == 0:
                        f.write("dir /s%d 0755 0 0\n" % (j // 256))
                    f.write("nod /s%d/n%d 0644 %d %d c 1 2\n" % (j // 256, j, u, g))
                    j += 1
                    i += 2
            rc, out, err = gens(tools, env, ["-F", pf, img])
            if T.sanitizer_hit(rc, err):
                fail("sanitizer:gensquashfs:ids", "gensquashfs died with %d distinct ids: %s" % (n, err[-600:].decode("latin-1")))
            elif rc == 0:
                def chk(got):
                    seen = set()
                    for p, e in got.items():
                        seen.add(e["uid"])
                        seen.add(e["gid"])
                    return None if seen == set(range(0, n)) else "ids read back: %d distinct, expected %d" % (len(seen), n)
                r = image_reads_back(tools, env, img, chk)
                if r:
                    fail("F04:id-count-wrap:%d" % n, "gensquashfs exits 0 for %d distinct uid/gid values but the image does not read back: %s" % (n, r))
                elif n > 65535:
                    fail("refusal:ids:%d" % n, "%d distinct ids accepted and read back: the 16-bit id count cannot hold that" % n)
            elif n <= 65535:
                res["status"] = "refused"
                res["what"] = "gensquashfs refuses %d distinct ids: %s" % (n, err[-200:].decode("latin-1"))
        elif k == "link":
            os.makedirs(os.path.join(work, "pd"))
            open(os.path.join(work, "pd", "a"), "w").write("hello\n")
            open(pf, "w").write("file /a 0644 1 2\ndir /d 0755 0 0\nlink /d/b 0644 0 0 /a\nlink /c 0644 0 0 d/b\nslink /s 0777 0 0 /a\n")
            rc, out, err = gens(tools, env, ["-D", os.path.join(work, "pd"), "-F", pf, img])
            if T.sanitizer_hit(rc, err):
                fail("sanitizer:gensquashfs:link", "gensquashfs died on a link directive: %s" % err[-600:].decode("latin-1"))
            elif rc == 0:
                def chk(got):
                    a, b, c, s = got.get(b"a"), got.get(b"d/b"), got.get(b"c"), got.get(b"s")
                    if not (a and b and c and s):
                        return "paths missing: %r" % sorted(got)
                    if b["type"] != "file" or c["type"] != "file" or not (a["ino"] == b["ino"] == c["ino"]) or a["nlink"] != 3:
                        return "a=%s/ino %d/nlink %d, d/b=%s/ino %d, c=%s/ino %d" % (a["type"], a["ino"], a["nlink"], b["type"], b["ino"], c["type"], c["ino"])
                    if s["type"] != "slink" or s["ino"] == a["ino"]:
                        return "slink directive gave %s" % s["type"]
                    return None
                r = image_reads_back(tools, env, img, chk)
                if r:
                    fail("F05:link-directive", "`link /d/b ... /a` does not create a hard link: %s" % r)
            else:
                res["status"] = "refused"
                res["what"] = err[-200:].decode("latin-1")
        elif k == "xsets":
            n = tc["n"]
            xf = os.path.join(work, "x.txt")
            with open(pf, "w") as f, open(xf, "w") as x:
                for i in range(n):
                    f.write("nod /n%d 0644 0 0 c 1 2\n" % i)
                    x.write("# file: /n%d\nuser.k=0x%04x\n" % (i, i))
            rc, out, err = gens(tools, env, ["-F", pf, "-A", xf, img])
            if T.sanitizer_hit(rc, err):
                fail("F06:xattr-location-table:%d" % n, "gensquashfs with %d distinct xattr sets: memory error: %s" % (n, err[-900:].decode("latin-1")))
            elif rc == 0:
                def chk(got):
                    for i in (0, n // 2, n - 1):
                        e = got.get(b"n%d" % i)
                        if not e or e["xattrs"] != {"user.k": "%04x" % i}:
                            return "n%d xattrs %r" % (i, e and e["xattrs"])
                    return None
                r = image_reads_back(tools, env, img, chk)
                if r:
                    fail("readback:xattr-sets:%d" % n, "%d xattr sets do not read back: %s" % (n, r))
            else:
                res["status"] = "refused"
                res["what"] = err[-200:].decode("latin-1")
        elif k == "namelen":
            n = tc["n"]
            nm = "x" * n
            open(pf, "w").write("dir /%s 0755 0 0\ndir /y 0755 0 0\n" % nm)
            rc, out, err = gens(tools, env, ["-F", pf, img])
            if T.sanitizer_hit(rc, err):
                fail("sanitizer:gensquashfs:namelen", "gensquashfs died on a %d byte name: %s" % (n, err[-600:].decode("latin-1")))
            elif rc == 0:
                r = image_reads_back(tools, env, img, lambda got: None if (nm.encode() in got and b"y" in got) else "paths read back: %r" % [p[:20] for p in got])
                if r:
                    fail("F22:name-length-wrap:%d" % n, "gensquashfs exits 0 for a %d byte file name but the image does not read back: %s" % (n, r[:300]))
            elif n <= 256:
                res["status"] = "refused"
                res["what"] = err[-200:].decode("latin-1")[-200:]
        elif k == "devno":
            maj, mnr = tc["maj"], tc["mnr"]
            open(pf, "w").write("nod /c 0600 0 0 c %d %d\nnod /b 0600 0 0 b %d %d\n" % (maj, mnr, maj, mnr))
            rc, out, err = gens(tools, env, ["-F", pf, img])
            if T.sanitizer_hit(rc, err):
                fail("sanitizer:gensquashfs:devno", "gensquashfs died on device number %d:%d: %s" % (maj, mnr, err[-600:].decode("latin-1")))
            elif rc == 0:
                def chk(got):
                    for p in (b"c", b"b"):
                        e = got.get(p)
                        if not e or e.get("dev") != (maj, mnr):
                            return "%r reads back as device %r" % (p, e and e.get("dev"))
                    return None
                r = image_reads_back(tools, env, img, chk)
                if r:
                    fail("F24:device-number-truncated:%d:%d" % (maj, mnr), "gensquashfs exits 0 for `nod ... %d %d` but stores another device number: %s" % (maj, mnr, r))
            elif maj <= 4095 and mnr <= 1048575:
                res["status"] = "refused"
                res["what"] = err[-200:].decode("latin-1")
        elif k == "xkeylen":
            n = tc["n"]
            xf = os.path.join(work, "x.txt")
            key = "user." + "k" * n
            open(pf, "w").write("nod /n 0644 0 0 c 1 2\n")
            open(xf, "w").write("# file: /n\n%s=0x0102\n" % key)
            rc, out, err = gens(tools, env, ["-F", pf, "-A", xf, img])
            if T.sanitizer_hit(rc, err):
                fail("sanitizer:gensquashfs:xkeylen", "gensquashfs died on a %d byte xattr key: %s" % (n, err[-600:].decode("latin-1")))
            elif rc == 0:
                def chk(got):
                    e = got.get(b"n")
                    return None if e and e["xattrs"] == {key: "0102"} else "xattrs read back with key lengths %r" % [len(k) for k in (e or {}).get("xattrs", {})]
                r = image_reads_back(tools, env, img, chk)
                if r:
                    fail("F26:xattr-key-length-wrap:%d" % n, "gensquashfs exits 0 for an xattr key of %d bytes but it does not read back: %s" % (n, r[:300]))
            elif n <= 255:
                res["status"] = "refused"
                res["what"] = err[-200:].decode("latin-1")
        elif k == "hostx":
            pd = os.path.join(work, "pd")
            os.makedirs(pd)
            open(os.path.join(pd, "f"), "w").close()
            os.setxattr(os.path.join(pd, "f"), "user.empty", b"")
            os.setxattr(os.path.join(pd, "f"), "user.full", b"v")
            rc, out, err = gens(tools, env, ["-x", "-D", pd, img])
            if T.sanitizer_hit(rc, err):
                fail("sanitizer:gensquashfs:hostx", "gensquashfs -x died: %s" % err[-600:].decode("latin-1"))
            elif rc == 0:
                def chk(got):
                    e = got.get(b"f")
                    return None if e and e["xattrs"] == {"user.empty": "", "user.full": "76"} else "xattrs of f read back as %r" % (e and e["xattrs"])
                r = image_reads_back(tools, env, img, chk)
                if r:
                    fail("F25:host-xattr-empty-value-dropped", "--keep-xattr loses an extended attribute whose value is empty: %s" % r)
        elif k == "dirsize":
            # 255 device nodes (24 byte inodes: all in one inode block, so one directory header) in the root
            n_ent = 255

            def mk_names(total):
                base, extra = divmod(total, n_ent)
                return [("%03d" % i) + "n" * (base + (1 if i < extra else 0) - 3) for i in range(n_ent)]

            def write_pf(names):
                open(pf, "w").write("".join("nod /%s 0600 0 0 c 1 %d\n" % (nm, i) for i, nm in enumerate(names)))

            # probe just below the border (names a fraction of a byte shorter: same header structure; the size
            # field of the inode is unproblematic there) to learn how many header bytes the writer spends,
            # then aim at the requested listing size
            probe_total = 65400 - 8 * n_ent - 12 * 16
            write_pf(mk_names(probe_total))
            rc, out, err = gens(tools, env, ["-F", pf, img])
            overhead = None
            if rc == 0:
                from vlib import sqfsimg
                im = sqfsimg.Image(open(img, "rb").read())
                overhead = im.inode(im.super["root_ref"]).size - 3 - probe_total
            if overhead is None or overhead < 8 * n_ent + 12:
                raise RuntimeError("dirsize probe failed: rc=%s overhead=%r" % (rc, overhead))
            names = mk_names(tc["listing"] - overhead)
            write_pf(names)
            rc, out, err = gens(tools, env, ["-F", pf, img])
            if T.sanitizer_hit(rc, err):
                fail("sanitizer:gensquashfs:dirsize", "gensquashfs died on a directory listing of %d bytes: %s" % (tc["listing"], err[-600:].decode("latin-1")))
            elif rc == 0:
                def chk(got):
                    missing = [nm for nm in names if nm.encode() not in got]
                    return None if not missing else "%d of %d entries missing from the root directory (first: %s...)" % (len(missing), n_ent, missing[0][:12])
                r = image_reads_back(tools, env, img, chk)
                if r:
                    fail("readback:dir-listing-size:%d" % tc["listing"], "gensquashfs exits 0 for a root directory whose listing is %d bytes but it does not read back: %s" % (tc["listing"], r[:300]))
            else:
                res["status"] = "refused"
                res["what"] = err[-200:].decode("latin-1")
        elif k == "hugesparse":
            pd = os.path.join(work, "pd")
            os.makedirs(pd)
            with open(os.path.join(pd, "sparse"), "wb") as f:
                f.truncate(tc["gib"] << 30)
            rc, out, err = T.run([tools_plain["gensquashfs"], "-q", "-f", "-b", "4096", "-D", pd, img], timeout=1500, env=env)
            if T.sanitizer_hit(rc, err):
                fail("F23:block-list-on-stack", "gensquashfs -b 4096 on a %d GiB sparse file dies (rc=%s): write_block_sizes puts the block list on the stack" % (tc["gib"], rc))
            elif rc == 0:
                def chk(got):
                    e = got.get(b"sparse")
                    return None if e and e["size"] == tc["gib"] << 30 else "size %r" % (e and e["size"])
                r = image_reads_back(tools_plain, env, img, chk)
                if r:
                    fail("readback:huge-sparse", r)
    except Exception as e:
        import traceback
        res["status"] = "machinery"
        res["what"] = "machinery: %r %s" % (e, traceback.format_exc()[-800:])
    finally:
        shutil.rmtree(work, ignore_errors=True)
    return res


def tool_oracle(ctx, asan, plain, rnd, quick, env):
    t0 = time.time()
    cap = caps(ctx.scratch)
    n_cases = 56 if quick else 800
    tools = asan["tools"]
    stats = dict(images=0, images_ok=0, refused=0, by_profile={}, by_comp={}, by_mode={}, counts={}, caps=cap, targeted={})
    results = []
    tcs = targeted_cases(quick, cap)
    with ThreadPoolExecutor(max_workers=14) as ex:
        # long-running targeted cases first
        tf = [ex.submit(run_targeted, tc, asan["tools"], plain["tools"], ctx.scratch, env) for tc in tcs]
        cf = [ex.submit(run_tool_case, ctx.seed, i, quick, tools, ctx.scratch, env, cap) for i in range(n_cases)]
        results = [f.result() for f in cf]
        tres = [f.result() for f in tf]
    reported = set()
    for r in results:
        stats["images"] += 1
        stats["by_profile"][r["profile"]] = stats["by_profile"].get(r["profile"], 0) + 1
        if r["status"] == "ok":
            stats["images_ok"] += 1
            stats["by_comp"][r["comp"]] = stats["by_comp"].get(r["comp"], 0) + 1
            stats["by_mode"][r["mode"]] = stats["by_mode"].get(r["mode"], 0) + 1
            for k, v in r["counts"].items():
                stats["counts"][k] = stats["counts"].get(k, 0) + v
            continue
        if r["status"] == "refused":
            stats["refused"] += 1
            stats.setdefault("refusals", []).append(dict(case=r["idx"], profile=r["profile"], why=r["diffs"][0][-200:]))
            continue
        d0 = r["diffs"][0]
        if r["status"] == "sanitizer":
            sig = "sanitizer:gensquashfs:" + (r["profile"] or "?")
            if "xattr_writer_flush" in d0:
                sig = "F06:xattr-location-table:search"
        elif r["status"] == "machinery":
            sig = "machinery-error:tool"
        else:
            sig = "readback:" + sig_of(d0)
        if sig in reported:
            continue
        reported.add(sig)
        ctx.violation(sig, "pack -> read back differs (case %d, profile %s, %s, %s -b %d): %s" % (
            r["idx"], r["profile"], r.get("mode"), r.get("comp"), r.get("bs", 0), " || ".join(r["diffs"][:4])[:1500]),
            dict(kind="tool", case=r["idx"], seed=ctx.seed, tier=ctx.tier, profile=r["profile"], cmd=r.get("cmd"),
                 description=r.get("desc"), diffs=r["diffs"]), no_input=(r["status"] == "machinery"))
    for r in tres:
        stats["targeted"][r["name"]] = r["status"]
        if r["status"] == "violation":
            ctx.violation(r["sig"], r["what"][:1500], r["replay"])
        elif r["status"] == "machinery":
            ctx.violation("machinery-error:targeted:" + r["name"], r["what"], r["replay"], no_input=True)
        elif r["status"] == "refused":
            ctx.violation("refused-representable:" + r["name"], "gensquashfs refuses input the format can represent (%s): %s" % (r["name"], r["what"]),
                          r["replay"])
    if stats["images"] and stats["refused"] * 2 > stats["images"]:
        ctx.violation("oracle-vacuous:refusals", "gensquashfs refused %d of %d representable trees: %r" % (
            stats["refused"], stats["images"], stats.get("refusals", [])[:3]), dict(kind="machinery"), no_input=True)
    elif stats["refused"]:
        ctx.notes.append("gensquashfs refused %d representable generated tree(s): %r" % (stats["refused"], stats.get("refusals", [])[:5]))
    ctx.log("tool oracle: %d images (%d compared fully, %d refused), targeted %s  (%.1fs)" % (
        stats["images"], stats["images_ok"], stats["refused"], {k: v for k, v in stats["targeted"].items() if v != "ok"}, time.time() - t0))
    return stats


def replay_tool(ctx, asan, plain, r, env):
    cap = caps(ctx.scratch)
    if r.get("kind") == "targeted":
        res = run_targeted(r["case"], asan["tools"], plain["tools"], ctx.scratch, env)
        ctx.log("replay targeted %s: %s %s" % (res["name"], res["status"], res.get("what", "")[:500]))
        if res["status"] == "violation":
            ctx.violation(res["sig"], res["what"][:1500], res["replay"])
        ctx.coverage["evaluations"] = 1
        return
    res = run_tool_case(int(r.get("seed", ctx.seed)), int(r["case"]), r.get("tier", "quick") == "quick", asan["tools"], ctx.scratch, env, cap)
    ctx.log("replay case %s: %s\n%s" % (r["case"], res["status"], "\n".join(res["diffs"][:8])))
    if res["status"] in ("diff", "sanitizer"):
        ctx.violation(r.get("signature", "readback:replay"), "replayed case still fails: %s" % " || ".join(res["diffs"][:3])[:1200],
                      dict(kind="tool", case=r["case"], seed=r.get("seed"), tier=r.get("tier"), diffs=res["diffs"]))
    ctx.coverage["evaluations"] = 1


# --------------------------------------------------------------------------
# xattr component tie (harness h_xattr.c) -- filled in by check_xattr_tie
# --------------------------------------------------------------------------

def check_xattr_tie(ctx, h_xattr, drv, rnd, quick, env):
    import xattr_cases as X
    return X.run(ctx, h_xattr, drv, rnd, quick, env)
