(* C01 / ImgPost: driver of the extracted lib/fstree model (C11 fs_add, post_process) composed with ImgPost.Bridge.to_img.
   Reads the case lines of props/C01/h_img.c ("T <toymode> <bs> <prefill> <duid> <dgid> <dmtime> <dperm-oct> <n> {E}*n")
   and prints what the harness prints in front of " | ": the post-processed tree in inode number order
     img <toymode> <bs> <N> { <mode> <uid> <gid> <mtime> <nlink> <xattr> K }*N  # r<0|1> i<0|1> a<0|1> m<k>
       (r: Img.representable of the result; i: InputOk.input_okb of the adds; a: InputOk.attached_okb; theorem
       post_tree_representable says i1 a1 => r1; m: number of positions of fs->inodes reorder_hard_links changed)
   or, when the tree cannot be built,
     img - | -1 build add <index of the failing add>      /      img - | -1 build post *)
open Imgpost_model

let rec pos_of_int i = if i = 1 then XH else if i land 1 = 1 then XI (pos_of_int (i lsr 1)) else XO (pos_of_int (i lsr 1))
let n_of_int i = if i = 0 then N0 else Npos (pos_of_int i)
let rec int_of_pos = function XH -> 1 | XO p -> 2 * int_of_pos p | XI p -> 2 * int_of_pos p + 1
let int_of_n = function N0 -> 0 | Npos p -> int_of_pos p
let rec pos_bits = function XH -> 1 | XO p | XI p -> 1 + pos_bits p
let n10 = n_of_int 10

let n_of_string s =
  if String.length s <= 17 then n_of_int (int_of_string s)
  else begin
    let r = ref N0 in
    String.iter (fun c -> r := N.add (N.mul !r n10) (n_of_int (Char.code c - 48))) s;
    !r
  end

let string_of_n n =
  match n with
  | N0 -> "0"
  | Npos p when pos_bits p <= 61 -> string_of_int (int_of_pos p)
  | _ ->
    let rec go n acc = match n with
      | N0 -> acc
      | _ -> let (q, r) = N.div_eucl n n10 in go q (String.make 1 (Char.chr (48 + int_of_n r)) ^ acc) in
    go n ""

(* strtoull followed by the conversion to sqfs_s64 *)
let rec z_of_u64_string s =
  if String.length s > 1 && s.[0] = '-' then
    (match z_of_u64_string (String.sub s 1 (String.length s - 1)) with
     | Zpos p -> Zneg p | Zneg p -> Zpos p | Z0 -> Z0)
  else
  let n = n_of_string s in
  let two63 = n_of_string "9223372036854775808" in
  let two64 = n_of_string "18446744073709551616" in
  match N.compare n two63 with
  | Lt -> (match n with N0 -> Z0 | Npos p -> Zpos p)
  | _ ->
    (* n - 2^64 < 0: compute 2^64 - n by decimal subtraction through OCaml's Int64 *)
    let v = Int64.of_string ("0u" ^ s) in      (* wraps to the negative value *)
    ignore two64;
    let m = Int64.neg v in                     (* 1 .. 2^63 *)
    if Int64.compare m 0L < 0 then Zneg (match two63 with Npos p -> p | N0 -> XH)
    else (match n_of_string (Int64.to_string m) with Npos p -> Zneg p | N0 -> Z0)

let byte_tbl = Array.init 256 n_of_int
let hexv c = if c <= '9' then Char.code c - 48 else (Char.code c lor 32) - 87
let unhex s =
  if s = "-" then [] else begin
    let l = ref [] in
    for i = String.length s / 2 - 1 downto 0 do
      l := byte_tbl.(hexv s.[2*i] * 16 + hexv s.[2*i+1]) :: !l
    done;
    !l
  end
let hex l =
  match l with
  | [] -> "-"
  | _ ->
    let b = Buffer.create 64 in
    List.iter (fun c -> Buffer.add_string b (Printf.sprintf "%02x" (int_of_n c))) l;
    Buffer.contents b

let nlist s = if s = "-" then [] else List.map n_of_string (String.split_on_char ',' s)
let nlist_s l = match l with [] -> "-" | _ -> String.concat "," (List.map string_of_n l)

let toks = ref [||]
let pos = ref 0
let next () = let t = !toks.(!pos) in incr pos; t
let nextn () = n_of_string (next ())
let nexto () = n_of_int (int_of_string ("0o" ^ next ()))

let nox = n_of_string "4294967295"

let parse_file spec =
  match String.split_on_char ':' spec with
  | [ext; bs; fi; fo; fs; sp; w] ->
    let n = n_of_string in
    if ext <> "0" then BFileX (n bs, n fs, n sp, n_of_int 1, n fi, n fo, nox, nlist w)
    else BFile (n bs, n fi, n fo, n fs, nlist w)
  | _ -> failwith "file"

(* the path as the component list the C code walks: split at '/', empty components skipped *)
let split_path (bytes : n list) : n list list =
  let slash = n_of_int 47 in
  let rec go cur acc = function
    | [] -> List.rev (if cur = [] then acc else List.rev cur :: acc)
    | c :: r -> if c = slash then go [] (if cur = [] then acc else List.rev cur :: acc) r else go (c :: cur) acc r in
  go [] [] bytes

let ftype_of = function
  | 'f' -> FReg | 'd' -> FDir | 'l' | 'h' -> FLnk | 'b' -> FBlk | 'c' -> FChr | 'p' -> FFifo | 's' -> FSock
  | _ -> failwith "type"

let rec nat_of_int i = if i = 0 then O else S (nat_of_int (i - 1))
let rec int_of_nat = function O -> 0 | S n -> 1 + int_of_nat n

let print_body b =
  match b with
  | BFileX (bs, fs, sp, _, fi, fo, _, w) ->
    Printf.sprintf "1:%s:%s:%s:%s:%s:%s" (string_of_n bs) (string_of_n fi) (string_of_n fo) (string_of_n fs) (string_of_n sp) (nlist_s w)
  | BFile (bs, fi, fo, fs, w) ->
    Printf.sprintf "0:%s:%s:%s:%s:0:%s" (string_of_n bs) (string_of_n fi) (string_of_n fo) (string_of_n fs) (nlist_s w)
  | _ -> "?"

let print_node b n =
  Buffer.add_string b (Printf.sprintf " %s %s %s %s %s %s " (string_of_n n.fn_mode) (string_of_n n.fn_uid) (string_of_n n.fn_gid)
                         (string_of_n n.fn_mtime) (string_of_n n.fn_nlink) (string_of_n n.fn_xattr));
  match n.fn_payload with
  | PDir (par, ch) ->
    Buffer.add_string b (Printf.sprintf "d %s %d" (string_of_n par) (List.length ch));
    List.iter (fun (nm, c) -> Buffer.add_string b (" " ^ hex nm ^ " " ^ string_of_n c)) ch
  | PFile body -> Buffer.add_string b ("f " ^ print_body body)
  | PSlink t -> Buffer.add_string b ("l " ^ hex t)
  | PDev (chr, d) -> Buffer.add_string b ((if chr then "c " else "b ") ^ string_of_n d)
  | PIpc s -> Buffer.add_string b (if s then "s" else "p")

let all_ops = ref []

let do_case () =
  all_ops := [];
  let mode = next () in
  let bs = next () in
  let _prefill = next () in
  let duid = nextn () in let dgid = nextn () in let dmtime = nextn () in let dperm = nexto () in
  let cnt = int_of_string (next ()) in
  let d = { fd_uid = duid; fd_gid = dgid; fd_mtime = dmtime; fd_perm = dperm } in
  let bodies = Hashtbl.create 64 in
  let xattrs = Hashtbl.create 64 in
  let ops = List.init cnt (fun _ ->
      let hp = next () in
      let ty = (next ()).[0] in
      let perm = nexto () in
      let uid = nextn () in let gid = nextn () in
      let mtime = z_of_u64_string (next ()) in
      let rdev = nextn () in let xattr = nextn () in
      let ex = next () in
      let path = split_path (unhex hp) in
      let extra = if ty = 'l' || ty = 'h' then Some (unhex ex) else None in
      let e = { e_path = path; e_type = ftype_of ty; e_perm = perm; e_uid = uid; e_gid = gid; e_mtime = mtime;
                e_rdev = rdev; e_hard = (ty = 'h') } in
      (* what the harness does to the node a successful add returns *)
      all_ops := (e, extra) :: !all_ops;
      let after () =
        if ty <> 'h' then Hashtbl.replace xattrs path xattr;
        if ty = 'f' then Hashtbl.replace bodies path (parse_file ex) in
      ((e, extra), after)) in
  (* run the adds one by one so that the side tables follow only successful adds, as in the harness *)
  let rec go fs i = function
    | [] -> Ok fs
    | (o, after) :: r ->
      (match run_adds_idx d fs [o] O with
       | Inl fs' -> after (); go fs' (i + 1) r
       | Inr _ -> Error i) in
  match go (fs_init d) 0 ops with
  | Error i -> Printf.printf "img - | -1 build add %d\n" i
  | Ok fs ->
    match post_process fs with
    | POk pp ->
      let fb p = try Hashtbl.find bodies p with Not_found -> BDir (N0, N0, N0, N0, N0) in
      let xa p = try Hashtbl.find xattrs p with Not_found -> nox in
      let t = to_img fb xa pp in
      let b = Buffer.create 4096 in
      Buffer.add_string b (Printf.sprintf "img %s %s %d" mode bs (List.length t));
      List.iter (print_node b) t;
      let bsn = n_of_string bs in
      let rep = representable bsn t in
      let inp = input_okb bsn d (List.rev !all_ops) in
      let att = attached_okb bsn fb xa pp in
      let a0 = alloc_list [] pp.pp_root @ [[]] in
      let moved = List.fold_left2 (fun a x y -> if x = y then a else a + 1) 0 a0 pp.pp_inodes in
      Buffer.add_string b (Printf.sprintf " # r%d i%d a%d m%d" (if rep then 1 else 0) (if inp then 1 else 0)
                             (if att then 1 else 0) moved);
      print_string (Buffer.contents b); print_newline ()
    | _ -> print_string "img - | -1 build post\n"

let () =
  try
    while true do
      let line = input_line stdin in
      toks := Array.of_list (List.filter (fun s -> s <> "") (String.split_on_char ' ' line));
      pos := 0;
      (try
         match next () with
         | "T" -> do_case ()
         | _ -> print_string "PARSE\n"
       with Failure m -> Printf.printf "PARSE %s\n" m
          | Invalid_argument m -> Printf.printf "PARSE %s\n" m);
      flush stdout
    done
  with End_of_file -> ()
