/* C01 e2e driver stubs (same code as props/C08/imgdata_stubs.c and props/C03/image_stubs.c): the decompressor oracle of the
 * extracted read_all on REAL images, bound to the SYSTEM codec libraries with the calling conventions of
 * lib/sqfs/src/comp/{gzip,lzma,xz,lz4,zstd}.c (uncompress direction).  c01e2e_uncompress id input outsize = (ret, output[0..ret)). */
#include <caml/mlvalues.h>
#include <caml/alloc.h>
#include <caml/memory.h>
#include <string.h>
#include <stdlib.h>
#include <stdint.h>
#include <zlib.h>
#include <lzma.h>
#include <lz4.h>
#include <zstd.h>

#define ERR_COMPRESSOR (-3)
#define ERR_CORRUPTED (-4)
#define ERR_ARG_INVALID (-16)
#define LZMA_HDR 13
#define LZMA_SIZE_OFF 5

static long do_uncompress(int id, const unsigned char *in, size_t size, unsigned char *out, size_t outsize)
{
	switch (id) {
	case 1: {
		z_stream s;
		int ret;
		memset(&s, 0, sizeof(s));
		if (size >= 0x7FFFFFFF) return ERR_ARG_INVALID;
		if (inflateInit(&s) != Z_OK) return ERR_COMPRESSOR;
		s.next_in = (void *)in; s.avail_in = size;
		s.next_out = out; s.avail_out = outsize;
		ret = inflate(&s, Z_FINISH);
		if (ret == Z_STREAM_END) { long w = s.total_out; inflateEnd(&s); return w; }
		inflateEnd(&s);
		if (ret != Z_OK && ret != Z_BUF_ERROR) return ERR_COMPRESSOR;
		return 0;
	}
	case 2: {
		unsigned char hdr[LZMA_HDR];
		lzma_stream strm = LZMA_STREAM_INIT;
		size_t hdrsize;
		lzma_ret ret;
		if (size >= 0x7FFFFFFF) return ERR_ARG_INVALID;
		if (size < LZMA_HDR) return ERR_CORRUPTED;
		hdrsize = (size_t)in[LZMA_SIZE_OFF] | ((size_t)in[LZMA_SIZE_OFF + 1] << 8) |
			((size_t)in[LZMA_SIZE_OFF + 2] << 16) | ((size_t)in[LZMA_SIZE_OFF + 3] << 24);
		if (hdrsize > outsize) return 0;
		if (lzma_alone_decoder(&strm, 65 * 1024 * 1024) != LZMA_OK) { lzma_end(&strm); return ERR_COMPRESSOR; }
		memcpy(hdr, in, LZMA_HDR);
		memset(hdr + LZMA_SIZE_OFF, 0xFF, 8);
		strm.next_out = out; strm.avail_out = outsize;
		strm.next_in = hdr; strm.avail_in = LZMA_HDR;
		ret = lzma_code(&strm, LZMA_RUN);
		if (ret != LZMA_OK || strm.avail_in != 0) { lzma_end(&strm); return ERR_COMPRESSOR; }
		strm.next_in = in + LZMA_HDR; strm.avail_in = size - LZMA_HDR;
		ret = lzma_code(&strm, LZMA_FINISH);
		lzma_end(&strm);
		if (ret != LZMA_STREAM_END && ret != LZMA_OK) return ERR_COMPRESSOR;
		if (ret == LZMA_OK && (strm.total_out < hdrsize || strm.avail_in != 0)) return 0;
		return hdrsize;
	}
	case 4: {
		uint64_t memlimit = 65 * 1024 * 1024;
		size_t dpos = 0, spos = 0;
		lzma_ret r;
		if (outsize >= 0x7FFFFFFF) return ERR_ARG_INVALID;
		r = lzma_stream_buffer_decode(&memlimit, 0, NULL, in, &spos, size, out, &dpos, outsize);
		if (r == LZMA_OK && size == spos) return dpos;
		return ERR_COMPRESSOR;
	}
	case 5: {
		int r;
		if (outsize >= 0x7FFFFFFF) return ERR_ARG_INVALID;
		r = LZ4_decompress_safe((const char *)in, (char *)out, size, outsize);
		return r < 0 ? ERR_COMPRESSOR : r;
	}
	case 6: {
		size_t r;
		if (outsize >= 0x7FFFFFFF) return ERR_ARG_INVALID;
		r = ZSTD_decompress(out, outsize, in, size);
		return ZSTD_isError(r) ? ERR_COMPRESSOR : (long)r;
	}
	default:
		return -6;
	}
}

CAMLprim value c01e2e_uncompress(value vid, value vin, value voutsize)
{
	CAMLparam3(vid, vin, voutsize);
	CAMLlocal2(res, bytes);
	size_t outsize = Long_val(voutsize), n = caml_string_length(vin);
	unsigned char *out = calloc(1, outsize + 1);
	long ret = do_uncompress(Int_val(vid), (const unsigned char *)String_val(vin), n, out, outsize);
	size_t keep = ret > 0 ? (size_t)ret : 0;
	bytes = caml_alloc_string(keep);
	memcpy(Bytes_val(bytes), out, keep);
	free(out);
	res = caml_alloc_tuple(2);
	Store_field(res, 0, Val_long(ret));
	Store_field(res, 1, bytes);
	CAMLreturn(res);
}
