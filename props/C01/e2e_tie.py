"""C01 section 7 stage (coq/ImgE2E): the composed packer model pack_all and the composed reader read_all against the
REAL gensquashfs main().

Harness h_e2e = bin/gensquashfs/src/*.c of the working tree (main, option parsing, fstree_from_file, fstree_post_process,
apply_xattrs with a -A map file, pack_files, sqfs_writer_finish) linked against the working tree's libraries, with a toy
compressor injected through the linker.  For every generated input (pack file + content files + xattr map file):

  (a) EXACT tie: the image the extracted pack_all predicts (same add operations, same contents, the add_kv calls the map
      file yields per path, xxh32 as block checksum, the same toy compressor for data and metadata) equals the file the
      harness wrote, byte for byte.
  (b) search oracle = pack_all_reads_back evaluated on the implementation: the extracted read_all (C05 tree reader and
      fragment table loader, C10 data reader, xattr reader specification) run on the bytes THE C CODE wrote must return the
      input: per path type + permission bits, uid, gid, mtime, symlink target / device number, the hard-link groups, the
      contents of every regular file, the key/value set (last value per key wins).  The expectation is computed here, in
      plain Python, from the generated spec.
  (c) the decidable hypotheses e2e_okb of the theorem are evaluated on every run (theorem instances).
  (d) REAL compressors: a part of the specs is also packed by the gensquashfs BINARY of the working tree with
      gzip / xz / lzma / lz4 / zstd; the extracted read_all (decompression = system codec libraries through e2e_stubs.c)
      must return the input from that image as well (no byte prediction there).
Logic: (b) failing = concrete property violation (replay = the spec); (a) failing alone = tie broken, no failing input."""
import hashlib
import os
import random
import shutil
import subprocess
import tempfile
import time
from concurrent.futures import ThreadPoolExecutor

from vlib import build as B

ENV = dict(os.environ, ASAN_OPTIONS="detect_leaks=0:abort_on_error=0", UBSAN_OPTIONS="print_stacktrace=1")
ENV.pop("SOURCE_DATE_EPOCH", None)
STACK = ["sh", "-c", 'ulimit -s unlimited 2>/dev/null || ulimit -s 4000000 2>/dev/null; exec "$0" "$@"']

S_IF = dict(f=0o100000, d=0o040000, l=0o120000, b=0o060000, c=0o020000, p=0o010000, s=0o140000)


def build_harness(info, here):
    gs = os.path.join(B.REPO, "bin/gensquashfs/src")
    srcs = [os.path.join(here, "h_e2e.c")] + [os.path.join(gs, f) for f in sorted(os.listdir(gs)) if f.endswith(".c")]
    return B.compile_harness(info, srcs, "c01_h_e2e",
                             extra=["-I" + gs, "-Dmain=gensquashfs_main", "-Wl,--wrap=sqfs_compressor_create"])


# --------------------------------------------------------------------------
# generator
# --------------------------------------------------------------------------

NAMES = ["a", "b", "c", "d", "e", "f0", "f1", "lib", "usr", "x.y", "A", "B-", "zz", "data_1", "k"]
KEYS = ["user.a", "user.b", "user.mime_type", "trusted.t", "security.selinux", "user.k" + "x" * 40]


def gen_content(rnd, bs, pool):
    t = rnd.random()
    if pool and t < 0.25:
        return rnd.choice(pool)                              # duplicate of an earlier file: shared blocks / tail
    nblk = rnd.choice([0, 0, 0, 1, 1, 2, 3])
    blocks = []
    for _ in range(nblk):
        k = rnd.random()
        if k < 0.35:
            blocks.append(rnd.randbytes(bs))
        elif k < 0.55:
            blocks.append(bytes(bs))                         # sparse
        elif k < 0.8:
            blocks.append(bytes([rnd.randint(1, 255)]) * bs)  # shrinks under the run-length toy
        else:
            blocks.append((rnd.randbytes(97) + bytes(291)) * (bs // 388 + 1))
            blocks[-1] = blocks[-1][:bs]                     # zero runs: shrinks under zrle
    tail = b""
    k = rnd.random()
    if k < 0.75 or nblk == 0 and k < 0.9:
        n = rnd.choice([1, 2, 5, 17, 200, bs - 1, rnd.randint(1, bs - 1)])
        j = rnd.random()
        tail = rnd.randbytes(n) if j < 0.5 else (bytes([rnd.randint(1, 255)]) * n if j < 0.8 else bytes(n))
        if pool and rnd.random() < 0.2:
            prev = rnd.choice(pool)
            if len(prev) % bs:
                tail = prev[len(prev) - len(prev) % bs:]     # the tail of another file: fragment de-duplication
    d = b"".join(blocks) + tail
    pool.append(d)
    return d


def gen_big(seed, shape):
    """larger shapes: many distinct xattr sets (several id / key-value blocks, out-of-line values), many small files
    (several fragment blocks, fragment de-duplication), a large directory (listing and inode table cross metadata blocks)"""
    rnd = random.Random(seed)
    bs = 4096
    spec = dict(seed=seed, shape=shape, bs=bs, mode=rnd.choice([0, 1, 3]), exportable=rnd.random() < 0.5, notail=False,
                jobs=rnd.choice([1, 4]), duid=0, dgid=0, dmtime=1600000000, dperm=0o755)
    ents, secs = [], []
    if shape == "xattrs":
        n = rnd.choice([130, 130, 520])
        shared = rnd.randbytes(40)
        for i in range(n):
            p = "x/n%04d" % i
            ents.append((p, "p", 0o644, i % 7, 0, 0, None))
            kv = [("user.n", b"%d" % (i if i % 5 else i - 1))]
            if i % 3 == 0:
                kv.append(("trusted.s", shared))
            if i % 11 == 0:
                kv.append(("security.selinux", b"ctx_%d\0" % (i % 4)))
            secs.append((p, kv))
    elif shape == "files":
        pool = []
        for i in range(rnd.choice([60, 150])):
            k = rnd.random()
            d = rnd.choice(pool) if pool and k < 0.2 else rnd.randbytes(rnd.choice([1, 30, 100, 300, 1000]))
            pool.append(d)
            ents.append(("f/%03d" % i, "f", 0o644, 0, 0, 0, d))
        for i in range(0, len(ents), 17):
            ents.append(("h%03d" % i, "h", 0o777, 0, 0, 0, ents[i][0]))
    else:
        for i in range(rnd.choice([260, 600])):
            nm = "dir/e%04d_%s" % (i, "n" * rnd.choice([1, 1, 20, 60]))
            t = rnd.choice("pslc")
            if t == "l":
                ents.append((nm, "l", 0o777, i % 3, 0, 0, "t%d" % i))
            elif t == "c":
                ents.append((nm, "c", 0o600, 0, 0, (i << 8) | (i & 255), None))
            else:
                ents.append((nm, t, 0o644, i % 5, i % 3, 0, None))
    spec["ents"] = ents
    spec["xsecs"] = secs
    return spec


def gen_spec(seed):
    rnd = random.Random(seed)
    bs = rnd.choice([4096, 4096, 4096, 8192])
    spec = dict(seed=seed, bs=bs, mode=rnd.choice([0, 1, 1, 3]), exportable=rnd.random() < 0.5, notail=rnd.random() < 0.2,
                jobs=rnd.choice([1, 1, 4]), duid=rnd.choice([0, 0, 1000]), dgid=rnd.choice([0, 100]),
                dmtime=rnd.choice([0, 77, 1600000000, 4294967295]), dperm=rnd.choice([0o755, 0o700, 0o1777]))
    dirs = [""]
    for _ in range(rnd.randint(1, 4)):
        p = rnd.choice(dirs)
        nm = rnd.choice(NAMES)
        q = (p + "/" + nm) if p else nm
        if q not in dirs:
            dirs.append(q)
    ents = []          # (path, type, perm, uid, gid, rdev, extra)   extra: bytes for f, target for l/h
    used = set(dirs)
    explicit = [d for d in dirs[1:] if rnd.random() < 0.7]
    for d in explicit:
        ents.append((d, "d", rnd.choice([0o755, 0o700, 0o555]), rnd.choice([0, 1000, 65534]), rnd.choice([0, 100]), 0, None))
    pool = []
    files = []

    def fresh(dirp):
        for _ in range(20):
            nm = rnd.choice(NAMES) + rnd.choice(["", "", "1", "_"])
            q = (dirp + "/" + nm) if dirp else nm
            if q not in used:
                used.add(q)
                return q
        return None

    for _ in range(rnd.randint(2, 7)):
        q = fresh(rnd.choice(dirs))
        if q:
            ents.append((q, "f", rnd.choice([0o644, 0o600, 0o755, 0o4755]), rnd.choice([0, 1000, 4294967295]),
                         rnd.choice([0, 100, 65536]), 0, gen_content(rnd, bs, pool)))
            files.append(q)
    others = []
    for _ in range(rnd.randint(1, 4)):
        q = fresh(rnd.choice(dirs))
        if not q:
            continue
        t = rnd.choice("lllbcps")
        if t == "l":
            tgt = rnd.choice(["../x", "a/b/c", "/abs/path", "t" * rnd.choice([1, 60, 300])])
            ents.append((q, "l", 0o777, rnd.choice([0, 5]), rnd.choice([0, 6]), 0, tgt))
        elif t in "bc":
            ents.append((q, t, 0o660, 0, rnd.choice([0, 6]), (rnd.randint(0, 4095) << 8) | rnd.randint(0, 255), None))
        else:
            ents.append((q, t, 0o644, 3, 4, 0, None))
        others.append(q)
    links = []
    for _ in range(rnd.randint(0, 3)):
        cands = files + others + links
        if not cands:
            break
        q = fresh(rnd.choice(dirs))
        if q:
            tgt = rnd.choice(cands)
            ents.append((q, "h", 0o777, 0, 0, 0, tgt))
            links.append(q)
    # order: directories may come after their contents (implicit, made explicit later), links before their target
    if rnd.random() < 0.5:
        rnd.shuffle(ents)
    spec["ents"] = ents
    # xattr map file: sections (path, [(key, value)]) in file order
    secs = []
    shared = rnd.randbytes(rnd.choice([9, 40, 300]))
    sets = []
    targets = [e[0] for e in ents]
    for _ in range(rnd.randint(0, 5)):
        if not targets:
            break
        p = rnd.choice(targets)
        if sets and rnd.random() < 0.3:
            kv = list(rnd.choice(sets))                      # the same set on another node: block de-duplication
            if rnd.random() < 0.5:
                rnd.shuffle(kv)
        else:
            kv = []
            for _ in range(rnd.randint(1, 4)):
                k = rnd.choice(KEYS)
                v = rnd.choice([b"", b"1", b"v" * rnd.randint(1, 12), shared, shared, rnd.randbytes(rnd.randint(1, 30))])
                kv.append((k, v))
            sets.append(kv)
        secs.append((p, kv))
    spec["xsecs"] = secs
    return spec


# --------------------------------------------------------------------------
# what the inputs mean (plain Python)
# --------------------------------------------------------------------------

def applied_xattrs(spec):
    """path -> the add_kv calls apply_dfs makes: filemap_xattr.c prepends sections and entries"""
    out = {}
    for p, kv in reversed(spec["xsecs"]):
        out.setdefault(p, []).extend(reversed(kv))
    return out


def expected(spec):
    """path -> dict(mode, uid, gid, mtime, kind, data md5, xattrs dict, group id)"""
    nodes = {"": dict(t="d", perm=spec["dperm"], uid=spec["duid"], gid=spec["dgid"], explicit=False)}
    links = {}
    for p, t, perm, uid, gid, rdev, extra in spec["ents"]:
        parts = p.split("/")
        for i in range(1, len(parts)):
            q = "/".join(parts[:i])
            if q not in nodes:
                nodes[q] = dict(t="d", perm=spec["dperm"], uid=spec["duid"], gid=spec["dgid"], explicit=False)
        if t == "h":
            links[p] = extra
            continue
        if t == "d" and p in nodes:
            nodes[p].update(perm=perm, uid=uid, gid=gid, explicit=True)
            continue
        nodes[p] = dict(t=t, perm=perm, uid=uid, gid=gid, rdev=rdev, extra=extra, explicit=True)

    def resolve(p, depth=0):
        while p in links and depth < 100:
            p = links[p]
            depth += 1
        return p

    xs = applied_xattrs(spec)
    out = {}
    for p in list(nodes) + list(links):
        r = resolve(p)
        n = nodes[r]
        kind = n["t"]
        if kind == "l":
            kind = "l:" + (n["extra"].encode().hex() or "-")
        elif kind in "bc":
            kind = "%s:%d" % (kind, n["rdev"])
        x = {}
        for k, v in xs.get(r, []):
            x[k] = v
        out[p] = dict(mode=S_IF[n["t"]] | n["perm"], uid=n["uid"], gid=n["gid"], mtime=spec["dmtime"], kind=kind,
                      data=hashlib.md5(n["extra"]).hexdigest() if n["t"] == "f" else None,
                      dlen=len(n["extra"]) if n["t"] == "f" else None, xattrs=x, group=r)
    return out


# --------------------------------------------------------------------------
# running one case
# --------------------------------------------------------------------------

def hx(b):
    if isinstance(b, str):
        b = b.encode()
    return b.hex() if b else "-"


def materialise(spec, d):
    """writes pack file, content files and map file into d; returns (gensquashfs argv tail, driver line)"""
    src = os.path.join(d, "in")
    os.mkdir(src)
    lines = []
    toks = []
    xs = applied_xattrs(spec)
    for i, (p, t, perm, uid, gid, rdev, extra) in enumerate(spec["ents"]):
        x = xs.get(p)
        xtok = ";".join("%s=%s" % (k.encode().hex(), v.hex()) for k, v in x) if x else "-"
        if t == "f":
            fn = "c%03d" % i
            with open(os.path.join(src, fn), "wb") as fh:
                fh.write(extra)
            lines.append("file %s 0%o %d %d %s" % (p, perm, uid, gid, fn))
            ex = "@" + os.path.join(src, fn)
        elif t == "d":
            lines.append("dir %s 0%o %d %d" % (p, perm, uid, gid))
            ex = "-"
        elif t == "l":
            lines.append("slink %s 0%o %d %d %s" % (p, perm, uid, gid, extra))
            ex = hx(extra)
        elif t == "h":
            lines.append("link %s 0%o %d %d %s" % (p, perm, uid, gid, extra))
            ex = hx(extra)
        elif t in "bc":
            lines.append("nod %s 0%o %d %d %s %d %d" % (p, perm, uid, gid, t, rdev >> 8, rdev & 255))
            ex = "-"
        else:
            lines.append("%s %s 0%o %d %d" % ("pipe" if t == "p" else "sock", p, perm, uid, gid))
            ex = "-"
        toks.append("%s %s %o %d %d %d %s %s" % (hx(p), t, perm, uid, gid, rdev, xtok, ex))
    with open(os.path.join(d, "pack.txt"), "w") as fh:
        fh.write("\n".join(lines) + "\n")
    with open(os.path.join(d, "xattr.txt"), "w") as fh:
        for p, kv in spec["xsecs"]:
            fh.write("# file: %s\n" % p)
            for k, v in kv:
                fh.write("%s=0x%s\n" % (k, v.hex()) if v else "%s=\n" % k)
    img = os.path.join(d, "img.sqfs")
    argv = ["-q", "-f", "-F", os.path.join(d, "pack.txt"), "-D", src, "-A", os.path.join(d, "xattr.txt"), "-c", "gzip",
            "-b", str(spec["bs"]), "-j", str(spec["jobs"]),
            "-d", "uid=%d,gid=%d,mtime=%d,mode=0%o" % (spec["duid"], spec["dgid"], spec["dmtime"], spec["dperm"])]
    if spec["exportable"]:
        argv.append("-e")
    if spec["notail"]:
        argv.append("-T")
    argv.append(img)
    line = "E %d %d 4096 %d %d %d %d %d %o %s %d %s" % (spec["mode"], spec["bs"], int(spec["exportable"]), int(spec["notail"]),
                                                      spec["duid"], spec["dgid"], spec["dmtime"], spec["dperm"], img,
                                                      len(toks), " ".join(toks))
    return argv, line, img


def parse_answer(lines):
    out = dict(R=None, H=None, I=None, C=None, A=None, N=[], err=None)
    for l in lines:
        t = l.split(" ")
        if t[0] in ("R", "C", "A"):
            out[t[0]] = t[1:]
        elif t[0] == "H":
            out["H"] = [int(x) for x in t[1:]]
        elif t[0] == "I":
            out["I"] = (int(t[1]), t[2])
        elif t[0] == "N":
            out["N"].append(t[1:])
        elif t[0] == "PARSE":
            out["err"] = l
    return out


def compare_readback(spec, ans):
    """list of differences between what read_all returned for the C image and the input"""
    exp = expected(spec)
    bad = []
    got = {}
    for f in ans["N"]:
        p = "" if f[0] == "-" else bytes.fromhex(f[0]).decode()
        xs = {}
        if f[9] != "-":
            for kv in f[9].split(";"):
                k, _, v = kv.partition("=")
                k = bytes.fromhex(k).decode()
                if k in xs:
                    bad.append("%s: key %s twice" % (p, k))
                xs[k] = bytes.fromhex(v)
        if p in got:
            bad.append("path %r twice" % p)
        got[p] = dict(mode=int(f[1]), uid=f[2], gid=f[3], mtime=int(f[4]), ino=int(f[5]), kind=f[6],
                      dlen=None if f[7] == "-" else int(f[7]), data=None if f[8] == "-" else f[8], xattrs=xs)
    if sorted(got) != sorted(exp):
        bad.append("paths: image %s, input %s" % (sorted(set(got) - set(exp))[:4], sorted(set(exp) - set(got))[:4]))
        return bad
    # directory order: pre-order with the children of every directory sorted by name bytes
    order = [("" if f[0] == "-" else bytes.fromhex(f[0]).decode()) for f in ans["N"]]
    want = sorted(exp, key=lambda p: [c.encode() for c in p.split("/")] if p else [])
    if order != want:
        bad.append("order of the listing: %s, expected %s" % (order[:8], want[:8]))
    for p, e in exp.items():
        g = got[p]
        for k in ("mode", "mtime", "kind", "dlen", "data"):
            if g[k] != e[k]:
                bad.append("%s: %s is %s, input says %s" % (p or "/", k, g[k], e[k]))
        if g["uid"] != str(e["uid"]) or g["gid"] != str(e["gid"]):
            bad.append("%s: owner %s:%s, input says %d:%d" % (p or "/", g["uid"], g["gid"], e["uid"], e["gid"]))
        if g["xattrs"] != e["xattrs"]:
            bad.append("%s: xattrs %s, input says %s" % (p or "/", sorted(g["xattrs"].items())[:3], sorted(e["xattrs"].items())[:3]))
    # hard-link groups: same inode number <-> same resolved node
    for p in exp:
        for q in exp:
            if p < q and (got[p]["ino"] == got[q]["ino"]) != (exp[p]["group"] == exp[q]["group"]):
                bad.append("%s and %s: inode numbers %d / %d, input says %s" %
                           (p, q, got[p]["ino"], got[q]["ino"], "linked" if exp[p]["group"] == exp[q]["group"] else "distinct"))
    return bad


def run_driver(drv, text, timeout=600):
    """stdout of the driver for the given input; one retry when the executable cannot be started or answers nothing
    (another check may be re-linking the cached driver at this moment)"""
    for attempt in (0, 1):
        try:
            pr = subprocess.run(STACK + [drv], input=text.encode(), stdout=subprocess.PIPE, stderr=subprocess.PIPE, timeout=timeout)
        except subprocess.TimeoutExpired:
            return "", "driver timeout"
        except OSError as e:
            pr = None
            err = repr(e)
        if pr is not None and (pr.returncode == 0 or b"END" in pr.stdout):
            return pr.stdout.decode("latin-1"), (pr.stderr.decode("latin-1")[-500:] if pr.returncode != 0 else "")
        if pr is not None:
            err = "rc=%d %s" % (pr.returncode, pr.stderr.decode("latin-1")[-300:])
        if attempt == 0:
            time.sleep(8)
    return "", err


def run_specs(h_e2e, drv, specs, workdir):
    """-> list of dict(spec, rc, stderr, ans)"""
    res = []
    prepared = []
    for sp in specs:
        d = tempfile.mkdtemp(dir=workdir)
        argv, line, img = materialise(sp, d)
        prepared.append((sp, d, argv, line, img))

    def pack(item):
        sp, d, argv, line, img = item
        try:
            r = subprocess.run([h_e2e] + argv, stdout=subprocess.PIPE, stderr=subprocess.PIPE,
                               env=dict(ENV, E2E_TOYMODE=str(sp["mode"])), timeout=120)
            return r.returncode, r.stderr.decode("utf-8", "replace")[-1500:]
        except subprocess.TimeoutExpired:
            return -99, "timeout"

    with ThreadPoolExecutor(max_workers=8) as ex:
        packed = list(ex.map(pack, prepared))

    def drive(chunk):
        text = "".join(l + "\n" for _, _, _, l, _ in chunk)
        out, err = run_driver(drv, text)
        outs, cur = [], []
        for l in out.split("\n"):
            if l == "END":
                outs.append(parse_answer(cur))
                cur = []
            elif l:
                cur.append(l)
        outs += [None] * (len(chunk) - len(outs))
        return outs, err

    nchunk = 4
    chunks = [prepared[i::nchunk] for i in range(nchunk)]
    answers = {}
    with ThreadPoolExecutor(max_workers=nchunk) as ex:
        for chunk, (outs, err) in zip(chunks, ex.map(drive, chunks)):
            for item, a in zip(chunk, outs):
                answers[id(item[0])] = (a, err)
    for item, (rc, stderr) in zip(prepared, packed):
        a, err = answers[id(item[0])]
        res.append(dict(spec=item[0], rc=rc, stderr=stderr, ans=a, drv_err=err))
    return res


COMP_ID = dict(gzip=1, lzma=2, xz=4, lz4=5, zstd=6)


def run_real(gensquashfs, drv, specs, workdir):
    """real binary + real compressor; -> list of dict(spec, comp, rc, stderr, ans)"""
    prepared = []
    for i, sp in enumerate(specs):
        d = tempfile.mkdtemp(dir=workdir)
        argv, _, img = materialise(sp, d)
        comp = ["gzip", "xz", "zstd", "lz4", "lzma"][i % 5]
        argv[argv.index("-c") + 1] = comp
        prepared.append((sp, comp, argv, img))

    def pack(item):
        sp, comp, argv, img = item
        try:
            r = subprocess.run([gensquashfs] + argv, stdout=subprocess.PIPE, stderr=subprocess.PIPE, env=ENV, timeout=120)
            return r.returncode, r.stderr.decode("utf-8", "replace")[-1500:]
        except subprocess.TimeoutExpired:
            return -99, "timeout"

    with ThreadPoolExecutor(max_workers=8) as ex:
        packed = list(ex.map(pack, prepared))
    text = ""
    for (sp, comp, argv, img), (rc, _) in zip(prepared, packed):
        n = len(sp["ents"]) + 8
        text += "Q %s %d %d %d\n" % (img if rc == 0 else "/nonexistent", COMP_ID[comp], n, n)
    out, _ = run_driver(drv, text)
    outs, cur = [], []
    for l in out.split("\n"):
        if l == "END":
            outs.append(parse_answer(cur))
            cur = []
        elif l:
            cur.append(l)
    outs += [None] * (len(prepared) - len(outs))
    return [dict(spec=sp, comp=comp, rc=rc, stderr=err, ans=a, img=img) for (sp, comp, _, img), (rc, err), a in zip(prepared, packed, outs)]


def evaluate_real(ctx, results, st):
    st["real_images"] = 0
    st["real_readback_ok"] = 0
    st["real_comps"] = {}
    for x in results:
        sp, a = x["spec"], x["ans"]
        tag = "seed=%d %s bs=%d%s%s j%d" % (sp["seed"], x["comp"], sp["bs"], " -e" if sp["exportable"] else "",
                                            " -T" if sp["notail"] else "", sp["jobs"])
        if x["rc"] != 0:
            ctx.violation("e2e-pack:refused", "gensquashfs fails on a valid input (%s): rc=%d %s" % (tag, x["rc"], x["stderr"][-300:]),
                          dict(spec_replay(sp), comp=x["comp"]))
            continue
        st["real_images"] += 1
        if a is None or a.get("err") or not a["A"]:
            ctx.violation("tie:e2e-real-driver", "the extracted read_all gave no answer for a real image (%s): %s" % (tag, (a or {}).get("err")),
                          dict(spec_replay(sp), comp=x["comp"]), no_input=True)
            continue
        bad = ["read_all does not read the image: %s" % " ".join(a["A"])] if a["A"][0] != "OK" else compare_readback(sp, a)
        if bad:
            ctx.violation("e2e-readback-real:" + ("unreadable" if "does not read" in bad[0] else "mismatch"),
                          "what the extracted read_all (models of the real readers, system codecs) returns for the image gensquashfs "
                          "wrote differs from the input (%s): %s" % (tag, bad[:4]), dict(spec_replay(sp), comp=x["comp"]))
        else:
            st["real_readback_ok"] += 1
            st["real_comps"][x["comp"]] = st["real_comps"].get(x["comp"], 0) + 1


def spec_replay(sp):
    return dict(kind="e2e", spec=dict(sp, ents=[[p, t, perm, uid, gid, rdev, (ex.hex() if isinstance(ex, bytes) else ex)]
                                                for p, t, perm, uid, gid, rdev, ex in sp["ents"]],
                                      xsecs=[[p, [[k, v.hex()] for k, v in kv]] for p, kv in sp["xsecs"]]))


def driver(core, here):
    return core.build_model_driver("C01e2e", "ExtractC01E2E.v", os.path.join(here, "e2e_driver.ml"),
                                   stubs_c=os.path.join(here, "e2e_stubs.c"), cclibs=["-lz", "-llzma", "-llz4", "-lzstd"])


def replay(ctx, h_e2e, drv, gensquashfs, r):
    sp = spec_from_replay(r)
    work = tempfile.mkdtemp(dir=ctx.scratch)
    try:
        results = run_specs(h_e2e, drv, [sp], work)
        for x in results:
            a = x["ans"] or {}
            ctx.log("replay e2e seed=%s: harness rc=%s; model %s, image %s, read_all %s" % (sp.get("seed"), x["rc"], a.get("R"), a.get("C"), a.get("A")))
        st = evaluate(ctx, results)
        if r.get("comp") and gensquashfs:
            d = tempfile.mkdtemp(dir=work)
            argv, _, img = materialise(sp, d)
            argv[argv.index("-c") + 1] = r["comp"]
            pr = subprocess.run([gensquashfs] + argv, stdout=subprocess.PIPE, stderr=subprocess.PIPE, env=ENV, timeout=120)
            n = len(sp["ents"]) + 8
            out, _ = run_driver(drv, "Q %s %d %d %d\n" % (img, COMP_ID[r["comp"]], n, n))
            ans = parse_answer([l for l in out.split("\n") if l and l != "END"])
            evaluate_real(ctx, [dict(spec=sp, comp=r["comp"], rc=pr.returncode, stderr=pr.stderr.decode("utf-8", "replace")[-500:], ans=ans)], st)
        return st
    finally:
        shutil.rmtree(work, ignore_errors=True)


def spec_from_replay(r):
    sp = dict(r["spec"])
    sp.setdefault("seed", 0)
    sp["ents"] = [(p, t, perm, uid, gid, rdev, (bytes.fromhex(ex) if t == "f" else ex)) for p, t, perm, uid, gid, rdev, ex in sp["ents"]]
    sp["xsecs"] = [(p, [(k, bytes.fromhex(v)) for k, v in kv]) for p, kv in sp["xsecs"]]
    return sp


def evaluate(ctx, results):
    st = dict(cases=0, packed=0, exact=0, readback_ok=0, theorem_instances=0, paths=0, files=0, xattr_nodes=0, links=0,
              refused_both=0, modes={})
    tie_bad, prop_bad = [], []
    for x in results:
        sp, a = x["spec"], x["ans"]
        st["cases"] += 1
        tag = "seed=%d mode=%d bs=%d%s%s j%d" % (sp["seed"], sp["mode"], sp["bs"], " -e" if sp["exportable"] else "",
                                                 " -T" if sp["notail"] else "", sp["jobs"])
        if a is None or a.get("err"):
            tie_bad.append((sp, "driver gave no answer (%s): %s" % (tag, (a or {}).get("err") or x["drv_err"])))
            continue
        if x["rc"] != 0:
            if a["R"] and a["R"][0] != "DONE":
                st["refused_both"] += 1
            else:
                prop_bad.append((sp, "e2e-pack:refused", "gensquashfs (toy compressor) fails on a valid input (%s): rc=%d %s; "
                                 "the model packs it" % (tag, x["rc"], x["stderr"][-300:])))
            continue
        st["packed"] += 1
        st["modes"][str(sp["mode"])] = st["modes"].get(str(sp["mode"]), 0) + 1
        # (b) the property on the implementation
        bad = None
        if not a["A"] or a["A"][0] != "OK":
            bad = ["read_all does not read the image gensquashfs wrote: %s" % " ".join(a["A"] or ["-"])]
        else:
            bad = compare_readback(sp, a)
        if bad:
            prop_bad.append((sp, "e2e-readback:" + ("unreadable" if "does not read" in bad[0] else "mismatch"),
                             "what the extracted read_all (models of the real readers) returns for the image the real gensquashfs "
                             "main() wrote differs from the input (%s): %s" % (tag, bad[:4])))
        else:
            st["readback_ok"] += 1
            exp = expected(sp)
            st["paths"] += len(exp)
            st["files"] += sum(1 for e in exp.values() if e["data"] is not None)
            st["xattr_nodes"] += sum(1 for e in exp.values() if e["xattrs"])
            st["links"] += sum(1 for p, e in exp.items() if e["group"] != p)
        # (a) exact image
        if not a["R"] or a["R"][0] != "DONE":
            tie_bad.append((sp, "the model refuses (%s) an input the real gensquashfs packs (%s)" % (" ".join(a["R"] or ["-"]), tag)))
        elif not a["C"] or a["C"][0] != "same":
            tie_bad.append((sp, "image bytes differ (%s): %s; model image %s" % (tag, " ".join(a["C"] or ["-"]), a["I"])))
        else:
            st["exact"] += 1
            # (the data compressor contract is proved for modes 0 and 1)
            if a["H"] and a["H"][0] == 1 and not bad and sp["mode"] in (0, 1):
                st["theorem_instances"] += 1
    for sp, sig, what in prop_bad[:3]:
        ctx.violation(sig, what, spec_replay(sp))
    if tie_bad:
        concrete = bool(prop_bad)
        sp, what = tie_bad[0]
        ctx.violation("tie:e2e-pack-all", "correspondence pack_all (coq/ImgE2E) = gensquashfs main() with the toy compressor broken in %d "
                      "of %d cases: %s (%s)" % (len(tie_bad), st["cases"], what,
                                                "a concrete read-back failure was found, see other violation" if concrete else
                                                "the read-back of the %d images the C code wrote shows no property failure" % st["readback_ok"]),
                      dict(spec_replay(sp), correspondence="props/C01 e2e stage: extracted pack_all vs h_e2e (real gensquashfs main, toy compressor)"),
                      no_input=True)
    return st


def stage(ctx, h_e2e, drv, rnd, quick, gensquashfs=None, xreal=None):
    """xreal: optional callable (real results, work directory) -> statistics; the section 8 leg (xreal_tie.py) that reads the
    real-compressor images with read_all_real while they still exist"""
    t0 = time.time()
    n = 40 if quick else 600
    specs = [gen_spec(rnd.randrange(1 << 40)) for _ in range(n)]
    shapes = ["xattrs", "files", "dir"]
    specs += [gen_big(rnd.randrange(1 << 40), shapes[i % 3]) for i in range(3 if quick else 18)]
    work = tempfile.mkdtemp(dir=ctx.scratch)
    try:
        results = run_specs(h_e2e, drv, specs, work)
        real = run_real(gensquashfs, drv, specs[:(15 if quick else 150)], work) if gensquashfs else []
        xst = xreal(real, work) if (xreal and gensquashfs) else None
    finally:
        shutil.rmtree(work, ignore_errors=True)
    st = evaluate(ctx, results)
    if gensquashfs:
        evaluate_real(ctx, real, st)
    if xst is not None:
        st["xreal"] = xst
    st["seconds"] = round(time.time() - t0, 1)
    return st
