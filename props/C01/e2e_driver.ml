(* C01 section 7: driver of the extracted composed packer model (ImgE2E.PackAll.pack_all) and composed reader (read_all).

   stdin, one case per line:
     E <mode> <bs> <devblk> <exportable> <notail> <duid> <dgid> <dmtime> <dperm-oct> <image path | -> <n> { ent }*n
     ent = <hexpath> <type f|d|l|b|c|p|s|h> <perm-oct> <uid> <gid> <rdev> <X> <extra>
         X     : "-" or hexkey=hexvalue;...   the sqfs_xattr_writer_add_kv calls apply_dfs makes for that path, in order
         extra : l, h -> hex target;  f -> @<path of a file holding the contents> | hex contents | "-";  others "-"
     mode = toy compressor of props/C01/h_e2e.c (0 store, 1 run-length, 3 zero-run-length); the image path names the file
     the REAL gensquashfs main() wrote for the same input (h_e2e) — compared byte by byte with the model's prediction
     and read by the extracted read_all.
   stdout per case:
     R DONE | INIT | ADD | POST | XATTR | DATA | FINISH           outcome of pack_all
     H <e2e_okb 0|1> <depth> <efuel> <fuel>                       decidable hypotheses / loop bounds of the run (if DONE)
     I <length> <md5>                                             the image pack_all predicts (if DONE)
     C same | differ <first offset> <length of the C image> | -   comparison with the file at <image path>
     A OK <entries> | ERR <code> | CRASH | FUEL                   read_all on the C image (on the model's if no path)
     N <hexpath> <mode> <uid> <gid> <mtime> <ino> <kind> <datalen|-> <datamd5|-> <hexk=hexv;..|->   per entry, in order
     END
   Q <image path> <comp id> <depth> <efuel>
     read_all on a REAL image (any compressor of the build): metadata and data decompressor = the system codec library
     through e2e_stubs.c; answers A / N lines as above, END. *)
open C01e2e_model

external c_uncompress : int -> string -> int -> int * string = "c01e2e_uncompress"

let rec pos_of_int i = if i = 1 then XH else if i land 1 = 1 then XI (pos_of_int (i lsr 1)) else XO (pos_of_int (i lsr 1))
let n_of_int i = if i = 0 then N0 else Npos (pos_of_int i)
let rec int_of_pos = function XH -> 1 | XO p -> 2 * int_of_pos p | XI p -> 2 * int_of_pos p + 1
let int_of_n = function N0 -> 0 | Npos p -> int_of_pos p
let rec pos_bits = function XH -> 1 | XO p | XI p -> 1 + pos_bits p
let n10 = n_of_int 10
let string_of_n n =
  match n with
  | N0 -> "0"
  | Npos p when pos_bits p <= 61 -> string_of_int (int_of_pos p)
  | _ ->
    let rec go n acc = match n with
      | N0 -> acc
      | _ -> let (q, r) = N.div_eucl n n10 in go q (String.make 1 (Char.chr (48 + int_of_n r)) ^ acc) in
    go n ""
let z_of_int i = if i = 0 then Z0 else if i > 0 then Zpos (pos_of_int i) else Zneg (pos_of_int (- i))
let int_of_z = function Z0 -> 0 | Zpos p -> int_of_pos p | Zneg p -> - (int_of_pos p)
let nat_of_int i = let rec go acc k = if k <= 0 then acc else go (S acc) (k - 1) in go O i
let int_of_nat n = let rec go acc = function O -> acc | S m -> go (acc + 1) m in go 0 n

let byte_tbl = Array.init 256 n_of_int
let list_of_string s =
  let l = ref [] in
  for i = String.length s - 1 downto 0 do l := byte_tbl.(Char.code s.[i]) :: !l done;
  !l
let string_of_list l =
  let b = Buffer.create 8192 in
  List.iter (fun c -> Buffer.add_char b (Char.chr (int_of_n c land 255))) l;
  Buffer.contents b
let hexv c = if c <= '9' then Char.code c - 48 else (Char.code c lor 32) - 87
let unhex_s s =
  if s = "-" then "" else String.init (String.length s / 2) (fun i -> Char.chr (hexv s.[2*i] * 16 + hexv s.[2*i+1]))
let hex_s s =
  if s = "" then "-" else begin
    let b = Buffer.create 16 in
    String.iter (fun c -> Buffer.add_string b (Printf.sprintf "%02x" (Char.code c))) s;
    Buffer.contents b
  end
let read_whole path =
  let ic = open_in_bin path in
  let n = in_channel_length ic in
  let s = really_input_string ic n in
  close_in ic;
  s

(* ---- xxHash32, seed 0 (lib/util/src/xxhash.c): the checksum of the block processor ---- *)
let m32 = 0xFFFFFFFF
let p1 = 2654435761 and p2 = 2246822519 and p3 = 3266489917 and p4 = 668265263 and p5 = 374761393
let rotl x r = ((x lsl r) lor (x lsr (32 - r))) land m32
let mul a b = ((a land m32) * (b land 0xFFFF) + ((((a land m32) * (b lsr 16)) land 0xFFFF) lsl 16)) land m32
let rd32 s i = Char.code s.[i] lor (Char.code s.[i+1] lsl 8) lor (Char.code s.[i+2] lsl 16) lor (Char.code s.[i+3] lsl 24)
let xxh32 (s : string) : int =
  let n = String.length s in
  let i = ref 0 in
  let h = ref 0 in
  if n >= 16 then begin
    let v = [| (p1 + p2) land m32; p2; 0; (- p1) land m32 |] in
    while !i <= n - 16 do
      for k = 0 to 3 do
        let w = rd32 s !i in
        v.(k) <- mul (rotl ((v.(k) + mul w p2) land m32) 13) p1;
        i := !i + 4
      done
    done;
    h := (rotl v.(0) 1 + rotl v.(1) 7 + rotl v.(2) 12 + rotl v.(3) 18) land m32
  end else h := p5;
  h := (!h + n) land m32;
  while !i <= n - 4 do
    let w = rd32 s !i in
    h := mul (rotl ((!h + mul w p3) land m32) 17) p4;
    i := !i + 4
  done;
  while !i < n do
    h := mul (rotl ((!h + mul (Char.code s.[!i]) p5) land m32) 11) p1;
    incr i
  done;
  h := !h lxor (!h lsr 15);
  h := mul !h p2;
  h := !h lxor (!h lsr 13);
  h := mul !h p3;
  h := !h lxor (!h lsr 16);
  !h
let hashf (l : n list) : n = n_of_int (xxh32 (string_of_list l))

(* ---- parsing ---- *)
let toks = ref [||]
let pos = ref 0
let next () = let t = !toks.(!pos) in incr pos; t
let num () = int_of_string (next ())
let onum () = int_of_string ("0o" ^ next ())

let split_path (s : string) : n list list =
  if s = "" then [] else List.map list_of_string (String.split_on_char '/' s)
let join_path (p : n list list) : string = String.concat "/" (List.map string_of_list p)

let parse_x (s : string) : (n list * n list) list =
  if s = "-" then [] else
    List.map (fun kv ->
        match String.index_opt kv '=' with
        | Some i -> (list_of_string (unhex_s (String.sub kv 0 i)),
                     list_of_string (unhex_s (String.sub kv (i + 1) (String.length kv - i - 1))))
        | None -> (list_of_string (unhex_s kv), []))
      (String.split_on_char ';' s)

let ftype_of = function
  | "f" -> FReg | "d" -> FDir | "l" | "h" -> FLnk | "b" -> FBlk | "c" -> FChr | "p" -> FFifo | _ -> FSock

let kind_s (k : lkind) =
  match k with
  | LDir _ -> "d"
  | LFile _ -> "f"
  | LSlink t -> "l:" ^ hex_s (string_of_list t)
  | LDev (c, d) -> (if c then "c:" else "b:") ^ string_of_n d
  | LIpc s -> if s then "s" else "p"

let optn = function Some x -> string_of_n x | None -> "?"

let print_entries l =
  Printf.printf "A OK %d\n" (List.length l);
  List.iter (fun e ->
      let v = e.re_view in
      let (dl, dm) = match e.re_data with
        | Some d -> let s = string_of_list d in (string_of_int (String.length s), Digest.to_hex (Digest.string s))
        | None -> ("-", "-") in
      let xs = match e.re_xattrs with
        | [] -> "-"
        | l -> String.concat ";" (List.map (fun (k, v) ->
            (let h = hex_s (string_of_list k) in if h = "-" then "" else h) ^ "=" ^
            (let h = hex_s (string_of_list v) in if h = "-" then "" else h)) l) in
      Printf.printf "N %s %s %s %s %s %s %s %s %s %s\n" (hex_s (join_path e.re_path)) (string_of_n v.pv_mode)
        (optn v.pv_uid) (optn v.pv_gid) (string_of_n v.pv_mtime) (string_of_n e.re_ino) (kind_s v.pv_kind) dl dm xs) l

let print_read = function
  | RAOk l -> print_entries l
  | RAErr e -> Printf.printf "A ERR %d\n" (int_of_z e)
  | RACrash -> print_string "A CRASH\n"
  | RAFuel -> print_string "A FUEL\n"

(* ---- Q: a real image, system codecs ---- *)
let memo : (string, n list option) Hashtbl.t = Hashtbl.create 1024
let real_meta id (c : n list) : n list option =
  let s = string_of_list c in
  match Hashtbl.find_opt memo s with
  | Some r -> r
  | None ->
    let (ret, out) = c_uncompress id s 8192 in
    let r = if ret > 0 then Some (list_of_string out) else None in
    Hashtbl.replace memo s r;
    r
let real_data id (c : n list) (cap : nat) : n list option =
  let (ret, out) = c_uncompress id (string_of_list c) (int_of_nat cap) in
  if ret > 0 then Some (list_of_string out) else None

let do_real () =
  Hashtbl.reset memo;
  let path = next () in
  let id = num () in
  let depth = num () in
  let efuel = num () in
  let s = read_whole path in
  print_read (read_all_out (real_meta id) (real_data id) (list_of_string s) (nat_of_int depth) (nat_of_int efuel)
                (nat_of_int (max 64 (String.length s))));
  print_string "END\n"

let do_case () =
  let mode = num () in
  let bs = num () in
  let devblk = num () in
  let exportable = num () <> 0 in
  let notail = num () <> 0 in
  let duid = num () in let dgid = num () in let dmtime = num () in let dperm = onum () in
  let cimg = next () in
  let n = num () in
  let contents : (string, string) Hashtbl.t = Hashtbl.create 64 in
  let xattrs : (string, (n list * n list) list) Hashtbl.t = Hashtbl.create 64 in
  let ops = ref [] in
  for _ = 1 to n do
    let path = unhex_s (next ()) in
    let ty = next () in
    let perm = onum () in let uid = num () in let gid = num () in let rdev = num () in
    let xs = next () in let ex = next () in
    let extra =
      match ty with
      | "l" | "h" -> Some (list_of_string (unhex_s ex))
      | "f" ->
        let data = if ex = "-" then "" else if ex.[0] = '@' then read_whole (String.sub ex 1 (String.length ex - 1)) else unhex_s ex in
        Hashtbl.replace contents path data;
        None
      | _ -> None in
    if xs <> "-" then Hashtbl.replace xattrs path (parse_x xs);
    let ent = { e_path = split_path path; e_type = ftype_of ty; e_perm = n_of_int perm; e_uid = n_of_int uid;
                e_gid = n_of_int gid; e_mtime = z_of_int dmtime; e_rdev = n_of_int rdev; e_hard = (ty = "h") } in
    ops := (ent, extra) :: !ops
  done;
  let cont_memo : (string, uflags * n list) Hashtbl.t = Hashtbl.create 64 in
  let pi_contents (p : n list list) =
    let key = join_path p in
    match Hashtbl.find_opt cont_memo key with
    | Some r -> r
    | None ->
      let d = match Hashtbl.find_opt contents key with Some d -> d | None -> "" in
      (* mkfs.c pack_file: if (opt->no_tail_packing && filesize > block_size) flags |= SQFS_BLK_DONT_FRAGMENT *)
      let fl = { uf_dont_compress = false; uf_dont_hash = false; uf_dont_fragment = notail && String.length d > bs;
                 uf_dont_dedup = false; uf_ignore_sparse = false } in
      let r = (fl, list_of_string d) in
      Hashtbl.replace cont_memo key r; r in
  let pi_xattrs (p : n list list) = match Hashtbl.find_opt xattrs (join_path p) with Some l -> l | None -> [] in
  let pi = { pi_defaults = { fd_uid = n_of_int duid; fd_gid = n_of_int dgid; fd_mtime = n_of_int dmtime; fd_perm = n_of_int dperm };
             pi_ops = List.rev !ops; pi_contents = pi_contents; pi_xattrs = pi_xattrs; pi_opts = []; pi_sched = [] } in
  let cfg = { c_block_size = n_of_int bs; c_mtime = n_of_int dmtime; c_comp_id = n_of_int 1; c_devblk = n_of_int devblk;
              c_exportable = exportable; c_no_xattr = false } in
  let m = n_of_int mode in
  let mun = e2e_meta_uncompress m in
  let dun = e2e_data_uncompress m in
  let res = pack_all_out hashf (e2e_data_compress m) dun half_scratch (e2e_meta_compress m) c_id_table_limit cfg pi in
  let cbytes = if cimg = "-" then None else (try Some (read_whole cimg) with _ -> None) in
  let model_img, fuels =
    match res with
    | PADone r ->
      let img = image_bytes r.r_w in
      let s = string_of_list img in
      Printf.printf "R DONE\nH %d %d %d %d\nI %d %s\n" (if e2e_okb half_scratch cfg pi r then 1 else 0)
        (int_of_nat (e2e_depth r)) (int_of_nat (e2e_efuel r)) (int_of_nat (e2e_fuel r))
        (String.length s) (Digest.to_hex (Digest.string s));
      (Some (img, s), Some (e2e_depth r, e2e_efuel r, e2e_fuel r))
    | PAInit -> print_string "R INIT\n"; (None, None)
    | PAAdd -> print_string "R ADD\n"; (None, None)
    | PAPost -> print_string "R POST\n"; (None, None)
    | PAXattr -> print_string "R XATTR\n"; (None, None)
    | PAData -> print_string "R DATA\n"; (None, None)
    | PAFinish -> print_string "R FINISH\n"; (None, None) in
  (match cbytes, model_img with
   | Some c, Some (_, s) ->
     if c = s then print_string "C same\n"
     else begin
       let k = ref 0 in
       let lim = min (String.length c) (String.length s) in
       while !k < lim && c.[!k] = s.[!k] do incr k done;
       Printf.printf "C differ %d %d\n" !k (String.length c)
     end
   | _, _ -> print_string "C -\n");
  let rd_img =
    match cbytes, model_img with
    | Some c, _ -> Some (list_of_string c, String.length c)
    | None, Some (l, s) -> Some (l, String.length s)
    | None, None -> None in
  (match rd_img with
   | None -> print_string "A -\n"
   | Some (img, len) ->
     let (depth, efuel, fuel) =
       match fuels with
       | Some f -> f
       | None -> (nat_of_int (n + 2), nat_of_int (n + 2), nat_of_int (max 64 len)) in
     print_read (read_all_out mun dun img depth efuel fuel));
  print_string "END\n"

let () =
  try
    while true do
      let line = input_line stdin in
      if String.length line > 0 then begin
        toks := Array.of_list (List.filter (fun s -> s <> "") (String.split_on_char ' ' line));
        pos := 0;
        (match next () with
         | "E" -> (try do_case () with e -> Printf.printf "PARSE %s\nEND\n" (Printexc.to_string e))
         | "Q" -> (try do_real () with e -> Printf.printf "PARSE %s\nEND\n" (Printexc.to_string e))
         | t -> Printf.printf "PARSE unknown command %s\nEND\n" t);
        flush stdout
      end
    done
  with End_of_file -> ()
