/* C14 descriptor harness (strengthening after seeded/C14-8): the working tree's sqfs_file_open / stdio_write_at /
 * stdio_truncate / stdio_get_size / destroy (lib/sqfs/src/io/file.c, io/unix.c) driven with a sequence of calls; after
 * EVERY call it reports what get_size() says (the logical length every writer appends at) and what stat(2) says about
 * the path (the length of the file a kill at this point leaves behind), and at the end the file itself.
 *
 * argv[1] = scratch file.  stdin, one case per line:  ops separated by blanks
 *     w<off>:<len>:<seed>   write_at(off, len bytes b[i] = (seed + 7 * i) & 255)
 *     t<n>                  truncate(n)
 * stdout per case:  "C <rc>,<get_size>,<st_size> ... | <st_size before drop> <st_size after drop> <fnv1a-64 of the file>"
 */
#include "config.h"
#include "sqfs/io.h"
#include "sqfs/error.h"

#include <stdio.h>
#include <stdlib.h>
#include <string.h>
#include <sys/stat.h>
#include <unistd.h>

static char line[1 << 16];
static unsigned char buf[1 << 16];

static long long st_size_of(const char *p)
{
	struct stat st;

	if (stat(p, &st) != 0)
		return -1;
	return (long long)st.st_size;
}

int main(int argc, char **argv)
{
	const char *path = argc > 1 ? argv[1] : "/var/tmp/c14_h_file.tmp";

	while (fgets(line, sizeof(line), stdin)) {
		sqfs_file_t *file = NULL;
		unsigned long long h = 1469598103934665603ULL;
		long long before, after;
		char *tok, *save = NULL;
		FILE *fp;
		int ret, c;

		unlink(path);
		ret = sqfs_file_open(&file, path, SQFS_FILE_OPEN_OVERWRITE);
		if (ret != 0 || file == NULL) {
			printf("C open-failed %d\n", ret);
			continue;
		}
		fputs("C", stdout);
		for (tok = strtok_r(line, " \r\n", &save); tok != NULL; tok = strtok_r(NULL, " \r\n", &save)) {
			unsigned long long a = 0, b = 0, s = 0;
			size_t i;

			if (tok[0] == 'w' && sscanf(tok + 1, "%llu:%llu:%llu", &a, &b, &s) == 3 && b <= sizeof(buf)) {
				for (i = 0; i < b; ++i)
					buf[i] = (unsigned char)((s + 7 * i) & 255);
				ret = file->write_at(file, a, buf, (size_t)b);
			} else if (tok[0] == 't' && sscanf(tok + 1, "%llu", &a) == 1) {
				ret = file->truncate(file, a);
			} else {
				ret = -999;
			}
			printf(" %d,%llu,%lld", ret, (unsigned long long)file->get_size(file), st_size_of(path));
		}
		before = st_size_of(path);
		sqfs_drop(file);
		after = st_size_of(path);
		fp = fopen(path, "rb");
		if (fp != NULL) {
			while ((c = fgetc(fp)) != EOF) {
				h ^= (unsigned long long)(unsigned char)c;
				h *= 1099511628211ULL;
			}
			fclose(fp);
		}
		printf(" | %lld %lld %016llx\n", before, after, h);
	}
	unlink(path);
	return 0;
}
